#!/bin/sh
# dev helper: build given theories-relative .v files
cd /verif && python3 -c "
import sys; sys.path.insert(0,'lib')
import vlib
try:
    print(vlib.coq_make(sys.argv[1:])[-300:])
except vlib.Broken as e: print(e.what); print(e.detail)
" "$@"
