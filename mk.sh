#!/bin/sh
# dev helper: build given theories-relative .v files, show rc and first error
cd /verif && python3 -c "
import sys; sys.path.insert(0,'lib')
import vlib, re
try:
    vlib.coq_make(sys.argv[1:]); print('BUILD OK')
except vlib.Broken as e:
    d=e.detail; i=d.find('File \"')
    print('BUILD FAILED'); print(d[i:i+1500] if i>=0 else d[-1500:])
" "$@" 2>/dev/null
