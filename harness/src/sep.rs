use serde_json::{Value, json};
use std::path::{Path, PathBuf};

use compiler::pipeline::separate::{PackageInputs, build_package, check_package, link_cores, read_core};

fn err_msg(e: &compiler::pipeline::pipeline::CompilationError) -> String {
    e.diagnostics().iter().map(|d| d.message().to_string()).collect::<Vec<_>>().join(" | ")
}

/// input {"dir": scratch dir (created, emptied), "ops": [...]}; output {"results":[...], "cores": {...}}
/// ops: {"op":"write","path":rel,"text":..} {"op":"check"|"build","pkg":P,"inputs":[rel..]}
///      {"op":"link","pkgs":[P..]} {"op":"patch","file":rel,"pointer":"/a/b","value":json}
pub fn sep_case(v: &Value) -> Value {
    let dir = PathBuf::from(v["dir"].as_str().unwrap());
    let _ = std::fs::remove_dir_all(&dir);
    std::fs::create_dir_all(dir.join("out")).unwrap();
    let mut results = Vec::new();
    for op in v["ops"].as_array().unwrap() {
        let kind = op["op"].as_str().unwrap().to_string();
        let dir2 = dir.clone();
        let op2 = op.clone();
        let r = std::panic::catch_unwind(move || run_op(&dir2, &kind, &op2));
        results.push(match r {
            Ok(v) => v,
            Err(e) => json!({"panic": crate::compile::panic_msg(e)}),
        });
    }
    // final artifact summary
    let mut cores = serde_json::Map::new();
    if let Ok(rd) = std::fs::read_dir(dir.join("out")) {
        for ent in rd.flatten() {
            let p = ent.path();
            if p.extension().is_some_and(|e| e == "core") {
                if let Ok(text) = std::fs::read_to_string(&p) {
                    if let Ok(j) = serde_json::from_str::<Value>(&text) {
                        cores.insert(
                            p.file_stem().unwrap().to_string_lossy().to_string(),
                            json!({"deps": j["deps"], "iface_hash": j["interface"]["interface_hash"], "iface_deps": j["interface"]["deps"]}),
                        );
                    }
                }
            }
        }
    }
    let _ = std::fs::remove_dir_all(&dir);
    json!({"results": results, "cores": cores})
}

fn run_op(dir: &Path, kind: &str, op: &Value) -> Value {
    match kind {
        "write" => {
            let p = dir.join(op["path"].as_str().unwrap());
            std::fs::create_dir_all(p.parent().unwrap()).unwrap();
            std::fs::write(&p, op["text"].as_str().unwrap()).unwrap();
            json!({"ok": true})
        }
        "check" | "build" => {
            let pkg = op["pkg"].as_str().unwrap().to_string();
            let inputs: Vec<PathBuf> = op["inputs"].as_array().unwrap().iter().map(|x| dir.join(x.as_str().unwrap())).collect();
            let opts = PackageInputs { package: pkg.clone(), input_files: inputs, interface_paths: vec![dir.join("out")] };
            if kind == "check" {
                match check_package(opts) {
                    Ok(unit) => {
                        let h = unit.interface_hash.clone();
                        std::fs::write(dir.join("out").join(format!("{pkg}.interface")), serde_json::to_string_pretty(&unit).unwrap()).unwrap();
                        json!({"ok": true, "hash": h})
                    }
                    Err(e) => json!({"ok": false, "err": err_msg(&e)}),
                }
            } else {
                match build_package(opts) {
                    Ok(unit) => {
                        let h = unit.interface.interface_hash.clone();
                        std::fs::write(dir.join("out").join(format!("{pkg}.interface")), serde_json::to_string_pretty(&unit.interface).unwrap()).unwrap();
                        std::fs::write(dir.join("out").join(format!("{pkg}.core")), serde_json::to_string_pretty(&unit).unwrap()).unwrap();
                        json!({"ok": true, "hash": h})
                    }
                    Err(e) => json!({"ok": false, "err": err_msg(&e)}),
                }
            }
        }
        "link" => {
            let mut units = Vec::new();
            for p in op["pkgs"].as_array().unwrap() {
                let path = dir.join("out").join(format!("{}.core", p.as_str().unwrap()));
                match read_core(&path) {
                    Ok(u) => units.push(u),
                    Err(e) => return json!({"ok": false, "err": err_msg(&e), "at": "read_core"}),
                }
            }
            match link_cores(units) {
                Ok(out) => {
                    let go = out.go.to_pretty(&out.goenv, 120);
                    json!({"ok": true, "go": go, "go_dbg": format!("{:?}", out.go)})
                }
                Err(e) => json!({"ok": false, "err": err_msg(&e), "at": "link"}),
            }
        }
        "read" => {
            let p = dir.join(op["path"].as_str().unwrap());
            match std::fs::read_to_string(&p) {
                Ok(t) => json!({"ok": true, "text": t}),
                Err(e) => json!({"ok": false, "err": e.to_string()}),
            }
        }
        "reversion" => {
            // rewrite an artifact as a compiler with other version constants would have written it: versions changed in
            // the unit (and, for a core, in its embedded interface) and the interface hash recomputed over them
            let p = dir.join(op["file"].as_str().unwrap());
            let text = match std::fs::read_to_string(&p) {
                Ok(t) => t,
                Err(e) => return json!({"ok": false, "err": e.to_string()}),
            };
            let fv = op["format_version"].as_u64().unwrap() as u32;
            let abi = op["compiler_abi"].as_u64().unwrap() as u32;
            if p.extension().is_some_and(|e| e == "core") {
                let mut u: compiler::artifact::CoreUnit = match serde_json::from_str(&text) {
                    Ok(u) => u,
                    Err(e) => return json!({"ok": false, "err": e.to_string()}),
                };
                u.format_version = fv;
                u.compiler_abi = abi;
                u.interface.format_version = fv;
                u.interface.compiler_abi = abi;
                u.interface.interface_hash = u.interface.compute_hash();
                std::fs::write(&p, serde_json::to_string_pretty(&u).unwrap()).unwrap();
                json!({"ok": true, "hash": u.interface.interface_hash})
            } else {
                let mut u: compiler::artifact::InterfaceUnit = match serde_json::from_str(&text) {
                    Ok(u) => u,
                    Err(e) => return json!({"ok": false, "err": e.to_string()}),
                };
                u.format_version = fv;
                u.compiler_abi = abi;
                u.interface_hash = u.compute_hash();
                std::fs::write(&p, serde_json::to_string_pretty(&u).unwrap()).unwrap();
                json!({"ok": true, "hash": u.interface_hash})
            }
        }
        "repin" => {
            // overwrite the hash a core pins for one dependency with the hash that dependency's core exports NOW:
            // in the top-level deps ("top"), in the embedded interface's deps ("interface"), or in both
            let p = dir.join(op["file"].as_str().unwrap());
            let from = dir.join(op["from"].as_str().unwrap());
            let dep = op["dep"].as_str().unwrap().to_string();
            let wh = op["where"].as_str().unwrap();
            let rd = |p: &std::path::Path| -> Result<compiler::artifact::CoreUnit, String> {
                let t = std::fs::read_to_string(p).map_err(|e| e.to_string())?;
                serde_json::from_str(&t).map_err(|e| e.to_string())
            };
            let (mut u, d) = match (rd(&p), rd(&from)) {
                (Ok(u), Ok(d)) => (u, d),
                (Err(e), _) | (_, Err(e)) => return json!({"ok": false, "err": e}),
            };
            let h = d.interface.interface_hash.clone();
            let old = u.deps.get(&dep).cloned();
            if wh == "top" || wh == "both" {
                u.deps.insert(dep.clone(), h.clone());
            }
            if wh == "interface" || wh == "both" {
                u.interface.deps.insert(dep.clone(), h.clone());
            }
            std::fs::write(&p, serde_json::to_string_pretty(&u).unwrap()).unwrap();
            json!({"ok": true, "changed": old.as_deref() != Some(h.as_str())})
        }
        "patch" => {
            let p = dir.join(op["file"].as_str().unwrap());
            let text = match std::fs::read_to_string(&p) {
                Ok(t) => t,
                Err(e) => return json!({"ok": false, "err": e.to_string()}),
            };
            let mut j: Value = serde_json::from_str(&text).unwrap();
            match j.pointer_mut(op["pointer"].as_str().unwrap()) {
                Some(slot) => {
                    *slot = op["value"].clone();
                    std::fs::write(&p, serde_json::to_string_pretty(&j).unwrap()).unwrap();
                    json!({"ok": true})
                }
                None => json!({"ok": false, "err": "no such field"}),
            }
        }
        _ => json!({"ok": false, "err": "unknown op"}),
    }
}
