use serde_json::{Value, json};
use std::path::Path;

/// input {"text": s}; output {"tokens":[[kind,start,end]], "events":[..], "leaves":[[kind,text]], "tree_text":..,
/// "node_ranges_ok":bool, "diags":[[start,end]|null], "panic":..}
pub fn lexparse_case(v: &Value) -> Value {
    let text = v["text"].as_str().unwrap().to_string();
    let t2 = text.clone();
    let r = std::panic::catch_unwind(move || {
        let toks = lexer::lex(&t2);
        let tokens: Vec<Value> = toks
            .iter()
            .map(|t| json!([format!("{:?}", t.kind), u32::from(t.range.start()), u32::from(t.range.end()), t.kind.is_trivia()]))
            .collect();
        let mut p = parser::parser::Parser::new(Path::new("main.gom"), toks);
        parser::file::file(&mut p);
        let events: Vec<Value> = p
            .events
            .iter()
            .map(|e| match e {
                parser::event::Event::Open { kind, forward_parent } => json!(["O", format!("{:?}", kind), forward_parent]),
                parser::event::Event::Close => json!(["C"]),
                parser::event::Event::Advance => json!(["A"]),
                parser::event::Event::Error(m) => json!(["E", m]),
            })
            .collect();
        let res = p.build_tree();
        let root = parser::syntax::MySyntaxNode::new_root(res.green_node.clone());
        let mut leaves = Vec::new();
        let mut ranges_ok = true;
        let len = t2.len() as u32;
        for el in root.descendants_with_tokens() {
            let r = el.text_range();
            if u32::from(r.end()) > len || u32::from(r.start()) > u32::from(r.end()) {
                ranges_ok = false;
            }
            if let Some(tok) = el.as_token() {
                leaves.push(json!([format!("{:?}", tok.kind()), tok.text()]));
            }
        }
        let diags: Vec<Value> = res
            .diagnostics
            .iter()
            .map(|d| match d.range() {
                Some(r) => json!([u32::from(r.start()), u32::from(r.end())]),
                None => Value::Null,
            })
            .collect();
        json!({"tokens": tokens, "events": events, "leaves": leaves, "tree_text": root.text().to_string(),
               "node_ranges_ok": ranges_ok, "diags": diags, "debug": parser::debug_tree(&res.green_node)})
    });
    match r {
        Ok(v) => v,
        Err(e) => json!({"panic": crate::compile::panic_msg(e)}),
    }
}

/// input {"text": source}; output {"ok":bool, "ast_dbg": Debug of ast::File, "diags":[messages], "panic":..}
pub fn parse_ast_case(v: &Value) -> Value {
    let text = v["text"].as_str().unwrap_or("").to_string();
    let r = std::panic::catch_unwind(move || {
        match compiler::pipeline::pipeline::parse_ast_file(std::path::Path::new("main.gom"), &text) {
            Ok(ast) => json!({"ok": true, "ast_dbg": format!("{:?}", ast)}),
            Err(e) => {
                let ds: Vec<String> = e.diagnostics().iter().map(|d| d.message().to_string()).collect();
                json!({"ok": false, "diags": ds})
            }
        }
    });
    match r {
        Ok(v) => v,
        Err(e) => {
            let msg = if let Some(s) = e.downcast_ref::<String>() { s.clone() } else if let Some(s) = e.downcast_ref::<&str>() { s.to_string() } else { "panic".to_string() };
            json!({"ok": false, "panic": msg})
        }
    }
}
