use serde_json::{Value, json};
use std::path::Path;

pub fn diag_json(d: &diagnostics::Diagnostics) -> Value {
    Value::Array(
        d.iter()
            .map(|x| {
                json!({
                    "stage": x.stage().as_str(),
                    "severity": format!("{:?}", x.severity()),
                    "message": x.message(),
                    "range": x.range().map(|r| vec![u32::from(r.start()), u32::from(r.end())]),
                })
            })
            .collect(),
    )
}

fn err_kind(e: &compiler::pipeline::pipeline::CompilationError) -> &'static str {
    use compiler::pipeline::pipeline::CompilationError::*;
    match e {
        Parser { .. } => "parser",
        Lower { .. } => "lower",
        Typer { .. } => "typer",
        Compile { .. } => "compile",
    }
}

pub fn panic_msg(e: Box<dyn std::any::Any + Send>) -> String {
    if let Some(s) = e.downcast_ref::<&str>() {
        s.to_string()
    } else if let Some(s) = e.downcast_ref::<String>() {
        s.clone()
    } else {
        "<non-string panic>".to_string()
    }
}

/// input {"path": abs path of entry file, "dumps": [stage names]}; the source is read from path.
/// output {"ok":bool, "go":text, "dumps":{..}, "diagnostics":[..], "error_kind":.., "panic":..}
pub fn compile_case(v: &Value) -> Value {
    let path = v["path"].as_str().unwrap().to_string();
    let dumps: Vec<String> = v["dumps"]
        .as_array()
        .map(|a| a.iter().map(|x| x.as_str().unwrap().to_string()).collect())
        .unwrap_or_default();
    let src = match std::fs::read_to_string(&path) {
        Ok(s) => s,
        Err(e) => return json!({"ok": false, "io_error": e.to_string()}),
    };
    let src_len = src.len();
    let r = std::panic::catch_unwind(move || {
        match compiler::pipeline::pipeline::compile(Path::new(&path), &src) {
            Ok(c) => {
                let mut d = serde_json::Map::new();
                for s in dumps.iter() {
                    let text = match s.as_str() {
                        "core_json" => serde_json::to_string(&c.core).unwrap(),
                        "go_dbg" => format!("{:?}", c.go),
                        "effects" => crate::effects::trace(&c.go),
                        "structs_json" => {
                            let mut m = serde_json::Map::new();
                            for (name, def) in c.genv.structs().iter() {
                                m.insert(
                                    name.0.clone(),
                                    Value::Array(def.fields.iter().map(|(f, _)| Value::String(f.0.clone())).collect()),
                                );
                            }
                            Value::Object(m).to_string()
                        }
                        "anf_dbg" => format!("{:?}", c.anf),
                        "lift_dbg" => format!("{:?}", c.lambda),
                        "mono_dbg" => format!("{:?}", c.mono),
                        "core_dbg" => format!("{:?}", c.core),
                        "tast_dbg" => format!("{:?}", c.tast),
                        "builtin_names" => serde_json::to_string(&compiler::builtins::builtin_function_names()).unwrap(),
                        "cst" => parser::debug_tree(&c.green_node),
                        "ast" => c.ast.to_pretty(120),
                        "hir" => {
                            let ctx = compiler::pprint::hir_pprint::HirPrintCtx::new(&c.hir_table);
                            c.hir.to_pretty(&ctx, 120)
                        }
                        "tast" => c.tast.to_pretty(&c.genv, 120),
                        "core" => c.core.to_pretty(&c.genv, 120),
                        "mono" => c.mono.to_pretty(&c.monoenv, 120),
                        "lift" => c.lambda.to_pretty(&c.liftenv, 120),
                        "anf" => c.anf.to_pretty(&c.anfenv, 120),
                        "go" => c.go.to_pretty(&c.goenv, 120),
                        _ => String::new(),
                    };
                    d.insert(s.clone(), Value::String(text));
                }
                let go = c.go.to_pretty(&c.goenv, 120);
                json!({"ok": true, "go": go, "dumps": d, "src_len": src_len})
            }
            Err(e) => json!({
                "ok": false,
                "error_kind": err_kind(&e),
                "diagnostics": diag_json(e.diagnostics()),
                "src_len": src_len,
            }),
        }
    });
    match r {
        Ok(v) => v,
        Err(e) => json!({"ok": false, "panic": panic_msg(e), "src_len": src_len}),
    }
}
