//! The effect classification dead-code elimination relies on, taken from the real functions through the
//! `goml_verif` hook of crates/compiler/src/go/dce.rs: one character per expression and statement of every
//! function body, in pre-order ('1' = has side effects).
use compiler::go::dce::{verif_expr_has_side_effects, verif_stmt_has_side_effects};
use compiler::go::goast::{Block, Expr, File, Item, Stmt};

fn bit(b: bool, out: &mut String) {
    out.push(if b { '1' } else { '0' });
}

fn expr(e: &Expr, out: &mut String) {
    bit(verif_expr_has_side_effects(e), out);
    match e {
        Expr::Call { func, args, .. } => {
            expr(func, out);
            for a in args {
                expr(a, out);
            }
        }
        Expr::UnaryOp { expr: x, .. } => expr(x, out),
        Expr::BinaryOp { lhs, rhs, .. } => {
            expr(lhs, out);
            expr(rhs, out);
        }
        Expr::FieldAccess { obj, .. } => expr(obj, out),
        Expr::Index { array, index, .. } => {
            expr(array, out);
            expr(index, out);
        }
        Expr::Cast { expr: x, .. } => expr(x, out),
        Expr::StructLiteral { fields, .. } => {
            for (_, x) in fields {
                expr(x, out);
            }
        }
        Expr::ArrayLiteral { elems, .. } => {
            for x in elems {
                expr(x, out);
            }
        }
        Expr::Block { stmts, expr: x, .. } => {
            for s in stmts {
                stmt(s, out);
            }
            if let Some(x) = x {
                expr(x, out);
            }
        }
        Expr::Nil { .. }
        | Expr::Void { .. }
        | Expr::Unit { .. }
        | Expr::Var { .. }
        | Expr::Bool { .. }
        | Expr::Int { .. }
        | Expr::Float { .. }
        | Expr::String { .. } => {}
    }
}

fn block(b: &Block, out: &mut String) {
    for s in &b.stmts {
        stmt(s, out);
    }
}

fn stmt(s: &Stmt, out: &mut String) {
    bit(verif_stmt_has_side_effects(s), out);
    match s {
        Stmt::Expr(e) => expr(e, out),
        Stmt::Go { call } => expr(call, out),
        Stmt::VarDecl { value, .. } => {
            if let Some(v) = value {
                expr(v, out);
            }
        }
        Stmt::Assignment { value, .. } => expr(value, out),
        Stmt::FieldAssign { target, value } => {
            expr(target, out);
            expr(value, out);
        }
        Stmt::PointerAssign { pointer, value } => {
            expr(pointer, out);
            expr(value, out);
        }
        Stmt::IndexAssign { array, index, value } => {
            expr(array, out);
            expr(index, out);
            expr(value, out);
        }
        Stmt::Return { expr: e } => {
            if let Some(e) = e {
                expr(e, out);
            }
        }
        Stmt::If { cond, then, else_ } => {
            expr(cond, out);
            block(then, out);
            if let Some(b) = else_ {
                block(b, out);
            }
        }
        Stmt::Loop { body } => block(body, out),
        Stmt::Break => {}
        Stmt::SwitchExpr { expr: e, cases, default } => {
            expr(e, out);
            for (c, b) in cases {
                expr(c, out);
                block(b, out);
            }
            if let Some(b) = default {
                block(b, out);
            }
        }
        Stmt::SwitchType { expr: e, cases, default, .. } => {
            expr(e, out);
            for (_, b) in cases {
                block(b, out);
            }
            if let Some(b) = default {
                block(b, out);
            }
        }
    }
}

pub fn trace(f: &File) -> String {
    let mut out = String::new();
    for it in &f.toplevels {
        if let Item::Fn(g) = it {
            block(&g.body, &mut out);
        }
    }
    out
}
