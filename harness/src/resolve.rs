use serde_json::{Value, json};
use std::path::Path;

/// input {"src": text}; output {"hir": pretty HIR, "diagnostics": [...]} or {"panic"} / {"parse_error"}
pub fn resolve_case(v: &Value) -> Value {
    let src = v["src"].as_str().unwrap().to_string();
    let r = std::panic::catch_unwind(move || {
        let ast = match compiler::pipeline::pipeline::parse_ast_file(Path::new("main.gom"), &src) {
            Ok(a) => a,
            Err(e) => {
                return json!({"parse_error": crate::compile::diag_json(e.diagnostics())});
            }
        };
        let (hir, table, diags) =
            compiler::hir::lower_to_project_hir_files(vec![compiler::hir::SourceFileAst {
                path: std::path::PathBuf::from("main.gom"),
                ast,
            }]);
        let ctx = compiler::pprint::hir_pprint::HirPrintCtx::new(&table);
        json!({"hir": hir.to_pretty(&ctx, 100000), "diagnostics": crate::compile::diag_json(&diags)})
    });
    match r {
        Ok(v) => v,
        Err(e) => json!({"panic": crate::compile::panic_msg(e)}),
    }
}
