use serde_json::{Value, json};

/// input: JSON array of code points; output: {"out":[bytes]} or {"panic":msg}
pub fn go_ident_case(v: &Value) -> Value {
    let cps: Vec<u32> = v
        .as_array()
        .unwrap()
        .iter()
        .map(|x| x.as_u64().unwrap() as u32)
        .collect();
    let s: String = cps.iter().map(|c| char::from_u32(*c).unwrap()).collect();
    let r = std::panic::catch_unwind(|| compiler::go::mangle::go_ident(&s));
    match r {
        Ok(o) => json!({"out": o.as_bytes()}),
        Err(_) => json!({"panic": "go_ident"}),
    }
}
