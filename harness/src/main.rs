//! gomlv — correspondence harness: runs the real goml functions on inputs
//! supplied by /verif/check and prints canonical results, one JSON value per line.
use std::io::{BufRead, Write};

mod query;
mod compile;
mod effects;
mod lexparse;
mod names;
mod pkg;
mod resolve;
mod sep;

fn main() {
    let args: Vec<String> = std::env::args().collect();
    if args.len() < 2 {
        eprintln!("usage: gomlv <subcommand> [args]");
        std::process::exit(2);
    }
    // Silence the default panic hook: panics are caught and reported as data.
    std::panic::set_hook(Box::new(|_| {}));
    let stdin = std::io::stdin();
    let stdout = std::io::stdout();
    let mut out = std::io::BufWriter::new(stdout.lock());
    match args[1].as_str() {
        "go-ident" => {
            for line in stdin.lock().lines() {
                let line = line.unwrap();
                let v: serde_json::Value = serde_json::from_str(&line).unwrap();
                let r = names::go_ident_case(&v);
                writeln!(out, "{}", r).unwrap();
            }
        }
        "discover" => {
            for line in stdin.lock().lines() {
                let line = line.unwrap();
                let v: serde_json::Value = serde_json::from_str(&line).unwrap();
                writeln!(out, "{}", pkg::discover_case(&v)).unwrap();
            }
        }
        "lexparse" => {
            for line in stdin.lock().lines() {
                let line = line.unwrap();
                let v: serde_json::Value = serde_json::from_str(&line).unwrap();
                writeln!(out, "{}", lexparse::lexparse_case(&v)).unwrap();
            }
        }
        "query" => {
            for line in stdin.lock().lines() {
                let line = line.unwrap();
                let v: serde_json::Value = serde_json::from_str(&line).unwrap();
                writeln!(out, "{}", query::query_case(&v)).unwrap();
                out.flush().unwrap();
            }
        }
        "parse-ast" => {
            for line in stdin.lock().lines() {
                let line = line.unwrap();
                let v: serde_json::Value = serde_json::from_str(&line).unwrap();
                writeln!(out, "{}", lexparse::parse_ast_case(&v)).unwrap();
            }
        }
        "sep" => {
            for line in stdin.lock().lines() {
                let line = line.unwrap();
                let v: serde_json::Value = serde_json::from_str(&line).unwrap();
                writeln!(out, "{}", sep::sep_case(&v)).unwrap();
            }
        }
        "resolve" => {
            for line in stdin.lock().lines() {
                let line = line.unwrap();
                let v: serde_json::Value = serde_json::from_str(&line).unwrap();
                writeln!(out, "{}", resolve::resolve_case(&v)).unwrap();
            }
        }
        "compile" => {
            for line in stdin.lock().lines() {
                let line = line.unwrap();
                let v: serde_json::Value = serde_json::from_str(&line).unwrap();
                let r = match v.get("timeout_ms").and_then(|x| x.as_u64()) {
                    None => compile::compile_case(&v),
                    Some(ms) => {
                        // watchdog: run the case on its own thread (same stack size as the command line); a hang leaks the thread
                        let (tx, rx) = std::sync::mpsc::channel();
                        let v2 = v.clone();
                        let _ = std::thread::Builder::new().stack_size(256 << 20).spawn(move || {
                            let _ = tx.send(compile::compile_case(&v2));
                        });
                        match rx.recv_timeout(std::time::Duration::from_millis(ms)) {
                            Ok(r) => r,
                            Err(_) => serde_json::json!({"ok": false, "timeout": true}),
                        }
                    }
                };
                writeln!(out, "{}", r).unwrap();
                out.flush().unwrap();
            }
        }
        other => {
            eprintln!("unknown subcommand {other}");
            std::process::exit(2);
        }
    }
}
