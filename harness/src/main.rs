//! gomlv — correspondence harness: runs the real goml functions on inputs
//! supplied by /verif/check and prints canonical results, one JSON value per line.
use std::io::{BufRead, Write};

mod query;
mod compile;
mod effects;
mod lexparse;
mod names;
mod pkg;
mod resolve;
mod sep;


/// Run one case; with "timeout_ms" in the input the case runs on its own thread (same stack size as the command line).
/// A case that does not answer in time cannot be stopped: its result is {"timeout":true}, every remaining case of this
/// process is answered {"skipped":true} and the process exits (the driver re-submits the skipped cases to a new process),
/// so that a runaway case cannot eat the machine.
fn guarded(
    v: &serde_json::Value,
    f: fn(&serde_json::Value) -> serde_json::Value,
    rest: &mut dyn Iterator<Item = std::io::Result<String>>,
    out: &mut dyn Write,
) {
    let r = match v.get("timeout_ms").and_then(|x| x.as_u64()) {
        None => f(v),
        Some(ms) => {
            let (tx, rx) = std::sync::mpsc::channel();
            let v2 = v.clone();
            let _ = std::thread::Builder::new().stack_size(256 << 20).spawn(move || {
                let _ = tx.send(f(&v2));
            });
            match rx.recv_timeout(std::time::Duration::from_millis(ms)) {
                Ok(r) => r,
                Err(_) => {
                    writeln!(out, "{}", serde_json::json!({"ok": false, "timeout": true})).unwrap();
                    for _ in rest {
                        writeln!(out, "{}", serde_json::json!({"skipped": true})).unwrap();
                    }
                    out.flush().unwrap();
                    std::process::exit(0);
                }
            }
        }
    };
    writeln!(out, "{}", r).unwrap();
}

fn main() {
    let args: Vec<String> = std::env::args().collect();
    if args.len() < 2 {
        eprintln!("usage: gomlv <subcommand> [args]");
        std::process::exit(2);
    }
    // Silence the default panic hook: panics are caught and reported as data.
    std::panic::set_hook(Box::new(|_| {}));
    let stdin = std::io::stdin();
    let stdout = std::io::stdout();
    let mut out = std::io::BufWriter::new(stdout.lock());
    match args[1].as_str() {
        "go-ident" => {
            for line in stdin.lock().lines() {
                let line = line.unwrap();
                let v: serde_json::Value = serde_json::from_str(&line).unwrap();
                let r = names::go_ident_case(&v);
                writeln!(out, "{}", r).unwrap();
            }
        }
        "discover" => {
            for line in stdin.lock().lines() {
                let line = line.unwrap();
                let v: serde_json::Value = serde_json::from_str(&line).unwrap();
                writeln!(out, "{}", pkg::discover_case(&v)).unwrap();
            }
        }
        "lexparse" => {
            let mut lines = stdin.lock().lines();
            while let Some(line) = lines.next() {
                let line = line.unwrap();
                let v: serde_json::Value = serde_json::from_str(&line).unwrap();
                guarded(&v, lexparse::lexparse_case, &mut lines, &mut out);
            }
        }
        "query" => {
            let mut lines = stdin.lock().lines();
            while let Some(line) = lines.next() {
                let line = line.unwrap();
                let v: serde_json::Value = serde_json::from_str(&line).unwrap();
                guarded(&v, query::query_case, &mut lines, &mut out);
                out.flush().unwrap();
            }
        }
        "parse-ast" => {
            let mut lines = stdin.lock().lines();
            while let Some(line) = lines.next() {
                let line = line.unwrap();
                let v: serde_json::Value = serde_json::from_str(&line).unwrap();
                guarded(&v, lexparse::parse_ast_case, &mut lines, &mut out);
            }
        }
        "sep" => {
            for line in stdin.lock().lines() {
                let line = line.unwrap();
                let v: serde_json::Value = serde_json::from_str(&line).unwrap();
                writeln!(out, "{}", sep::sep_case(&v)).unwrap();
            }
        }
        "resolve" => {
            let mut lines = stdin.lock().lines();
            while let Some(line) = lines.next() {
                let line = line.unwrap();
                let v: serde_json::Value = serde_json::from_str(&line).unwrap();
                guarded(&v, resolve::resolve_case, &mut lines, &mut out);
            }
        }
        "compile" => {
            let mut lines = stdin.lock().lines();
            while let Some(line) = lines.next() {
                let line = line.unwrap();
                let v: serde_json::Value = serde_json::from_str(&line).unwrap();
                guarded(&v, compile::compile_case, &mut lines, &mut out);
                out.flush().unwrap();
            }
        }
        other => {
            eprintln!("unknown subcommand {other}");
            std::process::exit(2);
        }
    }
}
