//! gomlv — correspondence harness: runs the real goml functions on inputs
//! supplied by /verif/check and prints canonical results, one JSON value per line.
use std::io::{BufRead, Write};

mod compile;
mod names;
mod pkg;
mod resolve;
mod sep;

fn main() {
    let args: Vec<String> = std::env::args().collect();
    if args.len() < 2 {
        eprintln!("usage: gomlv <subcommand> [args]");
        std::process::exit(2);
    }
    // Silence the default panic hook: panics are caught and reported as data.
    std::panic::set_hook(Box::new(|_| {}));
    let stdin = std::io::stdin();
    let stdout = std::io::stdout();
    let mut out = std::io::BufWriter::new(stdout.lock());
    match args[1].as_str() {
        "go-ident" => {
            for line in stdin.lock().lines() {
                let line = line.unwrap();
                let v: serde_json::Value = serde_json::from_str(&line).unwrap();
                let r = names::go_ident_case(&v);
                writeln!(out, "{}", r).unwrap();
            }
        }
        "discover" => {
            for line in stdin.lock().lines() {
                let line = line.unwrap();
                let v: serde_json::Value = serde_json::from_str(&line).unwrap();
                writeln!(out, "{}", pkg::discover_case(&v)).unwrap();
            }
        }
        "sep" => {
            for line in stdin.lock().lines() {
                let line = line.unwrap();
                let v: serde_json::Value = serde_json::from_str(&line).unwrap();
                writeln!(out, "{}", sep::sep_case(&v)).unwrap();
            }
        }
        "resolve" => {
            for line in stdin.lock().lines() {
                let line = line.unwrap();
                let v: serde_json::Value = serde_json::from_str(&line).unwrap();
                writeln!(out, "{}", resolve::resolve_case(&v)).unwrap();
            }
        }
        "compile" => {
            for line in stdin.lock().lines() {
                let line = line.unwrap();
                let v: serde_json::Value = serde_json::from_str(&line).unwrap();
                let r = compile::compile_case(&v);
                writeln!(out, "{}", r).unwrap();
                out.flush().unwrap();
            }
        }
        other => {
            eprintln!("unknown subcommand {other}");
            std::process::exit(2);
        }
    }
}
