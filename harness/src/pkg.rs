use serde_json::{Value, json};
use std::path::Path;

/// input {"entry": abs path of main.gom}; output {"discovery":[..], "topo":[..]} | {"error": msg, "at": "discover"|"topo"|"parse"}
pub fn discover_case(v: &Value) -> Value {
    let entry = v["entry"].as_str().unwrap().to_string();
    let r = std::panic::catch_unwind(move || {
        let path = Path::new(&entry);
        let src = match std::fs::read_to_string(path) {
            Ok(s) => s,
            Err(e) => return json!({"error": e.to_string(), "at": "io"}),
        };
        let ast = match compiler::pipeline::pipeline::parse_ast_file(path, &src) {
            Ok(a) => a,
            Err(e) => return json!({"error": format!("{:?}", e.diagnostics().iter().map(|d| d.message().to_string()).collect::<Vec<_>>()), "at": "parse"}),
        };
        let root = path.parent().unwrap();
        let graph = match compiler::pipeline::packages::discover_packages(root, Some(path), Some(ast)) {
            Ok(g) => g,
            Err(e) => {
                return json!({"error": e.diagnostics().iter().map(|d| d.message().to_string()).collect::<Vec<_>>(), "at": "discover"});
            }
        };
        let discovery = graph.discovery_order.clone();
        match compiler::pipeline::packages::topo_sort_packages(&graph) {
            Ok(t) => json!({"discovery": discovery, "topo": t}),
            Err(e) => json!({"discovery": discovery, "error": e.diagnostics().iter().map(|d| d.message().to_string()).collect::<Vec<_>>(), "at": "topo"}),
        }
    });
    match r {
        Ok(v) => v,
        Err(e) => json!({"panic": crate::compile::panic_msg(e)}),
    }
}
