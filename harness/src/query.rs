use serde_json::{Value, json};
use std::path::PathBuf;

/// input {"text": source, "dir": existing empty directory, "queries": [[kind, line, col], ...]} with kind "hover" | "dot" | "colon"
/// output {"results": [ {"ok": text} | {"err": text} | {"items": [[name, kind, detail]]} | {"none": true} | {"panic": msg} ]}
pub fn query_case(v: &Value) -> Value {
    let text = v["text"].as_str().unwrap_or("").to_string();
    let dir = PathBuf::from(v["dir"].as_str().unwrap_or("/nonexistent"));
    let path = dir.join("main.gom");
    let mut results = Vec::new();
    for q in v["queries"].as_array().unwrap() {
        let kind = q[0].as_str().unwrap().to_string();
        let line = q[1].as_u64().unwrap() as u32;
        let col = q[2].as_u64().unwrap() as u32;
        let (p, t) = (path.clone(), text.clone());
        let r = std::panic::catch_unwind(move || match kind.as_str() {
            "hover" => match compiler::query::hover_type(&p, &t, line, col) {
                Ok(s) => json!({"ok": s}),
                Err(e) => json!({"err": e.chars().take(200).collect::<String>()}),
            },
            "dot" => match compiler::query::dot_completions(&p, &t, line, col) {
                Some(items) => json!({"items": items.iter().map(|i| json!([i.name, format!("{:?}", i.kind), i.detail])).collect::<Vec<_>>()}),
                None => json!({"none": true}),
            },
            _ => match compiler::query::colon_colon_completions(&p, &t, line, col) {
                Some(items) => json!({"items": items.iter().map(|i| json!([i.name, format!("{:?}", i.kind), i.detail])).collect::<Vec<_>>()}),
                None => json!({"none": true}),
            },
        });
        results.push(match r {
            Ok(v) => v,
            Err(e) => json!({"panic": crate::compile::panic_msg(e)}),
        });
    }
    json!({"results": results})
}
