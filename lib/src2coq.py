"""core/mono/lift IR (parsed from Rust Debug output by rustdbg) -> Coq terms of Sem.Src"""
import vlib


class Conv(Exception):
    pass


def S(s):
    return vlib.coq_Nlist(list(s.encode("utf-8")))


PRIMTY = {"TUnit": "unit", "TBool": "bool", "TInt8": "int8", "TInt16": "int16", "TInt32": "int32", "TInt64": "int64", "TUint8": "uint8", "TUint16": "uint16",
          "TUint32": "uint32", "TUint64": "uint64", "TFloat32": "float32", "TFloat64": "float64", "TString": "string"}
WIDTH = {"TInt8": (8, True), "TInt16": (16, True), "TInt32": (32, True), "TInt64": (64, True), "TUint8": (8, False), "TUint16": (16, False), "TUint32": (32, False), "TUint64": (64, False)}


def name_of(x):
    """TastIdent("X") | bare ident | string"""
    if x[0] == "tuple" and x[1] == "TastIdent":
        return x[2][0][1]
    if x[0] == "unit":
        return x[1]
    if x[0] == "str":
        return x[1]
    raise Conv("name " + repr(x)[:80])


def ty_compact(t):
    """Ty::to_pretty with whitespace removed (names::ty_compact)"""
    if t[0] == "unit":
        return PRIMTY.get(t[1], t[1])
    if t[0] == "tuple":
        n, a = t[1], t[2]
        if n in ("TStruct", "TEnum", "TParam"):
            return name_of(a[0])
        if n == "TDyn":
            return "dyn" + name_of(a[0])
        if n == "TTuple":
            return "(" + ",".join(ty_compact(x) for x in a[0][1]) + ")"
        if n == "TApp":
            args = a[1][1]
            return ty_compact(a[0]) + ("[" + ",".join(ty_compact(x) for x in args) + "]" if args else "")
        if n == "TArray":
            return "[" + ty_compact(a[1]) + ";" + a[0][1] + "]"
        if n == "TVec":
            return "Vec[" + ty_compact(a[0]) + "]"
        if n == "TRef":
            return "Ref[" + ty_compact(a[0]) + "]"
        if n == "TFunc":
            return "(" + ",".join(ty_compact(x) for x in a[0][1]) + ")->" + ty_compact(a[1])
    raise Conv("type " + repr(t)[:80])


def width(t):
    if t[0] == "unit" and t[1] in WIDTH:
        b, s = WIDTH[t[1]]
        return "(Some (%d%%Z, %s))" % (b, "true" if s else "false")
    return "None"


def lit(p):
    n = p[1]
    if n == "Unit":
        return "LUnit"
    v = p[2]["value"]
    if n == "Bool":
        return "(LBool %s)" % ("true" if v[1] else "false")
    if n == "String":
        return "(LStr %s)" % S(v[1])
    if n in ("Float32", "Float64"):
        return "(LFloat %s)" % S(v[1])
    return "(LInt (%s)%%Z)" % v[1]


def ctor(c):
    k, b = c[1], c[2][0][2]
    if k == "Enum":
        return "(CEnum %s %s)" % (S(name_of(b["type_name"])), b["index"][1])
    return "(CStruct %s)" % S(name_of(b["type_name"]))


UN = {"Neg": "ONeg", "Not": "ONot"}
BIN = {"Add": "OAdd", "Sub": "OSub", "Mul": "OMul", "Div": "ODiv", "And": "OAnd", "Or": "OOr", "Less": "OLt", "Greater": "OGt", "LessEq": "OLe", "GreaterEq": "OGe", "Eq": "OEq", "NotEq": "ONe"}


def get_ty(e):
    return e[2]["ty"]


def expr(e):
    assert e[0] == "struct", repr(e)[:100]
    n, f = e[1], e[2]
    if n == "EVar":
        return "(EVar %s)" % S(f["name"][1])
    if n == "EPrim":
        return "(EPrim %s)" % lit(f["value"])
    if n == "EConstr":
        return "(EConstr %s [%s])" % (ctor(f["constructor"]), "; ".join(expr(a) for a in f["args"][1]))
    if n == "ETuple":
        return "(ETuple [%s])" % "; ".join(expr(a) for a in f["items"][1])
    if n == "EArray":
        return "(EArray [%s])" % "; ".join(expr(a) for a in f["items"][1])
    if n == "EClosure":
        return "(EClosure [%s] %s)" % ("; ".join(S(p[2]["name"][1]) for p in f["params"][1]), expr(f["body"]))
    if n == "ELet":
        return "(ELet %s %s %s)" % (S(f["name"][1]), expr(f["value"]), expr(f["body"]))
    if n == "EMatch":
        arms = []
        for a in f["arms"][1]:
            lhs = a[2]["lhs"]
            if lhs[1] == "EPrim":
                p = "(PLit %s)" % lit(lhs[2]["value"])
            elif lhs[1] == "EConstr" and lhs[2]["constructor"][1] == "Enum":
                b = lhs[2]["constructor"][2][0][2]
                p = "(PTag %s %s)" % (S(name_of(b["type_name"])), b["index"][1])
            else:
                raise Conv("arm lhs " + lhs[1])
            arms.append("(%s, %s)" % (p, expr(a[2]["body"])))
        d = f["default"]
        return "(EMatch %s [%s] %s)" % (expr(f["expr"]), "; ".join(arms), "None" if d[0] == "unit" else "(Some %s)" % expr(d[2][0]))
    if n == "EIf":
        return "(EIf %s %s %s)" % (expr(f["cond"]), expr(f["then_branch"]), expr(f["else_branch"]))
    if n == "EWhile":
        return "(EWhile %s %s)" % (expr(f["cond"]), expr(f["body"]))
    if n == "EGo":
        return "(EGo %s)" % expr(f["expr"])
    if n == "EConstrGet":
        return "(EConstrGet %s %s %s)" % (expr(f["expr"]), ctor(f["constructor"]), f["field_index"][1])
    if n == "EUnary":
        return "(EUnary %s %s %s)" % (UN[f["op"][1]], width(get_ty(f["expr"])), expr(f["expr"]))
    if n == "EBinary":
        return "(EBinary %s %s %s %s)" % (BIN[f["op"][1]], width(get_ty(f["lhs"])), expr(f["lhs"]), expr(f["rhs"]))
    if n == "ECall":
        return "(ECall %s [%s])" % (expr(f["func"]), "; ".join(expr(a) for a in f["args"][1]))
    if n == "EToDyn":
        return "(EToDyn %s %s)" % (S(name_of(f["trait_name"]) + "#" + ty_compact(f["for_ty"])), expr(f["expr"]))
    if n == "EDynCall":
        return "(EDynCall %s %s %s [%s])" % (S(name_of(f["trait_name"])), S(name_of(f["method_name"])), expr(f["receiver"]), "; ".join(expr(a) for a in f["args"][1]))
    if n == "EProj":
        return "(EProj %s %s)" % (expr(f["tuple"]), f["index"][1])
    if n == "ETraitCall":
        raise Conv("ETraitCall (unresolved trait call: generic Core)")
    raise Conv("expr " + n)


def file(tree):
    """-> (fns term, dyn table term)"""
    fns, table = [], []
    for fn in tree[2]["toplevels"][1]:
        f = fn[2]
        name = f["name"][1]
        fns.append("{| f_name := %s; f_params := [%s]; f_body := %s |}" % (S(name), "; ".join(S(p[1][0][1]) for p in f["params"][1]), expr(f["body"])))
        if name.startswith("trait_impl#"):
            parts = name.split("#")
            if len(parts) >= 4:
                table.append("(%s, %s, %s)" % (S(parts[1] + "#" + "#".join(parts[2:-1])), S(parts[-1]), S(name)))
    return "[\n%s\n]" % ";\n".join(fns), "[%s]" % "; ".join(table)
