"""Common body of the semantic translation-validation checks (C01, C09, C08, C17, ...)."""
import glob
import json
import os
import shutil

import genprog
import semrun
import vlib
from vlib import Broken


def corpus_programs():
    paths = sorted(glob.glob(os.path.join(vlib.REPO, "crates/compiler/src/tests/pipeline/*/main.gom")))
    out = []
    for p in paths:
        o = p + ".out"
        out.append((p, open(o, "rb").read() if os.path.exists(o) else None))
    return out


# corpus programs whose recorded output cannot be reproduced by the model, with the reason
CORPUS_EXPECTED_SKIP = {
    "025_missing_match": "ends in a run-time failure; the recorded file is Go's stderr",
    "043_extern_type_stub": "calls extern Go functions (time)",
    "044_count_down": "calls extern Go functions and spawns a goroutine",
    "050_float_ops": "floats are not evaluated by the model",
    "053_float_pattern_matching": "floats are not evaluated by the model",
    "058_lowercase_constructors": "the recorded output is a Go compile error (known finding C02: missing() at non-unit type)",
    "063_comparison_operators": "floats are not evaluated by the model",
    "042_go_statement": "goroutine scheduling",
}


def compare_with_fallback(tag, paths, expected=None, fuel=semrun.FUEL, per=12, stage="tast"):
    """reference = TAST-level semantics; programs the TAST reader cannot express (generic trait calls) fall back to Mono"""
    res = semrun.compare(tag, paths, src_stage=stage, expected=expected, fuel=fuel, per=per)
    fb = [i for i, r in enumerate(res) if r["status"] == "skipped" and "why" in r]
    if fb and stage != "mono":
        res2 = semrun.compare(tag + "_fb", [paths[i] for i in fb], src_stage="mono", expected=[expected[i] for i in fb] if expected is not None else None, fuel=fuel, per=per)
        for i, r in zip(fb, res2):
            r["reference_stage"] = "mono"
            res[i] = r
    return res


def run_semantic_check(run, prop, n_quick, n_thorough, features=None, depth_choices=(2, 3), with_corpus=True, fail_rate=0.03, extra_sources=(), tag=None, stage="tast"):
    """returns (wits, stats) — wits are concrete programs on which source semantics and the emitted Go disagree"""
    tag = tag or prop.lower()
    rng = run.sub_rng(prop + "-gen")
    n = n_quick if run.tier == "quick" else n_thorough
    srcs = [genprog.G(rng, features=features, fail_rate=fail_rate).program(depth=rng.choice(depth_choices)) for _ in range(n)]
    srcs += list(extra_sources)
    root, paths = semrun.write_programs(tag, srcs)
    res = compare_with_fallback(tag, paths, stage=stage)
    wits = []
    stats = {"generated": len(srcs), "agree": 0, "differ": 0, "skipped": 0, "rejected": 0, "go-stuck": 0, "src-stuck": 0, "panic": 0, "conv-error": 0}
    for s, p, r in zip(srcs, paths, res):
        st = r["status"]
        stats[st] = stats.get(st, 0) + 1
        if st in ("differ", "go-stuck", "panic", "rejected", "conv-error", "src-stuck"):
            kind = {
                "differ": "the emitted Go behaves differently from the source program",
                "go-stuck": "the emitted Go is not executable in the Go model (ill-typed or undefined name)",
                "panic": "the compiler panicked on a well-typed generated program",
                "rejected": "a well-typed generated program was rejected",
                "conv-error": "an IR dump has a shape the model cannot read",
                "src-stuck": "the source-level IR is not executable in the source model (unbound variable / ill-typed IR)",
            }[st]
            w = {"kind": kind, "status": st, "program": s}
            if st in ("differ", "go-stuck", "src-stuck") and len(wits) < 3:  # only the first few are reported
                try:
                    w.update(semrun.details(tag + "_w", p, src_stage=r.get("reference_stage", stage)))
                except Exception as e:  # noqa
                    w["details_error"] = repr(e)[:300]
            else:
                w["impl"] = r.get("compile") or r.get("error")
            wits.append(w)
    shutil.rmtree(root, ignore_errors=True)
    cstats = None
    if with_corpus:
        cp = corpus_programs()
        cres = compare_with_fallback(tag + "_corpus", [p for p, _ in cp], expected=[e for _, e in cp], fuel=200000, per=6, stage=stage)
        cstats = {"programs": len(cp), "agree_and_match_recorded_go_output": 0, "explained_exceptions": 0}
        for (p, exp), r in zip(cp, cres):
            name = p.split("/")[-2]
            ok = r["status"] == "agree" and (exp is None or r.get("matches_recorded_output"))
            if ok:
                cstats["agree_and_match_recorded_go_output"] += 1
            elif name in CORPUS_EXPECTED_SKIP:
                cstats["explained_exceptions"] += 1
            else:
                w = {"kind": "corpus program: source semantics, Go semantics and the output recorded from real Go do not all agree", "corpus": name, "status": r["status"], "matches_recorded_output": r.get("matches_recorded_output")}
                try:
                    if len(wits) < 3:
                        w.update(semrun.details(tag + "_cw", p, fuel=200000, src_stage=r.get("reference_stage", stage)))
                except Exception as e:  # noqa
                    w["details_error"] = repr(e)[:300]
                wits.append(w)
    return wits, stats, cstats, srcs
