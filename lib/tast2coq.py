"""TAST (parsed from Rust Debug output) -> Coq terms of Sem.Src (source-level constructs EMatchP / ELetP).
Function naming follows compile_match::compile_file (names.rs trait_impl_fn_name / inherent_method_fn_name)."""
import src2coq
from src2coq import BIN, Conv, S, UN, ctor, lit, name_of, ty_compact, width

PRIM_BASES = {"TUnit": "unit", "TBool": "bool", "TInt8": "int8", "TInt16": "int16", "TInt32": "int32", "TInt64": "int64", "TUint8": "uint8", "TUint16": "uint16",
              "TUint32": "uint32", "TUint64": "uint64", "TFloat32": "float32", "TFloat64": "float64", "TString": "string"}


def has_tparam(t):
    if t[0] == "unit":
        return False
    if t[0] == "tuple":
        if t[1] == "TParam":
            return True
        return any(has_tparam(x) for x in _children(t))
    if t[0] == "list":
        return any(has_tparam(x) for x in t[1])
    return False


def _children(t):
    out = []
    for a in t[2]:
        if a[0] == "list":
            out += a[1]
        elif a[0] in ("tuple", "unit"):
            out.append(a)
    return out


def constr_name(t):
    if t[0] == "tuple" and t[1] in ("TStruct", "TEnum"):
        return name_of(t[2][0])
    if t[0] == "tuple" and t[1] == "TApp":
        return constr_name(t[2][0])
    if t[0] == "tuple" and t[1] == "TVec":
        return "Vec"
    if t[0] == "tuple" and t[1] == "TRef":
        return "Ref"
    return None


def inherent_name(recv_ty, method):
    if recv_ty[0] == "unit" and recv_ty[1] in PRIM_BASES:
        return "%s_%s" % (PRIM_BASES[recv_ty[1]], method)
    base = constr_name(recv_ty) or ty_compact(recv_ty)
    return "inherent#%s#%s#%s" % (base, ty_compact(recv_ty), method)


def trait_impl_name(trait, for_ty, method):
    return "trait_impl#%s#%s#%s" % (trait, ty_compact(for_ty), method)


class T:
    def __init__(self, structs):
        self.structs = structs  # name -> [field names]

    def pat(self, p):
        n, f = p[1], p[2]
        if n == "PVar":
            return "(SPVar %s)" % S(f["name"][1])
        if n == "PWild":
            return "SPWild"
        if n == "PPrim":
            return "(SPLit %s)" % lit(f["value"])
        if n == "PConstr":
            return "(SPCon %s [%s])" % (ctor(f["constructor"]), "; ".join(self.pat(x) for x in f["args"][1]))
        if n == "PTuple":
            return "(SPTuple [%s])" % "; ".join(self.pat(x) for x in f["items"][1])
        raise Conv("pat " + n)

    def block(self, es):
        if not es:
            return "(EPrim LUnit)"
        first, rest = es[0], es[1:]
        if first[1] == "ELet":
            p = first[2]["pat"]
            body = self.block(rest) if rest else "(EPrim LUnit)"
            return "(ELetP %s %s %s)" % (self.pat(p), self.expr(first[2]["value"]), body)
        if not rest:
            return self.expr(first)
        return "(ELetP SPWild %s %s)" % (self.expr(first), self.block(rest))

    def expr(self, e):
        n, f = e[1], e[2]
        if n == "EVar":
            return "(EVar %s)" % S(f["name"][1])
        if n == "EPrim":
            return "(EPrim %s)" % lit(f["value"])
        if n == "EConstr":
            return "(EConstr %s [%s])" % (ctor(f["constructor"]), "; ".join(self.expr(a) for a in f["args"][1]))
        if n == "ETuple":
            return "(ETuple [%s])" % "; ".join(self.expr(a) for a in f["items"][1])
        if n == "EArray":
            return "(EArray [%s])" % "; ".join(self.expr(a) for a in f["items"][1])
        if n == "EClosure":
            return "(EClosure [%s] %s)" % ("; ".join(S(p[2]["name"][1]) for p in f["params"][1]), self.expr(f["body"]))
        if n == "ELet":
            return "(ELetP %s %s (EPrim LUnit))" % (self.pat(f["pat"]), self.expr(f["value"]))
        if n == "EBlock":
            return self.block(f["exprs"][1])
        if n == "EMatch":
            return "(EMatchP %s [%s])" % (self.expr(f["expr"]), "; ".join("(%s, %s)" % (self.pat(a[2]["pat"]), self.expr(a[2]["body"])) for a in f["arms"][1]))
        if n == "EIf":
            return "(EIf %s %s %s)" % (self.expr(f["cond"]), self.expr(f["then_branch"]), self.expr(f["else_branch"]))
        if n == "EWhile":
            return "(EWhile %s %s)" % (self.expr(f["cond"]), self.expr(f["body"]))
        if n == "EGo":
            return "(EGo %s)" % self.expr(f["expr"])
        if n == "EUnary":
            if f["resolution"][0] != "unit" or f["resolution"][1] != "Builtin":
                tr = name_of(f["resolution"][2]["trait_name"])
                m = {"Neg": "neg", "Not": "not"}[f["op"][1]]
                return "(ECall (EVar %s) [%s])" % (S(trait_impl_name(tr, f["expr"][2]["ty"], m)), self.expr(f["expr"]))
            return "(EUnary %s %s %s)" % (UN[f["op"][1]], width(f["expr"][2]["ty"]), self.expr(f["expr"]))
        if n == "EBinary":
            if f["resolution"][0] != "unit" or f["resolution"][1] != "Builtin":
                raise Conv("overloaded binary operator")
            return "(EBinary %s %s %s %s)" % (BIN[f["op"][1]], width(f["lhs"][2]["ty"]), self.expr(f["lhs"]), self.expr(f["rhs"]))
        if n == "EProj":
            return "(EProj %s %s)" % (self.expr(f["tuple"]), f["index"][1])
        if n == "EField":
            base = f["expr"][2]["ty"]
            sn = constr_name(base)
            if sn is None or sn not in self.structs:
                raise Conv("field access on " + repr(base)[:60])
            idx = self.structs[sn].index(f["field_name"][1])
            return "(EConstrGet %s (CStruct %s) %d)" % (self.expr(f["expr"]), S(sn), idx)
        if n == "EToDyn":
            return "(EToDyn %s %s)" % (S(name_of(f["trait_name"]) + "#" + ty_compact(f["for_ty"])), self.expr(f["expr"]))
        if n == "ECall":
            fn = f["func"]
            args = f["args"][1]
            a = "; ".join(self.expr(x) for x in args)
            if fn[1] == "EDynTraitMethod":
                rest = "; ".join(self.expr(x) for x in args[1:])
                return "(EDynCall %s %s %s [%s])" % (S(name_of(fn[2]["trait_name"])), S(name_of(fn[2]["method_name"])), self.expr(args[0]), rest)
            if fn[1] == "ETraitMethod":
                for_ty = args[0][2]["ty"]
                if has_tparam(for_ty):
                    raise Conv("trait call on a type parameter (generic code)")
                return "(ECall (EVar %s) [%s])" % (S(trait_impl_name(name_of(fn[2]["trait_name"]), for_ty, name_of(fn[2]["method_name"]))), a)
            if fn[1] == "EInherentMethod":
                return "(ECall (EVar %s) [%s])" % (S(inherent_name(fn[2]["receiver_ty"], name_of(fn[2]["method_name"]))), a)
            return "(ECall %s [%s])" % (self.expr(fn), a)
        raise Conv("expr " + n)


def file(tree, structs):
    t = T(structs)
    fns, table = [], []

    def add(name, params, body):
        fns.append("{| f_name := %s; f_params := [%s]; f_body := %s |}" % (S(name), "; ".join(S(p[1][0][1]) for p in params), t.expr(body)))
        if name.startswith("trait_impl#"):
            parts = name.split("#")
            table.append("(%s, %s, %s)" % (S(parts[1] + "#" + "#".join(parts[2:-1])), S(parts[-1]), S(name)))

    for it in tree[2]["toplevels"][1]:
        k, b = it[1], it[2][0][2]
        if k == "Fn":
            if b.get("generics", ("list", []))[1]:
                raise Conv("generic function")
            add(b["name"][1], b["params"][1], b["body"])
        elif k == "ImplBlock":
            if b["generics"][1]:
                raise Conv("generic impl")
            for m in b["methods"][1]:
                mf = m[2]
                tn = b["trait_name"]
                if tn[0] == "tuple" and tn[1] == "Some":
                    name = trait_impl_name(name_of(tn[2][0]), b["for_type"], mf["name"][1])
                else:
                    name = inherent_name(b["for_type"], mf["name"][1])
                add(name, mf["params"][1], mf["body"])
    return "[\n%s\n]" % ";\n".join(fns), "[%s]" % "; ".join(table)
