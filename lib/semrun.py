"""Shared semantic oracle: compile programs with the real compiler, read the real IRs
(Rust Debug dumps), and run the Coq semantics (Sem/Src.v on an early stage, Sem/GoSem.v
on the emitted Go AST) inside coqc; report per program whether the observable behaviour
(stdout bytes + how the program ends) agrees."""
import os
import re
import shutil

import go2coq
import rustdbg
import src2coq
import tast2coq
import json
import vlib
from vlib import Broken

FUEL = 20000

HEADER = """From Goml Require Import Common.Base.
From Goml Require Sem.GoAst Sem.GoSem Sem.Src.
Open Scope N_scope.
(* 0 agree, 1 differ, 2 a side is unsupported / out of fuel, 3 source side stuck, 4 Go side stuck,
   5 the source program ends but the Go side runs out of fuel *)
Definition klass_src (e : Sem.Src.ending) : N := match e with Sem.Src.EExit => 0 | Sem.Src.EPanic _ => 1 | Sem.Src.EStuck _ => 3 | _ => 2 end.
Definition klass_go (e : Sem.GoSem.ending) : N := match e with Sem.GoSem.EExit => 0 | Sem.GoSem.EPanic _ => 1 | Sem.GoSem.EStuck _ => 4 | Sem.GoSem.EFuel => 5 | _ => 2 end.
Definition verdict (a : str * Sem.Src.ending) (b : str * Sem.GoSem.ending) : N :=
  let ka := klass_src (snd a) in let kb := klass_go (snd b) in
  if (ka =? 3) then 3 else if (kb =? 4) then 4 else if (ka =? 2) || (kb =? 2) then 2 else if (kb =? 5) then 5
  else if (ka =? kb) && list_eqb (fst a) (fst b) then 0 else 1.
"""


def write_programs(tag, sources):
    root = os.path.join(vlib.BUILD, "tmp", tag)
    shutil.rmtree(root, ignore_errors=True)
    paths = []
    for i, src in enumerate(sources):
        d = os.path.join(root, "p%05d" % i)
        os.makedirs(d)
        with open(os.path.join(d, "main.gom"), "w") as f:
            f.write(src)
        paths.append(os.path.join(d, "main.gom"))
    return root, paths


def compare(tag, paths, src_stage="mono", expected=None, per=12, fuel=FUEL, keep=False, go_paths=None, extra_dumps=(), src_fuel=None):
    """-> list of dict(status, verdict, src, go, compile) per path.
    status: 'agree' | 'differ' | 'skipped' | 'src-stuck' | 'go-stuck' | 'rejected' | 'panic' | 'conv-error'
    go_paths: take the Go side of case i from another program (cross comparison)"""
    res = vlib.run_harness("compile", [{"path": p, "dumps": [src_stage + "_dbg", "go_dbg", "structs_json"], "timeout_ms": 20000} for p in paths], shards=vlib.NCPU)
    gres = None
    if go_paths is not None:
        gres = vlib.run_harness("compile", [{"path": p, "dumps": ["go_dbg", *extra_dumps], "timeout_ms": 20000} for p in go_paths], shards=vlib.NCPU)
    out = [None] * len(paths)
    defs = []
    idx = []
    for i, r in enumerate(res):
        if gres is not None:
            g = gres[i]
            if "panic" in g or g.get("timeout"):
                out[i] = {"status": "panic", "compile": g, "side": "go"}
                continue
            if not g.get("ok"):
                out[i] = {"status": "rejected", "compile": {k: v for k, v in g.items() if k != "go"}, "side": "go"}
                continue
            if r.get("ok"):
                r = dict(r, dumps=dict(r["dumps"], go_dbg=g["dumps"]["go_dbg"]), go=g.get("go"), go_side=g)
        if r.get("timeout"):
            out[i] = {"status": "panic", "compile": r}
            continue
        if "panic" in r:
            out[i] = {"status": "panic", "compile": r}
            continue
        if not r.get("ok"):
            out[i] = {"status": "rejected", "compile": {k: v for k, v in r.items() if k != "go"}}
            continue
        try:
            fns, tab = convert_src(r, src_stage)
            gof = go2coq.file(rustdbg.parse(r["dumps"]["go_dbg"]))
        except src2coq.Conv as e:
            out[i] = {"status": "skipped", "verdict": 2, "why": repr(e)[:200]}
            continue
        except (go2coq.Conv, rustdbg.ParseError, KeyError, AssertionError, IndexError, ValueError) as e:
            out[i] = {"status": "conv-error", "error": repr(e)[:300], "go": r.get("go")}
            continue
        exp = ""
        if expected is not None and expected[i] is not None:
            exp = "Definition exp_%d : str := %s.\n" % (i, vlib.coq_Nlist(list(expected[i])))
        defs.append(
            (i, "Module PS%d. Import Sem.Src. Definition r := run_src %s %s (N.to_nat %d). End PS%d.\nModule PG%d. Import Sem.GoAst Sem.GoSem. Definition r := run_go %s (N.to_nat %d). End PG%d.\nDefinition src_%d := PS%d.r.\nDefinition go_%d := PG%d.r.\n%s" % (i, fns, tab, src_fuel or fuel, i, i, gof, fuel, i, i, i, i, i, exp))
        )
        idx.append(i)
        out[i] = {"status": None, "go_text": r.get("go"), "go_side": r.get("go_side")}
    texts, groups = [], []
    for k in range(0, len(defs), per):
        g = defs[k : k + per]
        body = HEADER + "".join(d for _, d in g)
        body += "Eval vm_compute in [%s].\n" % "; ".join("verdict src_%d go_%d" % (i, i) for i, _ in g)
        if expected is not None:
            body += "Eval vm_compute in [%s].\n" % "; ".join(("list_eqb (fst go_%d) exp_%d" % (i, i)) if expected[i] is not None else "true" for i, _ in g)
        texts.append(body)
        groups.append([i for i, _ in g])
    outs = vlib.coq_eval_many(tag, texts, timeout=1500) if texts else []
    for g, o in zip(groups, outs):
        m = re.search(r"=\s*(\[.*?\])\s*:\s*list N", o, re.S)
        if not m:
            raise Broken("coq-output", o[-800:])
        vs = vlib.parse_nat_list("= %s : list N" % m.group(1))
        exp_ok = None
        if expected is not None:
            m2 = re.search(r"=\s*\[([^\]]*)\]\s*:\s*list bool", o, re.S)
            exp_ok = [x.strip() == "true" for x in m2.group(1).split(";")] if m2 else None
        for k, (i, v) in enumerate(zip(g, vs)):
            out[i]["verdict"] = v
            out[i]["status"] = {0: "agree", 1: "differ", 2: "skipped", 3: "src-stuck", 4: "go-stuck", 5: "go-fuel"}[v]
            if exp_ok is not None:
                out[i]["matches_recorded_output"] = exp_ok[k]
    # the source program ends but the Go side ran out of fuel: decide between "needs a little more depth" and "does not
    # terminate" by giving the source an eighth of the fuel (fuel bounds the nesting depth of the evaluation, and the
    # Go program of a source program nests at most a small constant factor deeper)
    again = [i for i in range(len(paths)) if out[i] and out[i].get("status") == "go-fuel"]
    if again and src_fuel is None:
        for i in again[6:]:
            out[i]["status"], out[i]["verdict"] = "skipped", 2  # a handful of cases is enough to decide and to report
        again = again[:6]
        sub = compare(tag + "_nt", [paths[i] for i in again], src_stage=src_stage, per=per, fuel=fuel, go_paths=[go_paths[i] for i in again] if go_paths is not None else None, src_fuel=max(1, fuel // 8))
        for i, r2 in zip(again, sub):
            if r2.get("status") == "go-fuel":
                out[i]["status"], out[i]["verdict"] = "differ", 1
                out[i]["why"] = "the source program ends within 1/8 of the evaluation depth the emitted Go exhausts: the Go does not terminate"
            else:
                out[i]["status"], out[i]["verdict"] = "skipped", 2
    elif again:
        pass  # second pass: the caller decides
    return out


def convert_src(r, src_stage):
    tree = rustdbg.parse(r["dumps"][src_stage + "_dbg"])
    if src_stage == "tast":
        return tast2coq.file(tree, json.loads(r["dumps"]["structs_json"]))
    return src2coq.file(tree)


def details(tag, path, src_stage="mono", fuel=FUEL):
    """both behaviours of one program, for a replay file"""
    (r,) = vlib.run_harness("compile", [{"path": path, "dumps": [src_stage + "_dbg", "go_dbg", "structs_json"]}])
    fns, tab = convert_src(r, src_stage)
    gof = go2coq.file(rustdbg.parse(r["dumps"]["go_dbg"]))
    o = vlib.coq_eval(tag, HEADER + "Module PS. Import Sem.Src. Definition r := run_src %s %s (N.to_nat %d). End PS.\nModule PG. Import Sem.GoAst Sem.GoSem. Definition r := run_go %s (N.to_nat %d). End PG.\nEval vm_compute in PS.r.\nEval vm_compute in PG.r.\n" % (fns, tab, fuel, gof, fuel))
    parts = re.findall(r"=\s*\((\[.*?\]),\s*(.*?)\)\s*:\s*str \*", o, re.S)
    res = []
    for text, ending in parts:
        nums = [int(re.sub(r"%\w+", "", x)) for x in text.strip()[1:-1].split(";") if x.strip()]
        res.append({"stdout": bytes(nums).decode("utf-8", "replace"), "ending": " ".join(ending.split())[:120]})
    return {"source_semantics(%s)" % src_stage: res[0] if res else None, "go_semantics": res[1] if len(res) > 1 else None, "go_text": r.get("go")}


def go_outputs(tag, paths, per=10, fuel=FUEL):
    """stdout and ending of the emitted Go of each program under Sem/GoSem.v
    -> list of dict(status 'ok'|'rejected'|'panic'|'conv-error', stdout bytes, ending text, go_text)"""
    res = vlib.run_harness("compile", [{"path": p, "dumps": ["go_dbg"], "timeout_ms": 20000} for p in paths], shards=vlib.NCPU)
    out = [None] * len(paths)
    defs = []
    for i, r in enumerate(res):
        if "panic" in r or r.get("timeout"):
            out[i] = {"status": "panic", "compile": r}
            continue
        if not r.get("ok"):
            out[i] = {"status": "rejected", "compile": {k: v for k, v in r.items() if k != "go"}}
            continue
        try:
            gof = go2coq.file(rustdbg.parse(r["dumps"]["go_dbg"]))
        except (go2coq.Conv, rustdbg.ParseError, KeyError, AssertionError, IndexError, ValueError) as e:
            out[i] = {"status": "conv-error", "error": repr(e)[:300], "go_text": r.get("go")}
            continue
        defs.append((i, "Module PG%d. Import Sem.GoAst Sem.GoSem. Definition r := run_go %s (N.to_nat %d). End PG%d.\nEval vm_compute in PG%d.r.\n" % (i, gof, fuel, i, i)))
        out[i] = {"status": "ok", "go_text": r.get("go")}
    texts, groups = [], []
    for k in range(0, len(defs), per):
        g = defs[k : k + per]
        texts.append(HEADER + "".join(d for _, d in g))
        groups.append([i for i, _ in g])
    outs = vlib.coq_eval_many(tag, texts, timeout=1500) if texts else []
    for g, o in zip(groups, outs):
        parts = re.findall(r"=\s*\((\[.*?\]),\s*(.*?)\)\s*:\s*str \*", o, re.S)
        if len(parts) != len(g):
            raise Broken("coq-output", o[-800:])
        for i, (text, ending) in zip(g, parts):
            nums = [int(re.sub(r"%\w+", "", x)) for x in text.strip()[1:-1].split(";") if x.strip()]
            out[i]["stdout"] = bytes(nums)
            out[i]["ending"] = " ".join(ending.split())[:120]
    return out


def go_pair_verdicts(tag, pairs, per=8, fuel=FUEL):
    """pairs of Go ASTs (Rust Debug text): 0 same stdout and ending class, 1 differ, 2 outside the model / fuel, 4 a side is stuck"""
    defs, idx = [], []
    out = [None] * len(pairs)
    for i, (a, b) in enumerate(pairs):
        try:
            ga = go2coq.file(rustdbg.parse(a))
            gb = go2coq.file(rustdbg.parse(b))
        except (go2coq.Conv, rustdbg.ParseError, KeyError, AssertionError, IndexError, ValueError) as e:
            out[i] = {"verdict": None, "error": repr(e)[:300]}
            continue
        defs.append((i, "Module PA%d. Import Sem.GoAst Sem.GoSem. Definition r := run_go %s (N.to_nat %d). End PA%d.\nModule PB%d. Import Sem.GoAst Sem.GoSem. Definition r := run_go %s (N.to_nat %d). End PB%d.\n" % (i, ga, fuel, i, i, gb, fuel, i)))
    texts, groups = [], []
    for k in range(0, len(defs), per):
        g = defs[k : k + per]
        body = HEADER + "Definition gv (a b : str * Sem.GoSem.ending) : N := let ka := klass_go (snd a) in let kb := klass_go (snd b) in if (ka =? 4) || (kb =? 4) then 4 else if (ka =? 2) || (kb =? 2) then 2 else if (ka =? kb) && list_eqb (fst a) (fst b) then 0 else 1.\n"
        body += "".join(d for _, d in g)
        body += "Eval vm_compute in [%s].\n" % "; ".join("gv PA%d.r PB%d.r" % (i, i) for i, _ in g)
        texts.append(body)
        groups.append([i for i, _ in g])
    outs = vlib.coq_eval_many(tag, texts, timeout=1500) if texts else []
    for g, o in zip(groups, outs):
        m = re.search(r"=\s*(\[.*?\])\s*:\s*list N", o, re.S)
        if not m:
            raise Broken("coq-output", o[-800:])
        vs = vlib.parse_nat_list("= %s : list N" % m.group(1))
        for i, v in zip(g, vs):
            out[i] = {"verdict": v}
    return out
