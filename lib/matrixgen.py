"""Position x feature matrix: every kind of sub-expression that a compiler pass has to rewrite (generic instances,
closures and captures, trait objects, effects, tuple/struct/enum patterns, references, vectors, arrays, strings,
function values) placed in every kind of syntactic position (operands, arguments, conditions, branches, loop conditions
and bodies, match scrutinees and arms, fields, tuple components, closure bodies, bodies of plain/generic functions and
of methods, let patterns). A pass that forgets one child position of one node kind, or one construct, shows up in one
cell. Every cell is an int32-valued function of one int32 parameter `k`; a program prints a handful of cells."""

PRELUDE = """struct P { a: int32, b: bool }
enum E { A, B(int32), C(bool, int32) }
struct Box[T] { v: T }
enum Opt[T] { None_, Some_(T) }
struct Two[T, U] { l: T, r: U }
struct Ops { tag: string, inc: (int32) -> int32, get: () -> int32 }
struct Cfg { name: Opt[string], size: Opt[int32], bx: Box[int32], nested: Box[Opt[bool]] }
enum Sh { Circle(Box[int32]), Sq(Opt[int32], int32), Both((Box[int32], Opt[string])) }
trait Tick { fn val(Self) -> int32; fn xval(Self) -> int32; fn addv(Self, int32) -> int32; fn tick(Self) -> unit; }
struct K { c: Ref[int32] }
impl Tick for K {
    fn xval(self: K) -> int32 { ref_get(self.c) * 2 }
    fn val(self: K) -> int32 { ref_get(self.c) }
    fn addv(self: K, n: int32) -> int32 { ref_get(self.c) + n }
    fn tick(self: K) -> unit { let _ = string_println("tick-K"); ref_set(self.c, ref_get(self.c) + 1) }
}
impl Tick for int32 {
    fn xval(self: int32) -> int32 { self * 10 }
    fn val(self: int32) -> int32 { self + 1 }
    fn addv(self: int32, n: int32) -> int32 { self - n }
    fn tick(self: int32) -> unit { string_println("tick-" + int32_to_string(self)) }
}
impl Tick for Box[int32] {
    fn xval(self: Box[int32]) -> int32 { self.v * 100 }
    fn val(self: Box[int32]) -> int32 { self.v + 7 }
    fn addv(self: Box[int32], n: int32) -> int32 { self.v + n + n }
    fn tick(self: Box[int32]) -> unit { string_println("tick-box") }
}
impl P {
    fn sum(self: P, n: int32) -> int32 { if self.b { self.a + n } else { self.a - n } }
    fn tagm[U](self: P, x: U) -> (int32, U) { (self.a, x) }
    fn pickm[U](self: P, x: U, y: U) -> U { if self.b { x } else { y } }
}
fn pi(t: string, v: int32) -> int32 { let _ = string_println(t); v }
fn add(a: int32, b: int32) -> int32 { a + b }
fn inc3(x: int32) -> int32 { x + 3 }
fn twice(f: (int32) -> int32, x: int32) -> int32 { f(f(x)) }
fn gid[T](x: T) -> T { x }
fn gsome[T](x: T) -> Opt[T] { Some_(x) }
fn gor[T](o: Opt[T], d: T) -> T { match o { Some_(x) => x, None_ => d } }
fn gpair[T, U](a: T, b: U) -> (T, U) { (a, b) }
fn gtwo[T, U](a: T, b: U) -> Two[U, T] { Two { l: b, r: a } }
fn gnone[T]() -> Opt[T] { None_ }
fn gvnew[T]() -> Vec[T] { vec_new() }
fn fact(n: int32) -> int32 { if n <= 1 { 1 } else { n * fact(n - 1) } }
fn is_ev(n: int32) -> bool { if n == 0 { true } else { is_od(n - 1) } }
fn is_od(n: int32) -> bool { if n == 0 { false } else { is_ev(n - 1) } }
fn mkt(n: int32) -> (int32, bool) { (n + 1, n > 1) }
fn fst2(p: (int32, int32)) -> int32 { p.0 }
fn dbl(x: int32) -> int32 { x * 2 }
fn pick(n: int32) -> (int32) -> int32 { let _ = string_println("pick"); if n > 0 { inc3 } else { dbl } }
fn bgw() -> unit { string_println("bgw") }
fn mk_add(n: int32) -> (int32) -> int32 { let m = n + 1; |x: int32| x + m }
fn mk_pair(n: int32) -> ((int32) -> int32, () -> int32) { let c = ref(n); (|d: int32| { let _ = ref_set(c, ref_get(c) + d); ref_get(c) }, || ref_get(c)) }
"""

# features: name -> (statements, int32 expression) over `k`; local names start with q
FEATURES = {
    "arith": ("", "(k + 1) * 2 - k / 2"),
    "litlit": ("", "k + (100 - 1) * 2 / 3"),
    "effect": ("", 'pi("e", k)'),
    "effect2": ("", 'add(pi("e1", k), pi("e2", 2))'),
    "gen_call": ("", "gor(gsome(gid(k)), 0)"),
    "gen_pair": ("let qp2: (int32, bool) = gpair(k, true);", "qp2.0"),
    "gen_enum": ("let qo: Opt[int32] = Some_(k);", "(match qo { Some_(qz) => qz, None_ => 0 })"),
    "gen_enum_none": ("let qo: Opt[int32] = None_;", "(match qo { Some_(qz) => qz, None_ => k })"),
    "gen_struct": ("let qb: Box[int32] = Box { v: k };", "qb.v + 1"),
    "gen_nested": ("let qb: Box[Opt[int32]] = Box { v: Some_(k) };", "(match qb.v { Some_(qz) => qz, None_ => 0 })"),
    "gen_two": ("let qt: Two[bool, int32] = gtwo(k, true);", "(if qt.l { qt.r } else { 0 })"),
    "gen_field": ('let qc = Cfg { name: Some_("x"), size: Some_(k), bx: Box { v: 5 }, nested: Box { v: Some_(true) } };',
                  "(match qc.size { Some_(qz) => qz + qc.bx.v, None_ => 0 }) + (match qc.nested.v { Some_(qb) => if qb { 1 } else { 0 }, None_ => 2 })"),
    "gen_payload": ("let qs = Sq(Some_(k), 2);", "(match qs { Circle(qb) => qb.v, Sq(qo, qn) => gor(qo, 0) + qn, Both(qp) => qp.0.v })"),
    "gen_payload2": ("let qs = Both((Box { v: k }, None_));", "(match qs { Circle(qb) => qb.v, Sq(_, qn) => qn, Both(qp) => qp.0.v + (match qp.1 { Some_(_) => 1, None_ => 0 }) })"),
    "gen_ret_only": ('let qo: Opt[int32] = gnone(); let qs: Opt[string] = gnone();', 'gor(qo, k) + string_len(gor(qs, "ab"))'),
    "gen_ret_only_vec": ("let qv: Vec[int32] = gvnew(); let qw: Vec[bool] = gvnew(); let qv = vec_push(qv, k);", "vec_get(qv, 0) + vec_len(qw)"),
    "gen_in_array": ("let qa: [Opt[int32]; 2] = [Some_(k), None_];", "(match array_get(qa, 0) { Some_(qz) => qz, None_ => 0 }) + (match array_get(qa, 1) { Some_(_) => 1, None_ => 2 })"),
    "gen_in_array_struct": ("let qa: [Box[int32]; 2] = [Box { v: k }, Box { v: 2 }]; let qb0 = array_get(qa, 0); let qb1: Box[int32] = array_get(array_set(qa, 1, Box { v: 4 }), 1);", "qb0.v + qb1.v"),
    "closure_gen_param": ("let qf = |qm: Opt[int32]| match qm { Some_(qz) => qz + k, None_ => k };", "qf(Some_(1)) + qf(None_)"),
    "closure_gen_result": ("let qf = |qy: int32| if qy < k { Some_(qy) } else { None_ };", "gor(qf(0), 5) + gor(qf(k), 7)"),
    "dyn_prim": ("let qd: dyn Tick = k;", "Tick::val(qd) + Tick::xval(qd)"),
    "dyn_struct": ("let qk = K { c: ref(k) }; let qd: dyn Tick = qk; let _ = Tick::tick(qd);", "Tick::addv(qd, 5) + Tick::xval(qd)"),
    "dyn_generic": ("let qb: Box[int32] = Box { v: k }; let qd: dyn Tick = qb;", "Tick::xval(qd) + Tick::val(qd)"),
    "trait_static": ("", "Tick::xval(k) + Tick::addv(k, 2)"),
    "closure": ("let qf = |qy: int32| qy + k;", "qf(2) + qf(3)"),
    "closure_ref": ("let qr = ref(k); let qf = |qy: int32| { let _ = ref_set(qr, ref_get(qr) + qy); ref_get(qr) };", "qf(1) + qf(2)"),
    "closure_nested": ("let qf = |qy: int32| { let qg = |qz: int32| qz * qy + k; qg(2) };", "qf(3)"),
    "closure_field": ('let qo = Ops { tag: "t", inc: |qy: int32| qy + k, get: || k * 2 }; let qi = qo.inc; let qg = qo.get;', "qi(1) + qg()"),
    "closure_returned": ("let qf = mk_add(k); let qf2 = mk_add(10);", "qf(1) + qf2(k) + qf(2)"),
    "closure_returned_pair": ("let qp: ((int32) -> int32, () -> int32) = mk_pair(k); let qi = qp.0; let qg = qp.1; let _ = qi(2);", "qg() + qi(1)"),
    "fn_value": ("let qg = inc3;", "qg(k) + twice(inc3, k)"),
    "ref": ("let qr = ref(k); let _ = ref_set(qr, ref_get(qr) + 1);", "ref_get(qr)"),
    "vec": ("let qv: Vec[int32] = vec_new(); let qv = vec_push(vec_push(qv, k), 9);", "vec_get(qv, 0) + vec_len(qv)"),
    "array": ("let qa = [k, 2, 3];", "array_get(qa, 0) + array_get(qa, 2)"),
    "tuple": ("let qt = (k, (true, 5)); let qi = qt.1;", "(if qi.0 { qt.0 + qi.1 } else { 0 })"),
    "tuple_pat_wild": ('let (qa, _) = (pi("ta", k), pi("tb", 2));', "qa"),
    "tuple_pat_wild2": ('let (_, qb) = (pi("tc", 1), pi("td", k));', "qb"),
    "tuple_match": ("", "(match (k, true) { (0, _) => 0, (_, true) => k + 1, _ => 2 })"),
    "struct_pat": ("let P { a: qa, b: qb } = P { a: k, b: false };", "(if qb { 0 } else { qa })"),
    "struct_lit_order": ('let qp = P { b: pi("fb", 1) > 0, a: pi("fa", k) };', "qp.sum(1)"),
    "enum_match": ("", "(match B(k) { A => 0, B(qn) => qn + 1, C(_, qn) => qn })"),
    "enum_match2": ("", "(match C(true, k) { A => 0, B(qn) => qn, C(qf, qn) => if qf { qn + 2 } else { 0 } })"),
    "string": ("", 'string_len("ab" + int32_to_string(k))'),
    "while": ("let qc = ref(0); let qs = ref(0); while ref_get(qc) < 3 { ref_set(qs, ref_get(qs) + k); ref_set(qc, ref_get(qc) + 1) };", "ref_get(qs)"),
    "method": ("let qp = P { a: k, b: true };", "qp.sum(2) + P::sum(qp, 1)"),
    "if_chain": ("", "(if k > 5 { 1 } else { if k > 1 { k } else { 0 } })"),
    "int_match": ("", "(match k { 0 => 10, 1 => 11, 3 => 13, _ => k })"),
    "method_generic": ("let qm: (int32, bool) = P { a: k, b: true }.tagm(true); let qn: (int32, string) = P { a: k, b: true }.tagm(\"s\");",
                       "qm.0 + qn.0 + P { a: 1, b: k > 1 }.pickm(10, 20) + string_len(P { a: 1, b: false }.pickm(\"x\", \"yy\"))"),
    "computed_callee": ("", 'pick(k)(pi("arg", k))'),
    "callee_array": ("let qh = [inc3, dbl];", 'array_get(qh, 1)(pi("a2", k)) + array_get(qh, 0)(1)'),
    "go_stmt": ('go || string_println("g1"); go bgw;', "k"),
    "go_tail_while": ('let qc = ref(0); while ref_get(qc) < 2 { let _ = ref_set(qc, ref_get(qc) + 1); go || string_println("spawned") };', "ref_get(qc)"),
    "go_tail_if": ('if k > 0 { go bgw } else { () }; let _ = match k { 0 => go || string_println("z"), _ => () };', "k"),
    "str_pat_escape": ("", '(match "a" + "\\n" { "a\\n" => k, "\\t" => 2, "q\\"" => 4, "\\\\" => 5, _ => 3 })'),
    "str_pat_escape2": ('let qs = if k > 1 { "\\t" } else { "\\\\" };', '(match qs { "t" => 1, "\\t" => 2, "\\\\" => 5, _ => 3 }) + (match ("q\\"", k) { ("q\\"", 3) => 10, ("q", _) => 20, _ => 30 })'),
    "recursion": ("", "fact(k + 2) + (if is_ev(k + 4) { 1 } else { 0 })"),
    "shadow": ("let qs = k; let qs = qs + 1; let qs = qs * 2;", "qs"),
    "string_cmp": ("", '(if "ab" + int32_to_string(k) < "ab3" { 1 } else { 2 }) + (if int32_to_string(k) == "3" { 10 } else { 20 })'),
    "string_get": ("", 'string_len(string_get("hello", 1) + "x") + k'),
    "array_set": ("let qa = [1, 2, 3]; let qa2 = array_set(qa, 1, k);", "array_get(qa2, 1) * 10 + array_get(qa, 1)"),
    "ref_struct": ("let qr = ref(P { a: k, b: true }); let _ = ref_set(qr, P { a: ref_get(qr).a + 1, b: false });", "ref_get(qr).a"),
    "vec_struct": ("let qv: Vec[P] = vec_new(); let qv = vec_push(qv, P { a: k, b: true });", "vec_get(qv, 0).a + vec_len(qv)"),
    "nested_pat": ("", "(match (B(k), C(true, 2)) { (B(qn), C(true, qm)) => qn + qm, (A, _) => 0, _ => 1 })"),
    "bool_ops": ("", "(if !(k > 1) || k == 0 { 1 } else { 0 }) + (if k > 0 && k < 10 { 2 } else { 3 })"),
    "uint8_wrap": ("let qu: uint8 = 250u8; let qw = qu + 10u8;", "(if qw < 10u8 { k } else { 0 })"),
    "int64": ("let ql: int64 = 4000000000i64; let qm = ql * 2i64;", "(if qm > 7000000000i64 { k } else { 0 })"),
    "tuple_ret": ("let qt: (int32, bool) = mkt(k);", "(if qt.1 { qt.0 } else { 0 - qt.0 })"),
    "unit_value": ("let qu = (); let _ = qu;", "k"),
    "struct_nested": ("let qt: Two[P, (int32, int32)] = Two { l: P { a: k, b: true }, r: (1, k) }; let ql2: P = qt.l; let qr2: (int32, int32) = qt.r;", "ql2.a + qr2.1"),
    "enum_in_struct": ("let qt: Two[E, E] = Two { l: B(k), r: A };", "(match qt.l { B(qn) => qn, _ => 0 }) + (match qt.r { A => 1, _ => 2 })"),
    # unit-valued statements whose value is discarded: some arms do nothing, others have an effect
    "unit_match_lit": ('let _ = match k { 0 => (), _ => string_println("other") };', "k"),
    "unit_match_lit2": ('let _ = match k { 0 => string_println("zero"), 3 => (), _ => () };', "k + 1"),
    "unit_match_stmt": ('match k { 3 => (), 0 => string_println("z"), _ => string_println("o") };', "k"),
    "unit_match_str": ('let _ = match int32_to_string(k) { "0" => (), "3" => string_println("three"), _ => () };', "k"),
    "unit_match_enum": ('let _ = match B(k) { A => (), B(qn) => string_println(int32_to_string(qn)), C(_, _) => () };', "k"),
    "unit_match_bool": ('let _ = match k > 1 { true => (), false => string_println("small") };', "k"),
    "unit_if": ('let _ = if k > 0 { () } else { string_println("nonpos") };', "k"),
    "unit_if2": ('if k > 0 { string_println("pos") } else { () };', "k"),
    "unit_while_match": ('let qc = ref(0); while ref_get(qc) < 2 { let _ = match ref_get(qc) { 0 => (), _ => string_println("it") }; ref_set(qc, ref_get(qc) + 1) };', "ref_get(qc)"),
}

# positions: name -> (extra top-level items, function body) with {S} = the feature's statements, {X} = its expression,
# {N} = the cell number. Where the position is a block, the statements sit inside it.
POSITIONS = {
    "direct": ("", "{S} {X}"),
    "let": ("", "{S} let px = {X}; px + 1"),
    "arg1": ("", "{S} add({X}, 1)"),
    "arg2": ("", "{S} add(1, {X})"),
    "bin_l": ("", "{S} {X} + 1"),
    "bin_r": ("", "{S} 1 + {X}"),
    "neg": ("", "{S} -({X})"),
    "if_cond": ("", "{S} if {X} > 2 {{ 1 }} else {{ 2 }}"),
    "if_then": ("", "if k > 0 {{ {S} {X} }} else {{ 0 }}"),
    "if_else": ("", "if k < 0 {{ 0 }} else {{ {S} {X} }}"),
    "while_cond": ("", "{S} let pc = ref(0); while ref_get(pc) + {X} - {X} < 2 {{ ref_set(pc, ref_get(pc) + 1) }}; ref_get(pc)"),
    "while_body": ("", "let pc = ref(0); let ps = ref(0); while ref_get(pc) < 2 {{ {S} let _ = ref_set(ps, ref_get(ps) + {X}); ref_set(pc, ref_get(pc) + 1) }}; ref_get(ps)"),
    "while_body_last": ("", "let pc = ref(0); let ps = ref(0); while ref_get(pc) < 2 {{ let _ = ref_set(pc, ref_get(pc) + 1); {S} ref_set(ps, ref_get(ps) + {X}) }}; ref_get(ps)"),
    "match_scrut": ("", "{S} match {X} {{ 0 => 0, 1 => 1, _ => 2 }}"),
    "match_lit_arm": ("", "match k - k {{ 0 => {{ {S} {X} }}, _ => 1 }}"),
    "match_default": ("", "match k {{ 77 => 1, _ => {{ {S} {X} }} }}"),
    "match_enum_arm": ("", "match B(k) {{ A => 0, B(pn) => {{ {S} pn + {X} }}, C(_, _) => 1 }}"),
    "match_tuple_arm": ("", "match (k, true) {{ (77, _) => 0, (_, true) => {{ {S} {X} }}, _ => 2 }}"),
    "match_str_default": ("", 'match "s" {{ "a" => 1, _ => {{ {S} {X} }} }}'),
    "struct_field": ("", "{S} let pp = P {{ a: {X}, b: true }}; pp.a"),
    "gen_struct_field": ("", "{S} let pb = Box {{ v: {X} }}; pb.v"),
    "tuple_comp": ("", "{S} (1, {X}).1"),
    "array_elem": ("", "{S} array_get([{X}, 2], 0)"),
    "enum_payload": ("", "{S} match B({X}) {{ A => 0, B(pn) => pn, C(_, pn) => pn }}"),
    "closure_body": ("", "let pf = |py: int32| {{ {S} py + {X} }}; pf(1) + pf(2)"),
    "closure_body_capture": ("", "{S} let pf = |py: int32| py + {X}; pf(1) + pf(2)"),
    "nested_closure": ("", "let pf = |py: int32| {{ let pg = |pz: int32| {{ {S} pz + {X} }}; pg(py) }}; pf(1)"),
    "closure_arg": ("", "{S} let pf = |py: int32| py + 1; pf({X})"),
    "generic_arg": ("", "{S} gid({X})"),
    "generic_arg2": ("", "{S} gor(gsome({X}), 0)"),
    "dyn_arg": ("", "{S} let pd: dyn Tick = 4; Tick::addv(pd, {X})"),
    "method_arg": ("", "{S} let pp = P {{ a: 1, b: true }}; pp.sum({X})"),
    "method_recv": ("", "{S} P {{ a: {X}, b: false }}.sum(1)"),
    "vec_push": ("", "{S} let pv: Vec[int32] = vec_new(); vec_get(vec_push(pv, {X}), 0)"),
    "ref_init": ("", "{S} ref_get(ref({X}))"),
    "ref_set": ("", "{S} let pr = ref(0); let _ = ref_set(pr, {X}); ref_get(pr)"),
    "block_tail": ("", 'let _ = pi("bt", 1); {S} {X}'),
    "discard": ("", "{S} let _ = {X}; k"),
    "let_tuple": ("", '{S} let (pa, _) = ({X}, pi("lw", 2)); pa'),
    "let_tuple2": ("", '{S} let (_, pb) = (pi("lv", 1), {X}); pb'),
    "to_string": ("", "{S} string_len(int32_to_string({X}))"),
    "string_concat": ("", '{S} string_len("a" + int32_to_string({X}) + "b")'),
    "cmp_operand": ("", "{S} if {X} == k {{ 1 }} else {{ 0 }}"),
    "array_set_val": ("", "{S} array_get(array_set([1, 2], 0, {X}), 0)"),
    "vec_index": ("", "{S} let pv2: Vec[int32] = vec_push(vec_new(), 8); vec_get(pv2, {X} - {X})"),
    "tuple_fn_arg": ("", "{S} fst2(({X}, 1))"),
    "recursive_arg": ("", "{S} fact({X} - {X} + 3)"),
    "nested_if": ("", "if k >= 0 {{ if k < 100 {{ {S} {X} }} else {{ 1 }} }} else {{ 2 }}"),
    "nested_while": ("", "let pc = ref(0); let ps = ref(0); while ref_get(pc) < 2 {{ let pd = ref(0); while ref_get(pd) < 2 {{ {S} let _ = ref_set(ps, ref_get(ps) + {X}); ref_set(pd, ref_get(pd) + 1) }}; ref_set(pc, ref_get(pc) + 1) }}; ref_get(ps)"),
    "arm_block_let": ("", "match B(k) {{ A => 0, B(pn) => {{ let pm = pn + 1; {S} pm + {X} }}, C(_, _) => 1 }}"),
    "closure_in_arm": ("", "match k {{ 77 => 0, _ => {{ let pf = |py: int32| {{ {S} py + {X} }}; pf(1) }} }}"),
    "closure_in_while": ("", "let pc = ref(0); let ps = ref(0); while ref_get(pc) < 2 {{ let pf = |py: int32| {{ {S} py + {X} }}; let _ = ref_set(ps, ref_get(ps) + pf(1)); ref_set(pc, ref_get(pc) + 1) }}; ref_get(ps)"),
    "fn_body": ("fn h{N}(k: int32) -> int32 {{ {S} {X} }}\n", "h{N}(k)"),
    "generic_fn_body": ("fn gh{N}[T](t: T, k: int32) -> int32 {{ let _ = gid(t); {S} {X} }}\n", 'gh{N}(true, k) + gh{N}("s", k)'),
    "method_body": ("struct M{N} {{ k: int32 }}\nimpl M{N} {{ fn run(self: M{N}) -> int32 {{ let k: int32 = self.k; {S} {X} }} }}\n", "M{N} {{ k: k }}.run()"),
    "trait_method_body": ("struct T{N} {{ k: int32 }}\ntrait R{N} {{ fn run(Self) -> int32; }}\nimpl R{N} for T{N} {{ fn run(self: T{N}) -> int32 {{ let k: int32 = self.k; {S} {X} }} }}\n",
                          "let pt = T{N} {{ k: k }}; let pd: dyn R{N} = pt; R{N}::run(pt) + R{N}::run(pd)"),
}


def cell(n, pos, feat):
    items, body = POSITIONS[pos]
    st, x = FEATURES[feat]
    return items.format(S=st, X=x, N=n), "fn cell%d(k: int32) -> int32 { %s }\n" % (n, body.format(S=st, X=x, N=n))


def program(cells, kvals=(3, 0)):
    """cells: [(pos, feat)] -> source"""
    out = [PRELUDE]
    calls = []
    for n, (pos, feat) in enumerate(cells):
        items, fn = cell(n, pos, feat)
        out.append(items + fn)
        for kv in kvals:
            calls.append('    let _ = string_println("%s/%s(%d)=" + int32_to_string(cell%d(%d)));' % (pos, feat, kv, n, kv))
    out.append("fn main() {\n" + "\n".join(calls) + "\n    ()\n}\n")
    return "".join(out)


# a struct field of function type can hold one closure per program (known finding C02-closure-field-second-closure)
ONCE = "closure_field"


def all_cells():
    return [(p, f) for p in POSITIONS for f in FEATURES if not (f == ONCE and p == "generic_fn_body")]


def programs(rng, per=6, cells=None):
    """-> [(source, [(pos, feat)])] covering every given cell once, `per` cells per program, in a seeded random order"""
    cs = list(all_cells() if cells is None else cells)
    rng.shuffle(cs)
    once = [c for c in cs if c[1] == ONCE]
    rest = [c for c in cs if c[1] != ONCE]
    groups = [rest[i : i + per] for i in range(0, len(rest), per)] or [[]]
    for i, c in enumerate(once):
        if i < len(groups):
            groups[i].append(c)
        else:
            groups.append([c])
    return [(program(g), g) for g in groups if g]


SUBSETS = {
    "generic": (lambda p, f: f.startswith("gen_") or f in ("dyn_generic", "method_generic") or p.startswith("generic_") or p in ("gen_struct_field", "enum_payload")),
    "closure": (lambda p, f: f.startswith("closure") or f == "fn_value" or "closure" in p),
    "effect": (lambda p, f: f in ("effect", "effect2", "tuple_pat_wild", "tuple_pat_wild2", "struct_lit_order", "dyn_struct", "closure_ref", "ref", "while", "vec", "computed_callee", "callee_array") or f.startswith("unit_") or f.startswith("go_")
               or p in ("discard", "let_tuple", "let_tuple2", "block_tail", "while_cond", "while_body", "while_body_last")),
    "match": (lambda p, f: "match" in f or "match" in p or f.startswith("str_pat") or f.startswith("gen_enum") or f in ("gen_nested", "struct_pat", "tuple_pat_wild", "tuple_pat_wild2", "unit_if", "unit_if2") or p in ("let_tuple", "let_tuple2", "enum_payload")),
    "calls": (lambda p, f: f.startswith("dyn_") or f in ("trait_static", "method", "fn_value") or p in ("method_arg", "method_recv", "method_body", "trait_method_body", "dyn_arg")),
}


def sources(run, tag, subset=None, per_quick=10):
    """program sources for a check: every cell (of the subset) once in the quick tier, three differently shuffled covers in the thorough tier"""
    cells = [c for c in all_cells() if subset is None or SUBSETS[subset](*c)]
    rng = run.sub_rng("matrix-" + tag)
    if run.tier == "quick":
        return [s for s, _ in programs(rng, per=per_quick, cells=cells)]
    out = []
    for per in (6, 4, 9):
        out += [s for s, _ in programs(rng, per=per, cells=cells)]
    return out
