"""goast (parsed from Rust Debug output by rustdbg) -> Coq term of Sem.GoAst"""
import vlib


class Conv(Exception):
    pass


def S(s):
    return vlib.coq_Nlist(list(s.encode("utf-8")))


PRIM = {"TVoid": "GVoid", "TUnit": "GUnit", "TBool": "GBool", "TInt8": "GInt8", "TInt16": "GInt16", "TInt32": "GInt32", "TInt64": "GInt64",
        "TUint8": "GUint8", "TUint16": "GUint16", "TUint32": "GUint32", "TUint64": "GUint64", "TFloat32": "GFloat32", "TFloat64": "GFloat64", "TString": "GString"}


def ty(t):
    if t[0] == "unit":
        return PRIM[t[1]]
    assert t[0] == "struct", t
    n, f = t[1], t[2]
    if n == "TStruct":
        return "(GStruct %s [%s])" % (S(f["name"][1]), "; ".join("(%s, %s)" % (S(x[1][0][1]), ty(x[1][1])) for x in f["fields"][1]))
    if n == "TPointer":
        return "(GPointer %s)" % ty(f["elem"])
    if n == "TFunc":
        return "(GFunc [%s] %s)" % ("; ".join(ty(x) for x in f["params"][1]), ty(f["ret_ty"]))
    if n == "TName":
        return "(GName %s)" % S(f["name"][1])
    if n == "TArray":
        return "(GArray %s %s)" % (f["len"][1], ty(f["elem"]))
    if n == "TSlice":
        return "(GSlice %s)" % ty(f["elem"])
    raise Conv("type " + n)


UN = {"Neg": "UNeg", "Not": "UNot", "AddrOf": "UAddrOf", "Deref": "UDeref"}
BIN = {"Add": "BAdd", "Sub": "BSub", "Mul": "BMul", "Div": "BDiv", "Less": "BLess", "Greater": "BGreater", "LessEq": "BLessEq", "GreaterEq": "BGreaterEq", "Eq": "BEq", "NotEq": "BNotEq", "And": "BAnd", "Or": "BOr"}


def opt(x, f):
    if x[0] == "unit" and x[1] == "None":
        return "None"
    assert x[0] == "tuple" and x[1] == "Some"
    return "(Some %s)" % f(x[2][0])


def expr(e):
    assert e[0] == "struct", e
    n, f = e[1], e[2]
    t = ty(f["ty"])
    if n in ("Nil", "Void", "Unit"):
        return "(E%s %s)" % (n, t)
    if n == "Var":
        return "(EVar %s %s)" % (S(f["name"][1]), t)
    if n == "Bool":
        return "(EBool %s %s)" % ("true" if f["value"][1] else "false", t)
    if n == "Int":
        return "(EInt %s %s)" % (S(f["value"][1]), t)
    if n == "Float":
        return "(EFloat %s %s)" % (S(f["value"][1]), t)
    if n == "String":
        return "(EString %s %s)" % (S(f["value"][1]), t)
    if n == "Call":
        return "(ECall %s [%s] %s)" % (expr(f["func"]), "; ".join(expr(a) for a in f["args"][1]), t)
    if n == "UnaryOp":
        return "(EUnary %s %s %s)" % (UN[f["op"][1]], expr(f["expr"]), t)
    if n == "BinaryOp":
        return "(EBinary %s %s %s %s)" % (BIN[f["op"][1]], expr(f["lhs"]), expr(f["rhs"]), t)
    if n == "FieldAccess":
        return "(EField %s %s %s)" % (expr(f["obj"]), S(f["field"][1]), t)
    if n == "Index":
        return "(EIndex %s %s %s)" % (expr(f["array"]), expr(f["index"]), t)
    if n == "Cast":
        return "(ECast %s %s)" % (expr(f["expr"]), t)
    if n == "StructLiteral":
        return "(EStructLit [%s] %s)" % ("; ".join("(%s, %s)" % (S(x[1][0][1]), expr(x[1][1])) for x in f["fields"][1]), t)
    if n == "ArrayLiteral":
        return "(EArrayLit [%s] %s)" % ("; ".join(expr(x) for x in f["elems"][1]), t)
    if n == "Block":
        return "(EBlock %s %s %s)" % (stmts(f["stmts"]), opt(f["expr"], expr), t)
    raise Conv("expr " + n)


def stmts(l):
    assert l[0] == "list"
    return "[%s]" % "; ".join(stmt(x) for x in l[1])


def block(b):
    assert b[0] == "struct" and b[1] == "Block"
    return stmts(b[2]["stmts"])


def stmt(s):
    if s[0] == "tuple" and s[1] == "Expr":
        return "(SExpr %s)" % expr(s[2][0])
    if s[0] == "unit" and s[1] == "Break":
        return "SBreak"
    assert s[0] == "struct", s
    n, f = s[1], s[2]
    if n == "Go":
        return "(SGo %s)" % expr(f["call"])
    if n == "VarDecl":
        return "(SVarDecl %s %s %s)" % (S(f["name"][1]), ty(f["ty"]), opt(f["value"], expr))
    if n == "Assignment":
        return "(SAssign %s %s)" % (S(f["name"][1]), expr(f["value"]))
    if n == "FieldAssign":
        return "(SFieldAssign %s %s)" % (expr(f["target"]), expr(f["value"]))
    if n == "PointerAssign":
        return "(SPointerAssign %s %s)" % (expr(f["pointer"]), expr(f["value"]))
    if n == "IndexAssign":
        return "(SIndexAssign %s %s %s)" % (expr(f["array"]), expr(f["index"]), expr(f["value"]))
    if n == "Return":
        return "(SReturn %s)" % opt(f["expr"], expr)
    if n == "If":
        return "(SIf %s %s %s)" % (expr(f["cond"]), block(f["then"]), opt(f["else_"], block))
    if n == "Loop":
        return "(SLoop %s)" % block(f["body"])
    if n == "SwitchExpr":
        return "(SSwitchExpr %s [%s] %s)" % (expr(f["expr"]), "; ".join("(%s, %s)" % (expr(c[1][0]), block(c[1][1])) for c in f["cases"][1]), opt(f["default"], block))
    if n == "SwitchType":
        return "(SSwitchType %s %s [%s] %s)" % (opt(f["bind"], lambda x: S(x[1])), expr(f["expr"]), "; ".join("(%s, %s)" % (ty(c[1][0]), block(c[1][1])) for c in f["cases"][1]), opt(f["default"], block))
    raise Conv("stmt " + n)


def params(l):
    return "[%s]" % "; ".join("(%s, %s)" % (S(x[1][0][1]), ty(x[1][1])) for x in l[1])


def item(it):
    assert it[0] == "tuple", it
    k, b = it[1], it[2][0]
    f = b[2]
    if k == "Package":
        return "(IPackage %s)" % S(f["name"][1])
    if k == "Import":
        return "(IImport [%s])" % "; ".join(S(x[2]["path"][1]) for x in f["specs"][1])
    if k == "Interface":
        return "(IInterface %s [%s])" % (S(f["name"][1]), "; ".join(S(m[2]["name"][1]) for m in f["methods"][1]))
    if k == "Struct":
        ms = "; ".join("(%s, %s)" % (S(type_name(m[2]["receiver"][2]["ty"])), S(m[2]["name"][1])) for m in f["methods"][1])
        return "(IStruct %s [%s] [%s])" % (S(f["name"][1]), "; ".join("(%s, %s)" % (S(x[2]["name"][1]), ty(x[2]["ty"])) for x in f["fields"][1]), ms)
    if k == "TypeAlias":
        return "(ITypeAlias %s %s)" % (S(f["name"][1]), ty(f["ty"]))
    if k == "Fn":
        return "(IFn {| f_name := %s; f_params := %s; f_ret := %s; f_body := %s |})" % (S(f["name"][1]), params(f["params"]), opt(f["ret_ty"], ty), block(f["body"]))
    raise Conv("item " + k)


def type_name(t):
    if t[0] == "struct" and t[1] in ("TName", "TStruct"):
        return t[2]["name"][1]
    return "?"


def file(tree):
    assert tree[0] == "struct" and tree[1] == "File"
    return "[\n%s\n]" % ";\n".join(item(i) for i in tree[2]["toplevels"][1])
