"""Type-directed generator of goml programs with observable effects in every position.
Known-finding classes are masked: the right operand of && / || is always effect-free
(C09 short-circuit finding); closures only flow through let + direct call (C08 finding);
no floats; no `go`."""

PRELUDE = """struct P { a: int32, b: bool }
enum E { A, B(int32), C(bool, int32) }
fn pi(t: string, v: int32) -> int32 { let _ = string_println(t); v }
fn pb(t: string, v: bool) -> bool { let _ = string_println(t); v }
fn ps(t: string, v: string) -> string { let _ = string_println(t); v }
trait Tick { fn tick(Self) -> unit; fn val(Self) -> int32; }
struct K { c: Ref[int32] }
impl Tick for K {
    fn tick(self: K) -> unit { let _ = string_println("tick-K"); ref_set(self.c, ref_get(self.c) + 1) }
    fn val(self: K) -> int32 { ref_get(self.c) }
}
impl Tick for int32 {
    fn tick(self: int32) -> unit { string_println("tick-" + int32_to_string(self)) }
    fn val(self: int32) -> int32 { self + 1 }
}
fn show_e(e: E) -> string {
    match e { A => "A", B(n) => "B(" + int32_to_string(n) + ")", C(f, n) => "C(" + bool_to_string(f) + "," + int32_to_string(n) + ")" }
}
"""


class G:
    def __init__(self, rng, features=None, fail_rate=0.03):
        self.rng = rng
        self.n = 0
        self.tag = 0
        self.fail_rate = fail_rate
        self.feat = features or {"closure", "ref", "vec", "match", "while", "struct", "tuple", "array", "string", "dyn", "bare"}
        self.fns = []  # (name, nparams)

    def fresh(self, p="v"):
        self.n += 1
        return "%s%d" % (p, self.n)

    def t(self):
        self.tag += 1
        return '"p%d"' % self.tag

    # environments: dict type -> list of variable names
    def var(self, env, ty):
        vs = env.get(ty, [])
        return self.rng.choice(vs) if vs else None

    def int_(self, env, d):
        r = self.rng.random()
        v = self.var(env, "int")
        if d <= 0 or r < 0.22:
            if v and self.rng.random() < 0.6:
                return v
            return str(self.rng.choice([0, 1, 2, 3, 5, 7, 10, 100, 2147483647]))
        if r < 0.36:
            op = self.rng.choice(["+", "-", "*"])
            return "(%s %s %s)" % (self.int_(env, d - 1), op, self.int_(env, d - 1))
        if r < 0.42:
            den = self.int_(env, d - 1) if self.rng.random() < self.fail_rate * 4 else str(self.rng.choice([1, 2, 3, 7]))
            return "(%s / %s)" % (self.int_(env, d - 1), den)
        if r < 0.52:
            return "pi(%s, %s)" % (self.t(), self.int_(env, d - 1))
        if r < 0.6:
            return "(if %s { %s } else { %s })" % (self.bool_(env, d - 1), self.int_(env, d - 1), self.int_(env, d - 1))
        if r < 0.67 and self.fns:
            f, n = self.rng.choice(self.fns)
            return "%s(%s)" % (f, ", ".join(self.int_(env, d - 1) for _ in range(n)))
        if r < 0.72 and "ref" in self.feat and self.var(env, "ref"):
            return "ref_get(%s)" % self.var(env, "ref")
        if r < 0.77 and "closure" in self.feat and self.var(env, "clo"):
            return "%s(%s)" % (self.var(env, "clo"), self.int_(env, d - 1))
        if r < 0.81 and "tuple" in self.feat and self.var(env, "tup"):
            return "%s.0" % self.var(env, "tup")
        if r < 0.85 and "struct" in self.feat and self.var(env, "P"):
            return "%s.a" % self.var(env, "P")
        if r < 0.89 and "vec" in self.feat and self.var(env, "vec"):
            idx = self.rng.choice(["0", "0", "1", "9"]) if self.rng.random() < self.fail_rate * 3 else "0"
            return "vec_get(%s, %s)" % (self.var(env, "vec"), idx)
        if r < 0.905 and "dyn" in self.feat and self.var(env, "dyn"):
            return "Tick::val(%s)" % self.var(env, "dyn")
        if r < 0.93 and "match" in self.feat:
            return self.match_int(env, d - 1)
        if r < 0.96 and "string" in self.feat:
            return "string_len(%s)" % self.str_(env, d - 1)
        if "array" in self.feat and self.var(env, "arr"):
            return "array_get(%s, %s)" % (self.var(env, "arr"), self.rng.choice(["0", "1", "2"]))
        return "(0 - %s)" % self.int_(env, d - 1)

    def rpat(self, ty, d, binds):
        """random pattern of type ty in {int, bool, E, tup(int,bool), P}; binds: list collecting (name, type)"""
        r = self.rng.random()
        if r < 0.22:
            return "_"
        if r < 0.34:
            x = self.fresh("m")
            binds.append((x, ty))
            return x
        if ty == "int":
            return str(self.rng.choice([0, 1, 3]))
        if ty == "bool":
            return self.rng.choice(["true", "false"])
        if ty == "tup":
            return "(%s, %s)" % (self.rpat("int", d - 1, binds), self.rpat("bool", d - 1, binds))
        if ty == "E":
            k = self.rng.random()
            if k < 0.3:
                return "A"
            if k < 0.65:
                return "B(%s)" % self.rpat("int", d - 1, binds)
            return "C(%s, %s)" % (self.rpat("bool", d - 1, binds), self.rpat("int", d - 1, binds))
        if ty == "P":
            return "P { a: %s, b: %s }" % (self.rpat("int", d - 1, binds), self.rpat("bool", d - 1, binds))
        return "_"

    def match_matrix(self, env, d):
        ty = self.rng.choice(["tup", "tup", "E", "P", "int"])
        if ty == "tup":
            scrut = "(%s, %s)" % (self.int_(env, d - 1), self.bool_(env, d - 1))
        elif ty == "E":
            scrut = self.enum_(env, d - 1)
        elif ty == "P":
            scrut = "P { a: %s, b: %s }" % (self.int_(env, d - 1), self.bool_(env, d - 1))
        else:
            scrut = self.int_(env, d - 1)
        arms = []
        for _ in range(self.rng.randint(1, 4)):
            binds = []
            p = self.rpat(ty, 2, binds)
            e2 = {k: list(v) for k, v in env.items()}
            for x, t in binds:
                e2.setdefault({"int": "int", "bool": "bool", "E": "E", "tup": "tup", "P": "P"}[t], []).append(x)
            arms.append("%s => %s" % (p, self.int_(e2, d - 1)))
        arms.append("_ => %s" % self.int_(env, d - 1))
        return "(match %s { %s })" % (scrut, ", ".join(arms))

    def match_int(self, env, d):
        if self.rng.random() < 0.5:
            return self.match_matrix(env, d)
        k = self.rng.random()
        if k < 0.4:
            e = self.enum_(env, d)
            x, y = self.fresh("m"), self.fresh("m")
            e2 = dict(env)
            e2["int"] = env.get("int", []) + [x]
            arms = ["A => %s" % self.int_(env, d), "B(%s) => %s" % (x, self.int_(e2, d))]
            if self.rng.random() < 0.7:
                arms.append("C(_, %s) => %s" % (y, self.int_({**env, "int": env.get("int", []) + [y]}, d)))
            else:
                arms.append("_ => %s" % self.int_(env, d))
            if self.rng.random() < 0.3:
                self.rng.shuffle(arms)
                arms = [a for a in arms if not a.startswith("_")] + [a for a in arms if a.startswith("_")]
            return "(match %s { %s })" % (e, ", ".join(arms))
        if k < 0.7:
            return "(match %s { 0 => %s, 1 => %s, _ => %s })" % (self.int_(env, d), self.int_(env, d), self.int_(env, d), self.int_(env, d))
        if k < 0.85:
            return "(match (%s, %s) { (true, _) => %s, (false, true) => %s, _ => %s })" % (self.bool_(env, d), self.bool_(env, d), self.int_(env, d), self.int_(env, d), self.int_(env, d))
        return '(match %s { "a" => %s, _ => %s })' % (self.str_(env, d), self.int_(env, d), self.int_(env, d))

    def bool_(self, env, d):
        r = self.rng.random()
        v = self.var(env, "bool")
        if d <= 0 or r < 0.25:
            if v and self.rng.random() < 0.5:
                return v
            return self.rng.choice(["true", "false"])
        if r < 0.5:
            return "(%s %s %s)" % (self.int_(env, d - 1), self.rng.choice(["<", ">", "<=", ">=", "==", "!="]), self.int_(env, d - 1))
        if r < 0.62:
            return "pb(%s, %s)" % (self.t(), self.bool_(env, d - 1))
        if r < 0.7:
            return "(!%s)" % self.bool_(env, d - 1)
        if r < 0.85:
            # right operand effect-free (atom): the known short-circuit finding is masked
            rhs = v if v else self.rng.choice(["true", "false"])
            return "(%s %s %s)" % (self.bool_(env, d - 1), self.rng.choice(["&&", "||"]), rhs)
        if r < 0.92 and "struct" in self.feat and self.var(env, "P"):
            return "%s.b" % self.var(env, "P")
        return "(if %s { %s } else { %s })" % (self.bool_(env, d - 1), self.bool_(env, d - 1), self.bool_(env, d - 1))

    def str_(self, env, d):
        r = self.rng.random()
        v = self.var(env, "str")
        if d <= 0 or r < 0.3:
            if v and self.rng.random() < 0.5:
                return v
            return self.rng.choice(['"a"', '"b"', '""', '"xyz"'])
        if r < 0.5:
            return "(%s + %s)" % (self.str_(env, d - 1), self.str_(env, d - 1))
        if r < 0.7:
            return "int32_to_string(%s)" % self.int_(env, d - 1)
        if r < 0.8:
            return "bool_to_string(%s)" % self.bool_(env, d - 1)
        if r < 0.9:
            return "ps(%s, %s)" % (self.t(), self.str_(env, d - 1))
        return "show_e(%s)" % self.enum_(env, d - 1)

    def enum_(self, env, d):
        v = self.var(env, "E")
        r = self.rng.random()
        if v and r < 0.4:
            return v
        if r < 0.55:
            return "A"
        if r < 0.8:
            return "B(%s)" % self.int_(env, d - 1)
        return "C(%s, %s)" % (self.bool_(env, d - 1), self.int_(env, d - 1))

    def unit_(self, env, d):
        """an expression of type unit with an observable effect"""
        r = self.rng.random()
        if r < 0.3:
            return "string_println(%s)" % self.str_(env, d - 1)
        if r < 0.45 and self.var(env, "ref"):
            return "ref_set(%s, %s)" % (self.var(env, "ref"), self.int_(env, d - 1))
        if r < 0.7 and "dyn" in self.feat and self.var(env, "dyn"):
            return "Tick::tick(%s)" % self.var(env, "dyn")
        if r < 0.8 and "dyn" in self.feat and self.var(env, "int"):
            return "Tick::tick(%s)" % self.var(env, "int")
        if r < 0.9:
            return "(if %s { %s } else { %s })" % (self.bool_(env, d - 1), self.unit_(env, d - 1) if d > 0 else "()", self.unit_(env, d - 1) if d > 0 else "()")
        return "string_print(%s)" % self.str_(env, d - 1)

    def stmts(self, env, d, n):
        """returns list of statement strings; extends env (copy) for following statements"""
        out = []
        env = {k: list(v) for k, v in env.items()}
        for _ in range(n):
            r = self.rng.random()
            if r < 0.2:
                x = self.fresh()
                out.append("let %s = %s" % (x, self.int_(env, d)))
                env.setdefault("int", []).append(x)
            elif r < 0.28:
                x = self.fresh()
                out.append("let %s = %s" % (x, self.bool_(env, d)))
                env.setdefault("bool", []).append(x)
            elif r < 0.34 and "string" in self.feat:
                x = self.fresh()
                out.append("let %s = %s" % (x, self.str_(env, d)))
                env.setdefault("str", []).append(x)
            elif r < 0.38:
                out.append("let _ = string_println(%s)" % self.str_(env, d))
            elif r < 0.42 and "bare" in self.feat:
                out.append(self.unit_(env, d))
            elif r < 0.48 and "ref" in self.feat:
                x = self.fresh("r")
                out.append("let %s = ref(%s)" % (x, self.int_(env, d - 1)))
                env.setdefault("ref", []).append(x)
            elif r < 0.56 and "ref" in self.feat and self.var(env, "ref"):
                out.append("let _ = ref_set(%s, %s)" % (self.var(env, "ref"), self.int_(env, d)))
            elif r < 0.62 and "closure" in self.feat:
                x, p = self.fresh("f"), self.fresh("a")
                body_env = {k: list(v) for k, v in env.items()}
                body_env.setdefault("int", []).append(p)
                body_env.pop("clo", None)
                out.append("let %s = |%s: int32| %s" % (x, p, self.int_(body_env, d - 1)))
                env.setdefault("clo", []).append(x)
            elif r < 0.67 and "tuple" in self.feat:
                x = self.fresh("t")
                out.append("let %s = (%s, %s)" % (x, self.int_(env, d - 1), self.bool_(env, d - 1)))
                env.setdefault("tup", []).append(x)
            elif r < 0.72 and "struct" in self.feat:
                x = self.fresh("s")
                out.append("let %s = P { a: %s, b: %s }" % (x, self.int_(env, d - 1), self.bool_(env, d - 1)))
                env.setdefault("P", []).append(x)
            elif r < 0.745 and "dyn" in self.feat:
                x = self.fresh("d")
                if self.var(env, "ref") and self.rng.random() < 0.6:
                    out.append("let %s: dyn Tick = K { c: %s }" % (x, self.var(env, "ref")))
                else:
                    y = self.fresh()
                    out.append("let %s: int32 = %s" % (y, self.int_(env, d - 1)))
                    out.append("let %s: dyn Tick = %s" % (x, y))
                    env.setdefault("int", []).append(y)
                env.setdefault("dyn", []).append(x)
            elif r < 0.77:
                x = self.fresh("e")
                out.append("let %s = %s" % (x, self.enum_(env, d)))
                env.setdefault("E", []).append(x)
            elif r < 0.82 and "vec" in self.feat:
                x = self.fresh("w")
                base = self.var(env, "vec")
                if base and self.rng.random() < 0.5:
                    out.append("let %s = vec_push(%s, %s)" % (x, base, self.int_(env, d - 1)))
                else:
                    y = self.fresh("w")
                    out.append("let %s: Vec[int32] = vec_new()" % y)
                    out.append("let %s = vec_push(%s, %s)" % (x, y, self.int_(env, d - 1)))
                env.setdefault("vec", []).append(x)
            elif r < 0.86 and "array" in self.feat:
                x = self.fresh("q")
                out.append("let %s = [%s, %s, %s]" % (x, self.int_(env, d - 1), self.int_(env, d - 1), self.int_(env, d - 1)))
                env.setdefault("arr", []).append(x)
            elif r < 0.92 and "while" in self.feat and "ref" in self.feat:
                c = self.fresh("c")
                lim = self.rng.choice([0, 1, 2, 3])
                inner = self.stmts(env, d - 1, self.rng.randint(1, 2))[0]
                out.append("let %s = ref(0)" % c)
                last = self.unit_(env, d - 1) if "bare" in self.feat and self.rng.random() < 0.6 else None
                body = "; ".join(inner + ["ref_set(%s, ref_get(%s) + 1)" % (c, c)] + ([last] if last else []))
                out.append("while %s { %s }" % ("pb(%s, ref_get(%s) < %d)" % (self.t(), c, lim), body))
            elif r < 0.96:
                tpat = self.rng.random()
                if tpat < 0.5 and "tuple" in self.feat:
                    a, b = self.fresh(), self.fresh()
                    out.append("let (%s, %s) = (%s, %s)" % (a, b, self.int_(env, d - 1), self.bool_(env, d - 1)))
                    env.setdefault("int", []).append(a)
                    env.setdefault("bool", []).append(b)
                else:
                    out.append("let _ = %s" % self.int_(env, d))
            else:
                out.append("let _ = if %s { string_println(%s) } else { () }" % (self.bool_(env, d), self.str_(env, d - 1)))
        return out, env

    def program(self, depth=3):
        self.fns = []
        text = PRELUDE
        for k in range(self.rng.randint(0, 3)):
            n = self.rng.randint(1, 2)
            params = [self.fresh("x") for _ in range(n)]
            env = {"int": list(params)}
            ss, env2 = self.stmts(env, depth - 1, self.rng.randint(0, 2))
            body = "; ".join(ss + [self.int_(env2, depth - 1)])
            name = "f%d" % k
            text += "fn %s(%s) -> int32 {\n    %s\n}\n" % (name, ", ".join("%s: int32" % p for p in params), body)
            self.fns.append((name, n))
        ss, env = self.stmts({}, depth, self.rng.randint(3, 8))
        final = ["string_println(int32_to_string(%s))" % self.int_(env, depth)]
        text += "fn main() {\n    %s\n}\n" % ";\n    ".join(ss + final)
        return text


def matrix_program(rng):
    """a function matching on a small product type with random arms, called on a grid of values"""
    g = G(rng)
    ty = rng.choice(["tup", "tup", "E", "P", "tupE"])
    def pat(t):
        binds = []
        if t == "tupE":
            return "(%s, %s)" % (g.rpat("E", 2, binds), g.rpat("int", 1, binds)), binds
        return g.rpat(t, 2, binds), binds
    arms = []
    for k in range(rng.randint(2, 5)):
        p, binds = pat(ty)
        ints = [x for x, t in binds if t == "int"]
        body = "%d" % (k + 1) if not ints or rng.random() < 0.5 else "(%d + %s)" % (100 * (k + 1), ints[0])
        arms.append("%s => %s" % (p, body))
    arms.append("_ => 0")
    src_ty = {"tup": "(int32, bool)", "E": "E", "P": "P", "tupE": "(E, int32)"}[ty]
    text = PRELUDE + "fn g(s: %s) -> int32 {\n    match s { %s }\n}\n" % (src_ty, ", ".join(arms))
    ints = [0, 1, 2, 3]
    es = ["A", "B(0)", "B(1)", "B(3)", "C(true, 0)", "C(false, 1)", "C(true, 3)"]
    if ty == "tup":
        vals = ["(%d, %s)" % (i, b) for i in ints for b in ("true", "false")]
    elif ty == "E":
        vals = es
    elif ty == "P":
        vals = ["P { a: %d, b: %s }" % (i, b) for i in ints for b in ("true", "false")]
    else:
        vals = ["(%s, %d)" % (e, i) for e in es for i in (0, 1, 3)]
    text += "fn main() {\n" + "".join("    let _ = string_println(int32_to_string(g(%s)));\n" % v for v in vals) + "    ()\n}\n"
    return text


def closure_program(rng):
    """closures whose captured variables each occur in exactly one syntactic position of the body"""
    caps = []   # (decl, name, type)
    n = [0]

    def fresh(p):
        n[0] += 1
        return "%s%d" % (p, n[0])

    def cap(ty):
        x = fresh("k")
        if ty == "int":
            caps.append(("let %s = %d" % (x, rng.choice([2, 3, 5, 7, 11])), x))
        elif ty == "ref":
            caps.append(("let %s = ref(%d)" % (x, rng.choice([1, 2, 3])), x))
        elif ty == "bool":
            caps.append(("let %s = %s" % (x, rng.choice(["true", "false"])), x))
        elif ty == "str":
            caps.append(("let %s = \"%s\"" % (x, rng.choice(["a", "b", "zz"])), x))
        elif ty == "clo":
            caps.append(("let %s = |q: int32| q + %d" % (x, rng.choice([1, 10])), x))
        elif ty == "fnv":
            # a plain function value: an alias of a top-level function (no closure environment of its own)
            caps.append(("let %s = %s" % (x, rng.choice(["inc3", "dbl"])), x))
        elif ty == "dyn":
            y = fresh("k")
            caps.append(("let %s: int32 = %d" % (y, rng.choice([4, 6]))  , y))
            caps.append(("let %s: dyn Tick = %s" % (x, y), x))
        return x

    def position(a, depth):
        """-> (statements, int expression)"""
        k = rng.randrange(16)
        if k == 14:
            f = cap("fnv")  # only occurrence of the captured function value: the callee position
            return [], "%s(%s(%s))" % (f, f, a) if rng.random() < 0.5 else "%s(%s)" % (f, a)
        if k == 15:
            return [], "(if %s > 1 { %s(%s) } else { %s })" % (a, cap("fnv"), a, a)
        if k == 0:
            return [], "(match %s { 0 => 1, 1 => 2, _ => %s })" % (a, cap("int"))
        if k == 1:
            return [], "(match %s { 0 => %s, _ => 2 })" % (a, cap("int"))
        if k == 2:
            c, lim = fresh("c"), cap("int")
            return ["let %s = ref(0)" % c, "while ref_get(%s) < %s { ref_set(%s, ref_get(%s) + 1) }" % (c, lim, c, c)], "ref_get(%s)" % c
        if k == 3:
            return [], "(if %s > 0 { %s } else { 0 })" % (a, cap("int"))
        if k == 4 and depth > 0:
            g, b = fresh("g"), fresh("b")
            st, ex = position(b, depth - 1)
            return ["let %s = |%s: int32| { %s }" % (g, b, "; ".join(st + ["%s + %s" % (b, ex)]))], "%s(%s)" % (g, a)
        if k == 5:
            return [], "(%s, %s).0" % (cap("int"), a)
        if k == 6:
            return [], "(match (%s, %s) { (0, _) => 0, (_, true) => 1, _ => 2 })" % (a, cap("bool"))
        if k == 7:
            return [], "(match %s { \"a\" => 1, _ => %s })" % (cap("str"), cap("int"))
        if k == 8:
            c, r = fresh("c"), cap("ref")
            return ["let %s = ref(0)" % c, "while ref_get(%s) < 2 { ref_set(%s, ref_get(%s) + 1); ref_set(%s, ref_get(%s) + 1) }" % (c, r, r, c, c)], "ref_get(%s)" % c
        if k == 9:
            return [], "(match B(%s) { A => %s, B(m) => m, C(_, m) => m })" % (a, cap("int"))
        if k == 10:
            return [], "%s(%s)" % (cap("clo"), a)
        if k == 11:
            return [], "Tick::val(%s)" % cap("dyn")
        if k == 12:
            return [], "(if %s { %s } else { %s })" % (cap("bool"), a, cap("int"))
        return [], "(ref_get(%s) + %s)" % (cap("ref"), a)

    text = PRELUDE + "fn inc3(x: int32) -> int32 { x + 3 }\nfn dbl(x: int32) -> int32 { x * 2 }\n"
    fdefs = []
    calls = []
    for i in range(rng.randint(1, 3)):
        a = fresh("a")
        parts = [position(a, 2) for _ in range(rng.randint(1, 3))]
        stmts = [x for st, _ in parts for x in st]
        body = "; ".join(stmts + [" + ".join(ex for _, ex in parts)])
        f = fresh("f")
        fdefs.append("let %s = |%s: int32| { %s }" % (f, a, body))
        for v in rng.sample([0, 1, 2, 5], 2):
            calls.append("let _ = string_println(int32_to_string(%s(%d)))" % (f, v))
    lines = [d for d, _ in caps] + fdefs + calls
    text += "fn main() {\n    " + ";\n    ".join(lines) + ";\n    ()\n}\n"
    return text


UNIT_KINDS = ["println", "print", "refset", "dyn_tick", "static_tick", "user_unit", "closure_unit", "if_unit", "match_unit"]
POSITIONS = ["while_last", "while_mid", "if_then_last", "if_else_last", "match_arm", "fn_last", "block_mid", "let_wild", "nested_while_if", "closure_body_last"]


def effect_position_programs():
    """every kind of unit-typed effect expression in every statement position (systematic)"""
    progs = []
    for kind in UNIT_KINDS:
        for pos in POSITIONS:
            pre = ["let r = ref(0)", "let k: dyn Tick = K { c: r }" if False else "let kk = K { c: r }", "let d: dyn Tick = kk", "let n: int32 = 7",
                   "let cu = |q: int32| string_println(\"cu\" + int32_to_string(q))"]
            e = {
                "println": 'string_println("e")',
                "print": 'string_print("e")',
                "refset": "ref_set(r, ref_get(r) + 10)",
                "dyn_tick": "Tick::tick(d)",
                "static_tick": "Tick::tick(n)",
                "user_unit": 'say("u")',
                "closure_unit": "cu(3)",
                "if_unit": '(if ref_get(r) < 100 { string_println("lt") } else { string_println("ge") })',
                "match_unit": '(match ref_get(r) { 0 => string_println("zero"), _ => string_println("nz") })',
            }[kind]
            c = "let c = ref(0)"
            body = {
                "while_last": [c, 'while ref_get(c) < 2 { ref_set(c, ref_get(c) + 1); %s }' % e],
                "while_mid": [c, 'while ref_get(c) < 2 { %s; ref_set(c, ref_get(c) + 1) }' % e],
                "if_then_last": ['if ref_get(r) == 0 { let _ = string_println("t"); %s } else { () }' % e],
                "if_else_last": ['if ref_get(r) != 0 { () } else { let _ = string_println("f"); %s }' % e],
                "match_arm": ['match ref_get(r) { 0 => %s, _ => () }' % e],
                "fn_last": ["%s" % e],
                "block_mid": ["%s" % e, 'let _ = string_println("after")'],
                "let_wild": ["let _ = %s" % e],
                "nested_while_if": [c, 'while ref_get(c) < 2 { ref_set(c, ref_get(c) + 1); if ref_get(c) == 1 { %s } else { () } }' % e],
                "closure_body_last": ['let g = |z: int32| { let _ = string_println("g"); %s }' % e, "g(1)"],
            }[pos]
            tail = ['let _ = string_println(int32_to_string(ref_get(r)))', 'string_println(int32_to_string(Tick::val(d)))']
            text = PRELUDE + 'fn say(t: string) -> unit { string_println(t) }\n' + "fn main() {\n    " + ";\n    ".join(pre + body + tail) + "\n}\n"
            progs.append(text)
    return progs


DISCARD_PRELUDE = PRELUDE + """struct K2 { n: int32 }
impl K2 {
    fn to_string(self: K2) -> string { let _ = string_println("K2.to_string"); "k2" }
    fn len(self: K2) -> int32 { let _ = string_println("K2.len"); self.n }
}
trait Render { fn to_string(Self) -> string; fn string_len(Self) -> int32; }
impl Render for P {
    fn to_string(self: P) -> string { let _ = string_println("P.to_string"); "p" }
    fn string_len(self: P) -> int32 { let _ = string_println("P.string_len"); self.a }
}
fn audit_to_string(t: string, v: int32) -> string { let _ = string_println(t); int32_to_string(v) }
fn my_string_len(t: string) -> int32 { let _ = string_println(t); string_len(t) }
fn ref_get__probe(t: string, r: Ref[int32]) -> int32 { let _ = string_println(t); let _ = ref_set(r, ref_get(r) + 1); ref_get(r) }
fn array_get__probe(t: string) -> int32 { let _ = string_println(t); 1 }
fn vec_len_probe(t: string) -> int32 { let _ = string_println(t); 2 }
fn bool_to_string_probe(t: string) -> bool { let _ = string_println(t); true }
"""


def discard_program(rng):
    """statements whose results are thrown away, in every kind of position: builtins that can fail at run time,
    pure builtins, and effectful user functions / methods whose names look like runtime helpers.  Dead-code
    elimination may drop none of the effects and none of the failures."""
    n = [0]

    def tag():
        n[0] += 1
        return '"d%d"' % n[0]

    def idx(lim):
        return str(rng.choice([0, 1, lim - 1, lim - 1, lim, lim + 4]) if rng.random() < 0.35 else rng.choice(range(lim)))

    def discard():
        k = rng.random()
        if k < 0.12:
            return "array_get(arr, %s)" % idx(3)
        if k < 0.22:
            return "string_get(str3, %s)" % idx(3)
        if k < 0.32:
            return "vec_get(vec2, %s)" % idx(2)
        if k < 0.40:
            return "(10 / %s)" % rng.choice(["zero", "1", "two"])
        if k < 0.46:
            return rng.choice(["string_len(str3)", "int32_to_string(two)", "ref_get(cell)", "vec_len(vec2)", "bool_to_string(true)"])
        if k < 0.54:
            return "audit_to_string(%s, %d)" % (tag(), rng.randint(0, 9))
        if k < 0.60:
            return "my_string_len(%s)" % tag()
        if k < 0.66:
            return "ref_get__probe(%s, cell)" % tag()
        if k < 0.72:
            return rng.choice(["array_get__probe(%s)", "vec_len_probe(%s)", "bool_to_string_probe(%s)"]) % tag()
        if k < 0.80:
            return rng.choice(["k2.to_string()", "k2.len()", "K2::to_string(k2)"])
        if k < 0.88:
            return rng.choice(["Render::to_string(pp)", "Render::string_len(pp)"])
        if k < 0.94:
            return "pi(%s, %d)" % (tag(), rng.randint(0, 5))
        return "clo(%d)" % rng.randint(0, 5)

    def stmt(d):
        k = rng.random()
        if d > 0 and k < 0.15:
            return "let _ = if pb(%s, %s) { let _ = %s; 1 } else { let _ = %s; 2 }" % (tag(), rng.choice(["true", "false"]), discard(), discard())
        if d > 0 and k < 0.27:
            return "let _ = match %s { 0 => { let _ = %s; 0 }, _ => { let _ = %s; 1 } }" % (rng.choice(["zero", "two"]), discard(), discard())
        if d > 0 and k < 0.36:
            n[0] += 1
            w = "w%d" % n[0]
            return "let %s = ref(0); while ref_get(%s) < %d { let _ = %s; ref_set(%s, ref_get(%s) + 1) }" % (w, w, rng.choice([0, 1, 2]), discard(), w, w)
        if k < 0.46:
            return "let _ = string_println(%s)" % tag()
        return "let _ = %s" % discard()

    body = [
        "let arr = [1, 2, 3]", 'let str3 = "abc"', "let vec0: Vec[int32] = vec_new()", "let vec1 = vec_push(vec0, 5)", "let vec2 = vec_push(vec1, 6)",
        "let zero = pi(\"z\", 0)", "let two = 2", "let cell = ref(0)", "let k2 = K2 { n: 3 }", "let pp = P { a: 4, b: true }",
        "let clo = |q: int32| { let _ = string_println(\"clo\"); q + 1 }",
    ]
    body += [stmt(2) for _ in range(rng.randint(4, 9))]
    body.append("string_println(int32_to_string(ref_get(cell)))")
    return DISCARD_PRELUDE + "fn main() {\n    " + ";\n    ".join(body) + "\n}\n"
