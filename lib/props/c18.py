"""C18 — derived ToString/ToJson are total and faithful."""
import json
import shutil

import semrun
import vlib
from vlib import Broken

PRIMS = ["int32", "int64", "uint8", "int8", "bool", "string", "unit", "int32", "string", "bool", "uint16", "int16", "uint32", "uint64"]
FIELD_NAMES = ["a", "b", "c", "name", "tag", "fields", "x_y", "v1", "n", "to_json", "to_string", "value", "field0", "self_", "json", "s"]
STRINGS = ["", "a", "Alice", 'q"uote', "back\\slash", "line\nbreak", "tab\there", "cr\rx", "sl/ash", "{\"k\":1}", "[1,2]", "a,b: c", " } ", "null", "\x08bs", "\x0cff", "\x01ctl", "\x1f", "~|^"]
END = "<<END>>"


def CS(s_):
    return vlib.coq_Nlist(list(s_.encode("utf-8")))


def lit_string(s):
    out = []
    for ch in s:
        o = ord(ch)
        if ch == '"':
            out.append('\\"')
        elif ch == "\\":
            out.append("\\\\")
        elif ch == "\n":
            out.append("\\n")
        elif ch == "\t":
            out.append("\\t")
        elif ch == "\r":
            out.append("\\r")
        elif o < 32:
            out.append("\\u%04x" % o)
        else:
            out.append(ch)
    return '"' + "".join(out) + '"'


class Gen:
    def derive_attr(self):
        """both traits, in every spelling the attribute syntax allows: one list in either order, or stacked attributes"""
        return self.rng.choice(["#[derive(ToString, ToJson)]\n", "#[derive(ToJson, ToString)]\n", "#[derive(ToString)]\n#[derive(ToJson)]\n", "#[derive(ToJson)]\n#[derive(ToString)]\n"])

    def __init__(self, rng):
        self.rng = rng
        self.types = {}  # name -> ("struct", [(f, ty)]) | ("enum", [(v, [ty])])
        self.order = []

    def field_ty(self, self_name=None, allow_self=False):
        r = self.rng.random()
        if self.order and r < 0.3:
            return self.rng.choice(self.order)
        if allow_self and r < 0.4:
            return self_name
        return self.rng.choice(PRIMS)

    def make_types(self, n):
        for i in range(n):
            name = "T%d" % i
            if self.rng.random() < 0.5:
                k = self.rng.choice([0, 1, 2, 3, 4])
                names = self.rng.sample(FIELD_NAMES, k)
                self.types[name] = ("struct", [(f, self.field_ty()) for f in names])
            else:
                nv = self.rng.choice([1, 2, 3, 4])
                shared = self.rng.random() < 0.5
                vs = []
                rec = False
                for j in range(nv):
                    k = self.rng.choice([0, 0, 1, 2, 3])
                    tys = []
                    for _ in range(k):
                        # recursion only in a non-first variant so that values can terminate
                        t = self.field_ty(name, allow_self=(j > 0))
                        tys.append(t)
                    # variant names may be shared between enums of one package (they are always written qualified)
                    vs.append((("Sh%d" % j) if shared else ("V%d_%d" % (i, j)), tys))
                self.types[name] = ("enum", vs)
            self.order.append(name)

    def value(self, ty, depth=0):
        r = self.rng
        if ty == "int32":
            return r.choice([0, 1, -1, 42, 2147483647, -2147483648])
        if ty == "int64":
            return r.choice([0, 7, -9, 9223372036854775807])
        if ty in ("uint16", "uint32", "uint64", "int16"):
            return r.choice([0, 3, 32767 if ty == "int16" else 65535])
        if ty == "uint8":
            return r.choice([0, 9, 255])
        if ty == "int8":
            return r.choice([0, 5, 127, -128])
        if ty == "bool":
            return r.random() < 0.5
        if ty == "string":
            return r.choice(STRINGS)
        if ty == "unit":
            return None
        kind, body = self.types[ty]
        if kind == "struct":
            return ("struct", ty, [(f, self.value(t, depth + 1)) for f, t in body])
        cands = body if depth < 3 else [v for v in body if ty not in v[1]] or body[:1]
        vname, tys = r.choice(cands)
        return ("enum", ty, vname, [self.value(t, depth + 1) for t in tys])

    def expr(self, ty, v):
        if ty in ("int32",):
            return str(v) if v >= 0 else "(0 - %d)" % (-v) if v != -2147483648 else "(0 - 2147483647 - 1)"
        if ty == "int64":
            return "%di64" % v if v >= 0 else "(0i64 - %di64)" % (-v)
        if ty == "uint8":
            return "%du8" % v
        if ty in ("uint16", "uint32", "uint64", "int16"):
            return "%d%s" % (v, {"uint16": "u16", "uint32": "u32", "uint64": "u64", "int16": "i16"}[ty])
        if ty == "int8":
            return "%di8" % v if v >= 0 else ("(0i8 - %di8)" % (-v) if v != -128 else "(0i8 - 127i8 - 1i8)")
        if ty == "bool":
            return "true" if v else "false"
        if ty == "string":
            return lit_string(v)
        if ty == "unit":
            return "()"
        kind, body = self.types[ty]
        if v[0] == "struct":
            if not body:
                return "%s {}" % ty
            return "%s { %s }" % (ty, ", ".join("%s: %s" % (f, self.expr(t, x)) for (f, t), (_, x) in zip(body, v[2])))
        tys = dict(body)[v[2]]
        if not tys:
            return "%s::%s" % (ty, v[2])
        return "%s::%s(%s)" % (ty, v[2], ", ".join(self.expr(t, x) for t, x in zip(tys, v[3])))

    def to_string(self, ty, v, top=True):
        if ty in ("int32", "int64", "uint8", "int8", "uint16", "uint32", "uint64", "int16"):
            return str(v)
        if ty == "bool":
            return "true" if v else "false"
        if ty == "string":
            return v
        if ty == "unit":
            return "()"
        kind, body = self.types[ty]
        if v[0] == "struct":
            if not body:
                return "%s {}" % ty
            return "%s { %s }" % (ty, ", ".join("%s: %s" % (f, self.to_string(t, x)) for (f, t), (_, x) in zip(body, v[2])))
        tys = dict(body)[v[2]]
        if not tys:
            return "%s::%s" % (ty, v[2])
        return "%s::%s(%s)" % (ty, v[2], ", ".join(self.to_string(t, x) for t, x in zip(tys, v[3])))

    def json_obj(self, ty, v):
        if ty in PRIMS or ty == "unit":
            return v
        kind, body = self.types[ty]
        if v[0] == "struct":
            return {f: self.json_obj(t, x) for (f, t), (_, x) in zip(body, v[2])}
        tys = dict(body)[v[2]]
        if not tys:
            return {"tag": v[2]}
        return {"tag": v[2], "fields": [self.json_obj(t, x) for t, x in zip(tys, v[3])]}

    # ---- the same definitions and values as terms of C18.Model ------------------------------------
    def coq_fty(self, ty):
        if ty in ("int32", "int64", "uint8", "int8", "uint16", "int16", "uint32", "uint64"):
            return "FInt"
        if ty == "bool":
            return "FBool"
        if ty == "string":
            return "FString"
        if ty == "unit":
            return "FUnit"
        return "(FNamed %d)" % self.order.index(ty)

    def coq_defs(self):
        out = []
        for name in self.order:
            kind, body = self.types[name]
            if kind == "struct":
                out.append("DStruct %s [%s]" % (CS(name), "; ".join("(%s, %s)" % (CS(f), self.coq_fty(t)) for f, t in body)))
            else:
                out.append("DEnum %s [%s]" % (CS(name), "; ".join("(%s, [%s])" % (CS(v), "; ".join(self.coq_fty(t) for t in tys)) for v, tys in body)))
        return "[%s]" % "; ".join(out)

    def coq_value(self, ty, v):
        if ty in ("int32", "int64", "uint8", "int8", "uint16", "int16", "uint32", "uint64"):
            return "(VInt %s [%s])" % ("true" if v < 0 else "false", "; ".join(str(abs(v))))
        if ty == "bool":
            return "(VBool %s)" % ("true" if v else "false")
        if ty == "string":
            return "(VStr %s)" % CS(v)
        if ty == "unit":
            return "VUnit"
        kind, body = self.types[ty]
        if v[0] == "struct":
            return "(VStruct [%s])" % "; ".join(self.coq_value(t, x) for (f, t), (_, x) in zip(body, v[2]))
        k = [vn for vn, _ in body].index(v[2])
        tys = body[k][1]
        return "(VEnum %d [%s])" % (k, "; ".join(self.coq_value(t, x) for t, x in zip(tys, v[3])))

    def program(self, n_values=5):
        defs = []
        for name in self.order:
            kind, body = self.types[name]
            if kind == "struct":
                defs.append(self.derive_attr() + "struct %s {\n%s}\n" % (name, "".join("    %s: %s,\n" % (f, t) for f, t in body)))
            else:
                defs.append(self.derive_attr() + "enum %s {\n%s}\n" % (name, "".join("    %s%s,\n" % (v, "(%s)" % ", ".join(tys) if tys else "") for v, tys in body)))
        stmts, expect = [], []
        for i in range(n_values):
            ty = self.rng.choice(self.order)
            v = self.value(ty)
            stmts.append("    let x%d: %s = %s;" % (i, ty, self.expr(ty, v)))
            stmts.append("    let _ = string_println(x%d.to_string());\n    let _ = string_println(\"%s\");" % (i, END))
            stmts.append("    let _ = string_println(x%d.to_json());\n    let _ = string_println(\"%s\");" % (i, END))
            expect.append((ty, self.to_string(ty, v), self.json_obj(ty, v), "(%s, %s)" % (self.coq_fty(ty), self.coq_value(ty, v))))
        return "".join(defs) + "fn main() {\n" + "\n".join(stmts) + "\n    ()\n}\n", expect


UNSUPPORTED = [
    ("generic struct", "#[derive(ToString, ToJson)]\nstruct G[T] { v: T }\nfn main() { () }\n"),
    ("generic enum", "#[derive(ToJson)]\nenum G[T] { N, S(T) }\nfn main() { () }\n"),
    ("Vec field", "#[derive(ToJson)]\nstruct S { v: Vec[int32] }\nfn main() { let s = S { v: vec_new() }; string_println(s.to_json()) }\n"),
    ("tuple field", "#[derive(ToString)]\nstruct S { v: (int32, bool) }\nfn main() { let s = S { v: (1, true) }; string_println(s.to_string()) }\n"),
    ("function field", "#[derive(ToJson)]\nstruct S { f: (int32) -> int32 }\nfn main() { () }\n"),
    ("field of a type without the derive", "struct Q { a: int32 }\n#[derive(ToJson)]\nstruct S { q: Q }\nfn main() { let s = S { q: Q { a: 1 } }; string_println(s.to_json()) }\n"),
    ("Ref field", "#[derive(ToString)]\nstruct S { r: Ref[int32] }\nfn main() { let s = S { r: ref(1) }; string_println(s.to_string()) }\n"),
    ("field named like the escape helper", "#[derive(ToJson)]\nstruct S { json_escape_string: string }\nfn main() { let s = S { json_escape_string: \"x\" }; string_println(s.to_json()) }\n"),
    ("unit field with ToJson (null)", "#[derive(ToJson)]\nstruct S { u: unit, k: int32 }\nfn main() { let s = S { u: (), k: 1 }; string_println(s.to_json()) }\n"),
    ("unit field with ToString", "#[derive(ToString)]\nenum S { A(unit) }\nfn main() { let s = S::A(()); string_println(s.to_string()) }\n"),
    ("float field with ToJson", "#[derive(ToJson)]\nstruct S { f: float64 }\nfn main() { let s = S { f: 1.5 }; string_println(s.to_json()) }\n"),
    ("field named self", "#[derive(ToString, ToJson)]\nstruct S { self: int32, b: string }\nfn main() { let s = S { self: 1, b: \"x\" }; let _ = string_println(s.to_string()); string_println(s.to_json()) }\n"),
    ("field named bool_to_json", "#[derive(ToJson)]\nstruct S { bool_to_json: bool }\nfn main() { let s = S { bool_to_json: true }; string_println(s.to_json()) }\n"),
]


def check(run):
    run.level = "proof"
    broken = []
    try:
        vlib.proof_stage(run, "C18", ["C01/Properties.v", "C18/Properties.v"], pins="C18")
    except Broken as b:
        broken.append(b)
    rng = run.sub_rng("c18")
    n = 60 if run.tier == "quick" else 1000
    progs, expects, gens = [], [], []
    for _ in range(n):
        g = Gen(rng)
        g.make_types(rng.choice([1, 2, 3, 4]))
        p, e = g.program(rng.choice([3, 6]))
        progs.append(p)
        expects.append(e)
        gens.append(g)
    wits, known_hits = [], {}
    stats = {"programs": n, "values": 0, "to_string_ok": 0, "to_json_ok": 0, "rejected": 0, "unsupported_in_go_model": 0, "strings_with_control_chars": 0}
    try:
        root, paths = semrun.write_programs("c18", progs)
        res = semrun.go_outputs("c18", paths)
        model_cases = []
        for p, exp, r, g in zip(progs, expects, res, gens):
            if r["status"] == "rejected":
                # accepted types only; a rejection must carry a diagnostic (C04 checks that) - but these definitions are all supported
                wits.append({"kind": "a struct/enum made of supported field types was rejected", "program": p, "impl": r.get("compile")})
                stats["rejected"] += 1
                continue
            if r["status"] != "ok":
                wits.append({"kind": "compiler %s on a derive program" % r["status"], "program": p, "impl": r.get("compile") or r.get("error")})
                continue
            if "EExit" not in r["ending"]:
                if "EUnsupported" in r["ending"] or "EFuel" in r["ending"]:
                    stats["unsupported_in_go_model"] += 1
                    continue
                wits.append({"kind": "the generated to_string/to_json code fails in a later stage (Go model: %s)" % r["ending"], "program": p, "go_text": r.get("go_text")})
                continue
            chunks = r["stdout"].decode("utf-8", "replace").split(END + "\n")
            if len(chunks) != 2 * len(exp) + 1:
                wits.append({"kind": "unexpected number of outputs", "program": p, "stdout": r["stdout"].decode("utf-8", "replace")[:2000]})
                continue
            for i, (ty, s_exp, j_exp, _c) in enumerate(exp):
                stats["values"] += 1
                s_got, j_got = chunks[2 * i][:-1], chunks[2 * i + 1][:-1]
                model_cases.append((g.coq_defs(), _c, j_got, p))
                if s_got == s_exp:
                    stats["to_string_ok"] += 1
                else:
                    wits.append({"kind": "to_string is not the Name { f: v } / Enum::Variant(v) rendering", "program": p, "value_index": i, "expected": s_exp, "got": s_got})
                try:
                    dec = json.loads(j_got)
                    ok = dec == j_exp and json_shape_ok(j_got)
                    why = "to_json decodes to another value"
                except ValueError as e:
                    ok, why, dec = False, "to_json is not well-formed JSON (%s)" % e, None
                if ok:
                    stats["to_json_ok"] += 1
                else:
                    ctl = any(ord(ch) < 32 and ch not in "\n\t\r\x08\x0c" for ch in json.dumps(j_exp, ensure_ascii=False)) or has_ctl(j_exp)
                    w = {"kind": why, "program": p, "value_index": i, "expected_value": j_exp, "got": j_got}
                    if has_ctl(j_exp):
                        stats["strings_with_control_chars"] += 1
                        known_hits.setdefault("control", w)
                    else:
                        wits.append(w)
        shutil.rmtree(root, ignore_errors=True)
        # ---- the Coq model of the derived encoder must print what the real program printed, and the Coq decoder
        #      must read the real text back to the value (for strings without the characters of the known finding)
        per = 40
        texts = []
        for k0 in range(0, len(model_cases), per):
            body = "From Goml Require Import Common.Base C18.Model.\nOpen Scope N_scope.\n"
            body += "Definition one (defs : list def) (c : fty * value) (real : str) : N :=\n  match enc defs 60 (fst c) (snd c) with\n  | Some s => if list_eqb s real then match dec defs 60 (fst c) real with Some (v, []) => if value_eqb v (snd c) then 0 else 2 | _ => 2 end else 1\n  | None => 3\n  end.\n"
            body += "Eval vm_compute in [%s].\n" % "; ".join("one %s %s %s" % (d, c, CS(j)) for d, c, j, _ in model_cases[k0 : k0 + per])
            texts.append(body)
        outs = vlib.coq_eval_many("c18model", texts)
        flat = []
        for o in outs:
            flat += vlib.parse_nat_list(o)
        mstats = {"agree_and_decode": 0, "encoder_differs": 0, "decoder_fails": 0, "outside_model": 0}
        for v, (d, c, j, p) in zip(flat, model_cases):
            if v == 0:
                mstats["agree_and_decode"] += 1
            elif v == 3:
                mstats["outside_model"] += 1
            elif v == 2:
                # the decoder rejects: allowed only for the control characters of the known finding
                if any(ord(ch) < 32 for ch in j) or "\\x" in j or "\\a" in j or "\\v" in j:
                    mstats["decoder_fails"] += 1
                    known_hits.setdefault("control", {"kind": "the model's JSON decoder rejects the printed text", "program": p, "got": j})
                else:
                    wits.append({"kind": "the Coq decoder does not read the printed JSON back to the value", "program": p, "got": j})
            else:
                mstats["encoder_differs"] += 1
                wits.append({"kind": "the Coq model of derive(ToJson) prints another text than the real program (model no longer describes the code)", "program": p, "got": j})
        stats["model"] = mstats
        # definitions the derive cannot handle: a diagnostic, never a crash or broken generated code
        root, upaths = semrun.write_programs("c18u", [p for _, p in UNSUPPORTED])
        ures = semrun.go_outputs("c18u", upaths)
        ustats = {}
        for (why, p), r in zip(UNSUPPORTED, ures):
            if r["status"] == "rejected":
                ds = r["compile"].get("diagnostics") or []
                ustats[why] = "rejected: " + (ds[0]["message"][:80] if ds else "NO DIAGNOSTIC")
                if not ds:
                    wits.append({"kind": "rejected without a diagnostic: " + why, "program": p})
            elif r["status"] == "ok":
                ustats[why] = "accepted, Go model: " + r["ending"][:40]
                if "EExit" not in r["ending"] and "EUnsupported" not in r["ending"]:
                    wits.append({"kind": "derive accepted '%s' but the generated code fails later (%s)" % (why, r["ending"]), "program": p, "go_text": r.get("go_text")})
            else:
                ustats[why] = r["status"]
                wits.append({"kind": "compiler %s on: %s" % (r["status"], why), "program": p, "impl": r.get("compile") or r.get("error")})
        shutil.rmtree(root, ignore_errors=True)
        stats["unsupported_definitions"] = ustats
    except Broken as b:
        broken.append(b)
    kf_active = False
    for k in run.known:
        if k["replay"]["kind"] == "json-control-char":
            src = open(vlib.VERIF + "/" + k["replay"]["program"]).read()
            rootk, pk = semrun.write_programs("c18k", [src])
            (r,) = semrun.go_outputs("c18k", pk)
            shutil.rmtree(rootk, ignore_errors=True)
            if r["status"] == "ok" and "stdout" in r:
                line = r["stdout"].decode("utf-8", "replace").strip()
                try:
                    json.loads(line)
                except ValueError:
                    kf_active = True
                    run.known_finding(k["id"], "%s: %s (%s prints %s)" % (k["id"], k["what"], k["replay"]["program"], line))
    # a string with such a control character is the listed finding; anything else is reported
    if "control" in known_hits and not kf_active:
        wits.append(known_hits["control"])
    run.add_cases(n + len(UNSUPPORTED), stats["to_json_ok"], samples=[progs[0][:900]])
    run.cov["rule"] = (
        "programs with 1-4 derived struct/enum definitions (0-4 fields/variants, field types int32/int64/uint8/int8/bool/string/unit and earlier or the same derived type, field names incl. tag, fields, to_json, __field0) and 3-6 values each "
        "(strings with quotes, backslashes, line breaks, tabs, JSON syntax, control characters); the real Go AST is executed by Sem/GoSem.v (%%q by its strconv.Quote model); to_string must equal the documented rendering and to_json must be accepted by a JSON parser and decode to the value "
        "(object per struct, tag/fields per variant). Plus %d definitions the derive cannot handle: diagnostic or working code, never a later-stage failure. distinct_nontrivial = values whose JSON decoded to the value" % len(UNSUPPORTED)
    )
    run.cov["correspondence"] = stats
    run.cov["open_obligations"] = ["no theorem about derive::expand; per-program validation", "non-ASCII strings are outside the Go model's strconv.Quote"]
    run.assumptions = ["Python's json module decides well-formedness and decoding", "Sem/GoSem.v models fmt.Sprintf(\"%q\") for ASCII"]
    if wits:
        for w in wits[:3]:
            run.violation(w)
    elif broken:
        run.violation({"broken": [b.what for b in broken], "detail": [b.detail for b in broken]}, no_input=True)


def has_ctl(o):
    if isinstance(o, str):
        return any(ord(ch) < 32 and ch not in "\n\t\r" for ch in o) or "\x7f" in o
    if isinstance(o, dict):
        return any(has_ctl(v) for v in o.values())
    if isinstance(o, list):
        return any(has_ctl(v) for v in o)
    return False


def json_shape_ok(text):
    """no duplicate keys (json.loads would silently keep the last)"""
    ok = [True]

    def hook(pairs):
        ks = [k for k, _ in pairs]
        if len(set(ks)) != len(ks):
            ok[0] = False
        return dict(pairs)

    json.loads(text, object_pairs_hook=hook)
    return ok[0]


def replay(run, path):
    with open(path) as f:
        w = json.load(f)
    print(json.dumps(w, indent=1)[:4000])
    return 0
