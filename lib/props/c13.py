"""C13 — compilation is deterministic and reproducible."""
import hashlib
import itertools
import json
import os
import re
import shutil
import sys
import subprocess

import vlib
from vlib import Broken

NAMES = ["Alpha", "Beta", "Main", "Shapes", "Units", "Zed"]  # sorted like the strings
CODE = {n: i for i, n in enumerate(NAMES)}
LIBS = [n for n in NAMES if n != "Main"]


def gen_projects(run):
    """project := {pkg: {"declared": name, "imports": [..]} | "bad"}, Main always present"""
    rng = run.sub_rng("c13")
    projs = []
    # exhaustive: Main + up to 3 libs out of (Alpha, Shapes, Units), every import relation among libs (acyclic and cyclic)
    trio = ["Alpha", "Shapes", "Units"]
    pairs = [(a, b) for a in trio for b in trio if a != b]
    for k in range(0, 2 ** len(pairs)):
        edges = [p for i, p in enumerate(pairs) if k >> i & 1]
        if len(edges) > 3:
            continue
        for main_imps in (trio, ["Shapes", "Units"], ["Units", "Alpha"]):
            p = {"Main": {"declared": "Main", "imports": list(main_imps)}}
            for l in trio:
                p[l] = {"declared": l, "imports": [b for a, b in edges if a == l]}
            projs.append(p)
    n_exh = len(projs)
    n = 60 if run.tier == "quick" else 600
    for _ in range(n):
        libs = rng.sample(LIBS, rng.randint(1, 5))
        p = {"Main": {"declared": "Main", "imports": rng.sample(libs, rng.randint(1, len(libs)))}}
        for l in libs:
            r = rng.random()
            if r < 0.05:
                p[l] = "bad"
            elif r < 0.1:
                p[l] = {"declared": rng.choice(NAMES), "imports": []}
            else:
                cands = [x for x in LIBS if x != l] if rng.random() < 0.25 else [x for x in libs if x > l or rng.random() < 0.15]
                cands = [x for x in cands if x != l]
                p[l] = {"declared": l, "imports": rng.sample(cands, rng.randint(0, min(3, len(cands))))}
        projs.append(p)
    return projs, n_exh


def write_project(root, p, order_seed=0):
    shutil.rmtree(root, ignore_errors=True)
    os.makedirs(root)
    names = list(p)
    # directory creation order permuted (directory enumeration order)
    import random

    random.Random(order_seed).shuffle(names)
    for n in names:
        d = p[n]
        if n == "Main":
            body = "package Main\n" + "".join("import %s\n" % i for i in d["imports"]) + "\nfn main() {\n" + "".join("    let _ = string_println(%s::describe());\n" % i for i in sorted(d["imports"])) + "    ()\n}\n"
            with open(os.path.join(root, "main.gom"), "w") as f:
                f.write(body)
            continue
        os.makedirs(os.path.join(root, n))
        if d == "bad":
            with open(os.path.join(root, n, "readme.txt"), "w") as f:
                f.write("no gom files here\n")
            continue
        calls = " + ".join(["\"%s\"" % n] + ["%s::describe()" % i for i in sorted(d["imports"])])
        body = "package %s\n" % d["declared"] + "".join("import %s\n" % i for i in d["imports"]) + "\nstruct T%s { v: int32 }\n\nfn describe() -> string {\n    %s\n}\n" % (n, calls)
        with open(os.path.join(root, n, "lib.gom"), "w") as f:
            f.write(body)


def coq_fs(p):
    items = []
    for n, d in p.items():
        if n == "Main":
            continue
        if d == "bad":
            items.append("(%d, DirBad)" % CODE[n])
        else:
            items.append("(%d, DirOk %d [%s])" % (CODE[n], CODE[d["declared"]], "; ".join(str(CODE[i]) for i in d["imports"])))
    return "[%s]" % "; ".join(items)


def real_code(r):
    """canonical result of the implementation: ("ok", discovery, topo | terr) | ("err", kind)"""
    if "panic" in r:
        return "(RPanic)"
    if r.get("at") == "discover":
        msg = " ".join(r["error"])
        if "failed to read package directory" in msg:
            return "(RDErr 1)"
        if "has no .gom files" in msg or "package mismatch in" in msg:
            return "(RDErr 2)"
        if "declares package" in msg:
            return "(RDErr 3)"
        if "must declare package" in msg:
            return "(RDErr 0)"
        return "(RDErr 9)"
    disc = "[%s]" % "; ".join(str(CODE[n]) for n in r["discovery"])
    if r.get("at") == "topo":
        msg = " ".join(r["error"])
        k = 1 if "cycle" in msg else 2 if "missing package" in msg else 9
        return "(ROk %s (inr %d))" % (disc, k)
    return "(ROk %s (inl [%s]))" % (disc, "; ".join(str(CODE[n]) for n in r["topo"]))


EXEC = """From Goml Require Import Common.Base Pkg.Discover.
Inductive real := ROk (d : list N) (t : list N + N) | RDErr (k : N) | RPanic.
Fixpoint nl_eqb (a b : list N) := match a, b with [], [] => true | x :: a', y :: b' => (x =? y) && nl_eqb a' b' | _, _ => false end.
Definition model (c : fs * list N) : real :=
  let '(f, mi) := c in
  match discover 2 f 2 mi with
  | Err ERootName => RDErr 0 | Err (EMissingDir _) => RDErr 1 | Err (EBadDir _) => RDErr 2
  | Err (EDeclMismatch _) => RDErr 3 | Err EFuel => RDErr 8
  | Ok order =>
      ROk order (match topo (graph_of 2 f mi order) with
                 | TOk t => inl t | TErr (TCycle _) => inr 1 | TErr (TMissing _) => inr 2 | TErr TFuel => inr 8 end)
  end.
Definition real_eqb (a b : real) :=
  match a, b with
  | ROk d (inl t), ROk d' (inl t') => nl_eqb d d' && nl_eqb t t'
  | ROk d (inr k), ROk d' (inr k') => nl_eqb d d' && (k =? k')
  | RDErr k, RDErr k' => k =? k'
  | _, _ => false
  end.
"""


def multi_column_match(rng):
    """matches on tuples of 2-4 columns (int, bool, enum, string) whose arms constrain several columns equally often"""
    kinds = [rng.choice(["int", "bool", "enum", "str"]) for _ in range(rng.randint(2, 4))]
    ty = {"int": "int32", "bool": "bool", "enum": "Cl", "str": "string"}
    pats = {"int": ["0", "1", "7", "_"], "bool": ["true", "false", "_"], "enum": ["Rd", "Gn", "Bl(_)", "Bl(0)", "_"], "str": ['"a"', '"b"', "_"]}
    vals = {"int": ["0", "1", "7", "9"], "bool": ["true", "false"], "enum": ["Rd", "Gn", "Bl(0)", "Bl(5)"], "str": ['"a"', '"b"', '"zz"']}
    arms = []
    for i in range(rng.randint(2, 6)):
        arms.append("        (%s) => %d," % (", ".join(rng.choice(pats[k]) for k in kinds), i + 1))
    arms.append("        _ => 0,")
    ps = ", ".join("c%d: %s" % (i, ty[k]) for i, k in enumerate(kinds))
    body = "fn pick(%s) -> int32 {\n    match (%s) {\n%s\n    }\n}\n" % (ps, ", ".join("c%d" % i for i in range(len(kinds))), "\n".join(arms))
    calls = ["    let _ = string_println(int32_to_string(pick(%s)));" % ", ".join(rng.choice(vals[k]) for k in kinds) for _ in range(4)]
    return "enum Cl { Rd, Gn, Bl(int32) }\n" + body + "fn main() {\n" + "\n".join(calls) + "\n    ()\n}\n"


EXTERNS = [("strings", "ToUpper", "(s: string) -> string", '{f}("a")'), ("strings", "ToLower", "(s: string) -> string", '{f}("B")'), ("strconv", "Quote", "(s: string) -> string", '{f}("q")'),
           ("path", "Base", "(p: string) -> string", '{f}("a/b")'), ("path/filepath", "Ext", "(p: string) -> string", '{f}("a.txt")'), ("html", "EscapeString", "(s: string) -> string", '{f}("<")'),
           ("net/url", "QueryEscape", "(s: string) -> string", '{f}("a b")'), ("unicode/utf8", "RuneCountInString", "(s: string) -> int32", 'int32_to_string({f}("ab"))'),
           ("math/bits", "OnesCount32", "(x: uint32) -> int32", "int32_to_string({f}(7u32))"), ("os", "Getenv", "(k: string) -> string", '{f}("HOME")')]


def many_externs(rng):
    """a program that uses 3-7 Go packages through extern declarations, declared in a random order"""
    pick = rng.sample(EXTERNS, rng.randint(3, 7))
    decls, uses = [], []
    for i, (pkg, go, sig_, use) in enumerate(pick):
        decls.append('extern "go" "%s" "%s" ext%d%s' % (pkg, go, i, sig_))
        uses.append("    let _ = string_println(%s);" % use.format(f="ext%d" % i))
    rng.shuffle(decls)
    return "\n".join(decls) + "\nfn main() {\n" + "\n".join(uses) + "\n    ()\n}\n"


def many_errors(rng):
    """several independent errors in one program: impls missing several trait methods, unknown names, wrong types, duplicate impls"""
    ms = rng.sample(["aa", "bb", "cc", "dd", "ee", "ff", "gg"], rng.randint(3, 6))
    have = rng.sample(ms, rng.randint(0, 1))
    out = ["trait Tq { %s }" % " ".join("fn %s(Self) -> int32;" % m for m in ms), "struct Sq { v: int32 }", "struct Rq { w: bool }"]
    out.append("impl Tq for Sq { %s }" % " ".join("fn %s(self: Sq) -> int32 { self.v }" % m for m in have))
    out.append("impl Tq for Rq { %s }" % " ".join("fn %s(self: Rq) -> int32 { 1 }" % m for m in rng.sample(ms, 1)))
    if rng.random() < 0.5:
        out.append("impl Tq for Sq { }")
    body = []
    for i in range(rng.randint(2, 5)):
        body.append(rng.choice(["let _ = match Sq { v: 1 } { Sq { v: _, %s } => 0 };" % ", ".join("%s: _" % f for f in rng.sample(["zz", "yy", "xx", "ww", "uu"], rng.randint(2, 4))), "let _ = nope%d(1);" % i, "let _ = 1 + true;", 'let _: int32 = "s";', "let _ = Sq { v: 1, zz: 2 };", "let _ = Unk%d::f();" % i, "let _ = match 1 { true => 0, _ => 1 };"]))
    out.append("fn main() { %s () }" % " ".join(body))
    return "\n".join(out) + "\n"


def fresh_process_outputs(path, n):
    """compile the same project in n fresh processes; returns list of digests and one sample result"""
    exe = vlib.build_harness()
    outs = []
    for _ in range(n):
        p = subprocess.run([exe, "compile"], input=json.dumps({"path": path, "dumps": ["ast", "hir", "tast", "core", "mono", "lift", "anf", "go"]}) + "\n", capture_output=True, text=True, timeout=120, env=vlib.ENV)
        outs.append(p.stdout)
    return outs


def check(run):
    broken = []
    try:
        vlib.proof_stage(run, "C13", ["C13/Properties.v"])
    except Broken as b:
        broken.append(b)
    projs, n_exh = gen_projects(run)
    root = os.path.join(vlib.BUILD, "tmp", "c13")
    shutil.rmtree(root, ignore_errors=True)
    inputs = []
    for i, p in enumerate(projs):
        d = os.path.join(root, "p%04d" % i)
        write_project(d, p, order_seed=i)
        inputs.append({"entry": os.path.join(d, "main.gom")})
    res = vlib.run_harness("discover", inputs, shards=vlib.NCPU)
    mism = []
    try:
        rows = ["((%s, [%s]), %s)" % (coq_fs(p), "; ".join(str(CODE[i]) for i in p["Main"]["imports"]), real_code(r)) for p, r in zip(projs, res)]
        per = 300
        chunks = [list(range(k, min(k + per, len(rows)))) for k in range(0, len(rows), per)]
        texts = [EXEC + "Definition cases : list ((fs * list N) * real) := [\n%s\n].\nEval vm_compute in (mismatches real_eqb model cases).\n" % ";\n".join(rows[k] for k in ch) for ch in chunks]
        for ch, out in zip(chunks, vlib.coq_eval_many("c13", texts)):
            mism += [ch[j] for j in vlib.parse_nat_list(out)]
    except Broken as b:
        broken.append(b)
    # ---- the property itself: byte-identical outputs across fresh processes and directory creation orders
    wits = []
    okp = [i for i, r in enumerate(res) if "topo" in r and len(r["topo"]) >= 3]
    rng = run.sub_rng("c13-det")
    sample = okp[:: max(1, len(okp) // (10 if run.tier == "quick" else 60))][: (12 if run.tier == "quick" else 80)]
    corpus = sorted(p for p in __import__("glob").glob(os.path.join(vlib.REPO, "crates/compiler/src/tests/package/*/main.gom")))
    runs_per = 6 if run.tier == "quick" else 16
    from concurrent.futures import ThreadPoolExecutor

    jobs = [(os.path.join(root, "p%04d" % i, "main.gom"), projs[i]) for i in sample] + [(c, None) for c in corpus] + [(os.path.join(vlib.VERIF, "design_probes/det13/main.gom"), None)]

    # feature-rich single-file programs: the pipeline corpus, programs of the suite's generators and matches over several
    # columns that are tested equally often (where the choice of the column to branch on must not depend on hashing)
    import genericgen
    import genprog
    import semrun

    q = run.tier == "quick"
    gsrcs = [genprog.G(rng, fail_rate=0.02).program(depth=rng.choice([2, 3])) for _ in range(8 if q else 100)]
    gsrcs += [genprog.closure_program(rng) for _ in range(6 if q else 80)]
    gsrcs += [genericgen.Gen(rng).program(n_stmts=4, depth=2)[0] for _ in range(6 if q else 60)]
    gsrcs += [multi_column_match(rng) for _ in range(12 if q else 200)]
    # several Go packages reached through extern declarations: the import block must not depend on hashing
    sys.path.insert(0, os.path.dirname(os.path.abspath(__file__)))
    import c02 as c02mod

    gsrcs += c02mod.EXTERN_PROGRAMS + [many_externs(rng) for _ in range(4 if q else 40)]
    # rejected programs: the same diagnostics in the same order (several independent errors per program)
    sys.path.insert(0, os.path.dirname(os.path.abspath(__file__)))
    import c04 as c04mod

    n_valid_g = len(gsrcs)
    gsrcs += [many_errors(rng) for _ in range(8 if q else 100)]
    gsrcs += [c04mod.mutate(rng, rng.choice(gsrcs[:n_valid_g])) for _ in range(16 if q else 300)]
    groot, gpaths = semrun.write_programs("c13g", gsrcs)
    pipeline = sorted(__import__("glob").glob(os.path.join(vlib.REPO, "crates/compiler/src/tests/pipeline/*/main.gom")))
    jobs += [(p_, None) for p_ in gpaths] + [(p_, None) for p_ in (pipeline[::4] if q else pipeline)]

    def one(job):
        path, p = job
        outs = fresh_process_outputs(path, runs_per)
        if p is not None:
            # same project re-created with another directory creation order
            alt = os.path.dirname(path) + "_alt"
            write_project(alt, p, order_seed=12345)
            o2 = fresh_process_outputs(os.path.join(alt, "main.gom"), 2)
            outs += [x.replace(alt, os.path.dirname(path)) for x in o2]
        return path, outs

    # separate compilation: a link of several stale packages must name the same package in every process
    import c15 as c15mod

    sep_hist = [
        (0, [("build", "Base"), ("build", "Lib"), ("build", "Util"), ("build", "Main"), ("edit_iface", "Base"), ("build", "Base"), ("link", c15mod.LINKSET[0])]),
        (0, [("build", "Base"), ("build", "Lib"), ("build", "Util"), ("build", "Main"), ("edit_iface", "Base"), ("build", "Base"), ("build", "Main"), ("link", c15mod.LINKSET[0])]),
        (2, [("build", "Base"), ("build", "Lib"), ("build", "Main"), ("edit_iface", "Base"), ("build", "Base"), ("link", c15mod.LINKSET[2])]),
        (0, [("build", "Base"), ("build", "Lib"), ("build", "Util"), ("build", "Main"), ("link", ["Lib", "Util", "Main"])]),
    ]
    exe = vlib.build_harness()
    for hi_, (shape, h) in enumerate(sep_hist):
        ops, pos = c15mod.to_ops(shape, h)
        seen = set()
        for k in range(runs_per):
            d = os.path.join(root, "sep%d_%d" % (hi_, k))
            pr = subprocess.run([exe, "sep"], input=json.dumps({"dir": d, "ops": ops}) + "\n", capture_output=True, text=True, timeout=120, env=vlib.ENV)
            try:
                last = json.loads(pr.stdout)["results"][pos[-1]]
            except (ValueError, KeyError, IndexError):
                last = {"unreadable": pr.stdout[-300:]}
            seen.add(json.dumps({k_: v for k_, v in last.items() if k_ != "go"}, sort_keys=True).replace(d, "DIR"))
        if len(seen) > 1:
            wits.append({"kind": "the same build/edit/link history run in %d fresh processes ended with %d different link results" % (runs_per, len(seen)), "history": h, "shape": c15mod.SHAPES[shape], "results": sorted(seen)[:3]})
    # the files of one package handed to check/build in every order: identical interface, core and linked program
    import itertools

    mf = {"Lib/a.gom": "package Lib\nstruct LA { v: int32 }\nfn la(n: int32) -> LA { LA { v: n } }\n",
          "Lib/b.gom": "package Lib\nenum LB { B0, B1(LA) }\nfn lb(x: LA) -> LB { B1(x) }\nfn lg[T](x: T) -> T { x }\n",
          "Lib/c.gom": "package Lib\ntrait LT { fn lt(Self) -> int32; }\nimpl LT for LA { fn lt(self: LA) -> int32 { self.v } }\nimpl LT for int32 { fn lt(self: int32) -> int32 { self + 1 } }\n",
          "main.gom": "package Main\nimport Lib\nfn main() { let x = Lib::la(3); let _ = string_println(int32_to_string(Lib::LT::lt(Lib::lg(x)))); match Lib::lb(Lib::la(1)) { Lib::LB::B0 => (), Lib::LB::B1(y) => string_println(int32_to_string(Lib::LT::lt(y.v))) } }\n"}
    libfiles = ["Lib/a.gom", "Lib/b.gom", "Lib/c.gom"]
    order_cases = []
    for k_, perm in enumerate(itertools.permutations(libfiles)):
        for verb in ("build", "check"):
            ops = [{"op": "write", "path": f_, "text": t_} for f_, t_ in mf.items()] + [{"op": verb, "pkg": "Lib", "inputs": list(perm)}, {"op": "read", "path": "out/Lib.interface"}]
            if verb == "build":
                ops += [{"op": "read", "path": "out/Lib.core"}, {"op": "build", "pkg": "Main", "inputs": ["main.gom"]}, {"op": "link", "pkgs": ["Lib", "Main"]}]
            order_cases.append((verb, perm, {"dir": os.path.join(root, "ord%d%s" % (k_, verb)), "ops": ops}))
    ores = vlib.run_harness("sep", [c_[2] for c_ in order_cases])
    seen_o = {}
    for (verb, perm, case), r_ in zip(order_cases, ores):
        rs = r_["results"][len(mf):]
        key = json.dumps([{k2: v2 for k2, v2 in x.items()} for x in rs], sort_keys=True).replace(case["dir"], "DIR")
        seen_o.setdefault(verb, {}).setdefault(key, perm)
        if not all(x.get("ok", True) for x in rs if "panic" not in x) or any("panic" in x for x in rs):
            if verb == "build" and not rs[-1].get("ok"):
                wits.append({"kind": "a package whose files are listed as %s does not build and link" % (list(perm),), "files": mf, "results": [{k2: str(v2)[:200] for k2, v2 in x.items()} for x in rs]})
    for verb, ks in seen_o.items():
        if len(ks) > 1:
            wits.append({"kind": "%s of one package with its files listed in different orders gives %d different results (interface / core / linked Go)" % (verb, len(ks)), "files": mf, "orders": [list(v_) for v_ in ks.values()][:3]})
    det_checked = 0
    with ThreadPoolExecutor(max_workers=vlib.NCPU) as ex:
        for path, outs in ex.map(one, jobs):
            det_checked += 1
            digs = {hashlib.sha256(o.encode()).hexdigest()[:12] for o in outs}
            if len(digs) > 1:
                a = outs[0]
                b = [o for o in outs if o != a][0]
                ja, jb = json.loads(a), json.loads(b)
                where = [k for k in ("go", "error_kind", "diagnostics") if ja.get(k) != jb.get(k)] + [k for k in (ja.get("dumps") or {}) if (ja.get("dumps") or {}).get(k) != (jb.get("dumps") or {}).get(k)]
                files = {}
                for dp, _, fn in os.walk(os.path.dirname(path)):
                    for x in fn:
                        if x.endswith(".gom"):
                            files[os.path.relpath(os.path.join(dp, x), os.path.dirname(path))] = open(os.path.join(dp, x)).read()
                wits.append({"kind": "the same project compiled in %d fresh processes gave %d different outputs" % (len(outs), len(digs)), "differs_in": where, "project_files": files, "entry": path})
    shutil.rmtree(root, ignore_errors=True)
    shutil.rmtree(groot, ignore_errors=True)
    nontriv = len({json.dumps(p, sort_keys=True) for p in projs if len(p) >= 3})
    run.add_cases(len(projs) + det_checked, nontriv, samples=[projs[0], projs[n_exh // 2], projs[-1]])
    run.cov["rule"] = (
        "projects over packages %s: %d exhaustive (Main + Alpha/Shapes/Units with every import relation of at most 3 edges among them, cyclic ones included, x 3 import lists of Main) + %d random (missing directories, directories without sources, mismatched declarations, cycles); "
        "real discover_packages + topo_sort_packages results (orders or error class) are compared in coqc with the model; %d projects (generated + the 8 corpus projects + the det13 probe) are compiled in %d fresh processes each (different HashSet seeds) and once more from a tree created in another directory order, all dumps compared byte for byte; non-trivial = at least 3 packages"
        % (NAMES, n_exh, len(projs) - n_exh, det_checked, runs_per)
    )
    run.cov["correspondence"] = {"projects": len(projs), "model_mismatches": len(mism), "determinism_projects": det_checked, "fresh_processes_each": runs_per, "error_results": sum(1 for r in res if "error" in r)}
    run.cov["open_obligations"] = ["other HashMap iteration sites on the compile path (env merging, constructor index, trait impl tables) are covered only by the fresh-process comparison, not modelled", "interface-hash determinism is checked under C15"]
    run.assumptions = ["std's HashMap RandomState differs between processes (it is seeded from OS randomness)", "OS directory enumeration order is exercised by re-creating the tree in another order, not modelled"]
    if wits:
        for w in wits[:3]:
            run.violation(w)
    elif mism or broken:
        run.violation({"broken": [b.what for b in broken] + (["correspondence: discovery/topological order model vs implementation"] if mism else []), "detail": [b.detail for b in broken], "examples": [{"project": projs[i], "impl": res[i]} for i in mism[:5]], "theorems_no_longer_shown": ["discovery_order_independent", "topo_order_independent"]}, no_input=True)


def replay(run, path):
    with open(path) as f:
        w = json.load(f)
    print(json.dumps(w, indent=1)[:3000])
    return 0
