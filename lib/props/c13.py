"""C13 — compilation is deterministic and reproducible."""
import hashlib
import itertools
import json
import os
import re
import shutil
import subprocess

import vlib
from vlib import Broken

NAMES = ["Alpha", "Beta", "Main", "Shapes", "Units", "Zed"]  # sorted like the strings
CODE = {n: i for i, n in enumerate(NAMES)}
LIBS = [n for n in NAMES if n != "Main"]


def gen_projects(run):
    """project := {pkg: {"declared": name, "imports": [..]} | "bad"}, Main always present"""
    rng = run.sub_rng("c13")
    projs = []
    # exhaustive: Main + up to 3 libs out of (Alpha, Shapes, Units), every import relation among libs (acyclic and cyclic)
    trio = ["Alpha", "Shapes", "Units"]
    pairs = [(a, b) for a in trio for b in trio if a != b]
    for k in range(0, 2 ** len(pairs)):
        edges = [p for i, p in enumerate(pairs) if k >> i & 1]
        if len(edges) > 3:
            continue
        for main_imps in (trio, ["Shapes", "Units"], ["Units", "Alpha"]):
            p = {"Main": {"declared": "Main", "imports": list(main_imps)}}
            for l in trio:
                p[l] = {"declared": l, "imports": [b for a, b in edges if a == l]}
            projs.append(p)
    n_exh = len(projs)
    n = 60 if run.tier == "quick" else 600
    for _ in range(n):
        libs = rng.sample(LIBS, rng.randint(1, 5))
        p = {"Main": {"declared": "Main", "imports": rng.sample(libs, rng.randint(1, len(libs)))}}
        for l in libs:
            r = rng.random()
            if r < 0.05:
                p[l] = "bad"
            elif r < 0.1:
                p[l] = {"declared": rng.choice(NAMES), "imports": []}
            else:
                cands = [x for x in LIBS if x != l] if rng.random() < 0.25 else [x for x in libs if x > l or rng.random() < 0.15]
                cands = [x for x in cands if x != l]
                p[l] = {"declared": l, "imports": rng.sample(cands, rng.randint(0, min(3, len(cands))))}
        projs.append(p)
    return projs, n_exh


def write_project(root, p, order_seed=0):
    shutil.rmtree(root, ignore_errors=True)
    os.makedirs(root)
    names = list(p)
    # directory creation order permuted (directory enumeration order)
    import random

    random.Random(order_seed).shuffle(names)
    for n in names:
        d = p[n]
        if n == "Main":
            body = "package Main\n" + "".join("import %s\n" % i for i in d["imports"]) + "\nfn main() {\n" + "".join("    let _ = string_println(%s::describe());\n" % i for i in sorted(d["imports"])) + "    ()\n}\n"
            with open(os.path.join(root, "main.gom"), "w") as f:
                f.write(body)
            continue
        os.makedirs(os.path.join(root, n))
        if d == "bad":
            with open(os.path.join(root, n, "readme.txt"), "w") as f:
                f.write("no gom files here\n")
            continue
        calls = " + ".join(["\"%s\"" % n] + ["%s::describe()" % i for i in sorted(d["imports"])])
        body = "package %s\n" % d["declared"] + "".join("import %s\n" % i for i in d["imports"]) + "\nstruct T%s { v: int32 }\n\nfn describe() -> string {\n    %s\n}\n" % (n, calls)
        with open(os.path.join(root, n, "lib.gom"), "w") as f:
            f.write(body)


def coq_fs(p):
    items = []
    for n, d in p.items():
        if n == "Main":
            continue
        if d == "bad":
            items.append("(%d, DirBad)" % CODE[n])
        else:
            items.append("(%d, DirOk %d [%s])" % (CODE[n], CODE[d["declared"]], "; ".join(str(CODE[i]) for i in d["imports"])))
    return "[%s]" % "; ".join(items)


def real_code(r):
    """canonical result of the implementation: ("ok", discovery, topo | terr) | ("err", kind)"""
    if "panic" in r:
        return "(RPanic)"
    if r.get("at") == "discover":
        msg = " ".join(r["error"])
        if "failed to read package directory" in msg:
            return "(RDErr 1)"
        if "has no .gom files" in msg or "package mismatch in" in msg:
            return "(RDErr 2)"
        if "declares package" in msg:
            return "(RDErr 3)"
        if "must declare package" in msg:
            return "(RDErr 0)"
        return "(RDErr 9)"
    disc = "[%s]" % "; ".join(str(CODE[n]) for n in r["discovery"])
    if r.get("at") == "topo":
        msg = " ".join(r["error"])
        k = 1 if "cycle" in msg else 2 if "missing package" in msg else 9
        return "(ROk %s (inr %d))" % (disc, k)
    return "(ROk %s (inl [%s]))" % (disc, "; ".join(str(CODE[n]) for n in r["topo"]))


EXEC = """From Goml Require Import Common.Base Pkg.Discover.
Inductive real := ROk (d : list N) (t : list N + N) | RDErr (k : N) | RPanic.
Fixpoint nl_eqb (a b : list N) := match a, b with [], [] => true | x :: a', y :: b' => (x =? y) && nl_eqb a' b' | _, _ => false end.
Definition model (c : fs * list N) : real :=
  let '(f, mi) := c in
  match discover 2 f 2 mi with
  | Err ERootName => RDErr 0 | Err (EMissingDir _) => RDErr 1 | Err (EBadDir _) => RDErr 2
  | Err (EDeclMismatch _) => RDErr 3 | Err EFuel => RDErr 8
  | Ok order =>
      ROk order (match topo (graph_of 2 f mi order) with
                 | TOk t => inl t | TErr (TCycle _) => inr 1 | TErr (TMissing _) => inr 2 | TErr TFuel => inr 8 end)
  end.
Definition real_eqb (a b : real) :=
  match a, b with
  | ROk d (inl t), ROk d' (inl t') => nl_eqb d d' && nl_eqb t t'
  | ROk d (inr k), ROk d' (inr k') => nl_eqb d d' && (k =? k')
  | RDErr k, RDErr k' => k =? k'
  | _, _ => false
  end.
"""


def fresh_process_outputs(path, n):
    """compile the same project in n fresh processes; returns list of digests and one sample result"""
    exe = vlib.build_harness()
    outs = []
    for _ in range(n):
        p = subprocess.run([exe, "compile"], input=json.dumps({"path": path, "dumps": ["tast", "core", "mono", "lift", "anf", "go"]}) + "\n", capture_output=True, text=True, timeout=120, env=vlib.ENV)
        outs.append(p.stdout)
    return outs


def check(run):
    broken = []
    try:
        vlib.proof_stage(run, "C13", ["C13/Properties.v"])
    except Broken as b:
        broken.append(b)
    projs, n_exh = gen_projects(run)
    root = os.path.join(vlib.BUILD, "tmp", "c13")
    shutil.rmtree(root, ignore_errors=True)
    inputs = []
    for i, p in enumerate(projs):
        d = os.path.join(root, "p%04d" % i)
        write_project(d, p, order_seed=i)
        inputs.append({"entry": os.path.join(d, "main.gom")})
    res = vlib.run_harness("discover", inputs, shards=vlib.NCPU)
    mism = []
    try:
        rows = ["((%s, [%s]), %s)" % (coq_fs(p), "; ".join(str(CODE[i]) for i in p["Main"]["imports"]), real_code(r)) for p, r in zip(projs, res)]
        per = 300
        chunks = [list(range(k, min(k + per, len(rows)))) for k in range(0, len(rows), per)]
        texts = [EXEC + "Definition cases : list ((fs * list N) * real) := [\n%s\n].\nEval vm_compute in (mismatches real_eqb model cases).\n" % ";\n".join(rows[k] for k in ch) for ch in chunks]
        for ch, out in zip(chunks, vlib.coq_eval_many("c13", texts)):
            mism += [ch[j] for j in vlib.parse_nat_list(out)]
    except Broken as b:
        broken.append(b)
    # ---- the property itself: byte-identical outputs across fresh processes and directory creation orders
    wits = []
    okp = [i for i, r in enumerate(res) if "topo" in r and len(r["topo"]) >= 3]
    rng = run.sub_rng("c13-det")
    sample = okp[:: max(1, len(okp) // (10 if run.tier == "quick" else 60))][: (12 if run.tier == "quick" else 80)]
    corpus = sorted(p for p in __import__("glob").glob(os.path.join(vlib.REPO, "crates/compiler/src/tests/package/*/main.gom")))
    runs_per = 6 if run.tier == "quick" else 16
    from concurrent.futures import ThreadPoolExecutor

    jobs = [(os.path.join(root, "p%04d" % i, "main.gom"), projs[i]) for i in sample] + [(c, None) for c in corpus] + [(os.path.join(vlib.VERIF, "design_probes/det13/main.gom"), None)]

    def one(job):
        path, p = job
        outs = fresh_process_outputs(path, runs_per)
        if p is not None:
            # same project re-created with another directory creation order
            alt = os.path.dirname(path) + "_alt"
            write_project(alt, p, order_seed=12345)
            o2 = fresh_process_outputs(os.path.join(alt, "main.gom"), 2)
            outs += [x.replace(alt, os.path.dirname(path)) for x in o2]
        return path, outs

    det_checked = 0
    with ThreadPoolExecutor(max_workers=vlib.NCPU) as ex:
        for path, outs in ex.map(one, jobs):
            det_checked += 1
            digs = {hashlib.sha256(o.encode()).hexdigest()[:12] for o in outs}
            if len(digs) > 1:
                a = outs[0]
                b = [o for o in outs if o != a][0]
                ja, jb = json.loads(a), json.loads(b)
                where = [k for k in ("go", "error_kind", "diagnostics") if ja.get(k) != jb.get(k)] + [k for k in (ja.get("dumps") or {}) if (ja.get("dumps") or {}).get(k) != (jb.get("dumps") or {}).get(k)]
                files = {}
                for dp, _, fn in os.walk(os.path.dirname(path)):
                    for x in fn:
                        if x.endswith(".gom"):
                            files[os.path.relpath(os.path.join(dp, x), os.path.dirname(path))] = open(os.path.join(dp, x)).read()
                wits.append({"kind": "the same project compiled in %d fresh processes gave %d different outputs" % (len(outs), len(digs)), "differs_in": where, "project_files": files, "entry": path})
    shutil.rmtree(root, ignore_errors=True)
    nontriv = len({json.dumps(p, sort_keys=True) for p in projs if len(p) >= 3})
    run.add_cases(len(projs) + det_checked, nontriv, samples=[projs[0], projs[n_exh // 2], projs[-1]])
    run.cov["rule"] = (
        "projects over packages %s: %d exhaustive (Main + Alpha/Shapes/Units with every import relation of at most 3 edges among them, cyclic ones included, x 3 import lists of Main) + %d random (missing directories, directories without sources, mismatched declarations, cycles); "
        "real discover_packages + topo_sort_packages results (orders or error class) are compared in coqc with the model; %d projects (generated + the 8 corpus projects + the det13 probe) are compiled in %d fresh processes each (different HashSet seeds) and once more from a tree created in another directory order, all dumps compared byte for byte; non-trivial = at least 3 packages"
        % (NAMES, n_exh, len(projs) - n_exh, det_checked, runs_per)
    )
    run.cov["correspondence"] = {"projects": len(projs), "model_mismatches": len(mism), "determinism_projects": det_checked, "fresh_processes_each": runs_per, "error_results": sum(1 for r in res if "error" in r)}
    run.cov["open_obligations"] = ["other HashMap iteration sites on the compile path (env merging, constructor index, trait impl tables) are covered only by the fresh-process comparison, not modelled", "interface-hash determinism is checked under C15"]
    run.assumptions = ["std's HashMap RandomState differs between processes (it is seeded from OS randomness)", "OS directory enumeration order is exercised by re-creating the tree in another order, not modelled"]
    if wits:
        for w in wits[:3]:
            run.violation(w)
    elif mism or broken:
        run.violation({"broken": [b.what for b in broken] + (["correspondence: discovery/topological order model vs implementation"] if mism else []), "detail": [b.detail for b in broken], "examples": [{"project": projs[i], "impl": res[i]} for i in mism[:5]], "theorems_no_longer_shown": ["discovery_order_independent", "topo_order_independent"]}, no_input=True)


def replay(run, path):
    with open(path) as f:
        w = json.load(f)
    print(json.dumps(w, indent=1)[:3000])
    return 0
