"""C05 — names resolve lexically: innermost binding wins and bindings never leak."""
import itertools
import json
import os
import re

import vlib
from vlib import Broken

NAMES = ["x", "y", "z", "w", "g", "string_print"]  # g: package definition, string_print: builtin
CODE = {n: i for i, n in enumerate(NAMES)}
LOCALS = ["x", "y", "z"]

# AST: ("var", name, occ) ("lit",) ("let", pat, e) ("block", [e]) ("if", c, t, f) ("while", c, b)
#      ("match", s, [(pat, e)]) ("closure", [pat], b) ("node", [e])
# pat: ("pv", name, occ) ("pw",) ("pt", [pat])


class Gen:
    def __init__(self, rng):
        self.rng = rng
        self.occ = 0

    def fresh(self):
        self.occ += 1
        return self.occ

    def var(self):
        r = self.rng.random()
        if r < 0.7:
            n = self.rng.choice(LOCALS)
        elif r < 0.8:
            n = "w"  # mostly unbound
        elif r < 0.9:
            n = "g"
        else:
            n = "string_print"
        return ("var", n, self.fresh())

    def binder_name(self):
        r = self.rng.random()
        if r < 0.85:
            return self.rng.choice(LOCALS)
        return self.rng.choice(["g", "string_print", "w"])  # locals shadowing a definition / builtin

    def pat(self, depth=1):
        r = self.rng.random()
        if r < 0.65 or depth <= 0:
            return ("pv", self.binder_name(), self.fresh())
        if r < 0.75:
            return ("pw",)
        sub = [self.pat(depth - 1) for _ in range(self.rng.randint(2, 3))]
        # the same binding structure written as a tuple, a struct pattern (explicit or shorthand fields) or a constructor pattern
        forms = ["tuple", "struct", "ctor"]
        if all(q[0] == "pv" and q[1] in LOCALS for q in sub) and len({q[1] for q in sub}) == len(sub):
            forms += ["short", "short"]
        return ("pt", sub, self.rng.choice(forms))

    def block(self, depth):
        n = self.rng.randint(1, 4)
        es = []
        for _ in range(n):
            if self.rng.random() < 0.45:
                es.append(("let", self.pat(), self.expr(depth - 1)))
            else:
                es.append(self.expr(depth - 1))
        return ("block", es)

    def expr(self, depth):
        r = self.rng.random()
        if depth <= 0 or r < 0.3:
            return self.var() if self.rng.random() < 0.85 else ("lit",)
        if r < 0.55:
            return ("if", self.expr(depth - 1), self.block(depth - 1), self.block(depth - 1))
        if r < 0.6:
            return ("while", self.expr(depth - 1), self.block(depth - 1))
        if r < 0.75:
            return ("match", self.expr(depth - 1), [(self.pat(), self.expr(depth - 1)) for _ in range(self.rng.randint(1, 3))])
        if r < 0.87:
            return ("closure", [("pv", self.binder_name(), self.fresh()) for _ in range(self.rng.randint(0, 2))], self.expr(depth - 1))
        return ("node", [self.expr(depth - 1) for _ in range(self.rng.randint(2, 3))])


def exhaustive_programs():
    """every arrangement of two scope constructs around a reuse of the identifier x"""
    progs = []
    occ = itertools.count(1)

    def v(n="x"):
        return ("var", n, next(occ))

    def b(n="x"):
        return ("pv", n, next(occ))

    wrappers = [
        lambda inner: ("if", v("y"), ("block", inner), ("block", [v()])),
        lambda inner: ("if", v("y"), ("block", [v()]), ("block", inner)),
        lambda inner: ("while", v("y"), ("block", inner)),
        lambda inner: ("match", v("y"), [(b(), ("block", inner)), (("pw",), v())]),
        lambda inner: ("match", v(), [(("pw",), ("block", inner)), (b("y"), v())]),
        lambda inner: ("closure", [b()], ("block", inner)),
        lambda inner: ("closure", [b("y")], ("block", inner)),
        lambda inner: ("node", [("if", v("y"), ("block", inner), ("block", [v()])), v()]),
        lambda inner: ("node", [v(), ("closure", [], ("block", inner))]),
    ]
    stmts = [
        lambda: [("let", b(), v())],
        lambda: [("let", b(), ("lit",)), v()],
        lambda: [v(), ("let", b("y"), v())],
        lambda: [("let", ("pt", [b(), b("y")]), v("y")), v()],
    ]
    for w1 in wrappers:
        for w2 in wrappers:
            for s in stmts:
                for pre in (False, True):
                    body = []
                    if pre:
                        body.append(("let", b(), ("lit",)))
                    body.append(w1([w2(s() + [v()]), v()]))
                    body.append(v())
                    progs.append(([b("z")], ("block", body)))
    return progs


# ---- printing ----


def atom(e):
    return e[0] in ("var", "lit")


def src_pat(p):
    if p[0] == "pv":
        return p[1]
    if p[0] == "pw":
        return "_"
    form = p[2] if len(p) > 2 else "tuple"
    if form == "struct":
        return "S%d { %s }" % (len(p[1]), ", ".join("f%d: %s" % (i, src_pat(q)) for i, q in enumerate(p[1])))
    if form == "ctor":
        return "K%d(%s)" % (len(p[1]), ", ".join(src_pat(q) for q in p[1]))
    if form == "short":
        return "Sxyz { %s }" % ", ".join(q[1] for q in p[1])
    return "(" + ", ".join(src_pat(q) for q in p[1]) + ")"


def src_block(es):
    parts = []
    for e in es:
        parts.append(src(e))
    if es and es[-1][0] == "let":
        parts.append("1")
    return "{ " + "; ".join(parts) + " }"


def sub(e):
    return src(e) if atom(e) else "(" + src(e) + ")"


def src(e):
    k = e[0]
    if k == "var":
        return e[1]
    if k == "lit":
        return "1"
    if k == "let":
        return "let %s = %s" % (src_pat(e[1]), src(e[2]))
    if k == "block":
        return src_block(e[1])
    if k == "if":
        return "if %s %s else %s" % (sub(e[1]), src(e[2]), src(e[3]))
    if k == "while":
        return "while %s %s" % (sub(e[1]), src(e[2]))
    if k == "match":
        return "match %s { %s }" % (sub(e[1]), ", ".join("%s => %s" % (src_pat(p), src(b) if b[0] == "block" or atom(b) else "(" + src(b) + ")") for p, b in e[2]))
    if k == "closure":
        return "|%s| %s" % (", ".join(src_pat(p) for p in e[1]), src(e[2]) if e[2][0] == "block" or atom(e[2]) else "(" + src(e[2]) + ")")
    if k == "node":
        return "(" + ", ".join(sub(x) for x in e[1]) + ")"
    raise KeyError(k)


def program(params, body):
    assert body[0] == "block"
    return TYPES_DECL + "fn f(%s) -> int32 {\n    %s;\n    1\n}\nfn g() -> int32 { 1 }\n" % (", ".join("%s: int32" % src_pat(p) for p in params), "; ".join(src(e) for e in body[1]))


TYPES_DECL = "struct S2 { f0: int32, f1: int32 }\nstruct S3 { f0: int32, f1: int32, f2: int32 }\nstruct Sxyz { x: int32, y: int32, z: int32 }\nenum K { K2(int32, int32), K3(int32, int32, int32) }\n"


# ---- orders ----


def pat_occs(p):
    if p[0] == "pv":
        return [("bind", p[1], p[2])]
    if p[0] == "pw":
        return []
    return [o for q in p[1] for o in pat_occs(q)]


def text_order(e):
    k = e[0]
    if k == "var":
        return [("use", e[1], e[2])]
    if k == "lit":
        return []
    if k == "let":
        return pat_occs(e[1]) + text_order(e[2])
    if k in ("block", "node"):
        return [o for x in e[1] for o in text_order(x)]
    if k == "if":
        return text_order(e[1]) + text_order(e[2]) + text_order(e[3])
    if k == "while":
        return text_order(e[1]) + text_order(e[2])
    if k == "match":
        return text_order(e[1]) + [o for p, b in e[2] for o in pat_occs(p) + text_order(b)]
    if k == "closure":
        return [o for p in e[1] for o in pat_occs(p)] + text_order(e[2])
    raise KeyError(k)


def res_order(e):
    if e[0] == "let":
        return res_order(e[2]) + pat_occs(e[1])
    k = e[0]
    if k == "var":
        return [("use", e[1], e[2])]
    if k == "lit":
        return []
    if k in ("block", "node"):
        return [o for x in e[1] for o in res_order(x)]
    if k == "if":
        return res_order(e[1]) + res_order(e[2]) + res_order(e[3])
    if k == "while":
        return res_order(e[1]) + res_order(e[2])
    if k == "match":
        return res_order(e[1]) + [o for p, b in e[2] for o in pat_occs(p) + res_order(b)]
    if k == "closure":
        return [o for p in e[1] for o in pat_occs(p)] + res_order(e[2])
    raise KeyError(k)


# ---- coq terms ----


def coq_pat(p):
    if p[0] == "pv":
        return "(PV %d)" % CODE[p[1]]
    if p[0] == "pw":
        return "PW"
    return "(PT %s)" % coq_pats(p[1])


def coq_pats(ps):
    s = "PNil"
    for p in reversed(ps):
        s = "(PCons %s %s)" % (coq_pat(p), s)
    return s


def coq_exprs(es):
    s = "ENil"
    for e in reversed(es):
        s = "(ECons %s %s)" % (coq_expr(e), s)
    return s


def coq_expr(e):
    k = e[0]
    if k == "var":
        return "(Var %d)" % CODE[e[1]]
    if k == "lit":
        return "Lit"
    if k == "let":
        return "(Let %s %s)" % (coq_pat(e[1]), coq_expr(e[2]))
    if k == "block":
        return "(Block %s)" % coq_exprs(e[1])
    if k == "if":
        return "(If %s %s %s)" % (coq_expr(e[1]), coq_expr(e[2]), coq_expr(e[3]))
    if k == "while":
        return "(While %s %s)" % (coq_expr(e[1]), coq_expr(e[2]))
    if k == "match":
        s = "ANil"
        for p, b in reversed(e[2]):
            s = "(ACons %s %s %s)" % (coq_pat(p), coq_expr(b), s)
        return "(Match %s %s)" % (coq_expr(e[1]), s)
    if k == "closure":
        return "(Closure %s %s)" % (coq_pats(e[1]), coq_expr(e[2]))
    if k == "node":
        return "(Node %s)" % coq_exprs(e[1])
    raise KeyError(k)


TOKEN = re.compile(r"local/\d+/(\d+)|def/\d+/(\d+)|([A-Za-z_][A-Za-z_0-9]*)/(\d+)|\b(x|y|z|w|g|string_print)\b(?!/)(?!\s*:)")
CTOR = re.compile(r"ctor\(def/\d+/\d+::v\d+\)")


def parse_hir(text):
    """tokens of function f in text order"""
    i = text.index("fn f(")
    j = text.index("fn g(", i)
    toks = []
    for m in TOKEN.finditer(CTOR.sub("ctor", text[i + 3 : j])):
        if m.group(1) is not None:
            toks.append(("bind", int(m.group(1))))
        elif m.group(2) is not None:
            toks.append(("def",))
        elif m.group(3) is not None:
            toks.append(("local", m.group(3), int(m.group(4))))
        else:
            toks.append(("bare", m.group(5)))
    return toks


def real_tokens(params, body, hir):
    """map the real text-order tokens to resolution order, as Coq tok terms"""
    t_order = [o for p in params for o in pat_occs(p)] + text_order(body)
    r_order = [o for p in params for o in pat_occs(p)] + res_order(body)
    real = parse_hir(hir)
    # the parameter list is printed as `local/1/N: int32`
    if len(real) != len(t_order):
        raise Broken("correspondence", "token count differs: expected %d, HIR has %d" % (len(t_order), len(real)))
    by_occ = {}
    for (kind, name, occ), tk in zip(t_order, real):
        if kind == "bind":
            if tk[0] != "bind":
                raise Broken("correspondence", "binder expected, HIR shows %r" % (tk,))
            by_occ[occ] = "TBind %d %d" % (CODE[name], tk[1])
        else:
            if tk[0] == "local":
                if tk[1] != name:
                    raise Broken("correspondence", "use of %s printed as %s" % (name, tk[1]))
                by_occ[occ] = "TUse %d (RLocal %d)" % (CODE[name], tk[2])
            elif tk[0] == "def":
                by_occ[occ] = "TUse %d RDef" % CODE[name]
            elif tk[0] == "bare":
                if tk[1] != name:
                    raise Broken("correspondence", "use of %s printed as %s" % (name, tk[1]))
                by_occ[occ] = "TUse %d %s" % (CODE[name], "RBuiltin" if name == "string_print" else "RUnresolved")
            else:
                raise Broken("correspondence", "use expected, HIR shows %r" % (tk,))
    return [by_occ[o[2]] for o in r_order]


def check(run):
    broken = []
    try:
        vlib.proof_stage(run, "C05", ["C05/Properties.v", "C05/Exec.v"])
    except Broken as b:
        broken.append(b)
    rng = run.sub_rng("c05")
    progs = exhaustive_programs()
    n_exh = len(progs)
    nrand = 600 if run.tier == "quick" else 6000
    for _ in range(nrand):
        g = Gen(rng)
        params = [("pv", nm, g.fresh()) for nm in rng.sample(LOCALS + ["g", "string_print"], rng.randint(0, 2))]
        progs.append((params, g.block(rng.randint(2, 4))))
    srcs = [program(p, b) for p, b in progs]
    res = vlib.run_harness("resolve", [{"src": s} for s in srcs], shards=vlib.NCPU)
    cases = []
    hard = []
    idx = []
    for i, ((params, body), r) in enumerate(zip(progs, res)):
        if "hir" not in r:
            hard.append((i, r))
            continue
        try:
            toks = real_tokens(params, body, r["hir"])
        except (Broken, ValueError) as b:
            hard.append((i, {"error": getattr(b, "detail", str(b)), "hir": r["hir"][:1500]}))
            continue
        idx.append(i)
        cases.append("{| r_params := %s; r_body := %s; r_n0 := 0; r_real := [%s] |}" % (coq_pats(params), coq_expr(body), "; ".join(toks)))
    model_bad, spec_bad = [], []
    try:
        per = 200
        chunks = [list(range(k, min(k + per, len(cases)))) for k in range(0, len(cases), per)]
        texts = [
            "From Goml Require Import Common.Base C05.Model C05.Exec.\nDefinition cases : list rcase := [\n%s\n].\n"
            "Eval vm_compute in (bad_idx model_ok cases 0).\nEval vm_compute in (bad_idx spec_ok cases 0).\n" % ";\n".join(cases[k] for k in ch)
            for ch in chunks
        ]
        for ch, out in zip(chunks, vlib.coq_eval_many("c05", texts)):
            parts = re.findall(r"=\s*(\[.*?\])\s*:\s*list N", out, re.S)
            if len(parts) != 2:
                raise Broken("coq-output", out[-800:])
            model_bad += [idx[ch[j]] for j in vlib.parse_nat_list("= %s : list N" % parts[0])]
            spec_bad += [idx[ch[j]] for j in vlib.parse_nat_list("= %s : list N" % parts[1])]
    except Broken as b:
        broken.append(b)
    distinct = len({s for s, (p, b) in zip(srcs, progs) if sum(1 for o in res_order(b) if o[0] == "bind") >= 2})
    run.add_cases(len(progs), distinct, samples=[srcs[i].split("\n")[1].strip()[:300] for i in (0, n_exh // 2, n_exh + 1, len(progs) - 1)])
    run.cov["rule"] = (
        "function bodies over identifiers x,y,z (locals), w (mostly unbound), g (package function), string_print (builtin): %d exhaustive nestings (every ordered pair of 9 scope constructs "
        "(if-then, if-else, while, match arm binding/not binding, closure binding/not binding, call argument) x 4 statement shapes x with/without an outer binding) + %d random bodies (depth 2-4; "
        "let / tuple patterns / match arms / closures / shadowing of definitions and builtins); each is resolved by the real NameResolution (lower_to_project_hir_files), every binder id and every use's "
        "resolution is read from the HIR and compared in coqc with (a) the model res_fn and (b) the scope-stack specification spec_run; non-trivial = at least two binders" % (n_exh, len(progs) - n_exh)
    )
    run.cov["correspondence"] = {"programs": len(progs), "model_mismatches": len(model_bad), "spec_disagreements_on_real_output": len(spec_bad), "unreadable_or_failed": len(hard)}
    run.cov["open_obligations"] = [
        "the typer's own scoping (LocalTypeEnv push_scope/pop_scope) and the 'well-scoped program is never rejected' half are exercised only through the known probes, not modelled",
        "paths with more than one segment, constructor names and struct-literal field shorthand are outside the model",
    ]
    run.assumptions = ["the HIR pretty-printer shows binders as local/<pkg>/<id>, local uses as hint/<id>, definitions as def/<pkg>/<id> and builtins/unresolved names bare"]
    # known regression probes (the defect fixed in /repo): p1 must be rejected as unresolved, p2 accepted
    probe_bad = []
    try:
        p1 = os.path.join(vlib.VERIF, "corpus/C05/p1/main.gom")
        p2 = os.path.join(vlib.VERIF, "corpus/C05/p2/main.gom")
        r1, r2 = vlib.run_harness("compile", [{"path": p1}, {"path": p2}])
        if r1.get("ok") or not any("Unresolved name w" in d["message"] for d in r1.get("diagnostics", [])):
            probe_bad.append({"kind": "binding leaks out of an if-branch block", "program": open(p1).read(), "impl": {k: v for k, v in r1.items() if k != "go"}})
        if not r2.get("ok"):
            probe_bad.append({"kind": "well-scoped program rejected", "program": open(p2).read(), "impl": r2})
    except Broken as b:
        broken.append(b)
    if spec_bad or probe_bad or [h for h in hard if "panic" in h[1]]:
        for i in sorted(spec_bad, key=lambda k: len(srcs[k]))[:3]:
            run.violation({"kind": "a use does not resolve to its innermost enclosing binder", "program": srcs[i], "hir": res[i].get("hir"), "replay_cmd": "echo '{\"src\": <program>}' | _build/cargo/debug/gomlv resolve"})
        for w in probe_bad[:2]:
            run.violation(w)
        for i, r in [h for h in hard if "panic" in h[1]][:2]:
            run.violation({"kind": "name resolution panicked", "program": srcs[i], "impl": r})
    elif model_bad or hard or broken:
        run.violation(
            {
                "broken": [b.what for b in broken] + (["correspondence: res_fn model != real resolver output"] if model_bad else []) + (["correspondence: HIR output not readable / resolver failed"] if hard else []),
                "detail": [b.detail for b in broken],
                "examples": [{"program": srcs[i], "hir": res[i].get("hir")} for i in model_bad[:3]] + [{"program": srcs[i], "impl": r} for i, r in hard[:3]],
                "theorems_no_longer_shown": ["resolve_is_lexical"],
            },
            no_input=True,
        )


def replay(run, path):
    with open(path) as f:
        w = json.load(f)
    if "program" in w:
        (r,) = vlib.run_harness("resolve", [{"src": w["program"]}])
        print(json.dumps(r, indent=1)[:3000])
    return 0
