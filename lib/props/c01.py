"""C01 — emitted Go behaves exactly as the source program denotes."""
import json
import os

import semcheck
import semrun
import vlib
from vlib import Broken


def check(run):
    run.level = "translation_validation"
    broken = []
    try:
        vlib.proof_stage(run, "C01", ["C01/Properties.v"])
    except Broken as b:
        broken.append(b)
    wits, stats, cstats, srcs = [], {}, {}, []
    try:
        import genprog
        mrng = run.sub_rng("C01-matrix")
        extra = [genprog.matrix_program(mrng) for _ in range(60 if run.tier == "quick" else 1200)]
        drng = run.sub_rng("C01-discard")
        extra += [genprog.discard_program(drng) for _ in range(30 if run.tier == "quick" else 600)]
        import matrixgen
        extra += matrixgen.sources(run, "c01")
        wits, stats, cstats, srcs = semcheck.run_semantic_check(run, "C01", 120, 3000, extra_sources=extra)
    except Broken as b:
        broken.append(b)
    n = stats.get("generated", 0)
    run.add_cases(n + (cstats or {}).get("programs", 0), stats.get("agree", 0), samples=[s[s.index("fn main") :][:600] for s in srcs[:3]])
    run.cov["programs"] = n + (cstats or {}).get("programs", 0)
    run.cov["disagreements_checked"] = n + (cstats or {}).get("programs", 0)
    run.cov["rule"] = (
        "type-directed generated programs over ints/bools/strings/tuples/structs/enums/refs/vectors/arrays/closures/trait objects/while/match with printing probes in every operand, argument, condition and branch position "
        "and occasional failing operations; each is compiled by the real compiler, the real TAST (the typed source program; Mono IR where generic trait calls prevent it) and the real Go AST are read back and executed by the Coq semantics (Sem/Src.v, Sem/GoSem.v) in coqc; stdout bytes and the way the program ends must agree. "
        "The 74 corpus programs are run the same way and must also reproduce the output recorded from real Go. distinct_nontrivial = programs on which both semantics ran to completion and agreed"
    )
    run.cov["correspondence"] = {"generated": stats, "corpus": cstats}
    run.cov["open_obligations"] = [
        "pipeline_preserves_beh (composition of per-pass correctness theorems) is not proved; this check validates each program, it does not prove the compiler",
        "the reference is the typed source tree (TAST) interpreted with first-match pattern semantics; parsing/typing (text -> TAST) are covered by C11/C12/C03/C05",
    ]
    run.assumptions = ["Sem/GoSem.v models Go: validated against the 66 corpus outputs recorded from real Go; slices share their backing array while the capacity lasts (doubling growth), floats and goroutine scheduling are outside the model",
                       "Sem/Src.v is the source-level meaning (call-by-value, left-to-right, short-circuit, Ref cells, wrap-around): validated on the same corpus"]
    for k in run.known:
        if k["replay"]["kind"] == "semantic-differ":
            import os
            import semrun

            r = semrun.compare("c01kf", [os.path.join(vlib.VERIF, k["replay"]["program"])], src_stage="tast")[0]
            if r["status"] == "differ":
                run.known_finding(k["id"], "%s: %s (%s)" % (k["id"], k["what"], k["replay"]["program"]))
    if wits:
        for w in wits[:3]:
            w["replay_cmd"] = "write `program` to DIR/main.gom; ./check C01 --replay <this file>"
            run.violation(w)
    elif broken:
        run.violation({"broken": [b.what for b in broken], "detail": [b.detail for b in broken]}, no_input=True)


def replay(run, path):
    with open(path) as f:
        w = json.load(f)
    if "program" in w:
        root, paths = semrun.write_programs("c01replay", [w["program"]])
        print(json.dumps(semrun.details("c01replay", paths[0]), indent=1)[:4000])
    return 0
