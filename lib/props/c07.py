"""C07 — generic code behaves identically at every instantiation and is fully specialised."""
import json
import sys
import re
import os
import shutil

import genericgen
import rustdbg
import semrun
import vlib
from vlib import Broken

RESIDUE = {"TParam", "TVar", "TApp"}


def residue(tree, acc, path=""):
    k = tree[0]
    if k in ("struct", "tuple", "unit") and tree[1] in RESIDUE:
        acc.append("%s at %s" % (tree[1], path[-120:]))
        return
    if k == "struct":
        for f, v in tree[2].items():
            residue(v, acc, path + "." + f)
    elif k == "tuple":
        for i, v in enumerate(tree[2]):
            residue(v, acc, path + "." + tree[1])
    elif k in ("list", "anon"):
        for i, v in enumerate(tree[1]):
            residue(v, acc, path + "[%d]" % i)


PRIMC = {"int32": "PInt32", "bool": "PBool", "string": "PString"}


def S(s_):
    return vlib.coq_Nlist(list(s_.encode("utf-8")))


def coq_ty(t):
    k = t[0]
    if k in PRIMC:
        return "(TPrim %s)" % PRIMC[k]
    if k in ("P", "E"):
        return "(TNamed %s)" % S(k)
    if k == "tup":
        return "(TTuple [%s; %s])" % (coq_ty(t[1]), coq_ty(t[2]))
    if k == "Vec":
        return "(TVec %s)" % coq_ty(t[1])
    if k in ("Box", "Opt"):
        return "(TApp %s [%s])" % (S(k), coq_ty(t[1]))
    if k == "Two":
        return "(TApp %s [%s; %s])" % (S(k), coq_ty(t[1]), coq_ty(t[2]))
    raise KeyError(k)


def model_name_term(gen, name, conc):
    it = gen.items[name]
    base = name
    if it.method_of:
        hdr = {"Box": "Box[T]", "Two": "Two[T,U]"}[it.method_of]
        base = "inherent#%s#%s#%s" % (it.method_of, hdr, name.split(".")[1])
    pairs = sorted(zip([tp for tp, _ in it.tparams], conc))
    return "(spec_name %s [%s])" % (S(base), "; ".join("(%s, %s)" % (S(tp), coq_ty(c)) for tp, c in pairs))


def expected_name(gen, name, conc):
    it = gen.items[name]
    base = name
    if it.method_of:
        hdr = {"Box": "Box[T]", "Two": "Two[T,U]"}[it.method_of]
        base = "inherent#%s#%s#%s" % (it.method_of, hdr, name.split(".")[1])
    pairs = sorted(zip([tp for tp, _ in it.tparams], conc))
    return base + "__" + "__".join("%s_%s" % (tp, genericgen.ty_text(c).replace(" ", "")) for tp, c in pairs)


def check(run):
    run.level = "translation_validation"
    broken = []
    try:
        vlib.proof_stage(run, "C07", ["C01/Properties.v", "C07/Properties.v"], pins="C07")
    except Broken as b:
        broken.append(b)
    rng = run.sub_rng("c07")
    n = 60 if run.tier == "quick" else 1200
    gens, Ps, Pms, infos = [], [], [], []
    for _ in range(n):
        g = genericgen.Gen(rng)
        P, Pm, info = g.program(n_stmts=rng.choice([3, 5, 7]), depth=rng.choice([2, 3]))
        gens.append(g)
        Ps.append(P)
        Pms.append(Pm)
        infos.append(info)
    wits = []
    name_cases = []
    stats = {"pairs": n, "agree": 0, "generic_rejected": 0, "instances": 0, "distinct_instantiation_types": set()}
    try:
        root1, pm_paths = semrun.write_programs("c07m", Pms)
        root2, p_paths = semrun.write_programs("c07g", Ps)
        # reference: the substituted program at the typed-tree level; implementation: the Go emitted for the generic program
        res = semrun.compare("c07", pm_paths, src_stage="tast", go_paths=p_paths, extra_dumps=("mono_dbg",))
        for g, P, Pm, info, r in zip(gens, Ps, Pms, infos, res):
            st = r["status"]
            if st == "rejected" and r.get("side") == "go":
                # completeness of inference is not part of C07 (accepted programs only)
                stats["generic_rejected"] += 1
                continue
            if st == "agree":
                stats["agree"] += 1
            elif st == "skipped":
                stats["skipped"] = stats.get("skipped", 0) + 1
            else:
                kind = {
                    "differ": "the generic program's Go behaves differently from the definitions with the types substituted",
                    "go-stuck": "the Go emitted for the generic program is not executable in the Go model (undefined or ill-typed name)",
                    "panic": "the compiler panicked or did not answer on a generic program",
                    "rejected": "the substituted (non-generic) program was rejected",
                    "src-stuck": "the substituted program is stuck in the source model",
                    "conv-error": "an IR dump has a shape the model cannot read",
                }[st]
                w = {"kind": kind, "status": st, "program": P, "substituted_program": Pm, "instances": info["instances"]}
                if st in ("panic", "rejected"):
                    w["impl"] = r.get("compile")
                wits.append(w)
                continue
            # structure of the Mono program: no residue, exactly the reachable instances, each once
            side = r.get("go_side") or {}
            mono = rustdbg.parse(side["dumps"]["mono_dbg"])
            acc = []
            residue(mono, acc)
            if acc:
                wits.append({"kind": "type parameter / type application residue after monomorphisation: " + acc[0], "program": P})
            names = [f[2]["name"][1] for f in mono[2]["toplevels"][1]]
            inst_names = [x for x in names if "__T_" in x]
            name_cases.append(("[%s]" % "; ".join(model_name_term(g, nm, tuple(c)) for nm, c in g.order), "[%s]" % "; ".join(S(x) for x in sorted(inst_names)), P))
            want = sorted(expected_name(g, nm, tuple(c)) for nm, c in g.order)
            stats["instances"] += len(want)
            for nm, c in g.order:
                stats["distinct_instantiation_types"].update(c)
            if len(set(names)) != len(names):
                dup = sorted(x for x in set(names) if names.count(x) > 1)
                wits.append({"kind": "two Mono functions share the name %s" % dup[0], "program": P})
            elif sorted(inst_names) != want:
                missing = sorted(set(want) - set(inst_names))
                extra = sorted(set(inst_names) - set(want))
                wits.append({"kind": "the generated instances are not exactly the instantiations reachable from main: missing %s, unexpected %s" % (missing[:3], extra[:3]), "program": P})
            if "TParam" in (side.get("go") or ""):
                wits.append({"kind": "the emitted Go mentions a type parameter", "program": P})
        # the Coq model of spec_name_for / ty_compact must give exactly the names of the real Mono instances
        per = 20
        texts = []
        for k0 in range(0, len(name_cases), per):
            body = "From Goml Require Import Common.Base C07.Names.\nOpen Scope N_scope.\n"
            body += "Definition same (a b : list str) : bool := forallb (fun x => existsb (list_eqb x) b) a && forallb (fun x => existsb (list_eqb x) a) b.\n"
            body += "Eval vm_compute in [%s].\n" % "; ".join("same %s %s" % (m, r_) for m, r_, _ in name_cases[k0 : k0 + per])
            texts.append(body)
        outs = vlib.coq_eval_many("c07names", texts)
        import re as _re

        flat = []
        for o in outs:
            m = _re.search(r"=\s*\[([^\]]*)\]\s*:\s*list bool", o, _re.S)
            if not m:
                raise Broken("coq-output", o[-500:])
            flat += [x.strip() == "true" for x in m.group(1).split(";") if x.strip()]
        stats["model_names_agree"] = sum(flat)
        for ok_, (_, _, P) in zip(flat, name_cases):
            if not ok_:
                wits.append({"kind": "the Coq model of spec_name_for/ty_compact does not give the names of the real Mono instances (model no longer describes the code)", "program": P})
        shutil.rmtree(root1, ignore_errors=True)
        shutil.rmtree(root2, ignore_errors=True)
    except Broken as b:
        broken.append(b)
    # generic instances in every syntactic position (position x feature matrix): typed source vs emitted Go
    try:
        import matrixgen
        import semcheck

        mw, mstats, _, _ = semcheck.run_semantic_check(run, "C07", 0, 0, with_corpus=False, extra_sources=matrixgen.sources(run, "c07", subset="generic"), tag="c07mx")
        stats["matrix_programs"] = mstats
        wits += mw
        # the same programs: Mono has no residue, no generic definition survives under its own name, and Go would accept the result
        import go2coq

        sys.path.insert(0, os.path.dirname(os.path.abspath(__file__)))
        import c02 as c02mod

        msrcs = matrixgen.sources(run, "c07", subset="generic")
        mroot, mpaths = semrun.write_programs("c07mx2", msrcs)
        mres = vlib.run_harness("compile", [{"path": p_, "dumps": ["mono_dbg", "go_dbg"], "timeout_ms": 20000} for p_ in mpaths], shards=vlib.NCPU)
        generic_names = re.compile(r"(^|#)(gid|gsome|gor|gpair|gtwo|gnone|gvnew|gh\d+|tagm|pickm)$")
        gw_texts, gw_ix = [], []
        for src_, r in zip(msrcs, mres):
            if not r.get("ok"):
                continue
            mono = rustdbg.parse(r["dumps"]["mono_dbg"])
            acc = []
            residue(mono, acc)
            if acc:
                wits.append({"kind": "type parameter / type application residue after monomorphisation: " + acc[0], "program": src_})
            for f in mono[2]["toplevels"][1]:
                if generic_names.search(f[2]["name"][1]):
                    wits.append({"kind": "the generic definition %s is emitted under its own name instead of one instance per instantiation" % f[2]["name"][1], "program": src_})
                    break
            try:
                gw_texts.append("Definition f%d := %s.\n" % (len(gw_texts), go2coq.file(rustdbg.parse(r["dumps"]["go_dbg"]))))
                gw_ix.append(src_)
            except (go2coq.Conv, KeyError, AssertionError):
                pass
        per_ = 16
        hdr = "From Goml Require Import Common.Base Sem.GoAst C02.GoCheck.\nOpen Scope N_scope.\n"
        codes = []
        for o in vlib.coq_eval_many("c07wf", [hdr + "".join(gw_texts[k : k + per_]) + "Eval vm_compute in [%s].\n" % "; ".join("match go_wf f%d with [] => 0 | (_, (c, _)) :: _ => c end" % j for j in range(k, min(k + per_, len(gw_texts)))) for k in range(0, len(gw_texts), per_)], timeout=1500):
            codes += vlib.parse_nat_list(o)
        for src_, code in zip(gw_ix, codes):
            if code:
                wits.append({"kind": "Go would reject the program emitted for generic code: %s" % c02mod.CODES.get(code, code), "program": src_})
        shutil.rmtree(mroot, ignore_errors=True)
    except Broken as b:
        broken.append(b)
    # regression corpus: instance names must be unique (minimised failures run on every check)
    import glob as _glob

    for pth in sorted(_glob.glob(vlib.VERIF + "/corpus/C07/*/main.gom")):
        (r,) = vlib.run_harness("compile", [{"path": pth, "dumps": ["mono_dbg"], "timeout_ms": 8000}])
        if r.get("ok"):
            names = [f[2]["name"][1] for f in rustdbg.parse(r["dumps"]["mono_dbg"])[2]["toplevels"][1]]
            dup = sorted(x for x in set(names) if names.count(x) > 1)
            if dup:
                wits.append({"kind": "two Mono functions share the name %s" % dup[0], "program": open(pth).read()})
        elif "panic" in r or r.get("timeout"):
            wits.append({"kind": "compiler panic/hang on a corpus program", "program": open(pth).read()})
    for k in run.known:
        if k["replay"]["kind"] == "duplicate-instance-name":
            (r,) = vlib.run_harness("compile", [{"path": vlib.VERIF + "/" + k["replay"]["program"], "dumps": ["mono_dbg"], "timeout_ms": 8000}])
            if r.get("ok"):
                names = [f[2]["name"][1] for f in rustdbg.parse(r["dumps"]["mono_dbg"])[2]["toplevels"][1]]
                dup = sorted(x for x in set(names) if names.count(x) > 1)
                if dup:
                    run.known_finding(k["id"], "%s: %s (%s: %s twice)" % (k["id"], k["what"], k["replay"]["program"], dup[0]))
    for k in run.known:
        if k["replay"]["kind"] == "compile-hang":
            (r,) = vlib.run_harness("compile", [{"path": vlib.VERIF + "/" + k["replay"]["program"], "timeout_ms": 4000}])
            if r.get("timeout"):
                run.known_finding(k["id"], "%s: %s (%s)" % (k["id"], k["what"], k["replay"]["program"]))
    stats["distinct_instantiation_types"] = len(stats["distinct_instantiation_types"])
    if not broken and stats["agree"] * 2 < n:
        broken.append(Broken("generator", "fewer than half of the generated pairs were accepted and compared (%d of %d): the exploration does not cover the property" % (stats["agree"], n)))
    run.add_cases(n, stats["agree"], samples=[Ps[0][Ps[0].index("fn main") :][:600], Pms[0][Pms[0].index("fn main") :][:400]])
    run.cov["rule"] = (
        "pairs (P, P'): P uses %d generic functions/methods (unbounded, trait-bounded with 2 methods, generic calling generic at derived types, same-instance recursion, local closure over T, "
        "inherent methods of generic types) at concrete types built from int32/bool/string/struct/enum/tuples/Box/Opt/Two/Vec nested to depth 2; P' is P with every generic definition copied per instantiation and its type parameters substituted textually. "
        "Additionally every generic cell of the position x feature matrix (generic enum/struct/function instances, also nested and as trait objects, in operands, branches, loop conditions and bodies, match arms, closure bodies, fields, "
        "bodies of plain, generic and method functions) is compared typed source vs emitted Go. The Go emitted for P (Sem/GoSem.v) must behave like P' at the typed tree (Sem/Src.v); Mono of P must contain no TParam/TVar/TApp, unique names, and exactly the instances reachable from main under the names spec_name_for gives. "
        "distinct_nontrivial = agreeing pairs" % len(genericgen.make_items())
    )
    run.cov["correspondence"] = stats
    run.cov["open_obligations"] = ["mono_correct (the worklist algorithm preserves the Core semantics under substitution) is not proved; termination of specialisation is explored with a watchdog (polymorphic recursion is a known finding)", "generic programs the typer rejects although their substituted form is accepted are counted (generic_rejected), not judged"]
    run.assumptions = ["textual substitution of type parameters in the generator's templates is the meaning of a generic definition at an instance"]
    if wits:
        for w in wits[:3]:
            run.violation(w)
    elif broken:
        run.violation({"broken": [b.what for b in broken], "detail": [b.detail for b in broken]}, no_input=True)


def replay(run, path):
    with open(path) as f:
        w = json.load(f)
    print(json.dumps({k: v for k, v in w.items() if k not in ("program", "substituted_program")}, indent=1)[:3000])
    return 0
