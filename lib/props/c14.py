"""C14 — separate compilation is equivalent to whole-program compilation."""
import itertools
import json
import os
import shutil
import sys

import semrun
import vlib
from vlib import Broken

LIBS = ["A", "B", "C"]
# dependency shapes among A, B, C (x -> its imports); Main imports a subset
SHAPES = [
    {"A": [], "B": [], "C": []},
    {"A": [], "B": ["A"], "C": []},
    {"A": [], "B": ["A"], "C": ["B"]},
    {"A": [], "B": ["A"], "C": ["A"]},
    {"A": [], "B": ["A"], "C": ["A", "B"]},
    {"A": [], "B": [], "C": ["A", "B"]},
]


def has_thunk(p):
    """every second package name (decided without the seeded stream): closures of no / one / two parameters in the package"""
    return sum(map(ord, p)) % 2 == 0


def lib_source(rng, p, deps, feats):
    lo = p.lower()
    k1, k2 = rng.randint(2, 9), rng.randint(1, 5)
    out = ["package %s" % p] + ["import %s" % d for d in deps]
    # first function of the package: the temporaries of the match compiler and of later passes start from the same counter value
    out.append("fn %s_tup(p: (int32, int32)) -> int32 { let (a, b) = p; (a + b) * (a - b) + %s_val(a) * (b + %d) }" % (lo, lo, k2))
    out.append("struct %sS { v: int32, w: string }" % p)
    out.append("enum %sE { %sX, %sY(int32), %sZ(%sS) }" % (p, p, p, p, p))
    out.append("struct %sBox[T] { item: T }" % p)
    out.append("trait %sT { fn show(Self) -> string; fn weight(Self) -> int32; }" % p)
    out.append('impl %sT for %sS {\n    fn show(self: %sS) -> string { "%s.S(" + int32_to_string(self.v) + "," + self.w + ")" }\n    fn weight(self: %sS) -> int32 { self.v * %d }\n}' % (p, p, p, p, p, k1))
    out.append('impl %sT for int32 {\n    fn show(self: int32) -> string { "%s.i(" + int32_to_string(self) + ")" }\n    fn weight(self: int32) -> int32 { self + %d }\n}' % (p, p, k2))
    for d in deps:
        if rng.random() < 0.7:
            feats.add("foreign-trait-own-type")
            out.append('impl %s::%sT for %sS {\n    fn show(self: %sS) -> string { "%s-as-%s(" + int32_to_string(self.v) + ")" }\n    fn weight(self: %sS) -> int32 { %s::%s_val(self.v) }\n}' % (d, d, p, p, p, d, p, d, d.lower()))
        if rng.random() < 0.5:
            feats.add("own-trait-foreign-type")
            out.append('impl %sT for %s::%sS {\n    fn show(self: %s::%sS) -> string { "%s-sees-%s(" + self.w + ")" }\n    fn weight(self: %s::%sS) -> int32 { self.v - %d }\n}' % (p, d, d, d, d, p, d, d, d, k2))
    out.append("impl %sS {\n    fn bump(self: %sS, by: int32) -> %sS { %sS { v: self.v + by, w: self.w } }\n}" % (p, p, p, p))
    out.append("impl[T] %sBox[T] {\n    fn get(self: %sBox[T]) -> T { self.item }\n}" % (p, p))
    out.append("fn %s_id[T](x: T) -> T { x }" % lo)
    out.append("fn %s_box[T](x: T) -> %sBox[T] { %sBox { item: x } }" % (lo, p, p))
    out.append('fn %s_show[T: %sT](x: T) -> string { %sT::show(x) + "/" + int32_to_string(x.weight()) }' % (lo, p, p))
    body = "n * %d + %d" % (k1, k2)
    for d in deps:
        body += " + %s::%s_val(n + %d)" % (d, d.lower(), rng.randint(0, 3))
    out.append("fn %s_val(n: int32) -> int32 { %s }" % (lo, body))
    out.append('fn %s_mk(n: int32) -> %sS { %sS { v: n, w: "%s" + int32_to_string(n) } }' % (lo, p, p, lo))
    out.append("fn %s_en(n: int32) -> %sE { if n == 0 { %sX } else { if n < 5 { %sY(n) } else { %sZ(%s_mk(n)) } } }" % (lo, p, p, p, p, lo))
    out.append('fn %s_match(e: %sE) -> string { match e { %sX => "x", %sY(k) => "y" + int32_to_string(k), %sZ(s) => "z" + %sT::show(s) } }' % (lo, p, p, p, p, p))
    # bodies that make every pass generate names: tuple and struct patterns, nested and string matches, closures, loops
    out.append("fn %s_tmatch(p: (int32, bool)) -> int32 { match p { (0, _) => 1, (n, true) => n * 2 + %d, (n, false) => n - 1 } }" % (lo, k1))
    out.append("fn %s_spat(s: %sS) -> int32 { let %sS { v: vv, w: ww } = s; match ww { \"a\" => vv, _ => vv + string_len(ww) } }" % (lo, p, p))
    out.append("fn %s_clo(n: int32) -> int32 { let r = ref(0); let add = |d: int32| { let _ = ref_set(r, ref_get(r) + d * n); ref_get(r) }; let _ = add(1); let c = ref(0); while ref_get(c) < 3 { let _ = add(ref_get(c)); ref_set(c, ref_get(c) + 1) }; add(2) }" % lo)
    out.append("fn %s_arr(n: int32) -> int32 { let a = [n, n + 1, n + 2]; let v: Vec[int32] = vec_new(); let v = vec_push(vec_push(v, array_get(a, 1)), array_get(a, 2)); vec_get(v, 0) * vec_len(v) + (n, (n + 1, true)).0 }" % lo)
    # shapes whose serialised form has an empty or optional part: closures of no, one and several parameters, an empty tuple
    # of captures, unit values, an empty array-free Vec, a function with no parameters
    if not has_thunk(p):
        out.append("fn %s_thunk(n: int32) -> int32 { n }" % lo)
    else:
      out.append("fn %s_unitf() -> unit { () }" % lo)
      out.append("fn %s_thunk(n: int32) -> int32 { let base = n + %d; let th = || base * 2; let k0 = || %d; let two = |a: int32, b: int32| a - b; let u = %s_unitf(); let ev: Vec[int32] = vec_new(); th() + k0() + two(n, 1) + vec_len(ev) }" % (lo, k1, k2, lo))
    if deps:
        d = deps[0]
        # a value of a type of the dependency handed on to this package's importers (who may not import the dependency)
        out.append("fn %s_dep(n: int32) -> %s::%sS { %s::%s_mk(n) }" % (lo, d, d, d, d.lower()))
        out.append("fn %s_via(n: int32) -> string { %s::%s_show(%s::%s_mk(n)) + %s::%s_match(%s::%s_en(n)) }" % (lo, d, d.lower(), d, d.lower(), d, d.lower(), d, d.lower()))
        out.append("fn %s_gen(n: int32) -> int32 { let bx: %s::%sBox[int32] = %s::%s_id(%s::%s_box(n)); let by: %sBox[int32] = %s_box(n + 1); bx.get() + by.get() }" % (lo, d, d, d, d.lower(), d, d.lower(), p, lo))
        feats.add("cross-package-generic")
    return "\n".join(out) + "\n"


def gen_project(rng):
    shape = rng.choice(SHAPES)
    used = rng.sample(LIBS, rng.randint(1, 3))
    # close under dependencies
    changed = True
    while changed:
        changed = False
        for u in list(used):
            for d in shape[u]:
                if d not in used:
                    used.append(d)
                    changed = True
    used.sort()
    feats = set()
    files = {}
    for p in used:
        files["%s/lib.gom" % p] = lib_source(rng, p, shape[p], feats)
    main_imps = rng.sample(used, rng.randint(1, len(used)))
    main = ["package Main"] + ["import %s" % d for d in sorted(main_imps)]
    main.append("struct MS { k: int32 }")
    stmts = []
    for d in main_imps:
        lo = d.lower()
        n = rng.randint(0, 7)
        main.append('impl %s::%sT for MS {\n    fn show(self: MS) -> string { "M-as-%s(" + int32_to_string(self.k) + ")" }\n    fn weight(self: MS) -> int32 { self.k }\n}' % (d, d, d))
        cands = [
            "string_println(%s::%s_show(%s::%s_mk(%d)))" % (d, lo, d, lo, n),
            "string_println(%s::%s_show(%d))" % (d, lo, n),
            "string_println(%s::%s_show(MS { k: %d }))" % (d, lo, n),
            "string_println(int32_to_string(%s::%s_val(%d)))" % (d, lo, n),
            "string_println(%s::%s_match(%s::%s_en(%d)))" % (d, lo, d, lo, n),
            "let sb%s%d: %s::%sS = %s::%s_mk(%d); let _ = string_println(%s::%sT::show(sb%s%d.bump(%d)))" % (lo, n, d, d, d, lo, n, d, d, lo, n, n + 1),
            "let bx%s%d: %s::%sBox[int32] = %s::%s_id(%s::%s_box(%d)); let _ = string_println(int32_to_string(bx%s%d.get()))" % (lo, n, d, d, d, lo, d, lo, n, lo, n),
            "string_println(%s::%sT::show(%s::%s_id(%s::%s_mk(%d))))" % (d, d, d, lo, d, lo, n),
        ]
        cands += [
            "string_println(int32_to_string(%s::%s_tup((%d, 3))))" % (d, lo, n),
            "string_println(int32_to_string(%s::%s_tmatch((%d, %s))))" % (d, lo, n, rng.choice(["true", "false"])),
            "string_println(int32_to_string(%s::%s_spat(%s::%s_mk(%d))))" % (d, lo, d, lo, n),
            "string_println(int32_to_string(%s::%s_clo(%d)))" % (d, lo, n),
            "string_println(int32_to_string(%s::%s_arr(%d)))" % (d, lo, n),
        ]
        if shape[d]:
            cands += ["string_println(%s::%s_via(%d))" % (d, lo, n), "string_println(int32_to_string(%s::%s_gen(%d)))" % (d, lo, n)]
            dd0 = shape[d][0]
            # implicit uses of a package reached only through %s: a field, a trait impl, a coercion (whether Main imports it or not)
            cands += [
                "let iv%s%d = %s::%s_dep(%d); let _ = string_println(int32_to_string(iv%s%d.v))" % (lo, n, d, lo, n, lo, n),
                "string_println(%s::%sT::show(%s::%s_dep(%d)))" % (d, d, d, lo, n),
                "let id%s%d: dyn %s::%sT = %s::%s_dep(%d); let _ = string_println(%s::%sT::show(id%s%d))" % (lo, n, d, d, d, lo, n, d, d, lo, n),
            ]
        for dd in shape[d]:
            if dd in main_imps:
                cands.append("string_println(%s::%sT::show(%s::%s_mk(%d)))" % (dd, dd, d, lo, n))  # may or may not have the impl
        if rng.random() < 0.5:
            cands.append("let dv%s%d: %s::%sS = %s::%s_mk(%d); let dy%s%d: dyn %s::%sT = dv%s%d; let _ = string_println(%s::%sT::show(dy%s%d))" % (lo, n, d, d, d, lo, n, lo, n, d, d, lo, n, d, d, lo, n))
        for c in rng.sample(cands, min(len(cands), rng.randint(3, 8))):
            stmts.append("    let _ = %s;" % c if not c.startswith("let") else "    %s;" % c)
        stmts.append("    let _ = string_println(int32_to_string(%s::%s_thunk(%d)));" % (d, lo, n))  # (drawn outside the sample: the seeded stream stays as it was)
    # a package that only declares types (no function bodies), used by Main
    if rng.random() < 0.5:
        feats.add("types-only-package")
        files["Ty/types.gom"] = "package Ty\nenum Color { Red, Green(int32), Blue(bool, int32) }\nstruct Pt { x: int32, y: int32 }\nstruct Wrap[T] { inner: T }\n"
        main.insert(1, "import Ty")
        k1, k2 = rng.randint(0, 9), rng.randint(0, 9)
        stmts.append("    let tyc%d = Ty::Color::Green(%d);" % (k1, k1))
        stmts.append("    let _ = string_println(int32_to_string(match tyc%d { Ty::Color::Red => 0, Ty::Color::Green(g) => g + %d, Ty::Color::Blue(_, b) => b }));" % (k1, k2))
        stmts.append("    let typ%d = Ty::Pt { x: %d, y: %d };" % (k1, k1, k2))
        stmts.append("    let tyw%d = Ty::Wrap { inner: typ%d };" % (k1, k1))
        stmts.append("    let _ = string_println(int32_to_string(tyw%d.inner.x + typ%d.y));" % (k1, k1))
        types_pkg = True
    else:
        types_pkg = False
    # a second file of package Main that names constructors of a dependency by full path, with or without its own import
    if rng.random() < 0.6:
        d = rng.choice(main_imps)
        has_import = rng.random() < 0.5
        feats.add("second-file-with-import" if has_import else "second-file-missing-import")
        files["util.gom"] = "package Main\n%sfn util_k(n: int32) -> int32 { match util_src(n) { %s::%sE::%sX => 0, %s::%sE::%sY(k) => k + 1, %s::%sE::%sZ(s) => 2 } }\n" % (
            ("import %s\n" % d) if has_import else "", d, d, d, d, d, d, d, d, d)
        main.append("fn util_src(n: int32) -> %s::%sE { %s::%s_en(n) }" % (d, d, d, d.lower()))
        stmts.append("    let _ = string_println(int32_to_string(util_k(%d)));" % rng.randint(0, 5))
    main.append("fn main() {\n" + "\n".join(stmts) + "\n    ()\n}")
    files["main.gom"] = "\n".join(main) + "\n"
    # only what Main reaches is part of the program (unreached directories are left on disk on purpose)
    reach, todo = set(), list(main_imps)
    while todo:
        x = todo.pop()
        if x not in reach:
            reach.add(x)
            todo += shape[x]
    deps = {p: list(shape[p]) for p in used if p in reach}
    deps["Main"] = sorted(main_imps) + (["Ty"] if types_pkg else [])
    if types_pkg:
        deps["Ty"] = []
    return files, deps, feats


def topo_orders(deps, rng, k=2):
    """up to k random valid build orders"""
    out = []
    for _ in range(8):
        done, order = set(), []
        pend = list(deps)
        while pend:
            ready = [p for p in pend if all(d in done for d in deps[p])]
            p = rng.choice(ready)
            order.append(p)
            done.add(p)
            pend.remove(p)
        if order not in out:
            out.append(order)
        if len(out) >= k:
            break
    return out


def pkg_files(files, p):
    return sorted(f for f in files if (f.startswith(p + "/") if p != "Main" else "/" not in f))


def check(run):
    sys.path.insert(0, os.path.dirname(os.path.abspath(__file__)))
    run.level = "translation_validation"
    broken = []
    try:
        vlib.proof_stage(run, "C14", ["C15/Properties.v", "C01/Properties.v"], pins="C14")
    except Broken as b:
        broken.append(b)
    rng = run.sub_rng("c14")
    n = 52 if run.tier == "quick" else 700
    wits = []
    stats = {"projects": n, "accepted_both": 0, "rejected_both": 0, "same_behaviour": 0, "same_go_text": 0, "orders": 0, "check_build_same_interface": 0, "outside_go_model": 0}
    feats_all = {}
    try:
        base = os.path.join(vlib.BUILD, "tmp", "c14")
        shutil.rmtree(base, ignore_errors=True)
        projs = []
        for i in range(n):
            files, deps, feats = gen_project(rng)
            if rng.random() < 0.3:
                # one defect of a kind that each stage reports (typer, name resolution, match compilation) in a package the
                # entry package reaches: both ways have to reject the project
                import re as _re

                files = dict(files)
                imps = lambda tx: _re.findall(r"^import (\w+)", tx, _re.M)
                reach, todo = set(), imps("".join(v for f_, v in files.items() if "/" not in f_))
                while todo:
                    x = todo.pop()
                    if x not in reach:
                        reach.add(x)
                        todo += imps("".join(v for f_, v in files.items() if f_.startswith(x + "/")))
                cands = sorted(f_ for f_ in files if f_.endswith(".gom") and ("/" not in f_ or f_.split("/")[0] in reach))
                target = rng.choice(cands)
                kind, inj = rng.choice([
                    ("typer", "fn injected_bad(n: int32) -> int32 { let z: bool = n; 0 }"),
                    ("name", "fn injected_bad(n: int32) -> int32 { n + no_such_name }"),
                    ("int match without a wildcard", "fn injected_bad(n: int32) -> int32 { match n { 0 => 1, 1 => 2 } }"),
                    ("string match without a wildcard", "fn injected_bad(s: string) -> int32 { match s { \"a\" => 1, \"b\" => 2 } }"),
                    ("int match without a wildcard", "fn injected_bad(n: int32, b: bool) -> int32 { match (b, n) { (true, 0) => 1, (false, 1) => 2, (true, 2) => 3 } }"),
                ])
                files[target] = files[target] + "\n" + inj + "\n"
                feats = list(feats) + ["injected defect: " + kind]
            for f in feats:
                feats_all[f] = feats_all.get(f, 0) + 1
            d = os.path.join(base, "w%04d" % i)
            for fn, tx in files.items():
                os.makedirs(os.path.dirname(os.path.join(d, fn)), exist_ok=True)
                with open(os.path.join(d, fn), "w") as f:
                    f.write(tx)
            projs.append((d, files, deps, topo_orders(deps, rng)))
        whole = vlib.run_harness("compile", [{"path": d + "/main.gom", "dumps": ["go_dbg"], "timeout_ms": 20000} for d, _, _, _ in projs], shards=vlib.NCPU)
        sep_inputs, sep_ix = [], []
        for i, (d, files, deps, orders) in enumerate(projs):
            for j, order in enumerate(orders):
                ops = [{"op": "write", "path": fn, "text": tx} for fn, tx in files.items()]
                for p in order:
                    if rng.random() < 0.5:
                        ops.append({"op": "check", "pkg": p, "inputs": pkg_files(files, p)})
                    ops.append({"op": "build", "pkg": p, "inputs": pkg_files(files, p)})
                link_order = list(order) if rng.random() < 0.5 else rng.sample(order, len(order))
                ops.append({"op": "link", "pkgs": link_order})
                sep_inputs.append({"dir": os.path.join(base, "s%04d_%d" % (i, j)), "ops": ops})
                sep_ix.append((i, order, link_order))
        sres = vlib.run_harness("sep", sep_inputs, shards=vlib.NCPU, timeout=1800)
        pairs, pair_ix = [], []
        for (i, order, link_order), inp, r in zip(sep_ix, sep_inputs, sres):
            d, files, deps, _ = projs[i]
            w = whole[i]
            stats["orders"] += 1
            results = r["results"]
            if any("panic" in x for x in results) or "panic" in w:
                wits.append({"kind": "panic", "files": files, "order": order, "impl": [x for x in results if "panic" in x] or w.get("panic")})
                continue
            # check and build of the same sources emit the same interface
            ops = inp["ops"]
            for a, (opa, ra) in enumerate(zip(ops, results)):
                if opa["op"] == "check" and a + 1 < len(ops) and ops[a + 1]["op"] == "build" and ra.get("ok") and results[a + 1].get("ok"):
                    if ra["hash"] == results[a + 1]["hash"]:
                        stats["check_build_same_interface"] += 1
                    else:
                        wits.append({"kind": "check and build of the same sources emit different interfaces for package %s" % opa["pkg"], "files": files})
            sep_ok = all(x.get("ok") for x in results)
            if sep_ok != bool(w.get("ok")):
                bad = [(o, x) for o, x in zip(ops, results) if not x.get("ok")]
                wits.append({"kind": "accepted one way, rejected the other (whole-program: %s, separate: %s)" % ("accepted" if w.get("ok") else "rejected", "accepted" if sep_ok else "rejected"), "files": files, "order": order, "link_order": link_order,
                             "whole": None if w.get("ok") else w.get("diagnostics"), "separate": [(o["op"], o.get("pkg"), x.get("err")) for o, x in bad][:3]})
                continue
            if not sep_ok:
                stats["rejected_both"] += 1
                continue
            stats["accepted_both"] += 1
            link = results[-1]
            if link["go"] == w["go"]:
                stats["same_go_text"] += 1
            pairs.append((w["dumps"]["go_dbg"], link["go_dbg"]))
            pair_ix.append((i, order, link_order))
        # both programs must be acceptable to Go (names declared once per scope, well-typed): the Go checker model on each
        import c02 as c02mod
        import go2coq
        import rustdbg

        gw_texts, gw_ix = [], []
        for (i, order, link_order), (wd, ld) in zip(pair_ix, pairs):
            for which, dbg in (("whole-program", wd), ("linked", ld)):
                try:
                    gw_texts.append("Definition f%d := %s.\n" % (len(gw_texts), go2coq.file(rustdbg.parse(dbg))))
                    gw_ix.append((i, order, link_order, which))
                except (go2coq.Conv, KeyError, AssertionError):
                    pass
        per_ = 16
        codes = []
        hdr = "From Goml Require Import Common.Base Sem.GoAst C02.GoCheck.\nOpen Scope N_scope.\n"
        outs_ = vlib.coq_eval_many("c14wf", [hdr + "".join(gw_texts[k : k + per_]) + "Eval vm_compute in [%s].\n" % "; ".join("match go_wf f%d with [] => 0 | (_, (c, _)) :: _ => c end" % j for j in range(k, min(k + per_, len(gw_texts)))) for k in range(0, len(gw_texts), per_)], timeout=1500)
        for o in outs_:
            codes += vlib.parse_nat_list(o)
        stats["go_checker_clean"] = sum(1 for c in codes if c == 0)
        for (i, order, link_order, which), code in zip(gw_ix, codes):
            if code:
                wits.append({"kind": "Go would reject the %s program: %s" % (which, c02mod.CODES.get(code, code)), "files": projs[i][1], "order": order, "link_order": link_order})
        vs = semrun.go_pair_verdicts("c14", pairs)
        for (i, order, link_order), v in zip(pair_ix, vs):
            files = projs[i][1]
            if v["verdict"] == 0:
                stats["same_behaviour"] += 1
            elif v["verdict"] == 2 or v["verdict"] is None:
                stats["outside_go_model"] += 1
            else:
                wits.append({"kind": "the linked program %s" % ("behaves differently from the whole-program build" if v["verdict"] == 1 else "or the whole-program build is not executable in the Go model"), "files": files, "order": order, "link_order": link_order})
        shutil.rmtree(base, ignore_errors=True)
    except Broken as b:
        broken.append(b)
    run.add_cases(stats["orders"], stats["same_behaviour"], samples=[projs[0][1]["main.gom"][-600:]] if n else [])
    run.cov["rule"] = (
        "projects over 6 dependency shapes of up to 3 library packages + Main; each library exports a struct, an enum with a struct payload, a generic struct with an inherent method, a trait with impls (own type, int32, foreign trait for own type, own trait for foreign type), "
        "generic and bounded generic functions and functions calling their dependencies; Main implements the foreign traits for its own struct and calls a random selection incl. cross-package generics, bounded generics, enum matches and dyn coercions. "
        "Each project is compiled whole and, for up to 2 random topological build orders, built package by package through interface/core JSON files (check before build at random) and linked with the cores given in build or random order: "
        "acceptance must agree, check and build must give the same interface hash, and the two Go ASTs must behave alike under Sem/GoSem.v. distinct_nontrivial = orders with identical behaviour"
    )
    run.cov["correspondence"] = {"stats": stats, "features": feats_all}
    run.cov["open_obligations"] = ["no theorem that link_cores o build_package equals the whole-program pipeline; per-project validation", "artifact staleness is C15's invariant"]
    run.assumptions = ["Sem/GoSem.v is the meaning of the emitted Go"]
    if wits:
        for w in wits[:3]:
            run.violation(w)
    elif broken:
        run.violation({"broken": [b.what for b in broken], "detail": [b.detail for b in broken]}, no_input=True)


def replay(run, path):
    with open(path) as f:
        w = json.load(f)
    print(json.dumps(w, indent=1)[:4000])
    return 0
