"""C06 — pattern matching picks the first matching arm and binds the right sub-values."""
import json
import os
import shutil

import vlib
from vlib import Broken

# ----------------------------------------------------------------- types ---
# type environment shared by all generated programs
ENUMS = [  # name, variants [(name, [arg types])]
    ("E0", [("A0", []), ("B0", ["int32", "bool"]), ("C0", ["E1"])]),
    ("E1", [("X1", []), ("Y1", ["bool"])]),
    ("E2", [("P2", ["string"]), ("Q2", ["T1"]), ("R2", [])]),
]
STRUCTS = [("S0", [("fa", "bool"), ("fb", "E1")]), ("S1", [("ga", "int32"), ("gb", "S0"), ("gc", "string")])]
TUPLES = {"T1": ["bool", "bool"], "T2": ["E1", "int32"], "T3": ["bool", "E0", "string"], "T4": ["S0", "T1"], "T5": ["unit", "uint8"]}
INT_W = {"int8": 0, "int16": 1, "int32": 2, "int64": 3, "uint8": 4, "uint16": 5, "uint32": 6, "uint64": 7}
def src_ty(t):
    if t in TUPLES:
        return "(" + ", ".join(src_ty(x) for x in TUPLES[t]) + ")"
    return t


PRELUDE = ""
for n, vs in ENUMS:
    PRELUDE += "enum %s { %s }\n" % (n, ", ".join(v + ("(" + ", ".join(src_ty(x) for x in a) + ")" if a else "") for v, a in vs))
for n, fs in STRUCTS:
    PRELUDE += "struct %s { %s }\n" % (n, ", ".join("%s: %s" % (f, src_ty(t)) for f, t in fs))

ENUM_IDX = {n: i for i, (n, _) in enumerate(ENUMS)}
STRUCT_IDX = {n: i for i, (n, _) in enumerate(STRUCTS)}


def coq_ty(t):
    if t == "unit":
        return "TyUnit"
    if t == "bool":
        return "TyBool"
    if t == "string":
        return "TyStr"
    if t in INT_W:
        return "(TyInt %d)" % INT_W[t]
    if t in TUPLES:
        return "(TyTuple [%s])" % "; ".join(coq_ty(x) for x in TUPLES[t])
    if t in ENUM_IDX:
        return "(TyEnum %d)" % ENUM_IDX[t]
    if t in STRUCT_IDX:
        return "(TyStruct %d)" % STRUCT_IDX[t]
    raise KeyError(t)


COQ_ENV = "{| enums := [%s]; structs := [%s] |}" % (
    "; ".join("[%s]" % "; ".join("[%s]" % "; ".join(coq_ty(a) for a in args) for _, args in vs) for _, vs in ENUMS),
    "; ".join("[%s]" % "; ".join(coq_ty(t) for _, t in fs) for _, fs in STRUCTS),
)

INT_POOL = [0, 1, 7]
STR_POOL = ["a", "b", "", "\n", "\\n", "q\"", "\t", "\\"]
PAT_STRS = ["a", "b", "a", "b", "\n", "\\n", "q\"", "\t", "\\"]  # patterns: plain strings and strings that need an escape in the source


def goml_str(s_):
    """the source spelling of a string literal"""
    return '"' + s_.replace("\\", "\\\\").replace('"', '\\"').replace("\n", "\\n").replace("\t", "\\t") + '"'

# -------------------------------------------------------------- patterns ---
# pattern := ("var", n) | ("wild",) | ("lit", kind, value) | ("tuple", [p]) | ("enum", ename, idx, [p]) | ("struct", sname, [p])


def gen_pat(rng, t, depth, counter, p_leaf=0.35):
    """type-directed random pattern"""
    k = rng.random()
    if depth <= 0 or k < p_leaf:
        if k < p_leaf * 0.45:
            counter[0] += 1
            return ("var", counter[0])
        if depth <= 0 or k < p_leaf * 0.9:
            return ("wild",)
    if t == "unit":
        return ("lit", "unit", None)
    if t == "bool":
        return ("lit", "bool", rng.random() < 0.5)
    if t == "string":
        return ("lit", "str", rng.choice(PAT_STRS))
    if t in INT_W:
        return ("lit", "int", rng.choice(INT_POOL[:2]))
    if t in TUPLES:
        return ("tuple", [gen_pat(rng, x, depth - 1, counter, p_leaf) for x in TUPLES[t]])
    if t in ENUM_IDX:
        vs = ENUMS[ENUM_IDX[t]][1]
        i = rng.randrange(len(vs))
        return ("enum", t, i, [gen_pat(rng, x, depth - 1, counter, p_leaf) for x in vs[i][1]])
    if t in STRUCT_IDX:
        fs = STRUCTS[STRUCT_IDX[t]][1]
        return ("struct", t, [gen_pat(rng, x, depth - 1, counter, p_leaf) for _, x in fs])
    raise KeyError(t)


def all_pats(t, depth):
    """exhaustive small patterns (no variables: wildcards stand for them)"""
    out = [("wild",)]
    if depth <= 0:
        return out
    if t == "unit":
        out.append(("lit", "unit", None))
    elif t == "bool":
        out += [("lit", "bool", True), ("lit", "bool", False)]
    elif t == "string":
        out += [("lit", "str", "a"), ("lit", "str", "b")]
    elif t in INT_W:
        out += [("lit", "int", 0), ("lit", "int", 1)]
    elif t in TUPLES:
        import itertools

        for combo in itertools.product(*[all_pats(x, depth - 1) for x in TUPLES[t]]):
            out.append(("tuple", list(combo)))
    elif t in ENUM_IDX:
        import itertools

        for i, (_, args) in enumerate(ENUMS[ENUM_IDX[t]][1]):
            for combo in itertools.product(*[all_pats(x, depth - 1) for x in args]):
                out.append(("enum", t, i, list(combo)))
    elif t in STRUCT_IDX:
        import itertools

        for combo in itertools.product(*[all_pats(x, depth - 1) for _, x in STRUCTS[STRUCT_IDX[t]][1]]):
            out.append(("struct", t, list(combo)))
    return out


def src_pat(p, t, rng=None):
    k = p[0]
    if k == "var":
        return "v%d" % p[1]
    if k == "wild":
        return "_"
    if k == "lit":
        if p[1] == "unit":
            return "()"
        if p[1] == "bool":
            return "true" if p[2] else "false"
        if p[1] == "str":
            return goml_str(p[2])
        return str(p[2])
    if k == "tuple":
        return "(" + ", ".join(src_pat(q, x, rng) for q, x in zip(p[1], TUPLES[t])) + ")"
    if k == "enum":
        name, args = ENUMS[ENUM_IDX[p[1]]][1][p[2]]
        if not args:
            return name
        return name + "(" + ", ".join(src_pat(q, x, rng) for q, x in zip(p[3], args)) + ")"
    if k == "struct":
        fs = STRUCTS[STRUCT_IDX[p[1]]][1]
        items = ["%s: %s" % (f, src_pat(q, x, rng)) for q, (f, x) in zip(p[2], fs)]
        if rng is not None and rng.random() < 0.3:
            rng.shuffle(items)
        return "%s { %s }" % (p[1], ", ".join(items))
    raise KeyError(k)


def coq_lit(kind, v):
    if kind == "unit":
        return "LUnit"
    if kind == "bool":
        return "(LBool %s)" % ("true" if v else "false")
    if kind == "str":
        return "(LStr %s)" % vlib.coq_Nlist(list(v.encode()))
    return "(LInt (%d)%%Z)" % v


def coq_pat(p, t):
    k = p[0]
    ct = coq_ty(t)
    if k == "var":
        return "(PVar %d %s)" % (p[1], ct)
    if k == "wild":
        return "(PWild %s)" % ct
    if k == "lit":
        return "(PLit %s %s)" % (coq_lit(p[1], p[2]), ct)
    if k == "tuple":
        return "(PTuple [%s] %s)" % ("; ".join(coq_pat(q, x) for q, x in zip(p[1], TUPLES[t])), ct)
    if k == "enum":
        args = ENUMS[ENUM_IDX[p[1]]][1][p[2]][1]
        return "(PEnum %d %d [%s] %s)" % (ENUM_IDX[p[1]], p[2], "; ".join(coq_pat(q, x) for q, x in zip(p[3], args)), ct)
    if k == "struct":
        fs = STRUCTS[STRUCT_IDX[p[1]]][1]
        return "(PStruct %d [%s] %s)" % (STRUCT_IDX[p[1]], "; ".join(coq_pat(q, x) for q, (_, x) in zip(p[2], fs)), ct)
    raise KeyError(k)


def program(t, arms, rng=None):
    body = ", ".join("%s => %d" % (src_pat(p, t, rng), i) for i, p in enumerate(arms))
    return PRELUDE + "fn f(s: %s) -> int32 {\n    match s { %s }\n}\nfn main() { () }\n" % (src_ty(t), body)


# ------------------------------------------------- real Core JSON -> Coq ---


class Shape(Exception):
    pass


def coq_name(n):
    if "/" in n:
        hint, _ = n.split("/")
        if hint == "s":
            return "(U 0)"
        if hint.startswith("v") and hint[1:].isdigit():
            return "(U %s)" % hint[1:]
        raise Shape("unexpected local " + n)
    if n.startswith("x") and n[1:].isdigit():
        return "(G %s)" % n[1:]
    raise Shape("unexpected name " + n)


def prim_lit(v):
    (k, body), = v.items() if isinstance(v, dict) else ((v, None),)
    if k == "Unit" or v == "Unit":
        return "LUnit"
    if k == "Bool":
        return "(LBool %s)" % ("true" if body["value"] else "false")
    if k == "String":
        return "(LStr %s)" % vlib.coq_Nlist(list(body["value"].encode()))
    if k in ("Int8", "Int16", "Int32", "Int64", "UInt8", "UInt16", "UInt32", "UInt64"):
        return "(LInt (%d)%%Z)" % body["value"]
    raise Shape("prim " + json.dumps(v))


def var_of(e):
    if "EVar" in e:
        return coq_name(e["EVar"]["name"])
    raise Shape("expected variable, got " + list(e)[0])


def coq_ctor(c):
    if "Enum" in c:
        return "(CEnum %d %d)" % (ENUM_IDX[c["Enum"]["type_name"]], c["Enum"]["index"])
    if "Struct" in c:
        return "(CStruct %d)" % STRUCT_IDX[c["Struct"]["type_name"]]
    raise Shape("ctor")


def coq_core(e, binds=None):
    (k, b), = e.items()
    if k == "ELet":
        v = b["value"]
        (vk, vb), = v.items()
        if vk == "EVar":
            nm = b["name"]
            hint = nm.split("/")[0]
            if not (hint.startswith("v") and hint[1:].isdigit()):
                raise Shape("binding of " + nm)
            return coq_core(b["body"], (binds or []) + ["(%s, %s)" % (hint[1:], coq_name(vb["name"]))])
        if binds:
            raise Shape("non-binding let under bindings")
        if vk == "EProj":
            return "(KLetProj %s %s %d %s)" % (coq_name(b["name"]), var_of(vb["tuple"]), vb["index"], coq_core(b["body"]))
        if vk == "EConstrGet":
            return "(KLetGet %s %s %s %d %s)" % (coq_name(b["name"]), var_of(vb["expr"]), coq_ctor(vb["constructor"]), vb["field_index"], coq_core(b["body"]))
        raise Shape("let value " + vk)
    if k == "EPrim":
        (pk, pb), = b["value"].items()
        if pk != "Int32":
            raise Shape("arm body prim")
        return "(KBody {| binds := [%s]; arm := %d |})" % ("; ".join(binds or []), pb["value"])
    if binds:
        raise Shape("bindings not followed by a body")
    if k == "ECall":
        f = b["func"]
        if "EVar" in f and f["EVar"]["name"] == "missing":
            return "KMissing"
        raise Shape("call")
    if k == "EMatch":
        arms = []
        for a in b["arms"]:
            (lk, lb), = a["lhs"].items()
            if lk == "EPrim":
                lhs = "(LhsLit %s)" % prim_lit(lb["value"])
            elif lk == "EConstr":
                c = lb["constructor"]
                if "Enum" not in c:
                    raise Shape("struct lhs")
                lhs = "(LhsEnum %d %d [%s])" % (ENUM_IDX[c["Enum"]["type_name"]], c["Enum"]["index"], "; ".join(var_of(x) for x in lb["args"]))
            else:
                raise Shape("lhs " + lk)
            arms.append("(%s, %s)" % (lhs, coq_core(a["body"])))
        d = b["default"]
        return "(KMatch %s [%s] %s)" % (var_of(b["expr"]), "; ".join(arms), "None" if d is None else "(Some %s)" % coq_core(d))
    raise Shape("expr " + k)


# ----------------------------------------------------------------- cases ---

TYPES = ["bool", "unit", "int32", "uint8", "string", "T1", "T2", "T3", "T4", "T5", "E0", "E1", "E2", "S0", "S1"]


def gen_matrices(run):
    rng = run.sub_rng("c06")
    ms = []
    # exhaustive: all 1..2-row matrices of depth-1 patterns for the small types, all ordered pairs
    import itertools

    for t in ["bool", "unit", "int32", "string", "T1", "E1", "S0", "T2"]:
        ps = all_pats(t, 2 if t in ("T1", "E1") else 1)
        if t == "T2":
            ps = all_pats(t, 2)[:40]
        for a in ps:
            ms.append((t, [a], "exh"))
        lim = 2 if run.tier == "quick" else 3
        for rows in itertools.product(ps, repeat=2):
            ms.append((t, list(rows), "exh"))
        if lim == 3 and len(ps) <= 9:
            for rows in itertools.product(ps, repeat=3):
                ms.append((t, list(rows), "exh"))
    n_exh = len(ms)
    nrand = 1200 if run.tier == "quick" else 12000
    for _ in range(nrand):
        t = rng.choice(TYPES)
        counter = [0]
        n = rng.randint(1, 5)
        depth = rng.randint(1, 3)
        rows = [gen_pat(rng, t, depth, counter, p_leaf=rng.choice([0.2, 0.35, 0.5])) for _ in range(n)]
        if rng.random() < 0.6:
            counter[0] += 1
            rows.append(rng.choice([("wild",), ("var", counter[0])]))
        ms.append((t, rows, "rand"))
    return ms, n_exh


def nontrivial(rows):
    return len(rows) >= 2 and any(r[0] not in ("wild", "var") for r in rows)


def run_cases(run, ms, tag="c06"):
    """compile every matrix with the real compiler, compare with the model and
    evaluate the property on the real tree, all inside coqc.  Returns
    (model_mismatch_idx, property_fail_idx, impl_results, coq_cases)"""
    root = os.path.join(vlib.BUILD, "tmp", tag)
    shutil.rmtree(root, ignore_errors=True)
    inputs = []
    srng = run.sub_rng("c06-print")
    for i, (t, rows, _) in enumerate(ms):
        d = os.path.join(root, "m%05d" % i)
        os.makedirs(d)
        with open(os.path.join(d, "main.gom"), "w") as f:
            f.write(program(t, rows, srng))
        inputs.append({"path": os.path.join(d, "main.gom"), "dumps": ["core_json"]})
    res = vlib.run_harness("compile", inputs, shards=vlib.NCPU)
    shutil.rmtree(root, ignore_errors=True)
    cases = []
    shape_errors = []
    hard_fail = []
    for i, ((t, rows, _), r) in enumerate(zip(ms, res)):
        real = "KMissing"
        diag = False
        if r.get("ok"):
            core = json.loads(r["dumps"]["core_json"])
            f = [x for x in core["toplevels"] if x["name"] == "f"]
            try:
                real = coq_core(f[0]["body"])
            except (Shape, KeyError, IndexError, ValueError) as e:
                shape_errors.append((i, str(e)))
                real = "(KPanic 999)"
        elif r.get("error_kind") == "compile" and all("non-exhaustive match on" in d["message"] for d in r.get("diagnostics", [])):
            diag = True
        else:
            hard_fail.append((i, r))
            real = "(KPanic 998)"
        cases.append(
            "{| c_env := ENV; c_scrut := U 0; c_ty := %s; c_arms := [%s]; c_g0 := 0; c_real := %s; c_real_diag := %s |}"
            % (coq_ty(t), "; ".join(coq_pat(p, t) for p in rows), real, "true" if diag else "false")
        )
    per = 150
    texts = []
    chunks = [list(range(i, min(i + per, len(cases)))) for i in range(0, len(cases), per)]
    ints = "[%s]%%Z" % "; ".join(str(z) for z in INT_POOL)
    strs = "[%s]" % "; ".join(vlib.coq_Nlist(list(s.encode())) for s in STR_POOL)
    for ch in chunks:
        texts.append(
            "From Goml Require Import Common.Base C06.Model C06.Exec.\n"
            "Definition ENV : tenv := %s.\n"
            "Definition cases : list mcase := [\n%s\n].\n"
            "Eval vm_compute in (bad_idx model_ok cases 0).\n"
            "Eval vm_compute in (bad_idx (property_ok %s %s) cases 0).\n" % (COQ_ENV, ";\n".join(cases[i] for i in ch), ints, strs)
        )
    outs = vlib.coq_eval_many(tag, texts)
    model_bad, prop_bad = [], []
    import re

    for ch, out in zip(chunks, outs):
        parts = re.findall(r"=\s*(\[.*?\])\s*:\s*list N", out, re.S)
        if len(parts) != 2:
            raise Broken("coq-output", out[-800:])
        a = vlib.parse_nat_list("= %s : list N" % parts[0])
        b = vlib.parse_nat_list("= %s : list N" % parts[1])
        model_bad += [ch[j] for j in a]
        prop_bad += [ch[j] for j in b]
    return model_bad, prop_bad, res, shape_errors, hard_fail


def describe(ms, i, res):
    t, rows, kind = ms[i]
    return {"scrutinee_type": t, "arms": [src_pat(p, t) for p in rows], "program": program(t, rows), "impl": {k: v for k, v in res[i].items() if k not in ("go",)}}


def check(run):
    broken = []
    run.level = LEVEL
    try:
        vlib.proof_stage(run, "C06", ["C06/Properties.v", "C06/Exec.v"])
    except Broken as b:
        broken.append(b)
    ms, n_exh = gen_matrices(run)
    model_bad, prop_bad, res, shape_errors, hard_fail = [], [], [], [], []
    try:
        model_bad, prop_bad, res, shape_errors, hard_fail = run_cases(run, ms)
    except Broken as b:
        broken.append(b)
    distinct = len({json.dumps([t, rows]) for t, rows, _ in ms if nontrivial(rows)})
    run.add_cases(len(ms), distinct, samples=[{"type": ms[i][0], "arms": [src_pat(p, ms[i][0]) for p in ms[i][1]]} for i in (5, n_exh // 2, n_exh + 1, len(ms) - 1) if i < len(ms)])
    run.cov["rule"] = (
        "pattern matrices as goml functions `fn f(s: T) -> int32 { match s { p_i => i } }` over bool/unit/int32/uint8/string/tuples/3 enums/2 structs: "
        "%d exhaustive (all 1- and 2-row matrices of small patterns for 8 types%s) + %d random type-directed matrices (1-6 rows, depth<=3, variables and wildcards); "
        "each is compiled by the real compiler; the real Core tree must equal the model's tree syntactically (names included) AND agree with first-match on every scrutinee value of the type "
        "(ints from %s, strings from %s, nesting depth 4), both evaluated inside coqc; non-trivial = at least 2 rows and a non-wildcard pattern"
        % (n_exh, ", 3-row for the smallest" if run.tier != "quick" else "", len(ms) - n_exh, INT_POOL, STR_POOL)
    )
    hist = {}
    for t, rows, _ in ms:
        hist[t] = hist.get(t, 0) + 1
    run.cov["correspondence"] = {
        "matrices": len(ms),
        "by_scrutinee_type": hist,
        "rejected_non_exhaustive_literal_match": sum(1 for r in res if not r.get("ok")),
        "model_tree_mismatches": len(model_bad),
        "first_match_disagreements_on_real_tree": len(prop_bad),
        "unexpected_core_shapes": len(shape_errors),
    }
    # ---- end to end: the arm that runs in the emitted Go (after ANF, Go generation and dead-code elimination) --------
    e2e_wits, e2e = [], {}
    try:
        import matrixgen
        import semcheck

        e2e_wits, e2e, _, _ = semcheck.run_semantic_check(run, "C06", 0, 0, with_corpus=False, extra_sources=matrixgen.sources(run, "c06", subset="match"), tag="c06e2e")
    except Broken as b:
        broken.append(b)
    run.cov["correspondence"]["end_to_end_programs"] = e2e
    run.cov["rule"] += (
        "; end to end: every match-related cell of the position x feature matrix (integer, string, bool, enum, tuple and struct patterns, generic enums, matches whose value is discarded with arms that do nothing, "
        "matches in every syntactic position) is run through Sem/Src.v on the typed tree and Sem/GoSem.v on the emitted Go; the arm that runs and what it binds must agree"
    )
    run.cov["open_obligations"] = OPEN
    run.cov["programs"] = len(ms)
    run.cov["disagreements_checked"] = len(ms)
    run.assumptions = ["generic enums/structs (type application) are outside the model", "the typer delivers patterns annotated with the scrutinee component types (checked only through the differential run)"]
    if e2e_wits and not (prop_bad or hard_fail):
        for w in e2e_wits[:3]:
            run.violation(w)
    elif prop_bad or hard_fail:
        for i in (prop_bad or [h[0] for h in hard_fail])[:3]:
            w = describe(ms, i, res)
            w["kind"] = "first-match violated by the real decision tree" if prop_bad else "compiler failed on a pattern matrix"
            w["replay_cmd"] = "write `program` to DIR/main.gom; echo '{\"path\":\"DIR/main.gom\",\"dumps\":[\"core\"]}' | _build/cargo/debug/gomlv compile"
            run.violation(w)
    elif model_bad or shape_errors or broken:
        run.violation(
            {
                "broken": [b.what for b in broken] + (["correspondence: model Core tree != real Core tree"] if model_bad else []) + (["correspondence: real Core has a shape the model cannot express"] if shape_errors else []),
                "detail": [b.detail for b in broken],
                "examples": [describe(ms, i, res) for i in (model_bad + [s[0] for s in shape_errors])[:5]],
                "shape_errors": shape_errors[:5],
                "theorems_no_longer_shown": ["compile_match_first_match"],
            },
            no_input=True,
        )


OPEN = ["fuel sufficiency (compile_rows terminates within Sigma pattern sizes + rows) is not proved: the theorem assumes no panic site (incl. out-of-fuel) is reached, which holds for every tree the correspondence run compares",
        "generic enums/structs (type application) are outside the model",
        "the Core -> Go lowering of the decision tree is validated per program under C01, not proved"]
LEVEL = "proof"


def replay(run, path):
    with open(path) as f:
        w = json.load(f)
    print(json.dumps(w, indent=1)[:3000])
    return 0
