"""C20 — editor queries are crash-free and agree with the compiler."""
import json
import os
import re
import shutil

import genprog
import vlib
from vlib import Broken

QDIR = os.path.join(vlib.BUILD, "tmp", "c20dir")

INFER_SNIPPETS = [
    "let v = vec_new(); let v2 = vec_push(v, 1); let n = vec_len(v2);",
    "let r = ref(vec_new()); let _ = ref_set(r, vec_push(ref_get(r), \"s\"));",
    "let t = (vec_new(), 1); let u = match t { (a, b) => vec_push(a, true) };",
    "let f = |x| x + 1; let g = f(2);",
    "let w = vec_new(); let w2 = vec_push(w, (1, \"a\"));",
    "let o = ref(0); let p = ref_get(o) + 1;",
]

COMPLETION_TEMPLATE = """struct Pt { %(fields)s }
enum Shape { Circle(int32), Square, Rect(int32, int32) }
trait Area { fn area(Self) -> int32; fn name(Self) -> string; }
impl Pt {
%(methods)s
}
impl Area for Pt {
    fn area(self: Pt) -> int32 { 0 }
    fn name(self: Pt) -> string { "pt" }
}
fn mk() -> Pt { Pt { %(inits)s } }
fn main() {
    let p = mk();
    let q = p.%(dot_prefix)s;
    let s = Shape::%(colon_prefix)s;
    let m = Pt::%(colon2_prefix)s;
    ()
}
"""
FIELD_POOL = [("x", "int32", "1"), ("y", "int32", "2"), ("label", "string", '"l"'), ("ok", "bool", "true"), ("xs", "Vec[int32]", "vec_new()"), ("len", "int32", "3"), ("x2", "int32", "4")]
METHOD_POOL = ["norm", "xform", "label_of", "len2", "reset"]


def positions_grid(text, step=1):
    lines = text.split("\n")
    out = []
    for li, l in enumerate(lines + ["", ""]):
        for c in range(0, len(l.encode()) + 3, step):
            out.append((li, c))
    out += [(len(lines) + 5, 0), (0, 10 ** 6), (10 ** 6, 10 ** 6), (4294967295, 4294967295)]
    return out


def run_queries(cases):
    """cases: list of (text, [(kind, line, col)]) -> list of result lists"""
    os.makedirs(QDIR, exist_ok=True)
    res = vlib.run_harness("query", [{"text": t, "dir": QDIR, "queries": [[k, l, c] for k, l, c in qs]} for t, qs in cases], shards=vlib.NCPU, timeout=1800)
    return [r["results"] for r in res]


PB_TYPES = [("int32", "7"), ("bool", "true"), ("string", '"s"'), ("(int32, bool)", "(1, false)"), ("Vec[int32]", "vec_new()"), ("Qd", "Qd { w: 2 }")]


def pattern_binder_program(rng):
    """-> (program text, [(binder name, type text)]): every binder occurs in one pattern and is used once; names are unique in the text"""
    n = [0]
    binders = []

    def b(ty):
        n[0] += 1
        name = "zq%dk" % n[0]
        binders.append((name, ty))
        return name

    fts = [rng.choice(PB_TYPES) for _ in range(3)]
    v1, v2a, v2b = rng.choice(PB_TYPES), rng.choice(PB_TYPES), rng.choice(PB_TYPES)
    t1, t2, t3 = rng.choice(PB_TYPES), rng.choice(PB_TYPES), rng.choice(PB_TYPES)
    c1, c2 = rng.choice(PB_TYPES), rng.choice(PB_TYPES)
    g1, g2 = rng.choice(PB_TYPES), rng.choice(PB_TYPES)
    lines = ["struct Qd { w: int32 }", "struct Pt { fa: %s, fb: %s, fc: %s }" % tuple(t for t, _ in fts), "enum En { V0, V1(%s), V2(%s, %s) }" % (v1[0], v2a[0], v2b[0])]
    gp1, gp2 = b(g1[0]), b(g2[0])
    lines.append("fn gfun(%s: %s, %s: %s) -> %s { let _ = %s; %s }" % (gp1, g1[0], gp2, g2[0], g1[0], gp2, gp1))
    lines.append("fn main() {")
    lines.append("    let p = Pt { fa: %s, fb: %s, fc: %s };" % tuple(v for _, v in fts))
    lines.append("    let e = %s;" % rng.choice(["V0", "V1(%s)" % v1[1], "V2(%s, %s)" % (v2a[1], v2b[1])]))
    lines.append("    let t: (%s, (%s, %s)) = (%s, (%s, %s));" % (t1[0], t2[0], t3[0], t1[1], t2[1], t3[1]))
    # shorthand fields bind the field name itself: use renamed fields for two of them and shorthand for the others, in random mix
    short = rng.sample(["fa", "fb", "fc"], rng.randint(1, 3))
    pats, uses = [], []
    for fname, (ty, _) in zip(["fa", "fb", "fc"], fts):
        if fname in short:
            binders.append((fname + "(?= *[,}])", ty))  # the shorthand occurrence inside the pattern only
            pats.append(fname)
        else:
            x = b(ty)
            pats.append("%s: %s" % (fname, x))
            uses.append(x)
    lines.append("    let _ = match p { Pt { %s } => { %s 0 } };" % (", ".join(pats), " ".join("let _ = %s;" % u for u in uses)))
    x1, x2, x3 = b(v1[0]), b(v2a[0]), b(v2b[0])
    lines.append("    let _ = match e { V0 => 0, V1(%s) => { let _ = %s; 1 }, V2(%s, %s) => { let _ = %s; let _ = %s; 2 } };" % (x1, x1, x2, x3, x2, x3))
    y1, y2, y3 = b(t1[0]), b(t2[0]), b(t3[0])
    lines.append("    let _ = match t { (%s, (%s, %s)) => { let _ = %s; let _ = %s; let _ = %s; 0 } };" % (y1, y2, y3, y1, y2, y3))
    z1, z2 = b(c1[0]), b(c2[0])
    lines.append("    let clo = |%s: %s, %s: %s| { let _ = %s; %s };" % (z1, c1[0], z2, c2[0], z2, z1))
    lines.append("    let _ = clo(%s, %s);" % (c1[1], c2[1]))
    lines.append("    let _ = gfun(%s, %s);" % (g1[1], g2[1]))
    lines.append("    ()\n}")
    return "\n".join(lines) + "\n", binders


def norm_ty(s):
    return re.sub(r"\s+", "", s)


def check(run):
    run.level = "exploration"
    broken = []
    try:
        vlib.proof_stage(run, "C20", ["C12/Properties.v"], pins="C20")
    except Broken as b:
        broken.append(b)
    rng = run.sub_rng("c20")
    wits = []
    stats = {"crash_queries": 0, "hover_binders": 0, "hover_agree": 0, "dot_requests": 0, "dot_items": 0, "colon_requests": 0, "colon_items": 0}
    try:
        # ---- 1. crash-freedom: every position of small texts (valid, prefixes, mutations), all three queries
        base = [genprog.G(rng, fail_rate=0.0).program(depth=2) for _ in range(3 if run.tier == "quick" else 20)]
        small = ["struct P { a: int32, b: bool }\nfn f(p: P) -> int32 { p.a }\nfn main() {\n    let x = P { a: 1, b: true };\n    let y = x.a + f(x);\n    let s = \"é\";\n    string_println(int32_to_string(y))\n}\n",
                 "enum E { A, B(int32) }\nfn main() { let e = E::B(1); let k = match e { E::A => 0, E::B(n) => n }; () }\n", "", "fn", "fn main() { let x = ", "fn main() { x. }", "fn main() { E:: }", "é.é::é", "\n\n", "fn main() {\r\n  let a = 1;\r\n  a.\r\n}"]
        texts = list(small)
        for b in base:
            body = b[b.index("fn main") :]
            texts.append(body if rng.random() < 0.5 else b)
            cut = rng.randint(0, len(b))
            texts.append(b[:cut])
            i = rng.randint(0, len(b))
            texts.append(b[:i] + rng.choice([".", "::", "(", "}", "let ", "\"", "\\\\"]) + b[i:])
        # what an editor sees while a member or path is being typed: the text cut right after `x.` / `x.y` / `P::` / `P::Q`
        # (no character after the cursor); the requests are placed at the end of the text and just before it
        typing = []
        for t in [small[0], small[1]] + base:
            cuts = [m.end() for m in re.finditer(r"[A-Za-z_0-9\)\]]\.|[A-Za-z_0-9]::|[A-Za-z_0-9]\.[a-z_0-9]|::[A-Za-z]", t)]
            if len(cuts) > 40:
                cuts = rng.sample(cuts, 40)
            typing += [t[:c] for c in cuts]
        cases = []
        for t in typing:
            ls = t.split("\n")
            li, co = len(ls) - 1, len(ls[-1].encode())
            qs = [(kind, li, c) for kind in ("dot", "colon", "hover") for c in (co, max(0, co - 1), co + 1)]
            cases.append((t, qs))
        for t in texts:
            grid = positions_grid(t, 1 if len(t) < 400 else 7)
            if len(grid) > 400:
                grid = rng.sample(grid, 400) + grid[-4:]
            for kind in ("hover", "dot", "colon"):
                cases.append((t, [(kind, l, c) for l, c in grid]))
        # every byte-prefix of a text that uses each lexical form (multi-line strings, escapes, comments, floats, attributes,
        # non-ASCII): the buffer while each token is being typed; requests at the end of the buffer and at its start
        lexical = ("#[derive(ToString)]\nstruct Pt { x: int32, y: float64 }\n// note: é\nfn main() -> unit {\n    let p = Pt { x: 1, y: 2.5e1 };\n    let s = \\\\first line\n        \\\\second \\\\ line\n        \\\\third\n    ;\n"
                   "    let t = \"a\\tb\\\"c\\\\\";\n    let n = p.x + 0x1f - 1_0;\n    let u = (p.y, 'c', !true && false || n >= 2);\n    string_println(s + t)\n}\n")
        stats["lexical_prefixes"] = 0
        for c in range(len(lexical) + 1):
            t = lexical[:c]
            ls = t.split("\n")
            li, co = len(ls) - 1, len(ls[-1].encode())
            cases.append((t, [(kind, l_, c_) for kind in ("hover", "dot", "colon") for l_, c_ in ((li, co), (li, max(0, co - 1)), (0, 0), (max(0, li - 1), 2))]))
            stats["lexical_prefixes"] += 1
        for (t, qs), rs in zip(cases, run_queries(cases)):
            for q, r in zip(qs, rs):
                stats["crash_queries"] += 1
                if "panic" in r:
                    wits.append({"kind": "%s request panicked: %s" % (q[0], r["panic"][:200]), "text": t, "line": q[1], "col": q[2]})
        # ---- 2. hover on binders reports the type the compiler assigned -----------------------------------
        progs = []
        for _ in range(12 if run.tier == "quick" else 150):
            p = genprog.G(rng, fail_rate=0.0).program(depth=2)
            i = p.index("fn main()")
            j = p.index("{", i) + 1
            progs.append(p[:j] + "\n    " + " ".join(rng.sample(INFER_SNIPPETS, 3)) + p[j:])
        # binders whose type comes only from a DERIVED method (the query layer has to expand derives as the compiler does)
        for k_ in range(4 if run.tier == "quick" else 40):
            a_, b_ = rng.randint(0, 9), rng.randint(0, 9)
            dv = rng.choice(["ToString, ToJson", "ToJson, ToString"])
            progs.append(
                "#[derive(%s)]\nstruct Pd { a: int32, b: string }\n#[derive(ToString)]\nenum Ed { Xd, Yd(int32) }\n#[derive(ToJson)]\nenum Jd { Kd(Pd), Ld }\n" % dv
                + "fn main() {\n    let p = Pd { a: %d, b: \"s\" };\n    let s1 = p.to_string();\n    let j1 = p.to_json();\n    let e = Yd(%d);\n    let s2 = e.to_string();\n" % (a_, b_)
                + "    let both = (s1, e.to_string());\n    let j2 = Kd(p).to_json();\n    let trip = (j1, Ld.to_json(), %d);\n    let n = string_len(s2) + string_len(j2);\n    ()\n}\n" % a_
            )
        root = os.path.join(vlib.BUILD, "tmp", "c20")
        shutil.rmtree(root, ignore_errors=True)
        paths = []
        for i, p in enumerate(progs):
            d = os.path.join(root, "p%04d" % i)
            os.makedirs(d)
            with open(os.path.join(d, "main.gom"), "w") as f:
                f.write(p)
            paths.append(os.path.join(d, "main.gom"))
        cres = vlib.run_harness("compile", [{"path": p, "dumps": ["tast"], "timeout_ms": 20000} for p in paths], shards=vlib.NCPU)
        hcases, hexp = [], []
        for p, r in zip(progs, cres):
            if not r.get("ok"):
                if "panic" in r:
                    wits.append({"kind": "compiler panic", "text": p})
                continue
            tast = r["dumps"]["tast"]
            typed = re.findall(r"let (\w+)(?:/\d+)?\s*:\s*(.+?) =\s", tast)
            # binders of the source in order of appearance, main only (tast prints functions in source order)
            src_binders = [(m.group(1), m.start(1)) for m in re.finditer(r"\blet (\w+)\b", p)]
            names_t = [n for n, _ in typed if n != "_" and not n.startswith("mtmp")]
            names_s = [n for n, _ in src_binders if n != "_"]
            if names_t != names_s:
                continue  # the two listings cannot be aligned for this program (pattern lets, closures)
            tys = [t for n, t in typed if n != "_" and not n.startswith("mtmp")]
            qs = []
            for (n, off), ty in zip([b for b in src_binders if b[0] != "_"], tys):
                line = p.count("\n", 0, off)
                col = off - (p.rfind("\n", 0, off) + 1)
                qs.append(("hover", line, col))
            hcases.append((p, qs))
            hexp.append(tys)
        for (p, qs), tys, rs in zip(hcases, hexp, run_queries(hcases)):
            for q, ty, r in zip(qs, tys, rs):
                stats["hover_binders"] += 1
                if "panic" in r:
                    continue
                if "ok" in r and norm_ty(r["ok"]) == norm_ty(ty):
                    stats["hover_agree"] += 1
                else:
                    wits.append({"kind": "hover on a binder reports %r, the compiler assigned %r" % (r.get("ok", r.get("err")), ty), "text": p, "line": q[1], "col": q[2]})
        shutil.rmtree(root, ignore_errors=True)
        # ---- 2b. hover on pattern, closure and function parameter binders whose type is known by construction ----
        pcases, pexp = [], []
        for _ in range(15 if run.tier == "quick" else 250):
            text, binders = pattern_binder_program(rng)
            qs, tys = [], []
            for name, ty in binders:
                pat = name if "(" in name else r"\b%s\b" % name
                for m in re.finditer(pat if "(" not in name else r"(?<=[{,] )" + name, text):
                    off = m.start()
                    name = m.group(0)
                    line = text.count("\n", 0, off)
                    col = off - (text.rfind("\n", 0, off) + 1)
                    for c in {col, col + len(name) - 1}:
                        qs.append(("hover", line, c))
                        tys.append(ty)
            pcases.append((text, qs))
            pexp.append(tys)
        stats["hover_pattern_binders"] = 0
        for (text, qs), tys, rs in zip(pcases, pexp, run_queries(pcases)):
            for q, ty, r in zip(qs, tys, rs):
                stats["hover_binders"] += 1
                stats["hover_pattern_binders"] += 1
                if "panic" in r:
                    continue
                if "ok" in r and norm_ty(r["ok"]) == norm_ty(ty):
                    stats["hover_agree"] += 1
                else:
                    wits.append({"kind": "hover on a binder reports %r, its type is %r" % (r.get("ok", r.get("err")), ty), "text": text, "line": q[1], "col": q[2]})
        # ---- 2d. hover on expressions: callees of every call form, receivers, arguments, fields, instantiated generics ----
        HX = """struct Pt { px: int32, py: bool }
impl Pt { fn norm(self: Pt, k: int32) -> int32 { self.px + k } }
trait Describe { fn describe(Self) -> string; fn weight(Self, int32) -> int32; }
impl Describe for Pt {
    fn describe(self: Pt) -> string { "pt" }
    fn weight(self: Pt, k: int32) -> int32 { k }
}
fn label[TP: Describe](item: TP, n: int32) -> string {
    item.describe() + int32_to_string(item.weight(n)) + Describe::describe(item)
}
fn gid[TQ](x: TQ) -> TQ { x }
fn main() {
    let pt = Pt { px: 1, py: true };
    let a1 = pt.norm(2);
    let a2 = pt.px;
    let a3 = gid(pt);
    let a4 = gid(5);
    let a5 = label(pt, 3);
    let a6 = Describe::describe(pt);
    let clo = |q: int32| q + 1;
    let a7 = clo(4);
    let tup = (1, "s");
    let a8 = tup.1;
    let d: dyn Describe = pt;
    let a9 = Describe::weight(d, 2);
    ()
}
"""
        # (line, word, occurrence of the word on that line, the type the typing rules give)
        HX_EXPECT = [
            (8, "item", 0, "TP"), (8, "describe", 0, "(TP) -> string"), (8, "int32_to_string", 0, "(int32) -> string"), (8, "item", 1, "TP"), (8, "weight", 0, "(TP, int32) -> int32"), (8, "n", 0, "int32"),
            (8, "describe", 1, "(TP) -> string"), (8, "item", 2, "TP"), (10, "x", 1, "TQ"),
            (13, "a1", 0, "int32"), (13, "pt", 0, "Pt"), (13, "norm", 0, "(Pt, int32) -> int32"), (14, "a2", 0, "int32"), (14, "px", 0, "int32"), (15, "a3", 0, "Pt"), (15, "gid", 0, "(Pt) -> Pt"),
            (16, "a4", 0, "int32"), (16, "gid", 0, "(int32) -> int32"), (17, "a5", 0, "string"), (17, "label", 0, "(Pt, int32) -> string"), (18, "a6", 0, "string"), (18, "describe", 0, "(Pt) -> string"),
            (19, "clo", 0, "(int32) -> int32"), (19, "q", 0, "int32"), (19, "q", 1, "int32"), (20, "a7", 0, "int32"), (20, "clo", 0, "(int32) -> int32"), (21, "tup", 0, "(int32, string)"), (22, "a8", 0, "string"),
            (22, "tup", 0, "(int32, string)"), (23, "d", 0, "dyn Describe"), (24, "a9", 0, "int32"), (24, "weight", 0, "(dyn Describe, int32) -> int32"), (24, "d", 0, "dyn Describe"),
        ]
        hx_lines = HX.split("\n")
        hx_qs = []
        for li, word, occ, ty in HX_EXPECT:
            cols = [m_.start() for m_ in re.finditer(r"(?<![A-Za-z_0-9])%s(?![A-Za-z_0-9])" % re.escape(word), hx_lines[li])]
            hx_qs.append(("hover", li, cols[occ]))
            hx_qs.append(("hover", li, cols[occ] + len(word) - 1))
        stats["hover_expressions"] = 0
        for (q, r), (li, word, occ, ty) in zip(zip(hx_qs, run_queries([(HX, hx_qs)])[0]), [e_ for e_ in HX_EXPECT for _ in (0, 1)]):
            stats["hover_expressions"] += 1
            if "ok" in r and norm_ty(r["ok"]) == norm_ty(ty):
                stats["hover_agree"] += 1
            elif "panic" not in r:
                wits.append({"kind": "hover on `%s` (line %d) reports %r, the typing rules give %r" % (word, li, r.get("ok", r.get("err")), ty), "text": HX, "line": q[1], "col": q[2]})
        # ---- 2c. every item offered after `x.` type-checks when inserted (receivers of several types and instances) ----
        INSERT_BASE = """struct Bx[T] { v: T, n: int32 }
impl[T] Bx[T] {
    fn get(self: Bx[T]) -> T { self.v }
    fn cnt(self: Bx[T], k: int32) -> int32 { self.n + k }
}
impl Bx[int32] { fn get_int(self: Bx[int32]) -> int32 { self.v } }
impl Bx[string] { fn get_str(self: Bx[string], pre: string) -> string { pre + self.v } }
impl Bx[Bx[int32]] { fn inner_n(self: Bx[Bx[int32]]) -> int32 { self.v.n } }
struct Pt { x: int32, y: int32 }
impl Pt { fn norm(self: Pt, k: int32, b: bool) -> int32 { self.x + k } fn mk() -> Pt { Pt { x: 1, y: 2 } } }
enum Sh { Ci(int32), Sq }
impl Sh { fn area(self: Sh) -> int32 { 1 } }
trait Nm { fn name(Self) -> string; }
impl Nm for Pt { fn name(self: Pt) -> string { "pt" } }
impl Nm for Bx[int32] { fn name(self: Bx[int32]) -> string { "bx" } }
impl Nm for int32 { fn name(self: int32) -> string { "i" } }
fn main() {
    let bi: Bx[int32] = Bx { v: 1, n: 2 };
    let bs: Bx[string] = Bx { v: "s", n: 2 };
    let bb: Bx[bool] = Bx { v: true, n: 2 };
    let bx: Bx[Bx[int32]] = Bx { v: bi, n: 3 };
    let p: Pt = Pt::mk();
    let sh: Sh = Sq;
    let tp = (1, p);
    let z = RECV.PREFIX
    ()
}
"""
        ARG = {"int32": "1", "string": '"s"', "bool": "true"}
        icases, imeta = [], []
        for recv in ("bi", "bs", "bb", "bx", "p", "sh", "bi.v", "bx.v", "tp.1"):
            for prefix in ("", "g", "n"):
                tt = INSERT_BASE.replace("RECV", recv).replace("PREFIX", prefix)
                off = tt.index("let z = %s.%s" % (recv, prefix)) + len("let z = %s.%s" % (recv, prefix))
                icases.append((tt, [("dot", tt.count("\n", 0, off), off - (tt.rfind("\n", 0, off) + 1))]))
                imeta.append((recv, prefix))
        ins_srcs, ins_meta = [], []
        for (tt, qs), (recv, prefix), rs in zip(icases, imeta, run_queries(icases)):
            r = rs[0]
            if "panic" in r:
                wits.append({"kind": "dot completion panicked: " + r["panic"][:200], "text": tt, "line": qs[0][1], "col": qs[0][2]})
                continue
            for it in r.get("items", []):
                if it[1] == "Field":
                    use = "%s.%s" % (recv, it[0])
                else:
                    m = re.match(r"\((.*)\) -> ", it[2] or "")
                    if not m:
                        continue
                    depth, cur, params = 0, "", []
                    for ch in m.group(1):
                        if ch in "[(":
                            depth += 1
                        elif ch in "])":
                            depth -= 1
                        if ch == "," and depth == 0:
                            params.append(cur.strip())
                            cur = ""
                        else:
                            cur += ch
                    params.append(cur.strip())
                    if any(a not in ARG for a in params[1:]):
                        continue
                    use = "%s.%s(%s)" % (recv, it[0], ", ".join(ARG[a] for a in params[1:]))
                ins_srcs.append(tt.replace("let z = %s.%s" % (recv, prefix), "let z = %s;" % use))
                ins_meta.append((recv, prefix, it))
        stats["inserted_items"] = len(ins_srcs)
        if ins_srcs:
            iroot = os.path.join(vlib.BUILD, "tmp", "c20ins")
            shutil.rmtree(iroot, ignore_errors=True)
            ipaths = []
            for i, src_ in enumerate(ins_srcs):
                d = os.path.join(iroot, "i%04d" % i)
                os.makedirs(d)
                with open(os.path.join(d, "main.gom"), "w") as f:
                    f.write(src_)
                ipaths.append(os.path.join(d, "main.gom"))
            ires = vlib.run_harness("compile", [{"path": p_, "timeout_ms": 20000} for p_ in ipaths], shards=vlib.NCPU)
            stats["inserted_items_accepted"] = 0
            known_recv = {rc: k_["id"] for k_ in run.known if k_["replay"]["kind"] == "completion-insert" for rc in k_["replay"]["receivers"]}
            known_hits = {}
            for src_, (recv, prefix, it), r in zip(ins_srcs, ins_meta, ires):
                if r.get("ok"):
                    stats["inserted_items_accepted"] += 1
                elif recv in known_recv and "panic" not in r:
                    known_hits.setdefault(known_recv[recv], []).append("%s.%s" % (recv, it[0]))
                elif r.get("error_kind") in ("typer", "lower", "parser") or "panic" in r:
                    wits.append({"kind": "the completion item %r offered after `%s.%s` does not type-check when inserted: %s" % (it[0], recv, prefix, "; ".join(d_["message"] for d_ in (r.get("diagnostics") or []))[:200] or r.get("panic", "")[:200]), "text": src_})
            shutil.rmtree(iroot, ignore_errors=True)
            for k_ in run.known:
                if k_["id"] in known_hits:
                    run.known_finding(k_["id"], "%s: %s (%s)" % (k_["id"], k_["what"], ", ".join(known_hits[k_["id"]][:4])))
        # ---- 3. completions name things that exist ------------------------------------------------------
        ccases, cinfo = [], []
        for _ in range(30 if run.tier == "quick" else 400):
            fields = rng.sample(FIELD_POOL, rng.randint(1, 5))
            methods = rng.sample(METHOD_POOL, rng.randint(0, 3))
            dot_prefix = rng.choice(["", "", "x", "l", "n", "zz"])
            colon_prefix = rng.choice(["", "", "C", "S", "R", "q"])
            colon2_prefix = rng.choice(["", "", "n", "x"])
            src = COMPLETION_TEMPLATE % {
                "fields": ", ".join("%s: %s" % (n, t) for n, t, _ in fields),
                "inits": ", ".join("%s: %s" % (n, v) for n, _, v in fields),
                "methods": "\n".join("    fn %s(self: Pt, k: int32) -> int32 { k }" % m for m in methods) + "\n    fn origin() -> Pt { mk() }",
                "dot_prefix": dot_prefix,
                "colon_prefix": colon_prefix,
                "colon2_prefix": colon2_prefix,
            }
            def pos_after(marker):
                off = src.index(marker) + len(marker)
                return src.count("\n", 0, off), off - (src.rfind("\n", 0, off) + 1)
            l1, c1 = pos_after("let q = p." + dot_prefix)
            l2, c2 = pos_after("let s = Shape::" + colon_prefix)
            l3, c3 = pos_after("let m = Pt::" + colon2_prefix)
            ccases.append((src, [("dot", l1, c1), ("colon", l2, c2), ("colon", l3, c3)]))
            cinfo.append((fields, methods, dot_prefix, colon_prefix, colon2_prefix))
        for (src, qs), (fields, methods, dp, cp, cp2), rs in zip(ccases, cinfo, run_queries(ccases)):
            exists_dot = {n for n, _, _ in fields} | set(methods) | {"area", "name"}
            r = rs[0]
            stats["dot_requests"] += 1
            if "panic" in r:
                wits.append({"kind": "dot completion panicked: " + r["panic"][:200], "text": src, "line": qs[0][1], "col": qs[0][2]})
            for it in r.get("items", []):
                stats["dot_items"] += 1
                if it[0] not in exists_dot:
                    wits.append({"kind": "completion after `p.` offers %r, which is no field or method of Pt" % it[0], "text": src, "line": qs[0][1], "col": qs[0][2]})
                elif not it[0].startswith(dp):
                    wits.append({"kind": "completion after `p.%s` offers %r" % (dp, it[0]), "text": src, "line": qs[0][1], "col": qs[0][2]})
                elif it[1] == "Field":
                    want = dict((n, t) for n, t, _ in fields).get(it[0])
                    if want is None or (it[2] is not None and norm_ty(it[2]) != norm_ty(want)):
                        wits.append({"kind": "completion offers field %r : %r, declared %r" % (it[0], it[2], want), "text": src, "line": qs[0][1], "col": qs[0][2]})
            if not dp and "items" in r:
                missing = {n for n, _, _ in fields} - {it[0] for it in r["items"]}
                if missing:
                    wits.append({"kind": "completion after `p.` omits the fields %s" % sorted(missing), "text": src, "line": qs[0][1], "col": qs[0][2]})
            for which, (r, prefix, exists) in enumerate([(rs[1], cp, {"Circle", "Square", "Rect"}), (rs[2], cp2, set(methods) | {"origin", "area", "name"})]):
                stats["colon_requests"] += 1
                q = qs[1 + which]
                if "panic" in r:
                    wits.append({"kind": "`::` completion panicked: " + r["panic"][:200], "text": src, "line": q[1], "col": q[2]})
                for it in r.get("items", []):
                    stats["colon_items"] += 1
                    if it[0] not in exists or not it[0].startswith(prefix):
                        wits.append({"kind": "completion after `%s::%s` offers %r, which does not exist there" % ("Shape" if which == 0 else "Pt", prefix, it[0]), "text": src, "line": q[1], "col": q[2]})
    except Broken as b:
        broken.append(b)
    run.add_cases(stats["crash_queries"] + stats["hover_binders"] + stats["dot_requests"] + stats["colon_requests"], stats["hover_agree"] + stats["dot_items"] + stats["colon_items"], samples=[INFER_SNIPPETS[0]])
    run.cov["rule"] = (
        "1. hover / dot / :: requests at every (line, column) of small texts and a sample of positions of generated programs, their prefixes and one-token mutations, incl. columns past the line end, lines past the end, and u32::MAX: no panic. "
        "2. hover on every let binder of generated well-typed programs (with inference-heavy statements such as vec_new() typed by a later vec_push) must print the type the typed tree dump shows for that binder. "
        "3. completions after `p.<prefix>`, `Shape::<prefix>`, `Pt::<prefix>` in an incomplete program: every offered name is a declared field/method/variant with the right prefix and field type, and no field is omitted. distinct_nontrivial = agreeing hovers + judged completion items"
    )
    run.cov["correspondence"] = stats
    run.cov["proved_parts"] = ["none specific to the query layer: positions are mapped through the lossless token stream proved in C12 (tree_is_lossless)"]
    run.cov["open_obligations"] = ["the query layer is explored, not modelled: no theorem relates hover to the typing of the program", "the wasm-app wrappers are thin and not exercised separately"]
    run.assumptions = ["the typed-tree dump (--dump-tast) is the compiler's assignment of types to binders"]
    if wits:
        seen = set()
        for w in wits:
            key = w["kind"][:60]
            if key in seen:
                continue
            seen.add(key)
            run.violation(w)
            if len(seen) >= 3:
                break
    elif broken:
        run.violation({"broken": [b.what for b in broken], "detail": [b.detail for b in broken]}, no_input=True)


def replay(run, path):
    with open(path) as f:
        w = json.load(f)
    if "text" in w:
        for kind in ("hover", "dot", "colon"):
            (rs,) = run_queries([(w["text"], [(kind, w.get("line", 0), w.get("col", 0))])])
            print(kind, rs[0])
    return 0
