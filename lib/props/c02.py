"""C02 — every accepted program yields Go that the Go compiler would accept."""
import glob
import json
import os
import re
import shutil
import sys

import callgen
import genericgen
import genprog
import go2coq
import goparse
import rustdbg
import semrun
import vlib
from vlib import Broken

sys.path.insert(0, os.path.dirname(os.path.abspath(__file__)))

CODES = {1: "undeclared identifier", 2: "declared twice in one scope", 3: "identifier used at another type than declared", 4: "call with the wrong number or types of arguments", 5: "operator applied to operands of the wrong types",
         6: "unknown field / field access on a non-struct", 7: "index on a non-indexable value or non-integer index", 8: "composite literal does not fit the struct", 9: "value not assignable to the variable/field",
         10: "return does not fit the result type", 11: "condition is not bool", 12: "local variable declared and not used", 13: "import not used", 14: "switch case of another type", 15: "unknown type name", 16: "array literal element of another type",
         17: "package used but not imported", 18: "constant expression: the exact result overflows the type, the divisor is a zero constant, or integer constants are divided at a float type", 98: "expression block", 99: "checker fuel"}


def decode(o):
    m = re.search(r"=\s*(\[.*\])\s*:\s*list", o, re.S)
    if not m:
        raise Broken("coq-output", o[-500:])
    items = re.findall(r"\(\s*(\[[^\]]*\]|\"\")\s*,\s*\(\s*(\d+)\s*,\s*(\[[^\]]*\]|\"\")\s*\)\s*\)", m.group(1), re.S)
    dec = lambda s: bytes(int(x) for x in re.findall(r"\d+", s)).decode("utf-8", "replace")
    return [(dec(a), int(b), dec(c)) for a, b, c in items]


EXTERN_PROGRAMS = [
    'extern "go" "strings" "ToUpper" upper(s: string) -> string\nextern "go" "path/filepath" "Base" base_name(p: string) -> string\nextern "go" "net/url" "QueryEscape" esc(s: string) -> string\nfn main() { string_println(upper("a") + base_name("x/y") + esc("p q")) }\n',
    'extern "go" "path/filepath" "Ext" ext_of(p: string) -> string\nfn main() { let e = ext_of("a.txt"); string_println(e) }\n',
    'extern "go" "math/bits" "OnesCount32" ones(x: uint32) -> int32\nextern "go" "strings" "Repeat" rep(s: string, n: int32) -> string\nfn helper(n: int32) -> string { rep("ab", n) }\nfn main() { let _ = string_println(helper(2)); string_println(int32_to_string(ones(7u32))) }\n',
    'extern type Dur\nextern "go" "time" duration(n: int32) -> Dur\nextern "go" "os/signal" "Ignore" ignore_sig() -> unit\nfn main() { let d = duration(5); let _ = ignore_sig(); string_println("ok") }\n',
]


def long_line_programs(rng, n):
    out = []
    for _ in range(n):
        a = "x" * rng.randint(40, 90)
        b = "y" * rng.randint(40, 90)
        s1 = "".join(rng.choice("abc def") for _ in range(rng.randint(60, 140)))
        out.append(
            "fn %s(%s: int32, %s: int32) -> int32 { %s * %s + %s }\n" % ("f" + a, a, b, a, b, a)
            + "fn main() {\n    let %s = \"%s\";\n    let %s = \"%s\";\n    let joined = %s + %s;\n    let _ = string_println(joined);\n    let big = %s(100000, 200000) - %s(300000, 400000);\n    let cmp = %s(1, 2) < %s(3, 4);\n    let _ = string_println(int32_to_string(big));\n    string_println(bool_to_string(cmp && cmp))\n}\n"
            % (a, s1, b, s1[::-1], a, b, "f" + a, "f" + a, "f" + a, "f" + a)
        )
    return out


def check(run):
    run.level = "translation_validation"
    broken = []
    try:
        vlib.proof_stage(run, "C02", ["C02/Properties.v"], pins="C02")
    except Broken as b:
        broken.append(b)
    rng = run.sub_rng("c02")
    wits = []
    stats = {"programs": 0, "accepted": 0, "text_parses_to_the_ast": 0, "checker_clean": 0, "kinds": {}}
    try:
        q = run.tier == "quick"
        srcs = [genprog.G(rng, fail_rate=0.02).program(depth=rng.choice([2, 3])) for _ in range(40 if q else 700)]
        clrng = run.sub_rng("c02-cl")
        srcs += [genprog.closure_program(clrng) for _ in range(20 if q else 300)]
        srcs += [genericgen.Gen(rng).program(n_stmts=4, depth=2)[0] for _ in range(15 if q else 250)]
        srcs += long_line_programs(rng, 8 if q else 80)
        import matrixgen
        srcs += matrixgen.sources(run, "c02", per_quick=12)
        # every kind of user-named entity named like a Go keyword (the emitted text must still lex and parse as Go)
        import namegen

        for tpl in ("a", "b"):
            for role in namegen.LOWER_ROLES:
                for kw in (namegen.GO_KEYWORDS if not q else rng.sample(namegen.GO_KEYWORDS, 6)):
                    names = dict(namegen.PLAIN)
                    names[role] = kw
                    srcs.append(namegen.render(names, tpl))
        srcs += EXTERN_PROGRAMS
        import c18 as c18mod

        for _ in range(10 if q else 150):
            g = c18mod.Gen(rng)
            g.make_types(rng.choice([2, 3]))
            srcs.append(g.program(4)[0])
        root, paths = semrun.write_programs("c02", srcs)
        corpus = sorted(glob.glob(os.path.join(vlib.REPO, "crates/compiler/src/tests/pipeline/*/main.gom")))
        corpus += sorted(glob.glob(os.path.join(vlib.VERIF, "corpus/C02/*/main.gom")))  # minimised earlier failures
        paths += corpus
        srcs += [open(p, encoding="utf-8").read() for p in corpus]
        base = os.path.join(vlib.BUILD, "tmp", "c02proj")
        shutil.rmtree(base, ignore_errors=True)
        import c14 as c14mod

        for i in range(8 if q else 100):
            files = callgen.Gen(rng).project(n_calls=5)[0] if i % 2 == 0 else c14mod.gen_project(rng)[0]
            d = os.path.join(base, "g%03d" % i)
            for fn, tx in files.items():
                os.makedirs(os.path.dirname(os.path.join(d, fn)), exist_ok=True)
                with open(os.path.join(d, fn), "w") as f:
                    f.write(tx)
            paths.append(d + "/main.gom")
            srcs.append("\n".join("// %s\n%s" % (k, v) for k, v in files.items()))
        stats["programs"] = len(paths)
        res = vlib.run_harness("compile", [{"path": p, "dumps": ["go_dbg"], "timeout_ms": 20000} for p in paths], shards=vlib.NCPU)
        texts, idx = [], []
        known_058 = [k for k in run.known if k["replay"].get("kind") == "go-rejects"]
        for i, (p, src, r) in enumerate(zip(paths, srcs, res)):
            if "panic" in r or r.get("timeout"):
                wits.append({"kind": "compiler panic/hang", "program": src, "impl": {k: v for k, v in r.items() if k not in ("go", "dumps")}})
                continue
            if not r.get("ok"):
                continue
            stats["accepted"] += 1
            tree = rustdbg.parse(r["dumps"]["go_dbg"])
            # 1. the text parses (Go lexical rules incl. automatic semicolons) to the tree the backend built
            try:
                parsed = goparse.norm(goparse.parse(r["go"]))
                ast = goparse.norm(goparse.a_file(tree))
                if parsed == ast:
                    stats["text_parses_to_the_ast"] += 1
                else:
                    wits.append({"kind": "the emitted Go text parses to another program than the Go AST the backend built: " + str(goparse.first_difference(ast, parsed)), "program": src, "go_text": r["go"]})
            except goparse.GoSyntaxError as e:
                wits.append({"kind": "the emitted Go text does not parse: %s" % e, "program": src, "go_text": r["go"]})
            try:
                texts.append("From Goml Require Import Common.Base Sem.GoAst C02.GoCheck.\nOpen Scope N_scope.\nDefinition f := %s.\nEval vm_compute in (go_wf f).\n" % go2coq.file(tree))
                idx.append(i)
            except (go2coq.Conv, KeyError, AssertionError) as e:
                wits.append({"kind": "the Go AST has a shape the model cannot read: %r" % (e,), "program": src})
        outs = vlib.coq_eval_many("c02", texts, timeout=1500)
        for i, o in zip(idx, outs):
            items = decode(o)
            name = paths[i].split("/")[-2]
            if any(name == k["replay"]["corpus"] for k in known_058):
                continue
            if not items:
                stats["checker_clean"] += 1
            else:
                fn, code, who = items[0]
                stats["kinds"][CODES.get(code, str(code))] = stats["kinds"].get(CODES.get(code, str(code)), 0) + 1
                wits.append({"kind": "Go would reject the emitted program: %s (%s in func %s)" % (CODES.get(code, code), who, fn), "findings": items[:6], "program": srcs[i], "go_text": res[i].get("go")})
        shutil.rmtree(root, ignore_errors=True)
        shutil.rmtree(base, ignore_errors=True)
    except Broken as b:
        broken.append(b)
    # ---- known findings: each is replayed and must still be what is listed ---------------------------------
    for k in run.known:
        rp = k["replay"]
        p = os.path.join(vlib.REPO, "crates/compiler/src/tests/pipeline", rp["corpus"], "main.gom") if "corpus" in rp else os.path.join(vlib.VERIF, rp["program"])
        (r,) = vlib.run_harness("compile", [{"path": p, "dumps": ["go_dbg"], "timeout_ms": 20000}])
        if not r.get("ok"):
            continue
        o = vlib.coq_eval("c02k", "From Goml Require Import Common.Base Sem.GoAst C02.GoCheck.\nOpen Scope N_scope.\nDefinition f := %s.\nEval vm_compute in (go_wf f).\n" % go2coq.file(rustdbg.parse(r["dumps"]["go_dbg"])))
        items = decode(o)
        if items:
            fn, code, who = items[0]
            run.known_finding(k["id"], "%s: %s — Go would reject: %s (%s in func %s)" % (k["id"], k["what"], CODES.get(code, code), who, fn))
    run.add_cases(stats["programs"], stats["checker_clean"], samples=[srcs[0][srcs[0].index("fn main") :][:400]] if srcs else [])
    run.cov["rule"] = (
        "accepted programs from every generator of this suite (probes in all positions, closures, generics, derives, long identifiers and string literals that make statements wider than the printer's 120 columns, the corpus, multi-package projects): "
        "(1) the emitted text is lexed with Go's rules including automatic semicolon insertion and parsed by an independent parser for the emitted subset; the result must equal the Go AST the backend built (so what is established on the AST holds for the text); "
        "(2) the Go AST is checked by the Coq function go_wf, which derives types from declarations as Go does: declared before use and once per scope, calls/assignments/returns/composite literals/operators/field and index accesses/type switches well-typed, "
        "every local read, every import used. distinct_nontrivial = programs with no finding"
    )
    run.cov["correspondence"] = stats
    run.cov["open_obligations"] = ["go_wf covers the emitted subset of Go's rules (no goroutine/closure literals, no generics, no shadowing subtleties beyond block scopes); it is a model of the Go compiler's front end, validated on the corpus whose recorded outputs come from real Go", "no theorem that the backend only produces go_wf programs"]
    run.assumptions = ["the Python lexer/parser implements the Go specification for the emitted subset"]
    if wits:
        for w in wits[:3]:
            run.violation(w)
    elif broken:
        run.violation({"broken": [b.what for b in broken], "detail": [b.detail for b in broken]}, no_input=True)


def replay(run, path):
    with open(path) as f:
        w = json.load(f)
    print(json.dumps({k: v for k, v in w.items() if k != "go_text"}, indent=1)[:3000])
    return 0
