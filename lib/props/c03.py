"""C03 — acceptance is type-sound: every stage output is well-typed and closed; ill-typed programs are rejected."""
import glob
import json
import os
import re
import shutil
import sys

import callgen
import genericgen
import genprog
import rustdbg
import semrun
import typed2coq
import vlib
from vlib import Broken

STAGES = ["core", "mono", "lift", "anf"]
CODES = {1: "a variable is used outside the scope of any binder", 2: "a variable use has another type than its binder", 4: "if: condition not bool or branch types differ", 5: "while: condition not bool or type not unit",
         6: "a call disagrees with the callee's function type", 7: "tuple / projection / array types disagree", 8: "closure type disagrees with its parameters and body", 9: "operator applied at the wrong types",
         10: "match arms of different types", 11: "a type parameter, inference variable or generic application remains after monomorphisation", 12: "constructor arity", 13: "a top-level function is used at a type that is no instance of its signature",
         14: "trait object coercion/call at the wrong type", 15: "function body type differs from the declared return type"}


def extern_names(src):
    return re.findall(r'extern\s+"[^"]*"\s+"[^"]*"\s+(?:"[^"]*"\s+)?(\w+)\s*\(', src)


def stage_defs(i, r, src_text):
    """Coq text defining, for program i, one check per stage; returns (text, stage list) or raises Conv"""
    ext = json.loads(r["dumps"]["builtin_names"]) + ["missing"] + extern_names(src_text)
    out, stages = [], []
    for st in STAGES:
        tree = rustdbg.parse(r["dumps"][st + "_dbg"])
        ext_st = list(ext)
        if st == "core":
            # Core names a method of a generic impl without the type arguments; mono resolves it by (base, method)
            defs = [f[2]["name"][1] for f in tree[2]["toplevels"][1]]
            for m in set(re.findall(r"inherent#[^\"']+", r["dumps"][st + "_dbg"])):
                parts = m.split("#")
                if m not in defs and len(parts) == 4 and any(d.split("#")[0:2] == parts[0:2] and d.split("#")[-1] == parts[3] for d in defs):
                    ext_st.append(m)
        t = typed2coq.file(tree)
        out.append("Definition p%d_%s := explain_file [%s] %s %s.\n" % (i, st, "; ".join(typed2coq.S(x) for x in ext_st), "false" if st == "core" else "true", t))
        stages.append(st)
    return "".join(out), stages


def decode(o):
    """[(fn name, code, culprit)] lists printed by Coq -> python"""
    res = []
    for m in re.finditer(r"=\s*(\[.*?\])\s*:\s*list \(str \* N \* str\)", o, re.S):
        body = m.group(1)
        items = []
        for t in re.finditer(r"\(\s*(\[[^\]]*\]|\"\")\s*,\s*(\d+)\s*,\s*(\[[^\]]*\]|\"\")\s*\)", body, re.S):
            nm = bytes(int(x) for x in re.findall(r"\d+", t.group(1))).decode("utf-8", "replace")
            cu = bytes(int(x) for x in re.findall(r"\d+", t.group(3))).decode("utf-8", "replace")
            items.append((nm, int(t.group(2)), cu))
        res.append(items)
    return res


def check_programs(tag, paths, srcs, wits, stats, per=6):
    res = vlib.run_harness("compile", [{"path": p, "dumps": [s + "_dbg" for s in STAGES] + ["builtin_names"], "timeout_ms": 20000} for p in paths], shards=vlib.NCPU)
    texts, groups = [], []
    cur, cur_ix = "", []
    for i, (p, src, r) in enumerate(zip(paths, srcs, res)):
        if "panic" in r or r.get("timeout"):
            wits.append({"kind": "compiler panic/hang on a well-typed program", "program": src, "impl": {k: v for k, v in r.items() if k not in ("go", "dumps")}})
            continue
        if not r.get("ok"):
            stats["rejected"] = stats.get("rejected", 0) + 1
            continue
        try:
            d, stages = stage_defs(i, r, src)
        except (typed2coq.Conv, rustdbg.ParseError, KeyError, IndexError) as e:
            wits.append({"kind": "an IR dump has a shape the typed model cannot read: %r" % (e,), "program": src})
            continue
        cur += d + "".join("Eval vm_compute in p%d_%s.\n" % (i, st) for st in stages)
        cur_ix.append((i, stages))
        if len(cur_ix) >= per:
            texts.append("From Goml Require Import Common.Base C03.Typed.\nOpen Scope N_scope.\n" + cur)
            groups.append(cur_ix)
            cur, cur_ix = "", []
    if cur_ix:
        texts.append("From Goml Require Import Common.Base C03.Typed.\nOpen Scope N_scope.\n" + cur)
        groups.append(cur_ix)
    outs = vlib.coq_eval_many(tag, texts, timeout=1500) if texts else []
    for g, o in zip(groups, outs):
        lists = decode(o)
        want = sum(len(st) for _, st in g)
        if len(lists) != want:
            raise Broken("coq-output", o[-600:])
        k = 0
        for i, stages in g:
            for st in stages:
                stats["stage_trees"] = stats.get("stage_trees", 0) + 1
                for fn, code, culprit in lists[k]:
                    wits.append({"kind": "%s IR is not type-consistent: %s" % (st, CODES.get(code, "code %d" % code)), "stage": st, "function": fn, "near": culprit, "program": srcs[i]})
                if not lists[k]:
                    stats["consistent"] = stats.get("consistent", 0) + 1
                k += 1


ILL = [
    ("element type of a vector never determined", "let qv = vec_new(); let qn = vec_len(qv);"),
    ("undetermined type nested in a reference", "let qr = ref(vec_new()); let _ = qr;"),
    ("undetermined type nested in a tuple component", "let qt = (1, vec_new()); let _ = qt.0;"),
    ("undetermined type nested in an array", "let qa = [vec_new(), vec_new()]; let _ = qa;"),
    ("undetermined parameter type of a closure", "let qf = |qx| qx; let _ = qf;"),
    ("argument of the wrong type", "let _ = int32_to_string(true);"),
    ("argument of the wrong type (string for int)", "let _ = pi(\"t\", \"x\");"),
    ("too many arguments", "let _ = int32_to_string(1, 2);"),
    ("too few arguments", "let _ = pi(\"t\");"),
    ("unknown field", "let q = P { a: 1, b: true }; let _ = q.zz;"),
    ("field of the wrong type in a struct literal", "let _ = P { a: true, b: true };"),
    ("missing field in a struct literal", "let _ = P { a: 1 };"),
    ("array length mismatch", "let arr: [int32; 3] = [1, 2];"),
    ("array element of another type", "let _ = [1, true, 3];"),
    ("if branches of different types", "let _ = if true { 1 } else { \"s\" };"),
    ("non-bool condition", "let _ = if 1 { 1 } else { 2 };"),
    ("non-bool while condition", "let _ = while 1 { () };"),
    ("operator at mixed types", "let _ = 1 + true;"),
    ("logical operator on ints", "let _ = 1 && 2;"),
    ("comparison of different types", "let _ = 1 < \"a\";"),
    ("negation of a string", "let _ = -\"a\";"),
    ("not of an int", "let _ = !3;"),
    ("unknown variable", "let _ = undefined_variable_zz + 1;"),
    ("unknown function", "let _ = undefined_function_zz(1);"),
    ("constructor with the wrong payload", "let _ = B(true);"),
    ("constructor with too many arguments", "let _ = B(1, 2);"),
    ("match arms of different types", "let _ = match B(1) { A => 1, B(n) => \"s\", C(f, n) => 2 };"),
    ("pattern of another type", "let _ = match 1 { true => 1, _ => 2 };"),
    ("tuple projection out of range", "let t3 = (1, true); let _ = t3.2;"),
    ("calling a non-function", "let n5 = 5; let _ = n5(1);"),
    ("annotation disagrees with the value", "let s9: int32 = \"s\";"),
    ("closure applied at the wrong type", "let f9 = |x: int32| x + 1; let _ = f9(true);"),
    ("closure body of another type than its use", "let f8 = |x: int32| x + 1; let _ = string_println(f8(1));"),
    ("Ref of another type", "let r7 = ref(1); let _ = ref_set(r7, true);"),
    ("Vec element of another type", "let v7: Vec[int32] = vec_new(); let _ = vec_push(v7, \"s\");"),
    ("dyn coercion without impl", "let d7: dyn Tick = true;"),
    ("trait method on a type without impl", "let _ = Tick::val(\"s\");"),
    ("tuple literal longer than its annotation", "let t9: (int32, bool) = (1, true, 3);"),
    ("tuple literal shorter than its annotation", "let t9: (int32, bool, int32) = (1, true);"),
    ("tuple argument longer than the parameter type", "let f6 = |p6: (int32, int32)| p6.0; let _ = f6((1, 2, 3));"),
    ("tuple argument shorter than the parameter type", "let f6 = |p6: (int32, int32, int32)| p6.0; let _ = f6((1, 2));"),
    ("tuple component of another type", "let t8: (int32, bool) = (true, 1);"),
    ("tuple pattern longer than the scrutinee", "let _ = match (1, true) { (a6, b6, c6) => 1 };"),
    ("tuple pattern shorter than the scrutinee", "let _ = match (1, true, 2) { (a6, b6) => 1 };"),
    ("let tuple pattern longer than the value", "let (a7, b7, c7) = (1, 2);"),
    ("let tuple pattern shorter than the value", "let (a7, b7) = (1, 2, 3);"),
    ("enum pattern with too many sub-patterns", "let _ = match B(1) { A => 0, B(n6, m6) => 1, C(f6, n6) => 2 };"),
    ("enum pattern with too few sub-patterns", "let _ = match C(true, 1) { A => 0, B(n6) => 1, C(f6) => 2 };"),
    ("struct literal with an extra field", "let _ = P { a: 1, b: true, zz: 2 };"),
    ("struct pattern with an unknown field", "let _ = match P { a: 1, b: true } { P { a: a6, zz: z6 } => 1 };"),
    ("closure applied to too many arguments", "let f5 = |x: int32| x; let _ = f5(1, 2);"),
    ("closure applied to too few arguments", "let f5 = |x: int32, y: int32| x + y; let _ = f5(1);"),
    ("trait method with an extra argument", "let d6: dyn Tick = 4; let _ = Tick::val(d6, 1);"),
    ("field access on an int", "let n6 = 1; let _ = n6.a;"),
    ("string plus int", "let _ = \"a\" + 1;"),
    ("unit used as a number", "let _ = () + 1;"),
    ("ref_get of a non-reference", "let _ = ref_get(1);"),
    ("array index of another type", "let _ = array_get([1, 2], true);"),
    ("vec_get on an array", "let _ = vec_get([1, 2], 0);"),
    ("array literal longer than its annotation", "let arr: [int32; 2] = [1, 2, 3];"),
    ("nested tuple component arity", "let t9: (int32, (bool, int32)) = (1, (true, 2, 3));"),
    ("tuple returned from a closure at the wrong arity", "let f4 = |x: int32| (x, x); let t4: (int32, int32, int32) = f4(1);"),
    ("Vec of tuples pushed at the wrong arity", "let v6: Vec[(int32, bool)] = vec_new(); let _ = vec_push(v6, (1, true, 2));"),
]


def check(run):
    sys.path.insert(0, os.path.dirname(os.path.abspath(__file__)))
    broken = []
    try:
        vlib.proof_stage(run, "C03", ["C03/Properties.v"], pins="C03")
    except Broken as b:
        broken.append(b)
    rng = run.sub_rng("c03")
    wits, stats = [], {}
    ill_stats = {}
    try:
        # ---- well-typed programs: every stage tree must pass the Coq checker -----------------------
        n = 50 if run.tier == "quick" else 800
        srcs = [genprog.G(rng, fail_rate=0.02).program(depth=rng.choice([2, 3])) for _ in range(n)]
        for _ in range(15 if run.tier == "quick" else 200):
            srcs.append(genericgen.Gen(rng).program(n_stmts=4, depth=2)[0])
        crng = run.sub_rng("c03-closures")
        srcs += [genprog.closure_program(crng) for _ in range(40 if run.tier == "quick" else 600)]
        import matrixgen
        srcs += matrixgen.sources(run, "c03", per_quick=12)
        root, paths = semrun.write_programs("c03", srcs)
        corpus = sorted(glob.glob(os.path.join(vlib.REPO, "crates/compiler/src/tests/pipeline/*/main.gom")))
        paths += corpus
        srcs += [open(p, encoding="utf-8").read() for p in corpus]
        # multi-package projects
        base = os.path.join(vlib.BUILD, "tmp", "c03proj")
        shutil.rmtree(base, ignore_errors=True)
        for i in range(6 if run.tier == "quick" else 60):
            files, _, _ = callgen.Gen(rng).project(n_calls=5)
            d = os.path.join(base, "g%03d" % i)
            for fn, tx in files.items():
                os.makedirs(os.path.dirname(os.path.join(d, fn)), exist_ok=True)
                with open(os.path.join(d, fn), "w") as f:
                    f.write(tx)
            paths.append(d + "/main.gom")
            srcs.append("\n".join("// %s\n%s" % (k, v) for k, v in files.items()))
        stats["programs"] = len(paths)
        check_programs("c03", paths, srcs, wits, stats)
        shutil.rmtree(root, ignore_errors=True)
        shutil.rmtree(base, ignore_errors=True)
        # ---- one type error injected at a random position: must be rejected with a diagnostic ------------
        n_ill = 3 if run.tier == "quick" else 30
        ill_srcs, ill_why = [], []
        for why, stmt in ILL:
            for _ in range(n_ill):
                base_src = genprog.G(rng, fail_rate=0.0).program(depth=2)
                i = base_src.index("fn main()")
                body_start = base_src.index("{", i) + 1
                lines = base_src[body_start:].split("\n")
                pos = rng.randrange(0, max(1, len(lines) - 2))
                lines.insert(pos + 1 if lines[pos].rstrip().endswith(";") or pos == 0 else 1, "    " + stmt)
                ill_srcs.append(base_src[:body_start] + "\n".join(lines))
                ill_why.append(why)
        root, ipaths = semrun.write_programs("c03ill", ill_srcs)
        ires = vlib.run_harness("compile", [{"path": p, "timeout_ms": 20000} for p in ipaths], shards=vlib.NCPU)
        for why, src, r in zip(ill_why, ill_srcs, ires):
            if r.get("ok"):
                wits.append({"kind": "an ill-typed program was accepted: " + why, "program": src})
            elif "panic" in r or r.get("timeout"):
                wits.append({"kind": "panic/hang instead of a type diagnostic: " + why, "program": src, "impl": {k: v for k, v in r.items() if k != "go"}})
            elif not r.get("diagnostics"):
                wits.append({"kind": "rejected without a diagnostic: " + why, "program": src})
            else:
                ill_stats[why] = ill_stats.get(why, 0) + 1
        shutil.rmtree(root, ignore_errors=True)
        # ---- every pair of distinct types: a value of one is never accepted where the other is expected -------------------
        UT = ["int32", "int64", "uint8", "bool", "string", "unit", "float64", "(int32, bool)", "(bool, int32)", "(int32, bool, string)", "[int32; 2]", "[int32; 3]", "[bool; 2]",
              "Vec[int32]", "Vec[bool]", "Ref[int32]", "Ref[bool]", "Ref[Vec[int32]]", "Vec[Ref[int32]]", "Up", "Uq", "Ue", "Ub[int32]", "Ub[bool]", "Uo[int32]", "Uo[Ub[int32]]",
              "(int32) -> int32", "(int32) -> bool", "(int32, int32) -> int32", "() -> int32", "dyn Ut", "dyn Uu"]
        UHEAD = ("struct Up { a: int32 }\nstruct Uq { a: int32 }\nenum Ue { Ua, Ub_(int32) }\nstruct Ub[T] { v: T }\nenum Uo[T] { Un, Us(T) }\n"
                 "trait Ut { fn ut(Self) -> int32; }\ntrait Uu { fn ut(Self) -> int32; }\nimpl Ut for int32 { fn ut(self: int32) -> int32 { self } }\nimpl Uu for int32 { fn ut(self: int32) -> int32 { self } }\n")
        USES = [("ref_get(x)", "Ref"), ("ref_set(x, ref_get(x))", "Ref"), ("vec_len(x)", "Vec"), ("vec_get(x, 0)", "Vec"), ("vec_push(x, vec_get(x, 0))", "Vec"), ("array_get(x, 0)", "["), ("string_len(x)", "string"), ("x.0", "("), ("x.a", "U"), ("x.v", "Ub"), ("x(1)", "(int32) ->"), ("!x", "bool"), ("x + x", "")]
        pairs = [(a, b) for a in UT for b in UT if a != b]
        if run.tier == "quick":
            pairs = rng.sample(pairs, 260)
        u_srcs, u_why = [], []
        for a, b in pairs:
            form = rng.choice(["ret", "let", "arg"])
            if form == "ret":
                body = "fn conv(x: %s) -> %s { x }\n" % (a, b)
            elif form == "let":
                body = "fn conv(x: %s) -> int32 { let y: %s = x; 0 }\n" % (a, b)
            else:
                body = "fn want(y: %s) -> int32 { 0 }\nfn conv(x: %s) -> int32 { want(x) }\n" % (b, a)
            if b.startswith("dyn ") and a == "int32":
                continue  # int32 implements both traits: a value is coerced to the trait object wherever one is expected
            u_srcs.append(UHEAD + body + "fn main() { () }\n")
            u_why.append("a value of type %s where %s is expected (%s)" % (a, b, form))
        for use, need in USES:
            for a in UT:
                ok_ = (need and a.startswith(need)) or (use == "x + x" and a in ("int32", "int64", "uint8", "float64", "string")) or (use == "x.a" and a in ("Up", "Uq")) or (use == "x(1)" and a.startswith("(int32) ->"))
                if ok_ or (use == "x.a" and not a.startswith("U")):
                    continue
                u_srcs.append(UHEAD + "fn conv(x: %s) -> unit { let _ = %s; () }\nfn main() { () }\n" % (a, use))
                u_why.append("`%s` on a value of type %s" % (use, a))
        for amb in ("let x = Un; let _ = x;", "let p = (1, Un); let _ = p.0;", "let b = Ub { v: Un }; let _ = b;", "let v = vec_push(vec_new(), Un); let _ = vec_len(v);", "let r = ref(Un); let _ = r;", "let f = |q| Us(q); let _ = f;"):
            u_srcs.append(UHEAD + "fn conv() -> unit { %s () }\nfn main() { () }\n" % amb)
            u_why.append("a type argument that nothing determines: " + amb)
        uroot, upaths = semrun.write_programs("c03uni", u_srcs)
        ures = vlib.run_harness("compile", [{"path": p_, "timeout_ms": 20000} for p_ in upaths], shards=vlib.NCPU)
        for why, src, r in zip(u_why, u_srcs, ures):
            if r.get("ok"):
                wits.append({"kind": "an ill-typed program was accepted: " + why, "program": src})
            elif "panic" in r or r.get("timeout"):
                wits.append({"kind": "panic/hang instead of a type diagnostic: " + why, "program": src, "impl": {k: v for k, v in r.items() if k != "go"}})
            elif not r.get("diagnostics"):
                wits.append({"kind": "rejected without a diagnostic: " + why, "program": src})
            else:
                ill_stats["type confusion matrix"] = ill_stats.get("type confusion matrix", 0) + 1
        shutil.rmtree(uroot, ignore_errors=True)
        # a sanity row: the same shapes with equal types are accepted (the matrix rejects for the right reason)
        sane = [UHEAD + "fn conv(x: %s) -> %s { x }\nfn want(y: %s) -> int32 { 0 }\nfn conv2(x: %s) -> int32 { let y: %s = x; want(y) }\nfn main() { () }\n" % (a, a, a, a, a) for a in UT]
        sroot, spaths = semrun.write_programs("c03unis", sane)
        for a, r in zip(UT, vlib.run_harness("compile", [{"path": p_, "timeout_ms": 20000} for p_ in spaths], shards=vlib.NCPU)):
            if not r.get("ok"):
                broken.append(Broken("generator", "C03 type matrix: the identity at type %s is rejected: %s" % (a, json.dumps(r.get("diagnostics"))[:300])))
        shutil.rmtree(sroot, ignore_errors=True)
        # ---- the same single errors inside an imported package (not the entry package) of a project -----------------------
        LIB_ILL = [(w_, s_) for w_, s_ in ILL if not any(x in s_ for x in ("pi(", "P {", "B(", "C(", "Tick", " A "))]
        pbase = os.path.join(vlib.BUILD, "tmp", "c03illproj")
        shutil.rmtree(pbase, ignore_errors=True)
        pj_inputs, pj_meta = [], []
        import c14 as c14mod

        for i in range(12 if run.tier == "quick" else 150):
            files = dict(c14mod.gen_project(rng)[0])
            # only packages that the entry package reaches through imports are compiled at all
            imps = lambda tx: re.findall(r"^import (\w+)", tx, re.M)
            reach, todo = set(), imps("".join(v for f, v in files.items() if "/" not in f))
            while todo:
                x = todo.pop()
                if x not in reach:
                    reach.add(x)
                    todo += imps("".join(v for f, v in files.items() if f.startswith(x + "/")))
            libs = sorted(f for f in files if "/" in f and f.endswith(".gom") and f.split("/")[0] in reach)
            if not libs:
                continue
            target = rng.choice(libs)
            why, stmt = rng.choice(LIB_ILL)
            files[target] = files[target] + "\nfn injected_ill_typed() -> unit {\n    %s\n    ()\n}\n" % stmt
            d = os.path.join(pbase, "g%03d" % i)
            for fn, tx in files.items():
                os.makedirs(os.path.dirname(os.path.join(d, fn)), exist_ok=True)
                with open(os.path.join(d, fn), "w") as f:
                    f.write(tx)
            pj_inputs.append({"path": d + "/main.gom", "timeout_ms": 20000})
            pj_meta.append((why, target, files))
        for (why, target, files), r in zip(pj_meta, vlib.run_harness("compile", pj_inputs, shards=vlib.NCPU)):
            if r.get("ok"):
                wits.append({"kind": "an ill-typed project was accepted (the error is in the imported package file %s): %s" % (target, why), "files": files})
            elif "panic" in r or r.get("timeout"):
                wits.append({"kind": "panic/hang instead of a type diagnostic (error in %s): %s" % (target, why), "files": files, "impl": {k: v for k, v in r.items() if k != "go"}})
            else:
                ill_stats["in an imported package"] = ill_stats.get("in an imported package", 0) + 1
        shutil.rmtree(pbase, ignore_errors=True)
    except Broken as b:
        broken.append(b)
    # ---- known findings ------------------------------------------------------------------------------
    for k in run.known:
        if k["replay"]["kind"] == "accepted-ill-typed":
            (r,) = vlib.run_harness("compile", [{"path": vlib.VERIF + "/" + k["replay"]["program"], "timeout_ms": 8000}])
            if r.get("ok"):
                run.known_finding(k["id"], "%s: %s (%s is accepted)" % (k["id"], k["what"], k["replay"]["program"]))
    run.add_cases(stats.get("programs", 0) + sum(ill_stats.values()), stats.get("consistent", 0), samples=[ILL[5][1], ILL[12][1]])
    run.cov["rule"] = (
        "well-typed programs (generated: probes in every position, closures, refs, vectors, arrays, trait objects; generic programs; closure-capture programs; the corpus; three-package projects): the real Core, Mono, Lift and ANF trees are translated node for node "
        "(every node with the type the compiler put on it) and checked by the Coq function check_file: scope and binder type of every variable, instance matching for uses of top-level functions, let/if/while/match/call/tuple/projection/array/closure/operator/dyn typing, declared return types, "
        "and no TParam/TVar/TApp after monomorphisation. %d kinds of single type errors injected at random statement positions must be rejected with a diagnostic. distinct_nontrivial = stage trees that pass" % len(ILL)
    )
    run.cov["correspondence"] = {"well_typed": stats, "ill_typed_rejected": ill_stats}
    run.cov["open_obligations"] = ["constructor field types and trait method signatures are not re-checked (arity and argument well-formedness only)", "no preservation theorem for the passes; the checker is executed per program",
                                   "the type annotation kept on let nodes is not the type of the let expression (recorded in DESIGN.md); the checker derives a let's type from its body"]
    run.assumptions = []
    if wits:
        for w in wits[:3]:
            run.violation(w)
    elif broken:
        run.violation({"broken": [b.what for b in broken], "detail": [b.detail for b in broken]}, no_input=True)


def replay(run, path):
    with open(path) as f:
        w = json.load(f)
    print(json.dumps(w, indent=1)[:4000])
    return 0
