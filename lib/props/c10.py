"""C10 — numbers mean what they say: literals, widths, wrap-around, comparison, printing."""
import json
import os
import re
import shutil

import vlib
from vlib import Broken

TYPES = ["int8", "int16", "int32", "int64", "uint8", "uint16", "uint32", "uint64"]
SUFFIX = {"int8": "i8", "int16": "i16", "int32": "i32", "int64": "i64", "uint8": "u8", "uint16": "u16", "uint32": "u32", "uint64": "u64"}
ITY = {"int8": "I8", "int16": "I16", "int32": "I32", "int64": "I64", "uint8": "U8", "uint16": "U16", "uint32": "U32", "uint64": "U64"}
BITS = {"int8": 8, "int16": 16, "int32": 32, "int64": 64, "uint8": 8, "uint16": 16, "uint32": 32, "uint64": 64}


def hi(t):
    return 2 ** (BITS[t] - 1) - 1 if t.startswith("int") else 2 ** BITS[t] - 1


def literal_cases(run):
    rng = run.sub_rng("c10")
    cases = []  # (type, digits, form) form: suffixed | plain (int32 only) | pattern
    for t in ("int8", "uint8"):
        for v in range(0, 300):
            cases.append((t, str(v), "suffixed"))
        for v in (0, 1, 127, 128, 200, 255, 256, 300):
            cases.append((t, str(v), "pattern"))
            cases.append((t, str(v), "plainpattern"))
    for t in TYPES:
        h = hi(t)
        for v in (0, 1, h - 1, h, h + 1, h + 2, 2 * h, 2 * h + 1, 2 * h + 2, 2 * h + 3, 2 ** 64 - 1, 2 ** 64, 2 ** 64 + 1, 10 ** 25):
            cases.append((t, str(v), "suffixed"))
            cases.append((t, str(v), "pattern"))
            cases.append((t, str(v), "plainpattern"))  # an unsuffixed pattern takes the scrutinee's type
        for v in (h // 2, h // 2 + 1, 2 ** 31 - 1, 2 ** 31, 2 ** 32 - 1, 2 ** 32, 2 ** 63 - 1, 2 ** 63, 2 ** 63 + 1):
            cases.append((t, str(v), "plainpattern"))
            cases.append((t, str(v), "pattern"))
        cases.append((t, "000" + str(h), "suffixed"))
        cases.append((t, "0" * 30 + "7", "suffixed"))
        n = 40 if run.tier == "quick" else 400
        for _ in range(n):
            k = rng.random()
            if k < 0.5:
                v = rng.randint(0, 2 * h + 4)
            elif k < 0.8:
                v = h + rng.randint(-3, 3)
            else:
                v = rng.randint(0, 10 ** rng.randint(1, 24))
            cases.append((t, str(max(v, 0)), rng.choice(["suffixed", "pattern", "plainpattern"])))
    for v in (0, 5, 2147483647, 2147483648, 4294967295, 4294967296, 9999999999):
        cases.append(("int32", str(v), "plain"))
    return cases


def lit_program(t, digits, form):
    if form == "suffixed":
        return "fn main() {\n    let a = %s%s;\n    string_println(%s_to_string(a))\n}\n" % (digits, SUFFIX[t], t)
    if form == "plain":
        return "fn main() {\n    let a = %s;\n    string_println(int32_to_string(a))\n}\n" % digits
    lit = digits + (SUFFIX[t] if form == "pattern" else "")
    return (
        "fn f(s: %s) -> int32 {\n    match s { %s => 1, _ => 2 }\n}\nfn main() {\n    let a = 0%s;\n    string_println(int32_to_string(f(a)))\n}\n"
        % (t, lit, SUFFIX[t])
    )


def read_literal(t, form, r):
    """-> ('ok', go literal text) | ('rejected',) | ('other', info)"""
    if r.get("ok"):
        go = r["go"]
        if form in ("suffixed", "plain"):
            m = re.search(r"var a__\d+ (\w+) = (-?\d+)\n", go)
            if not m:
                return ("other", "no `var a__N T = lit` in Go")
            if m.group(1) != t:
                return ("other", "Go type %s for goml %s" % (m.group(1), t))
            return ("ok", m.group(2))
        m = re.search(r"case (-?\d+):", go)
        if not m:
            return ("other", "no `case lit:` in Go")
        return ("ok", m.group(1))
    ds = r.get("diagnostics") or []
    if r.get("error_kind") == "typer" and any("does not fit in" in d["message"] for d in ds):
        return ("rejected",)
    return ("other", json.dumps({k: v for k, v in r.items() if k != "go"})[:400])


OPS = [("+", "Add"), ("-", "Sub"), ("*", "Mul"), ("/", "Div")]
CMPS = ["<", ">", "<=", ">=", "==", "!="]


def op_program(t, op, is_cmp):
    rt = "bool" if is_cmp else t
    show = "bool_to_string" if is_cmp else t + "_to_string"
    return "fn f(a: %s, b: %s) -> %s {\n    a %s b\n}\nfn main() {\n    string_println(%s(f(3%s, 2%s)))\n}\n" % (t, t, rt, op, show, SUFFIX[t], SUFFIX[t])


def neg_program(t):
    return "fn f(a: %s) -> %s {\n    -a\n}\nfn main() {\n    string_println(%s_to_string(f(3%s)))\n}\n" % (t, t, t, SUFFIX[t])


def compile_many(run, progs, tag):
    root = os.path.join(vlib.BUILD, "tmp", tag)
    shutil.rmtree(root, ignore_errors=True)
    inputs = []
    for i, src in enumerate(progs):
        d = os.path.join(root, "p%05d" % i)
        os.makedirs(d)
        with open(os.path.join(d, "main.gom"), "w") as f:
            f.write(src)
        inputs.append({"path": os.path.join(d, "main.gom")})
    res = vlib.run_harness("compile", inputs, shards=vlib.NCPU)
    shutil.rmtree(root, ignore_errors=True)
    return res


def check(run):
    broken = []
    try:
        vlib.proof_stage(run, "C10", ["C10/Properties.v"])
    except Broken as b:
        broken.append(b)
    wits = []
    mism = []
    # ---- literals -------------------------------------------------
    cases = literal_cases(run)
    progs = [lit_program(*c) for c in cases]
    res = compile_many(run, progs, "c10lit")
    rows = []
    idx = []
    for i, ((t, digits, form), r) in enumerate(zip(cases, res)):
        got = read_literal(t, form, r)
        v = int(digits)
        fits = 0 <= v <= hi(t)
        # the property itself, evaluated on the implementation
        if got[0] == "ok" and (not fits or int(got[1]) != v):
            wits.append({"kind": "literal does not denote the written value" if fits else "out-of-range literal accepted", "type": t, "literal": digits, "form": form, "go_literal": got[1], "program": progs[i]})
        elif got[0] == "rejected" and fits:
            wits.append({"kind": "in-range literal rejected", "type": t, "literal": digits, "form": form, "program": progs[i]})
        elif got[0] == "other":
            if r.get("panic"):
                wits.append({"kind": "compiler panicked on a literal", "type": t, "literal": digits, "form": form, "panic": r["panic"], "program": progs[i]})
            else:
                mism.append({"case": [t, digits, form], "impl": got[1]})
            continue
        real = "None" if got[0] == "rejected" else "(Some %s)" % vlib.coq_Nlist(list(got[1].encode()))
        rows.append("(%s, %s, %s)" % (ITY[t], vlib.coq_Nlist(list(digits.encode())), real))
        idx.append(i)
    try:
        per = 400
        chunks = [list(range(k, min(k + per, len(rows)))) for k in range(0, len(rows), per)]
        texts = [
            "From Goml Require Import Common.Base C10.Model.\nOpen Scope Z_scope.\n"
            "Definition opt_eqb (a b : option str) := match a, b with None, None => true | Some x, Some y => list_eqb x y | _, _ => false end.\n"
            "Definition cases : list (ity * str * option str) := [\n%s\n]%%N.\n"
            "Eval vm_compute in (mismatches opt_eqb (fun '(t, s) => option_map (fun _ => go_lit (builder_value t s)) (parse_lit t s)) cases)." % ";\n".join(rows[k] for k in ch)
            for ch in chunks
        ]
        for ch, out in zip(chunks, vlib.coq_eval_many("c10", texts)):
            for j in vlib.parse_nat_list(out):
                c = cases[idx[ch[j]]]
                mism.append({"case": list(c), "impl": read_literal(c[0], c[2], res[idx[ch[j]]])})
    except Broken as b:
        broken.append(b)
    # ---- operators and type names ----------------------------------
    oprogs, ometa = [], []
    for t in TYPES:
        for sym, _ in OPS:
            oprogs.append(op_program(t, sym, False))
            ometa.append((t, sym, "arith"))
        for sym in CMPS:
            oprogs.append(op_program(t, sym, True))
            ometa.append((t, sym, "cmp"))
        if t.startswith("int"):
            oprogs.append(neg_program(t))
            ometa.append((t, "-", "neg"))
    ores = compile_many(run, oprogs, "c10op")
    names_seen = {}
    for (t, sym, kind), r, src in zip(ometa, ores, oprogs):
        if not r.get("ok"):
            wits.append({"kind": "well-typed arithmetic program rejected or crashed", "type": t, "op": sym, "program": src, "impl": {k: v for k, v in r.items() if k != "go"}})
            continue
        go = r["go"]
        if kind == "neg":
            m = re.search(r"func f\(a__\d+ (\w+)\) (\w+) \{\n\s+var ret\d+ \w+\n\s+ret\d+ = -a__\d+\n", go)
            ok = bool(m) and m.group(1) == t and m.group(2) == t
        else:
            m = re.search(r"func f\(a__\d+ (\w+), b__\d+ (\w+)\) (\w+) \{\n\s+var ret\d+ \w+\n\s+ret\d+ = a__\d+ (\S+) b__\d+\n", go)
            ok = bool(m) and m.group(1) == t and m.group(2) == t and m.group(4) == sym and m.group(3) == (t if kind == "arith" else "bool")
        if m:
            names_seen[t] = m.group(1)
        if not ok:
            wits.append({"kind": "operator or operand type not preserved in the emitted Go", "type": t, "op": sym, "program": src, "go_function": go[go.find("func f(") : go.find("func f(") + 300]})
    # Go type names vs the model's table (in Coq)
    try:
        rows2 = ["(%s, %s)" % (ITY[t], vlib.coq_Nlist(list(names_seen.get(t, "?").encode()))) for t in TYPES]
        out = vlib.coq_eval("c10names", "From Goml Require Import Common.Base C10.Model.\nDefinition cases : list (ity * str) := [%s]%%N.\nEval vm_compute in (mismatches list_eqb go_ty_name cases).\n" % "; ".join(rows2))
        for j in vlib.parse_nat_list(out):
            mism.append({"case": ["go type name", TYPES[j]], "impl": names_seen.get(TYPES[j])})
    except Broken as b:
        broken.append(b)
    # ---- floats: operand types and operators are kept, a literal denotes the nearest value of its type ---------------
    import struct as _struct

    FT = {"float32": "f32", "float64": "f64"}
    fprogs, fmeta = [], []
    for t in FT:
        for sym, _ in OPS:
            fprogs.append("fn f(a: %s, b: %s) -> %s {\n    a %s b\n}\nfn main() {\n    let _ = f(3.5%s, 2.25%s);\n    ()\n}\n" % (t, t, t, sym, FT[t], FT[t]))
            fmeta.append((t, sym, "arith"))
        for sym in CMPS:
            fprogs.append("fn f(a: %s, b: %s) -> bool {\n    a %s b\n}\nfn main() {\n    let _ = f(3.5%s, 2.25%s);\n    ()\n}\n" % (t, t, sym, FT[t], FT[t]))
            fmeta.append((t, sym, "cmp"))
        fprogs.append("fn f(a: %s) -> %s {\n    -a\n}\nfn main() {\n    let _ = f(3.5%s);\n    ()\n}\n" % (t, t, FT[t]))
        fmeta.append((t, "-", "neg"))
    frng = run.sub_rng("c10-float")
    flits = ["0.0", "1.0", "3.0", "1.5", "0.1", "0.2", "0.30000000000000004", "2.718281828459045", "16777217.0", "16777216.0", "0.000001", "123456789.125", "100000000000000000000.0", "340282346638528859811704183484516925440.0", "0.5", "255.75"]
    flits += ["%d.%s" % (frng.randint(0, 10 ** frng.randint(1, 9)), str(frng.randint(0, 10 ** frng.randint(1, 12))).rjust(frng.randint(1, 4), "0")) for _ in range(30 if run.tier == "quick" else 400)]
    for t in FT:
        for lit in flits:
            for form in (("suffixed", "annotated") if t == "float64" else ("suffixed",)):  # an unsuffixed float literal is a float64
                decl = "let a = %s%s;" % (lit, FT[t]) if form == "suffixed" else "let a: %s = %s;" % (t, lit)
                fprogs.append("fn main() {\n    %s\n    string_println(%s_to_string(a))\n}\n" % (decl, t))
                fmeta.append((t, lit, "lit-" + form))
    # an operation on two float literals must happen at run time at the operand type: Go would fold it exactly
    fpairs = [("0.1", "+", "0.2"), ("1.1", "*", "1.1"), ("0.3", "-", "0.1"), ("0.1", "*", "3.0"), ("0.7", "+", "0.1"), ("1.5", "+", "2.25"), ("2.5", "*", "4.0"), ("1.0", "/", "3.0"), ("0.1", "/", "0.3")]
    fpairs += [("%d.%d" % (frng.randint(0, 99), frng.randint(1, 999)), frng.choice("+-*/"), "%d.%d" % (frng.randint(0, 99), frng.randint(1, 999))) for _ in range(20 if run.tier == "quick" else 300)]
    for t in FT:
        for a_, op_, b_ in fpairs:
            fprogs.append("fn main() {\n    let a = %s%s %s %s%s;\n    string_println(%s_to_string(a))\n}\n" % (a_, FT[t], op_, b_, FT[t], t))
            fmeta.append((t, (a_, op_, b_), "litlit"))
    fres = compile_many(run, fprogs, "c10float")
    fstats = {"float_programs": len(fprogs), "float_ok": 0}
    for (t, what, kind), r, src_ in zip(fmeta, fres, fprogs):
        if not r.get("ok"):
            wits.append({"kind": "well-typed float program rejected or crashed", "type": t, "what": what, "program": src_, "impl": {k_: v for k_, v in r.items() if k_ != "go"}})
            continue
        go = r["go"]
        if kind == "neg":
            m = re.search(r"func f\(a__\d+ (\w+)\) (\w+) \{\n\s+var ret\d+ \w+\n\s+ret\d+ = -a__\d+\n", go)
            ok = bool(m) and m.group(1) == t and m.group(2) == t
        elif kind in ("arith", "cmp"):
            m = re.search(r"func f\(a__\d+ (\w+), b__\d+ (\w+)\) (\w+) \{\n\s+var ret\d+ \w+\n\s+ret\d+ = a__\d+ (\S+) b__\d+\n", go)
            ok = bool(m) and m.group(1) == t and m.group(2) == t and m.group(4) == what and m.group(3) == (t if kind == "arith" else "bool")
        elif kind == "litlit":
            from fractions import Fraction

            f32 = lambda x: _struct.unpack("f", _struct.pack("f", x))[0]
            rnd = f32 if t == "float32" else float
            m = re.search(r"var a__\d+ (\w+) = (-?[0-9.e+]+) ([-+*/]) (-?[0-9.e+]+)\n", go)
            if not m:
                ok = bool(re.search(r"var a__\d+ %s = \w+ [-+*/] \S+\n|var a__\d+ %s = \S+ [-+*/] \w+\n" % (t, t), go))  # one operand is a variable: a run-time operation
            else:
                # Go folds the constant expression exactly and rounds once; the program means: round each literal, operate, round
                x, y = Fraction(m.group(2)), Fraction(m.group(4))
                try:
                    exact = {"+": x + y, "-": x - y, "*": x * y, "/": x / y}[m.group(3)]
                    lx, ly = rnd(float(Fraction(what[0]))), rnd(float(Fraction(what[2])))
                    run_time = rnd({"+": lx + ly, "-": lx - ly, "*": lx * ly, "/": lx / ly}[what[1]])
                    # integer-looking literals divide as integers in Go
                    if m.group(3) == "/" and "." not in m.group(2) and "." not in m.group(4) and "e" not in m.group(2) + m.group(4):
                        exact = Fraction(int(x) // int(y)) if (x >= 0) == (y >= 0) else -Fraction(abs(int(x)) // abs(int(y)))
                    ok = m.group(1) == t and rnd(float(exact)) == run_time
                except ZeroDivisionError:
                    ok = False
        else:
            m = re.search(r"var a__\d+ (\w+) = (\S+)\n", go)
            ok = False
            if m and m.group(1) == t:
                try:
                    got, want = float(m.group(2)), float(what)
                    if t == "float32":
                        f32 = lambda x: _struct.unpack("f", _struct.pack("f", x))[0]
                        ok = f32(got) == f32(want)
                    else:
                        ok = got == want
                except (ValueError, OverflowError):
                    ok = False
        if ok:
            fstats["float_ok"] += 1
        else:
            wits.append({"kind": "float %s: the emitted Go does not keep the operand type/operator or the value of the literal" % kind, "type": t, "what": what, "program": src_, "go_excerpt": go[go.find("func f(") if "func f(" in go else go.find("func main0") :][:300]})
    # ---- *_to_string verbs -------------------------------------------
    src = "fn main() {\n" + "".join("    let _ = string_println(%s_to_string(1%s));\n" % (t, SUFFIX[t]) for t in TYPES) + "    let _ = string_println(float32_to_string(1.5f32));\n    string_println(float64_to_string(2.5f64))\n}\n"
    (vr,) = compile_many(run, [src], "c10verb")
    verbs = {}
    if vr.get("ok"):
        for m in re.finditer(r"func (\w+)_to_string\(x (\w+)\) string \{\n\s+return fmt\.Sprintf\(\"(%\w)\", x\)", vr["go"]):
            verbs[m.group(1)] = (m.group(2), m.group(3))
    for t in TYPES:
        if verbs.get(t) != (t, "%d"):
            wits.append({"kind": "integer to_string is not decimal %d on the same-width Go type", "type": t, "impl": verbs.get(t), "program": src})
    for k in run.known:
        if k["replay"]["kind"] == "float-to-string-verb":
            if verbs.get("float32", (None, None))[1] == "%d" or verbs.get("float64", (None, None))[1] == "%d":
                run.known_finding(k["id"], "%s: float32_to_string/float64_to_string use fmt.Sprintf(\"%%d\", x), which Go renders as %%!d(float32=1.5)" % k["id"])
    for t in ("float32", "float64"):
        if t in verbs and verbs[t][1] not in ("%d", "%v", "%g", "%f"):
            wits.append({"kind": "float to_string uses an unexpected verb", "type": t, "impl": verbs[t]})
    # ---- arithmetic with a Python oracle: wrap-around, truncating division, failing division by zero (also when the
    # quotient is unused), signed/unsigned comparison, operands as parameters / two literals / variable and literal ----
    import numgen
    import semrun

    arng = run.sub_rng("c10-arith")
    acases = [numgen.program(arng, t) for t in TYPES for _ in range(8 if run.tier == "quick" else 150)]
    astats = {"programs": len(acases), "agree_with_oracle": 0, "programs_ending_in_division_by_zero": sum(1 for c in acases if c[2])}
    try:
        aroot, apaths = semrun.write_programs("c10arith", [c[0] for c in acases])
        ares = semrun.compare("c10arith", apaths, src_stage="tast", expected=[c[1] for c in acases])
        for (src, exp, fails), r in zip(acases, ares):
            if r["status"] == "agree" and r.get("matches_recorded_output"):
                astats["agree_with_oracle"] += 1
                continue
            kind = {
                "differ": "the emitted Go computes differently from the source program",
                "go-stuck": "Go would reject or mis-evaluate the emitted arithmetic (constant expression on two literals, zero constant divisor, ill-typed operand)",
                "agree": "source and Go agree with each other but not with wrap-around / truncating-division arithmetic",
                "panic": "the compiler panicked on an arithmetic program",
                "rejected": "a well-typed arithmetic program was rejected",
            }.get(r["status"], "arithmetic program: " + r["status"])
            w = {"kind": kind, "status": r["status"], "program": src, "expected_stdout": exp.decode(), "ends_in_division_by_zero": fails}
            try:
                w.update(semrun.details("c10arith_w", apaths[acases.index((src, exp, fails))], src_stage="tast"))
            except Exception as e:  # noqa
                w["details_error"] = repr(e)[:200]
            wits.append(w)
        shutil.rmtree(aroot, ignore_errors=True)
    except Broken as b:
        broken.append(b)
    n_lit = len(cases)
    run.add_cases(n_lit + len(oprogs) + 1, len({(c[0], c[1]) for c in cases}) , samples=[{"type": c[0], "literal": c[1], "form": c[2], "impl": read_literal(c[0], c[2], r)} for c, r in list(zip(cases, res))[127:131] + list(zip(cases, res))[-2:]])
    run.cov["rule"] = (
        "literals: every value 0..299 of int8/uint8 (suffixed), boundary values hi-1..hi+2, 2hi.., 2^64-1, 2^64, 10^25, leading zeros for all eight integer types, as expression literals and as match-pattern literals (suffixed and unsuffixed), "
        "plus random values; each one-literal program is compiled by the real compiler and the accepted/rejected verdict and the Go literal text are compared in coqc with parse_lit/go_lit; "
        "operators: all 8 types x (+ - * / < > <= >= == !=, unary -) — the emitted Go must apply the same operator to operands of the same-named Go type; to_string verbs read from the emitted runtime. non-trivial = distinct (type, literal)"
    )
    run.cov["rule"] += (
        "; arithmetic: programs over all eight integer types with boundary and random operand values, the four operators through parameters, on two literals, on a variable and a literal, inline, "
        "divisions whose quotient is never read, six comparisons and negation; the typed source tree (Sem/Src.v) and the emitted Go AST (Sem/GoSem.v, which treats an operation on two literals as Go does: exact, invalid on overflow or a zero constant divisor) "
        "must agree with each other and with a Python oracle (wrap modulo 2^N, truncation toward zero, failure at the first division by zero)"
    )
    run.cov["correspondence"] = {"floats": fstats, "arithmetic": astats, "literal_cases": n_lit, "operator_programs": len(oprogs), "model_mismatches": len(mism), "accepted": sum(1 for c, r in zip(cases, res) if r.get("ok")), "rejected": sum(1 for c, r in zip(cases, res) if not r.get("ok"))}
    run.cov["open_obligations"] = [
        "float literals and float32 rounding: only the type mapping float32->Go float32 is checked; decimal->binary conversion and Go's float formatting are not modelled",
        "Go's semantics of sized integer arithmetic (wrap) is a model of the Go specification, validated only against the recorded corpus outputs",
    ]
    run.assumptions = ["Go evaluates + - * on intN/uintN modulo 2^N, / truncating toward zero with a run-time panic on zero (Go spec)"]
    if wits:
        for w in wits[:3]:
            w["replay_cmd"] = "write `program` to DIR/main.gom; echo '{\"path\":\"DIR/main.gom\"}' | _build/cargo/debug/gomlv compile"
            run.violation(w)
    elif mism or broken:
        run.violation({"broken": [b.what for b in broken] + (["correspondence: parse_lit/go_lit model vs implementation"] if mism else []), "detail": [b.detail for b in broken], "examples": mism[:8], "theorems_no_longer_shown": ["literal_end_to_end", "literal_out_of_range_rejected"]}, no_input=True)


def replay(run, path):
    with open(path) as f:
        w = json.load(f)
    if "program" in w:
        (r,) = compile_many(run, [w["program"]], "c10replay")
        print(json.dumps({k: v for k, v in r.items() if k != "go"})[:1500])
        print(r.get("go", "")[-800:])
    return 0
