"""C09 — evaluation order and effects: left to right, exactly once, short-circuit."""
import json
import os

import glob
import re
import shutil

import anf2coq
import rustdbg
import semcheck
import semrun
import vlib
from vlib import Broken


def written_order_program(rng):
    """-> (source, expected stdout): every probe prints its tag when evaluated; tags are numbered in the order written"""
    n = [0]
    out = []

    def probe(ty="int32"):
        n[0] += 1
        t = "p%d" % n[0]
        out.append(t)
        return {"int32": 'pi("%s", %d)' % (t, n[0]), "bool": 'pb("%s", true)' % t, "string": 'ps("%s", "s")' % t}[ty]

    def expr(d):
        """an int32 expression"""
        k = rng.randrange(13) if d > 0 else 0
        if k == 0:
            return probe()
        if k == 11:
            # the callee is itself an expression with an effect: it is evaluated before the arguments
            n[0] += 1
            t = "sel%d" % n[0]
            out.append(t)
            a = expr(d - 1)
            return 'sel("%s")(%s)' % (t, a)
        if k == 12:
            n[0] += 1
            t = "idx%d" % n[0]
            out.append(t)
            a = expr(d - 1)
            return 'array_get([id1, id1], pi("%s", 1))(%s)' % (t, a)
        if k == 1:
            return "add3(%s, %s, %s)" % (expr(d - 1), expr(d - 1), expr(d - 1))
        if k == 2:
            return "(%s %s %s)" % (expr(d - 1), rng.choice(["+", "-", "*"]), expr(d - 1))
        if k == 3:
            a, b = expr(d - 1), expr(d - 1)
            return "(%s, %s).%d" % (a, b, rng.randrange(2))
        if k == 4:
            a, b, c = expr(d - 1), expr(d - 1), expr(d - 1)
            return "array_get([%s, %s, %s], %d)" % (a, b, c, rng.randrange(3))
        if k == 5:
            a = expr(d - 1)
            b = probe("bool")
            return "P { a: %s, b: %s }.a" % (a, b)   # declaration order
        if k == 6:
            a, b = probe("bool"), expr(d - 1)
            return "(match C(%s, %s) { A => 0, B(n) => n, C(_, n) => n })" % (a, b)
        if k == 7:
            a, b = expr(d - 1), expr(d - 1)
            return "P { a: %s, b: true }.sum2(%s)" % (a, b)   # receiver, then argument
        if k == 8:
            a, b = expr(d - 1), expr(d - 1)
            return "vec_get(vec_push(vec_push(vec_new(), %s), %s), 1)" % (a, b)
        if k == 9:
            a, b = probe("string"), probe("string")
            return "string_len(%s + %s)" % (a, b)
        a, b = expr(d - 1), expr(d - 1)
        return "Tick::addq(%s, %s)" % (a, b)

    stmts = ["    let _ = %s;" % expr(rng.choice([1, 2, 2, 3])) for _ in range(rng.randint(1, 3))]
    import genprog

    src = (genprog.PRELUDE + "fn add3(a: int32, b: int32, c: int32) -> int32 { a + b + c }\nfn id1(x: int32) -> int32 { x }\nfn sel(t: string) -> (int32) -> int32 { let _ = string_println(t); id1 }\nimpl P { fn sum2(self: P, n: int32) -> int32 { self.a + n } }\n"
           "trait Tick2 { fn addq(Self, int32) -> int32; }\nimpl Tick2 for int32 { fn addq(self: int32, n: int32) -> int32 { self + n } }\nfn main() {\n" + "\n".join(stmts).replace("Tick::addq", "Tick2::addq") + "\n    ()\n}\n")
    return src, ("".join(t + "\n" for t in out)).encode()


def anf_stage(run, srcs, wits, broken):
    """the model of anf.rs (C09/Anf.v, about which the order theorem is proved) against the A-normal form the compiler built,
    function by function; and the order of operations of the real A-normal form against the lifted source (C09/Order.v)"""
    st = {"programs": 0, "functions": 0, "model_equals_real_anf": 0, "real_anf_keeps_source_order": 0, "bodies_meeting_the_meaning_theorems_hypothesis": 0, "lets_bound_by_temporaries": 0}
    root, paths = semrun.write_programs("c09anf", srcs)
    corpus = sorted(glob.glob(os.path.join(vlib.REPO, "crates/compiler/src/tests/pipeline/*/main.gom")))
    paths = paths + corpus
    srcs = list(srcs) + [open(p, encoding="utf-8").read() for p in corpus]
    res = vlib.run_harness("compile", [{"path": p, "dumps": ["lift_dbg", "anf_dbg"], "timeout_ms": 20000} for p in paths], shards=vlib.NCPU)
    cases = []  # (program index, function name, term)
    for i, r in enumerate(res):
        if not r.get("ok"):
            continue
        st["programs"] += 1
        try:
            fs = anf2coq.functions(rustdbg.parse(r["dumps"]["lift_dbg"]), rustdbg.parse(r["dumps"]["anf_dbg"]))
        except (anf2coq.Conv, KeyError, IndexError) as e:
            broken.append(Broken("correspondence", "C09 anf model: the lifted tree / A-normal form has a shape the translator cannot read: %r" % (e,)))
            continue
        for nm, b, n0, a in fs:
            cases.append((i, nm, "(corr %s %d %s, covered %s)" % (b, n0, a, b)))
            st["lets_bound_by_temporaries"] += a.count("(ALet [116;")
    st["functions"] = len(cases)
    per = 60
    texts = ["From Goml Require Import Common.Base C09.Anf C09.Order C09.Eqb.\nOpen Scope N_scope.\nEval vm_compute in [%s].\n" % "; ".join(c for _, _, c in cases[k : k + per]) for k in range(0, len(cases), per)]
    flat = []
    for o in vlib.coq_eval_many("c09anf", texts, timeout=1500):
        m = re.search(r"=\s*\[(.*)\]\s*:\s*list \(bool \* bool \* bool\)", o, re.S)
        if not m:
            raise Broken("coq-output", o[-500:])
        flat += [(a == "true", b == "true", c == "true") for a, b, c in re.findall(r"\(\s*(true|false)\s*,\s*(true|false)\s*,\s*(true|false)\s*\)", m.group(1))]
    if len(flat) != len(cases):
        raise Broken("coq-output", "C09 anf: %d results for %d cases" % (len(flat), len(cases)))
    drift = None
    uncovered = None
    for (i, nm, _), (same, order, cov) in zip(cases, flat):
        st["model_equals_real_anf"] += same
        st["real_anf_keeps_source_order"] += order
        st["bodies_meeting_the_meaning_theorems_hypothesis"] += cov
        if not cov and uncovered is None:
            uncovered = (nm, srcs[i])
        if not order:
            wits.append({"kind": "the A-normal form of function %s does not perform the operations of the lifted source exactly once, in left-to-right order, inside the same branches" % nm, "program": srcs[i], "function": nm})
        elif not same and drift is None:
            drift = (nm, srcs[i])
    if drift and not any("A-normal form" in w["kind"] for w in wits):
        broken.append(Broken("correspondence", "C09/Anf.v no longer computes the A-normal form the compiler builds (function %s of: %s); theorem anf_keeps_every_operation_once_in_order is about the model" % (drift[0], drift[1][-600:])))
    if uncovered and not wits:
        broken.append(Broken("correspondence", "anf_preserves_meaning does not cover function %s (a name of the shape of a temporary, or an operand variable re-bound by a later operand) of: %s" % (uncovered[0], uncovered[1][-600:])))
    shutil.rmtree(root, ignore_errors=True)
    return st


def dce_stage(run, srcs, wits, broken):
    """has_effects / stmt_has_effects (C09/Dce.v, about which effect_free_*_is_unobservable are proved) against the real
    expr_has_side_effects / stmt_has_side_effects, on every expression and statement of every emitted function"""
    import go2coq

    st = {"programs": 0, "classified_nodes": 0, "effect_free_nodes": 0, "agreeing_programs": 0}
    root, paths = semrun.write_programs("c09dce", srcs)
    corpus = sorted(glob.glob(os.path.join(vlib.REPO, "crates/compiler/src/tests/pipeline/*/main.gom")))
    paths = paths + corpus
    srcs = list(srcs) + [open(p, encoding="utf-8").read() for p in corpus]
    res = vlib.run_harness("compile", [{"path": p, "dumps": ["go_dbg", "effects"], "timeout_ms": 20000} for p in paths], shards=vlib.NCPU)
    defs, ix = [], []
    for i, r in enumerate(res):
        if not r.get("ok"):
            continue
        bits = r["dumps"].get("effects", "")
        try:
            f = go2coq.file(rustdbg.parse(r["dumps"]["go_dbg"]))
        except (go2coq.Conv, KeyError, AssertionError) as e:
            broken.append(Broken("correspondence", "C09 dce model: the Go AST has a shape the translator cannot read: %r" % (e,)))
            continue
        st["programs"] += 1
        st["classified_nodes"] += len(bits)
        st["effect_free_nodes"] += bits.count("0")
        defs.append("(first_diff (trace_file %s) [%s] 0)" % (f, "; ".join("true" if c == "1" else "false" for c in bits)))
        ix.append(i)
    per = 8
    hdr = "From Goml Require Import Common.Base Sem.GoAst C09.Dce.\nOpen Scope N_scope.\n"
    texts = [hdr + "Eval vm_compute in (map (fun o : option N => match o with Some i => i + 1 | None => 0 end) [%s]).\n" % ";\n".join(defs[k : k + per]) for k in range(0, len(defs), per)]
    flat = []
    for o in vlib.coq_eval_many("c09dce", texts, timeout=1500):
        flat += vlib.parse_nat_list(o)
    if len(flat) != len(ix):
        raise Broken("coq-output", "C09 dce: %d results for %d programs" % (len(flat), len(ix)))
    bad = [(i, d) for i, d in zip(ix, flat) if d]
    st["agreeing_programs"] = len(ix) - len(bad)
    if bad:
        i, d = bad[0]
        broken.append(Broken("correspondence", "C09/Dce.v no longer classifies effects as go/dce.rs does (node %d in pre-order of the emitted functions of: %s); theorems effect_free_expression_is_unobservable / effect_free_statement_is_unobservable are about the model" % (d - 1, srcs[i][-600:])))
    if st["programs"] and st["effect_free_nodes"] * 10 < st["classified_nodes"]:
        broken.append(Broken("generator", "C09 dce: fewer than a tenth of the classified nodes are effect-free"))
    shutil.rmtree(root, ignore_errors=True)
    return st


def check(run):
    run.level = "translation_validation"
    broken = []
    try:
        vlib.proof_stage(run, "C09", ["C01/Properties.v", "C09/Properties.v", "C09/Eqb.v", "C09/EqbSound.v", "C09/Dce.v", "C09/DceProofs.v"], pins="C09")
    except Broken as b:
        broken.append(b)
    wits, stats, cstats, srcs = [], {}, None, []
    try:
        import genprog
        wits, stats, cstats, srcs = semcheck.run_semantic_check(run, "C09", 160, 4000, with_corpus=False, fail_rate=0.08, depth_choices=(2, 3, 3), extra_sources=__import__("matrixgen").sources(run, "c09", subset="effect") + genprog.effect_position_programs() + (lambda r_: [genprog.discard_program(r_) for _ in range(50 if run.tier == "quick" else 1000)])(run.sub_rng("C09-discard")))
    except Broken as b:
        broken.append(b)
    astats = {}
    try:
        astats = anf_stage(run, srcs, wits, broken)
    except Broken as b:
        broken.append(b)
    dstats = {}
    try:
        dstats = dce_stage(run, srcs, wits, broken)
    except Broken as b:
        broken.append(b)
    # ---- the order as WRITTEN: an oracle computed from the source text (the typed tree is already elaborated) ----------
    wstats = {}
    try:
        wrng = run.sub_rng("C09-written")
        wcases = [written_order_program(wrng) for _ in range(40 if run.tier == "quick" else 600)]
        wroot, wpaths = semrun.write_programs("c09w", [c[0] for c in wcases])
        wres = semrun.compare("c09w", wpaths, src_stage="tast", expected=[c[1] for c in wcases])
        wstats = {"programs": len(wcases), "printed_in_written_order": 0}
        for (src, exp), r in zip(wcases, wres):
            if r["status"] == "agree" and r.get("matches_recorded_output"):
                wstats["printed_in_written_order"] += 1
            elif r["status"] in ("agree", "differ", "go-stuck", "panic"):
                wits.append({"kind": "operands are not evaluated in the order written (expected output computed from the source text)" if r["status"] == "agree" else "written-order program: " + r["status"], "program": src, "expected_stdout": exp.decode()})
        shutil.rmtree(wroot, ignore_errors=True)
    except Broken as b:
        broken.append(b)
    for k in run.known:
        p = os.path.join(vlib.VERIF, k["replay"]["program"])
        if k["replay"]["kind"] == "written-order":
            r = semrun.compare("c09kf", [p], src_stage="tast", expected=[k["replay"]["expected"].encode()])[0]
            if r["status"] == "agree" and not r.get("matches_recorded_output"):
                run.known_finding(k["id"], "%s: %s (%s)" % (k["id"], k["what"], k["replay"]["program"]))
            continue
        r = semrun.compare("c09kf", [p], src_stage="tast")[0]
        if r["status"] == "differ":
            run.known_finding(k["id"], "%s: %s (%s)" % (k["id"], k["what"], k["replay"]["program"]))
    n = stats.get("generated", 0)
    run.add_cases(n, stats.get("agree", 0), samples=[s[s.index("fn main") :][:700] for s in srcs[:3]])
    run.cov["programs"] = n
    run.cov["disagreements_checked"] = n
    run.cov["rule"] = (
        "generated programs with a printing probe (pi/pb/ps) wrapped around operands, call arguments, conditions, branch results, match scrutinees and loop conditions, Ref updates, trait-object calls in statement position, "
        "and a systematic matrix of 9 kinds of unit-typed effect expressions x 10 statement positions (last/middle of a while body, if/else/match branches, last in a function or closure body, let _ =); failing operations (division by zero, out-of-range vec_get) at an 8% rate; the order and multiplicity of output lines and the point of failure of the real Go AST (after ANF, Go generation and DCE) must equal those of the typed source program "
        "under the Coq semantics. The right operand of && / || is kept effect-free (known finding). distinct_nontrivial = agreeing completed runs"
    )
    run.cov["correspondence"] = {"generated": stats, "anf_model": astats, "written_order": wstats, "dce_classification": dstats}
    run.cov["rule"] += (
        ". Written order: programs whose operands (call and method arguments, receivers, binary operands, tuple/array/constructor/struct-literal components, nested) are printing probes; the expected output is computed from the "
        "source TEXT (left to right as written) and the emitted Go must print exactly that (struct literals are written in declaration order: out-of-order fields are a known finding)"
    )
    run.cov["rule"] += (
        ". ANF stage: for every function of every generated and corpus program the Coq model of anf.rs (C09/Anf.v) is run on the real lifted body with the real start value of the temporary counter "
        "and must equal, node for node and name for name, the A-normal form the compiler built; independently the operation trace (C09/Order.v) of the real A-normal form must equal that of the lifted source"
    )
    run.cov["rule"] += (
        ". DCE stage: the Coq functions has_effects / stmt_has_effects (C09/Dce.v), about which it is proved that what they call effect-free prints nothing, changes no existing heap cell and cannot fail on an index or a division, "
        "are compared with the real expr_has_side_effects / stmt_has_side_effects (reached through the goml_verif hook of go/dce.rs) on every expression and statement of every emitted function"
    )
    run.cov["open_obligations"] = ["the theorem covers order, multiplicity and branch placement of operations under A-normalisation; value flow through the temporaries and the later stages (Go generation, DCE) are covered by translation validation only", "interleavings of `go` are outside the model (one schedule: the spawned call runs at the spawn point)"]
    run.assumptions = ["Sem/Src.v: left-to-right, exactly-once, short-circuit source semantics; Sem/GoSem.v: Go statement semantics"]
    if wits:
        for w in wits[:3]:
            run.violation(w)
    elif broken:
        run.violation({"broken": [b.what for b in broken], "detail": [b.detail for b in broken]}, no_input=True)


def replay(run, path):
    with open(path) as f:
        w = json.load(f)
    if "program" in w:
        root, paths = semrun.write_programs("c09replay", [w["program"]])
        print(json.dumps(semrun.details("c09replay", paths[0], src_stage="tast"), indent=1)[:4000])
    return 0
