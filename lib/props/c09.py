"""C09 — evaluation order and effects: left to right, exactly once, short-circuit."""
import json
import os

import semcheck
import semrun
import vlib
from vlib import Broken


def check(run):
    run.level = "translation_validation"
    broken = []
    try:
        vlib.proof_stage(run, "C09", ["C01/Properties.v"], pins="C01")
    except Broken as b:
        broken.append(b)
    wits, stats, cstats, srcs = [], {}, None, []
    try:
        import genprog
        wits, stats, cstats, srcs = semcheck.run_semantic_check(run, "C09", 160, 4000, with_corpus=False, fail_rate=0.08, depth_choices=(2, 3, 3), extra_sources=genprog.effect_position_programs() + (lambda r_: [genprog.discard_program(r_) for _ in range(50 if run.tier == "quick" else 1000)])(run.sub_rng("C09-discard")))
    except Broken as b:
        broken.append(b)
    for k in run.known:
        p = os.path.join(vlib.VERIF, k["replay"]["program"])
        r = semrun.compare("c09kf", [p], src_stage="tast")[0]
        if r["status"] == "differ":
            run.known_finding(k["id"], "%s: %s (%s)" % (k["id"], k["what"], k["replay"]["program"]))
    n = stats.get("generated", 0)
    run.add_cases(n, stats.get("agree", 0), samples=[s[s.index("fn main") :][:700] for s in srcs[:3]])
    run.cov["programs"] = n
    run.cov["disagreements_checked"] = n
    run.cov["rule"] = (
        "generated programs with a printing probe (pi/pb/ps) wrapped around operands, call arguments, conditions, branch results, match scrutinees and loop conditions, Ref updates, trait-object calls in statement position, "
        "and a systematic matrix of 9 kinds of unit-typed effect expressions x 10 statement positions (last/middle of a while body, if/else/match branches, last in a function or closure body, let _ =); failing operations (division by zero, out-of-range vec_get) at an 8% rate; the order and multiplicity of output lines and the point of failure of the real Go AST (after ANF, Go generation and DCE) must equal those of the typed source program "
        "under the Coq semantics. The right operand of && / || is kept effect-free (known finding). distinct_nontrivial = agreeing completed runs"
    )
    run.cov["correspondence"] = {"generated": stats}
    run.cov["open_obligations"] = ["anf_correct and dce_correct (general theorems about the ANF transformation and the liveness-based DCE) are not proved", "interleavings of `go` are outside the model (one schedule: the spawned call runs at the spawn point)"]
    run.assumptions = ["Sem/Src.v: left-to-right, exactly-once, short-circuit source semantics; Sem/GoSem.v: Go statement semantics"]
    if wits:
        for w in wits[:3]:
            run.violation(w)
    elif broken:
        run.violation({"broken": [b.what for b in broken], "detail": [b.detail for b in broken]}, no_input=True)


def replay(run, path):
    with open(path) as f:
        w = json.load(f)
    if "program" in w:
        root, paths = semrun.write_programs("c09replay", [w["program"]])
        print(json.dumps(semrun.details("c09replay", paths[0], src_stage="tast"), indent=1)[:4000])
    return 0
