"""C09 — evaluation order and effects: left to right, exactly once, short-circuit."""
import json
import os

import glob
import re
import shutil

import anf2coq
import rustdbg
import semcheck
import semrun
import vlib
from vlib import Broken


def anf_stage(run, srcs, wits, broken):
    """the model of anf.rs (C09/Anf.v, about which the order theorem is proved) against the A-normal form the compiler built,
    function by function; and the order of operations of the real A-normal form against the lifted source (C09/Order.v)"""
    st = {"programs": 0, "functions": 0, "model_equals_real_anf": 0, "real_anf_keeps_source_order": 0, "bodies_meeting_the_meaning_theorems_hypothesis": 0, "lets_bound_by_temporaries": 0}
    root, paths = semrun.write_programs("c09anf", srcs)
    corpus = sorted(glob.glob(os.path.join(vlib.REPO, "crates/compiler/src/tests/pipeline/*/main.gom")))
    paths = paths + corpus
    srcs = list(srcs) + [open(p, encoding="utf-8").read() for p in corpus]
    res = vlib.run_harness("compile", [{"path": p, "dumps": ["lift_dbg", "anf_dbg"], "timeout_ms": 20000} for p in paths], shards=vlib.NCPU)
    cases = []  # (program index, function name, term)
    for i, r in enumerate(res):
        if not r.get("ok"):
            continue
        st["programs"] += 1
        try:
            fs = anf2coq.functions(rustdbg.parse(r["dumps"]["lift_dbg"]), rustdbg.parse(r["dumps"]["anf_dbg"]))
        except (anf2coq.Conv, KeyError, IndexError) as e:
            broken.append(Broken("correspondence", "C09 anf model: the lifted tree / A-normal form has a shape the translator cannot read: %r" % (e,)))
            continue
        for nm, b, n0, a in fs:
            cases.append((i, nm, "(corr %s %d %s, covered %s)" % (b, n0, a, b)))
            st["lets_bound_by_temporaries"] += a.count("(ALet [116;")
    st["functions"] = len(cases)
    per = 60
    texts = ["From Goml Require Import Common.Base C09.Anf C09.Order C09.Eqb.\nOpen Scope N_scope.\nEval vm_compute in [%s].\n" % "; ".join(c for _, _, c in cases[k : k + per]) for k in range(0, len(cases), per)]
    flat = []
    for o in vlib.coq_eval_many("c09anf", texts, timeout=1500):
        m = re.search(r"=\s*\[(.*)\]\s*:\s*list \(bool \* bool \* bool\)", o, re.S)
        if not m:
            raise Broken("coq-output", o[-500:])
        flat += [(a == "true", b == "true", c == "true") for a, b, c in re.findall(r"\(\s*(true|false)\s*,\s*(true|false)\s*,\s*(true|false)\s*\)", m.group(1))]
    if len(flat) != len(cases):
        raise Broken("coq-output", "C09 anf: %d results for %d cases" % (len(flat), len(cases)))
    drift = None
    uncovered = None
    for (i, nm, _), (same, order, cov) in zip(cases, flat):
        st["model_equals_real_anf"] += same
        st["real_anf_keeps_source_order"] += order
        st["bodies_meeting_the_meaning_theorems_hypothesis"] += cov
        if not cov and uncovered is None:
            uncovered = (nm, srcs[i])
        if not order:
            wits.append({"kind": "the A-normal form of function %s does not perform the operations of the lifted source exactly once, in left-to-right order, inside the same branches" % nm, "program": srcs[i], "function": nm})
        elif not same and drift is None:
            drift = (nm, srcs[i])
    if drift and not any("A-normal form" in w["kind"] for w in wits):
        broken.append(Broken("correspondence", "C09/Anf.v no longer computes the A-normal form the compiler builds (function %s of: %s); theorem anf_keeps_every_operation_once_in_order is about the model" % (drift[0], drift[1][-600:])))
    if uncovered and not wits:
        broken.append(Broken("correspondence", "anf_preserves_meaning does not cover function %s (a name of the shape of a temporary, or an operand variable re-bound by a later operand) of: %s" % (uncovered[0], uncovered[1][-600:])))
    shutil.rmtree(root, ignore_errors=True)
    return st


def check(run):
    run.level = "translation_validation"
    broken = []
    try:
        vlib.proof_stage(run, "C09", ["C01/Properties.v", "C09/Properties.v", "C09/Eqb.v"], pins="C09")
    except Broken as b:
        broken.append(b)
    wits, stats, cstats, srcs = [], {}, None, []
    try:
        import genprog
        wits, stats, cstats, srcs = semcheck.run_semantic_check(run, "C09", 160, 4000, with_corpus=False, fail_rate=0.08, depth_choices=(2, 3, 3), extra_sources=__import__("matrixgen").sources(run, "c09", subset="effect") + genprog.effect_position_programs() + (lambda r_: [genprog.discard_program(r_) for _ in range(50 if run.tier == "quick" else 1000)])(run.sub_rng("C09-discard")))
    except Broken as b:
        broken.append(b)
    astats = {}
    try:
        astats = anf_stage(run, srcs, wits, broken)
    except Broken as b:
        broken.append(b)
    for k in run.known:
        p = os.path.join(vlib.VERIF, k["replay"]["program"])
        r = semrun.compare("c09kf", [p], src_stage="tast")[0]
        if r["status"] == "differ":
            run.known_finding(k["id"], "%s: %s (%s)" % (k["id"], k["what"], k["replay"]["program"]))
    n = stats.get("generated", 0)
    run.add_cases(n, stats.get("agree", 0), samples=[s[s.index("fn main") :][:700] for s in srcs[:3]])
    run.cov["programs"] = n
    run.cov["disagreements_checked"] = n
    run.cov["rule"] = (
        "generated programs with a printing probe (pi/pb/ps) wrapped around operands, call arguments, conditions, branch results, match scrutinees and loop conditions, Ref updates, trait-object calls in statement position, "
        "and a systematic matrix of 9 kinds of unit-typed effect expressions x 10 statement positions (last/middle of a while body, if/else/match branches, last in a function or closure body, let _ =); failing operations (division by zero, out-of-range vec_get) at an 8% rate; the order and multiplicity of output lines and the point of failure of the real Go AST (after ANF, Go generation and DCE) must equal those of the typed source program "
        "under the Coq semantics. The right operand of && / || is kept effect-free (known finding). distinct_nontrivial = agreeing completed runs"
    )
    run.cov["correspondence"] = {"generated": stats, "anf_model": astats}
    run.cov["rule"] += (
        ". ANF stage: for every function of every generated and corpus program the Coq model of anf.rs (C09/Anf.v) is run on the real lifted body with the real start value of the temporary counter "
        "and must equal, node for node and name for name, the A-normal form the compiler built; independently the operation trace (C09/Order.v) of the real A-normal form must equal that of the lifted source"
    )
    run.cov["open_obligations"] = ["the theorem covers order, multiplicity and branch placement of operations under A-normalisation; value flow through the temporaries and the later stages (Go generation, DCE) are covered by translation validation only", "interleavings of `go` are outside the model (one schedule: the spawned call runs at the spawn point)"]
    run.assumptions = ["Sem/Src.v: left-to-right, exactly-once, short-circuit source semantics; Sem/GoSem.v: Go statement semantics"]
    if wits:
        for w in wits[:3]:
            run.violation(w)
    elif broken:
        run.violation({"broken": [b.what for b in broken], "detail": [b.detail for b in broken]}, no_input=True)


def replay(run, path):
    with open(path) as f:
        w = json.load(f)
    if "program" in w:
        root, paths = semrun.write_programs("c09replay", [w["program"]])
        print(json.dumps(semrun.details("c09replay", paths[0], src_stage="tast"), indent=1)[:4000])
    return 0
