"""C11 — source text is read as written: precedence, associativity, literal fidelity."""
import itertools
import json
import re
import os
import shutil

import rustdbg
import semrun
import vlib
from vlib import Broken

# documented binding powers
BIN = {"||": (1, 2, "Or"), "&&": (3, 4, "And"), "==": (9, 10, "Eq"), "!=": (9, 10, "NotEq"), "<": (11, 12, "Less"), ">": (11, 12, "Greater"), "<=": (11, 12, "LessEq"), ">=": (11, 12, "GreaterEq"), "+": (13, 14, "Add"), "-": (13, 14, "Sub"), "*": (15, 16, "Mul"), "/": (15, 16, "Div")}
UN = {"-": "Neg", "!": "Not"}
TOP = 100


# ---- trees: ("id", x) ("int", text) ("str", s) ("bool", b) ("un", op, e) ("bin", op, l, r) ("call", f, [args]) ("field", e, name) ("tuple", [items])
def level(t):
    k = t[0]
    if k == "bin":
        return BIN[t[1]][0]
    if k == "un":
        return 23
    return TOP


def toks(t, ctx=0):
    """token list with only the necessary parentheses; ctx = minimal level the context tolerates"""
    k = t[0]
    if k == "id":
        out = [t[1]]
    elif k == "int":
        out = [t[1]]
    elif k == "bool":
        out = ["true" if t[1] else "false"]
    elif k == "str":
        out = [lit_string(t[1])]
    elif k == "un":
        out = [t[1]] + toks(t[2], 23)
    elif k == "bin":
        l, r, _ = BIN[t[1]]
        out = toks(t[2], l) + [t[1]] + toks(t[3], r)
    elif k == "call":
        out = toks(t[1], TOP) + ["("] + sum([toks(a, 0) + [","] for a in t[2]], [])[:-1] + [")"] if t[2] else toks(t[1], TOP) + ["(", ")"]
    elif k == "field":
        out = toks(t[1], TOP) + [".", t[2]]
    elif k == "tuple":
        out = ["("] + sum([toks(a, 0) + [","] for a in t[1]], [])[:-1] + [")"]
    else:
        raise ValueError(t)
    if level(t) < ctx:
        out = ["("] + out + [")"]
    return out


def lit_string(s, rng=None):
    out = []
    for ch in s:
        o = ord(ch)
        alt = rng is not None and rng.random() < 0.3
        if ch == '"':
            out.append('\\"')
        elif ch == "\\":
            out.append("\\\\")
        elif ch == "/" and alt:
            out.append("\\/")
        elif ch == "\n":
            out.append("\\u000a" if alt else "\\n")
        elif ch == "\t":
            out.append("\\u0009" if alt else "\\t")
        elif ch == "\r":
            out.append("\\r")
        elif ch == "\x08":
            out.append("\\b")
        elif ch == "\x0c":
            out.append("\\f")
        elif o < 32:
            out.append("\\u%04x" % o)
        elif alt and o < 0xD800:
            out.append("\\u%04X" % o)
        else:
            out.append(ch)
    return '"' + "".join(out) + '"'


def render(tokens, rng):
    out = []
    for t in tokens:
        out.append(t)
        out.append(rng.choice([" ", " ", " ", "  ", "\n", " \t", " // c\n", "\n    "]) if rng else " ")
    return "".join(out)


# ---- the real AST (Rust Debug) in the same shape ---------------------------------------------
def canon(n):
    k = n[1]
    f = n[2] if n[0] == "struct" else None
    if k == "EPath":
        return ("id", "::".join(s[2]["ident"][2][0][1] for s in f["path"][2]["segments"][1]))
    if k == "EInt":
        return ("int", f["value"][1])
    if k == "EBool":
        return ("bool", f["value"][1])
    if k == "EString":
        return ("str", f["value"][1])
    if k == "EUnary":
        return ("un", {"Neg": "-", "Not": "!"}[f["op"][1]], canon(f["expr"]))
    if k == "EBinary":
        op = [o for o, v in BIN.items() if v[2] == f["op"][1]][0]
        return ("bin", op, canon(f["lhs"]), canon(f["rhs"]))
    if k == "ECall":
        return ("call", canon(f["func"]), [canon(a) for a in f["args"][1]])
    if k == "EField":
        return ("field", canon(f["expr"]), f["field"][2][0][1])
    if k == "ETuple":
        return ("tuple", [canon(a) for a in f["items"][1]])
    if k == "EConstr":
        return ("call", ("id", "::".join(s[2]["ident"][2][0][1] for s in f["constructor"][2]["segments"][1])), [canon(a) for a in f["args"][1]])
    return ("other", k)


def norm(t):
    """generator trees -> tuples with lists turned into tuples, for comparison"""
    if isinstance(t, (list, tuple)):
        return tuple(norm(x) for x in t)
    return t


def let_values(ast):
    fn = ast[2]["toplevels"][1][0][2][0]
    body = fn[2]["body"]
    return [e[2]["value"] for e in body[2]["exprs"][1] if e[1] == "ELet"]


# ---- generators ----------------------------------------------------------------------------------
ATOMS = [("id", "a"), ("id", "b"), ("id", "c"), ("id", "d")]


def exhaustive_trees(thorough):
    ops = list(BIN)
    a, b, c, d = ATOMS
    out = []
    for o1, o2 in itertools.product(ops, ops):
        out.append(("bin", o1, ("bin", o2, a, b), c))
        out.append(("bin", o1, a, ("bin", o2, b, c)))
    for u in UN:
        for o in ops:
            out += [("un", u, ("bin", o, a, b)), ("bin", o, ("un", u, a), b), ("bin", o, a, ("un", u, b)), ("un", u, ("un", u, ("bin", o, a, b)))]
        for u2 in UN:
            out.append(("un", u, ("un", u2, a)))
        out += [("un", u, ("call", a, [b])), ("un", u, ("field", a, "f")), ("field", ("un", u, a), "f"), ("un", u, ("call", ("field", a, "m"), [b, c])), ("call", ("field", ("un", u, a), "m"), [])]
    trip = itertools.product(ops, ops, ops) if thorough else itertools.product(ops, ops, ["+", "*", "==", "&&", "||", "<"])
    for o1, o2, o3 in trip:
        out.append(("bin", o1, ("bin", o2, ("bin", o3, a, b), c), d))
        out.append(("bin", o1, ("bin", o2, a, ("bin", o3, b, c)), d))
        out.append(("bin", o1, ("bin", o2, a, b), ("bin", o3, c, d)))
        out.append(("bin", o1, a, ("bin", o2, ("bin", o3, b, c), d)))
        out.append(("bin", o1, a, ("bin", o2, b, ("bin", o3, c, d))))
    for o in ops:
        out += [("bin", o, ("call", a, [("bin", o, b, c)]), ("field", d, "f")), ("call", ("field", ("bin", o, a, b), "m"), [c]), ("field", ("call", a, [b]), "f"), ("bin", o, ("field", ("field", a, "f"), "g"), ("call", ("call", b, [c]), [d]))]
    return out


class RandTree:
    """random trees; masks (known findings): a call's callee is never an operator expression, and under a prefix
    operator nothing follows a call (no f(a)(b), no f(a).x)"""

    def __init__(self, rng):
        self.rng = rng

    def atom(self):
        r = self.rng
        k = r.random()
        if k < 0.5:
            return ("id", r.choice(["a", "b", "c", "x1", "y_z", "Lib::f"]))
        if k < 0.7:
            return ("int", str(r.choice([0, 1, 7, 42, 1000])))
        if k < 0.8:
            return ("bool", r.random() < 0.5)
        return ("str", r.choice(["", "s", "a b", "q\"x", "n\nl"]))

    def postfix(self, d, under_prefix=False):
        """atom followed by calls / fields"""
        r = self.rng
        t = ("id", r.choice(["a", "b", "f", "g"])) if r.random() < 0.7 else self.atom()
        called = False
        for _ in range(r.choice([0, 0, 1, 1, 2, 3])):
            if under_prefix and called:
                break
            if r.random() < 0.5 and t[0] not in ("int", "bool", "str"):
                t = ("call", t, [self.expr(d - 1) for _ in range(r.choice([0, 1, 2]))])
                called = True
            elif t[0] not in ("int", "bool", "str"):
                t = ("field", t, r.choice(["f", "g", "len"]))
        return t

    def expr(self, d, under_prefix=False):
        r = self.rng
        k = r.random()
        if d <= 0 or k < 0.3:
            return self.postfix(d, under_prefix)
        if k < 0.45:
            return ("un", r.choice(list(UN)), self.expr(d - 1, True))
        if k < 0.92:
            return ("bin", r.choice(list(BIN)), self.expr(d - 1), self.expr(d - 1))
        return ("tuple", [self.expr(d - 1), self.expr(d - 1)])


def has_masked(t, under_prefix=False):
    k = t[0]
    if k == "call":
        if t[1][0] in ("un", "bin"):
            return True
        if under_prefix and t[1][0] == "call":
            return True
        return has_masked(t[1], under_prefix) or any(has_masked(a) for a in t[2])
    if k == "field":
        if under_prefix and t[1][0] == "call":
            return True
        if t[1][0] in ("un",) and False:
            return True
        return has_masked(t[1], under_prefix)
    if k == "un":
        return has_masked(t[2], True)
    if k == "bin":
        return has_masked(t[2]) or has_masked(t[3])
    if k == "tuple":
        return any(has_masked(a) for a in t[1])
    return False


KNOWN_TREES = {
    "C11-paren-callee-ignored": ("call", ("un", "-", ("id", "f")), [("id", "x")]),
    "C11-call-after-call-under-prefix": ("un", "-", ("call", ("call", ("id", "f"), [("id", "a")]), [("id", "b")])),
    "C11-field-after-call-under-prefix": ("un", "!", ("field", ("call", ("id", "f"), [("id", "a")]), "ok")),
}


def parse_trees(trees, rng):
    texts = []
    for t in trees:
        texts.append("fn main() { let r = " + render(toks(t), rng) + "; () }")
    res = vlib.run_harness("parse-ast", [{"text": x} for x in texts], shards=vlib.NCPU)
    out = []
    for t, x, r in zip(trees, texts, res):
        if not r.get("ok"):
            out.append((t, x, None, r))
            continue
        vals = let_values(rustdbg.parse(r["ast_dbg"]))
        out.append((t, x, canon(vals[0]) if vals else None, r))
    return out


def check(run):
    broken = []
    try:
        vlib.proof_stage(run, "C11", ["C11/Properties.v"], pins="C11")
    except Broken as b:
        broken.append(b)
    rng = run.sub_rng("c11")
    wits = []
    stats = {}
    # ---- 1. trees: exhaustive operator pairs/triples + random, printed with minimal parentheses and random trivia
    trees = exhaustive_trees(run.tier == "thorough")
    n_ex = len(trees)
    rt = RandTree(rng)
    n_rand = 1500 if run.tier == "quick" else 20000
    while len(trees) < n_ex + n_rand:
        t = rt.expr(rng.choice([2, 3, 4]))
        if not has_masked(t):
            trees.append(t)
    trees = [t for t in trees if not has_masked(t)]
    bad = 0
    for t, x, got, r in parse_trees(trees, rng):
        if got is None:
            wits.append({"kind": "the minimal-parentheses rendering of a tree is rejected by the parser" if "panic" not in r else "parser panic", "text": x, "tree": t, "impl": {k: v for k, v in r.items() if k != "ast_dbg"}})
        elif norm(got) != norm(t):
            bad += 1
            wits.append({"kind": "parsing the printed tree yields another tree", "text": x, "tree": t, "parsed": got})
    stats["trees"] = {"exhaustive": n_ex, "random": n_rand, "reparsed_to_another_tree": bad}
    # ---- 2. the Coq model of the Pratt loop + lowering agrees with the real parser on the same token strings
    try:
        stats["model"] = model_correspondence(run, trees[: 3000 if run.tier == "quick" else 20000], wits)
    except Broken as b:
        broken.append(b)
    # ---- 2b. whole programs: parse, print every item/type/pattern/expression form from the AST with other layout
    #          and only the necessary parentheses, parse again: the same AST
    try:
        stats["programs"] = program_round_trip(run, rng, wits)
    except Broken as b:
        broken.append(b)
    # ---- 3. literals
    lit_stats = literals(run, rng, wits)
    lit_stats["literal_positions"] = literal_positions(run, wits)
    stats["literals"] = lit_stats
    # ---- known findings
    for k in run.known:
        t = KNOWN_TREES.get(k["id"])
        if t is not None:
            ((_, x, got, r),) = parse_trees([t], None)
            if got is None or norm(got) != norm(t):
                run.known_finding(k["id"], "%s: %s — `%s` is read as %s" % (k["id"], k["what"], " ".join(toks(t)), json.dumps(got)))
    run.add_cases(len(trees) + lit_stats["strings"] + lit_stats["multiline"] + lit_stats["numbers"], len(trees) - bad, samples=[" ".join(toks(trees[5])), " ".join(toks(trees[-1])), " ".join(toks(trees[n_ex + 3]))])
    run.cov["rule"] = (
        "%d trees: all operator pairs in both shapes, all (quick: all x all x 6) operator triples in the five shapes, every prefix operator against every binary operator, call and field access, plus %d random trees "
        "(atoms, paths, literals, prefix, binary, calls with 0-2 arguments, fields, tuples) rendered with only the necessary parentheses under the documented binding powers and random trivia (spaces, tabs, line breaks, comments); "
        "the real parser+lowering must return exactly the tree. Whole programs (corpus files of all packages, generated programs with closures, generics, traits, multi-package projects): the AST of every accepted source is printed back with other layout and minimal parentheses (all item, type, pattern and expression forms) and must parse to the same AST. Literals: strings over quotes/backslashes/slashes/control/Unicode characters with every accepted escape spelling, multi-line strings, integer and float spellings; "
        "the AST value and (ASCII) the text printed by the compiled program under Sem/GoSem.v must be the characters written. distinct_nontrivial = trees that round-trip" % (n_ex, n_rand)
    )
    run.cov["correspondence"] = stats
    run.cov["open_obligations"] = ["the theorem is stated for every sufficiently large fuel; that the model's concrete fuel 4*len+8 suffices is checked on every tested tree, not proved", "items, patterns and types are covered by the corpus round trip in C12 (lossless CST), not by a tree printer", "three call-association deviations are known findings (refutation examples in C11/Properties.v) and outside the class ok"]
    run.assumptions = []
    if wits:
        for w in wits[:3]:
            run.violation(w)
    elif broken:
        run.violation({"broken": [b.what for b in broken], "detail": [b.detail for b in broken]}, no_input=True)


def program_round_trip(run, rng, wits):
    import glob
    import random as _random

    import astprint
    import callgen
    import genericgen
    import genprog

    q = run.tier == "quick"
    srcs = []
    for pat_ in ("crates/compiler/src/tests/pipeline/*/main.gom", "crates/compiler/src/tests/package/*/*.gom", "crates/compiler/src/tests/package/*/*/*.gom"):
        srcs += [open(p, encoding="utf-8").read() for p in sorted(glob.glob(os.path.join(vlib.REPO, pat_)))]
    n_corpus = len(srcs)
    srcs += [genprog.G(rng, fail_rate=0.02).program(depth=rng.choice([2, 3])) for _ in range(60 if q else 1500)]
    clrng = run.sub_rng("c11-cl")
    srcs += [genprog.closure_program(clrng) for _ in range(20 if q else 400)]
    srcs += [genericgen.Gen(rng).program(n_stmts=4, depth=2)[0] for _ in range(15 if q else 300)]
    for _ in range(5 if q else 80):
        srcs += list(callgen.Gen(rng).project(n_calls=5)[0].values())
    r1 = vlib.run_harness("parse-ast", [{"text": s} for s in srcs], shards=vlib.NCPU)
    printed, keep = [], []
    st = {"sources": len(srcs), "corpus_files": n_corpus, "round_trip": 0, "with_attributes_skipped": 0, "first_parse_rejected": 0}
    for i, (s, r) in enumerate(zip(srcs, r1)):
        if "panic" in r:
            wits.append({"kind": "parser panic", "text": s})
            continue
        if not r.get("ok"):
            st["first_parse_rejected"] += 1
            continue
        t = rustdbg.parse(r["ast_dbg"])
        try:
            printed.append(astprint.P(_random.Random(rng.random())).file(t))
            keep.append((s, t))
        except astprint.Unprintable as e:
            if str(e) == "attributes":
                st["with_attributes_skipped"] += 1
            else:
                wits.append({"kind": "the AST has a form the printer does not know: %s" % e, "text": s})
    r2 = vlib.run_harness("parse-ast", [{"text": s} for s in printed], shards=vlib.NCPU)
    for (s, t), ptxt, r in zip(keep, printed, r2):
        if not r.get("ok"):
            wits.append({"kind": "a program printed from its own AST (other layout, only the necessary parentheses) is rejected", "text": ptxt, "original": s, "impl": {k: v for k, v in r.items() if k != "ast_dbg"}})
        elif astprint.canon(rustdbg.parse(r["ast_dbg"])) != astprint.canon(t):
            wits.append({"kind": "a program printed from its own AST parses to another AST", "text": ptxt, "original": s})
        else:
            st["round_trip"] += 1
    return st


# ---- Coq model correspondence ---------------------------------------------------------------------
TOK = {"(": "TLP", ")": "TRP", ",": "TComma", ".": "TDot", "-": "TMinus", "!": "TBang"}
BINTOK = {"||": "BOr", "&&": "BAnd", "==": "BEq", "!=": "BNe", "<": "BLt", ">": "BGt", "<=": "BLe", ">=": "BGe", "+": "BAdd", "*": "BMul", "/": "BDiv"}


def coq_tok(t, ids):
    if t in TOK:
        return TOK[t]
    if t in BINTOK:
        return "(TBin %s)" % BINTOK[t]
    if t not in ids:
        ids[t] = len(ids)
    return "(TAtom %d)" % ids[t]


def coq_tree(t, ids):
    k = t[0]
    if k in ("id", "int", "bool", "str"):
        key = toks(t)[0]
        if key not in ids:
            ids[key] = len(ids)
        return "(Atom %d)" % ids[key]
    if k == "un":
        return "(Un %s %s)" % ("UNeg" if t[1] == "-" else "UNot", coq_tree(t[2], ids))
    if k == "bin":
        return "(Bin %s %s %s)" % ("BSub" if t[1] == "-" else BINTOK[t[1]], coq_tree(t[2], ids), coq_tree(t[3], ids))
    if k == "call":
        return "(Call %s [%s])" % (coq_tree(t[1], ids), "; ".join(coq_tree(a, ids) for a in t[2]))
    if k == "field":
        if t[2] not in ids:
            ids[t[2]] = len(ids)
        return "(Field %s %d)" % (coq_tree(t[1], ids), ids[t[2]])
    raise KeyError(k)


def model_correspondence(run, trees, wits):
    """the Coq parser model, run on the printed token strings, must return the tree (as the real parser did),
    and the Coq printer must produce the same tokens as the Python printer"""
    cases = []
    for t in trees:
        if any(x[0] == "tuple" for x in walk(t)):
            continue
        ids = {}
        tk = "[%s]" % "; ".join(coq_tok(x, ids) for x in toks(t))
        cases.append("(%s, %s)" % (tk, coq_tree(t, ids)))
    per = 400
    texts = []
    for i in range(0, len(cases), per):
        body = "From Goml Require Import Common.Base C11.Model C11.Proofs.\nOpen Scope nat_scope.\nDefinition cases : list (list tok * expr) := [%s].\n" % ";\n".join(cases[i : i + per])
        body += "Definition okc (c : list tok * expr) : bool := match parse_expr (fst c) with Some e => expr_eqb e (snd c) | None => false end && list_tok_eqb (print (snd c)) (fst c) && C11.Proofs.ok (snd c).\n"
        body += "Eval vm_compute in (length (filter (fun c => negb (okc c)) cases), map N.of_nat (bad_idx (map okc cases))).\n"
        texts.append(body)
    outs = vlib.coq_eval_many("c11model", texts)
    nbad = 0
    for i, o in enumerate(outs):
        import re

        m = re.search(r"=\s*\((\d+),\s*(\[.*?\])\)", o, re.S)
        if not m:
            raise Broken("coq-output", o[-600:])
        if int(m.group(1)) != 0:
            idx = [int(x) for x in re.findall(r"\d+", m.group(2))]
            nbad += int(m.group(1))
            for j in idx[:2]:
                wits.append({"kind": "the Coq parser/printer model disagrees with the real parser on a tree the real parser round-trips, its concrete fuel does not suffice, or the tree is outside the class of the round-trip theorem (model no longer describes the code)", "case": cases[i * per + j]})
    return {"cases": len(cases), "model_disagreements": nbad}


def walk(t):
    yield t
    for x in t[1:]:
        if isinstance(x, tuple):
            yield from walk(x)
        elif isinstance(x, list):
            for y in x:
                yield from walk(y)


# ---- literals ----------------------------------------------------------------------------------------
ALPH = list("ab /\\\"'{}%\n\t\r") + ["\x01", "\x08", "\x0c", "\x1f", "é", "日", " ", "😀", "\x7f", "\u0085", "\u009b", "\u00a0", "\u200b", "\u2028", "\ufeff", "\ufffd"]


LIT_POSITIONS = [
    "fn main() {{ let v = {L}; () }}", "fn main() {{ {L} }}", "fn main() {{ {L}; () }}", "fn main() {{ let _ = 1; {L} }}", "fn f0() -> int32 {{ {L} }}\nfn main() {{ () }}",
    "fn main() {{ f({L}) }}", "fn main() {{ f(1, {L}) }}", "fn main() {{ f({L}, 1) }}", "fn main() {{ f(g({L})) }}", "fn main() {{ T::f({L}) }}", "fn main() {{ x.m({L}) }}", "fn main() {{ K({L}) }}",
    "fn main() {{ ({L}, 1) }}", "fn main() {{ (1, {L}) }}", "fn main() {{ (1, {L}, 2) }}", "fn main() {{ [{L}, {L}] }}", "fn main() {{ [1, {L}] }}",
    "fn main() {{ S {{ a: {L}, b: 1 }} }}", "fn main() {{ S {{ a: 1, b: {L} }} }}",
    "fn main() {{ if c {{ {L} }} else {{ {L} }} }}", "fn main() {{ if {L} {{ 1 }} else {{ 2 }} }}", "fn main() {{ if c {{ 1 }} else {{ let _ = 2; {L} }} }}",
    "fn main() {{ while {L} {{ () }} }}", "fn main() {{ while c {{ {L} }} }}", "fn main() {{ while c {{ let _ = {L}; () }} }}",
    "fn main() {{ match {L} {{ _ => 1 }} }}", "fn main() {{ match x {{ _ => {L} }} }}", "fn main() {{ match x {{ 0 => {L}, _ => {L} }} }}", "fn main() {{ match x {{ 0 => {{ {L} }}, _ => 1 }} }}",
    "fn main() {{ |y| {L} }}", "fn main() {{ let g = |y| {L}; () }}", "fn main() {{ let g = |y| {{ let _ = 1; {L} }}; () }}", "fn main() {{ let g = || {L}; () }}",
    "fn main() {{ x + {L} }}", "fn main() {{ {L} + x }}", "fn main() {{ x == {L} }}", "fn main() {{ x && {L} }}", "fn main() {{ !{L} }}", "fn main() {{ ({L}) }}", "fn main() {{ (({L})) }}",
    "fn main() {{ go f({L}) }}", "fn main() {{ let v: T = {L}; () }}", "fn main() {{ let (a, b) = ({L}, {L}); () }}", "fn main() {{ ref({L}) }}", "fn main() {{ f(|y| {L}) }}",
    "impl S {{ fn m(self: S) -> int32 {{ {L} }} }}\nfn main() {{ () }}", "impl Tr for S {{ fn m(self: S) -> int32 {{ f({L}) }} }}\nfn main() {{ () }}",
]
LIT_KINDS = [
    ("integer", "918273", r'EInt \{ value: "918273"'), ("suffixed integer", "918273i64", r'EInt64 \{ value: "918273"'), ("unsigned", "255u8", r'EUInt8 \{ value: "255"'),
    ("float", "7.25", r'EFloat \{ value: 7\.25'), ("suffixed float", "7.25f32", r'EFloat32 \{ value: "7\.25"'), ("bool", "true", r"EBool \{ value: true"),
    ("string", '"QZ1x"', r'EString \{ value: "QZ1x"'), ("string with escapes", '"QZ\\n\\"2"', r'EString \{ value: "QZ\\n\\"2"'),
    ("multi-line string", "\\\\QZ3a\n        \\\\QZ3b\n    ", r'EString \{ value: "QZ3a\\nQZ3b"'),
    ("negative integer", "-918273", r'EInt \{ value: "918273"'),
]


def literal_positions(run, wits):
    """every kind of literal in every expression position: if the position parses with the simplest literal, it parses with
    every literal, and the tree holds the value written, once per occurrence"""
    refs = vlib.run_harness("parse-ast", [{"text": p_.format(L="4321")} for p_ in LIT_POSITIONS], shards=vlib.NCPU)
    ok_pos = [p_ for p_, r in zip(LIT_POSITIONS, refs) if r.get("ok")]
    cases = [(p_, k) for p_ in ok_pos for k in LIT_KINDS]
    res = vlib.run_harness("parse-ast", [{"text": p_.format(L=k[1])} for p_, k in cases], shards=vlib.NCPU)
    st = {"positions": len(LIT_POSITIONS), "positions_parsing_with_a_plain_literal": len(ok_pos), "cells": len(cases), "cells_ok": 0}
    for (p_, (kind, text, pat)), r in zip(cases, res):
        want = p_.count("{L}")
        src = p_.format(L=text)
        if not r.get("ok"):
            wits.append({"kind": "a %s literal is rejected in a position where an integer literal is accepted" % kind, "text": src, "impl": {k_: v for k_, v in r.items() if k_ != "ast_dbg"}})
        elif len(re.findall(pat, r["ast_dbg"])) != want:
            wits.append({"kind": "a %s literal does not reach the tree with the value written (%d of %d occurrences)" % (kind, len(re.findall(pat, r["ast_dbg"])), want), "text": src})
        else:
            st["cells_ok"] += 1
    return st


def literals(run, rng, wits):
    n = 300 if run.tier == "quick" else 5000
    strs = ["".join(rng.choice(ALPH) for _ in range(rng.randint(0, 8))) for _ in range(n)]
    lets = ["let s%d = %s;" % (i, lit_string(s, rng)) for i, s in enumerate(strs)]
    st = {"strings": len(strs), "multiline": 0, "numbers": 0, "printed": 0}
    # strings through the AST
    groups = [list(range(i, min(i + 50, len(strs)))) for i in range(0, len(strs), 50)]
    res = vlib.run_harness("parse-ast", [{"text": "fn main() { " + " ".join(lets[i] for i in g) + " () }"} for g in groups])
    for g, r in zip(groups, res):
        if not r.get("ok"):
            wits.append({"kind": "string literals rejected", "text": " ".join(lets[i] for i in g)[:600], "impl": {k: v for k, v in r.items() if k != "ast_dbg"}})
            continue
        vals = let_values(rustdbg.parse(r["ast_dbg"]))
        for i, v in zip(g, vals):
            c = canon(v)
            if c != ("str", strs[i]):
                wits.append({"kind": "a string literal does not denote the characters written", "literal": lets[i], "expected": strs[i], "got": c})
    # multi-line strings: every line verbatim after the two backslashes, joined by line feeds
    ml = []
    for _ in range(60 if run.tier == "quick" else 600):
        lines = ["".join(rng.choice(list("ab \"\\/{}%'") + ["é", "\t"]) for _ in range(rng.randint(0, 7))) for _ in range(rng.randint(2, 4))]
        ml.append(lines)
    st["multiline"] = len(ml)
    texts = []
    for lines in ml:
        eol = rng.choice(["\n", "\n", "\r\n"])
        body = "".join("        \\\\%s%s" % (l, eol) for l in lines)
        texts.append("fn main() {\n    let s =\n%s    ;\n    ()\n}\n" % body)
    res = vlib.run_harness("parse-ast", [{"text": x} for x in texts])
    for lines, x, r in zip(ml, texts, res):
        if not r.get("ok"):
            wits.append({"kind": "multi-line string rejected", "text": x, "impl": {k: v for k, v in r.items() if k != "ast_dbg"}})
            continue
        vals = let_values(rustdbg.parse(r["ast_dbg"]))
        c = canon(vals[0])
        if c != ("str", "\n".join(lines)):
            wits.append({"kind": "a multi-line string does not denote the lines written", "text": x, "expected": "\n".join(lines), "got": c})
    # numbers: the digits are kept; floats denote the nearest double
    nums = []
    for _ in range(100 if run.tier == "quick" else 1000):
        k = rng.random()
        digits = str(rng.randint(0, 10 ** rng.randint(1, 18)))
        if k < 0.2:
            digits = "0" * rng.randint(1, 3) + digits
        if k < 0.6:
            suf = rng.choice(["", "", "i8", "i16", "i32", "i64", "u8", "u16", "u32", "u64"])
            nums.append((digits + suf, ("E" + {"": "Int", "i8": "Int8", "i16": "Int16", "i32": "Int32", "i64": "Int64", "u8": "UInt8", "u16": "UInt16", "u32": "UInt32", "u64": "UInt64"}[suf], digits)))
        else:
            frac = str(rng.randint(0, 10 ** rng.randint(1, 12))).rjust(rng.randint(1, 3), "0")
            suf = rng.choice(["", "", "f32", "f64"])
            text = digits + "." + frac
            nums.append((text + suf, ("EFloat" + {"": "", "f32": "32", "f64": "64"}[suf], text)))
    st["numbers"] = len(nums)
    res = vlib.run_harness("parse-ast", [{"text": "fn main() { " + " ".join("let n%d = %s;" % (i, t) for i, (t, _) in enumerate(nums)) + " () }"}])
    r = res[0]
    if not r.get("ok"):
        wits.append({"kind": "number literals rejected", "impl": {k: v for k, v in r.items() if k != "ast_dbg"}})
    else:
        vals = let_values(rustdbg.parse(r["ast_dbg"]))
        for (text, (kind, digits)), v in zip(nums, vals):
            got_kind = v[1]
            val = v[2]["value"]
            if kind == "EFloat":
                ok = got_kind == kind and float(val[1]) == float(digits)
            else:
                ok = got_kind == kind and val[1] == digits
            if not ok:
                wits.append({"kind": "a number literal does not denote the value written", "literal": text, "got": [got_kind, val]})
    # ASCII strings end to end: the compiled program prints the characters written
    asc = [s for s in strs if all(ord(c) < 127 for c in s) and "\r" not in s][:40]
    progs = ["fn main() { let _ = string_println(%s); string_println(\"<<END>>\") }" % lit_string(s, rng) for s in asc]
    root, paths = semrun.write_programs("c11lit", progs)
    outs = semrun.go_outputs("c11lit", paths)
    shutil.rmtree(root, ignore_errors=True)
    for s, p, o in zip(asc, progs, outs):
        if o["status"] != "ok" or "EExit" not in o.get("ending", ""):
            if o["status"] == "ok" and ("EUnsupported" in o["ending"]):
                continue
            wits.append({"kind": "a program printing a string literal does not compile/run in the Go model", "program": p, "impl": o.get("compile") or o.get("ending")})
            continue
        st["printed"] += 1
        if o["stdout"].decode("utf-8", "replace") != s + "\n<<END>>\n":
            wits.append({"kind": "the compiled program prints other characters than the literal denotes", "program": p, "expected": s, "got": o["stdout"].decode("utf-8", "replace")})
    # every string, ASCII or not: the Go TEXT the compiler writes, read back with Go's lexical rules (\xNN is one byte,
    # \uNNNN a code point, no byte order mark inside the file), must contain a literal with exactly the bytes written
    import goparse

    allp = ["fn main() { string_println(%s) }" % lit_string(s, rng) for s in strs]
    root2, paths2 = semrun.write_programs("c11txt", allp)
    tres = vlib.run_harness("compile", [{"path": p_, "timeout_ms": 20000} for p_ in paths2], shards=vlib.NCPU)
    shutil.rmtree(root2, ignore_errors=True)
    st["go_text_literals"] = 0
    for s, p_, r in zip(strs, allp, tres):
        if not r.get("ok"):
            wits.append({"kind": "a program that prints a string literal is rejected", "program": p_, "impl": {k: v for k, v in r.items() if k != "go"}})
            continue
        try:
            lits = [v for k, v in goparse.lex(r["go"]) if k == "str"]
        except goparse.GoSyntaxError as e:
            wits.append({"kind": "the Go text emitted for a string literal does not lex as Go: %s" % e, "program": p_, "expected": s})
            continue
        if s.encode("utf-8").decode("latin-1") in lits:
            st["go_text_literals"] += 1
        else:
            wits.append({"kind": "no string literal of the emitted Go text denotes the bytes of the source literal", "program": p_, "expected_bytes": list(s.encode("utf-8"))[:40], "go_excerpt": r["go"][r["go"].find("func main0") :][:300]})
    return st


def replay(run, path):
    with open(path) as f:
        w = json.load(f)
    print(json.dumps(w, indent=1)[:3000])
    return 0
