"""C15 — linking never combines packages built against different interfaces."""
import itertools
import json
import os

import vlib
from vlib import Broken

PK = ["Base", "Lib", "Main", "Util"]  # codes 0..3 (sorted like the strings)
SHAPES = {
    0: {"Base": [], "Lib": ["Base"], "Util": ["Base"], "Main": ["Base", "Lib", "Util"]},
    1: {"Base": [], "Lib": ["Base"], "Util": [], "Main": ["Lib"]},
    2: {"Base": [], "Lib": ["Base"], "Util": [], "Main": ["Base", "Lib"]},
}
LINKSET = {0: ["Base", "Lib", "Util", "Main"], 1: ["Base", "Lib", "Main"], 2: ["Base", "Lib", "Main"]}


def source(shape, pkg, iv, bv):
    imps = SHAPES[shape][pkg]
    s = "package %s\n" % pkg + "".join("import %s\n" % i for i in imps)
    uses = " + ".join(["%d" % bv] + ["%s::val()" % i if i == "Base" else "%s::f()" % i for i in imps])
    if pkg == "Base":
        s += "fn val() -> int32 { %s }\n" % uses
    elif pkg == "Main":
        s += "fn main() { string_println(int32_to_string(%s)) }\n" % uses
    else:
        s += "fn f() -> int32 { %s }\n" % uses
    for k in range(iv):
        s += "fn extra%d() -> int32 { %d }\n" % (k, k)
    return s


def gen_histories(run):
    rng = run.sub_rng("c15")
    hs = []
    # the classic stale-dependent scenarios, for every shape and every package edited
    for shape in SHAPES:
        order = [p for p in ["Base", "Lib", "Util", "Main"] if p in LINKSET[shape]]
        for edited in order:
            for kind in ("edit_iface", "edit_body"):
                for rebuilt in itertools.chain.from_iterable(itertools.combinations(order, r) for r in range(len(order) + 1)):
                    if edited not in rebuilt and kind == "edit_iface" and len(rebuilt) > 0 and rng.random() < 0.5:
                        continue
                    h = [("build", p) for p in order] + [("link", LINKSET[shape])] + [(kind, edited)] + [("build", p) for p in order if p in rebuilt] + [("link", LINKSET[shape])]
                    hs.append((shape, h))
    n_exh = len(hs)
    n = 60 if run.tier == "quick" else 800
    for _ in range(n):
        shape = rng.choice(list(SHAPES))
        pk = LINKSET[shape]
        h = []
        for _ in range(rng.randint(3, 14)):
            r = rng.random()
            if r < 0.4:
                h.append(("build", rng.choice(pk)))
            elif r < 0.5:
                h.append(("check", rng.choice(pk)))
            elif r < 0.65:
                h.append(("edit_iface", rng.choice(pk)))
            elif r < 0.75:
                h.append(("edit_body", rng.choice(pk)))
            else:
                h.append(("link", pk if rng.random() < 0.8 else rng.sample(pk, rng.randint(1, len(pk)))))
        h.append(("link", pk))
        hs.append((shape, h))
    return hs, n_exh


def to_ops(shape, h):
    """history -> harness ops (with source rewrites) and the index of each history op's result"""
    ver = {p: [0, 0] for p in PK}
    ops, pos = [], []
    for p in PK:
        ops.append({"op": "write", "path": "%s/lib.gom" % p, "text": source(shape, p, 0, 0)})
    for kind, arg in h:
        if kind in ("edit_iface", "edit_body"):
            ver[arg][0 if kind == "edit_iface" else 1] += 1
            ops.append({"op": "write", "path": "%s/lib.gom" % arg, "text": source(shape, arg, ver[arg][0], ver[arg][1])})
        elif kind in ("build", "check"):
            ops.append({"op": kind, "pkg": arg, "inputs": ["%s/lib.gom" % arg]})
        else:
            ops.append({"op": "link", "pkgs": list(arg)})
        pos.append(len(ops) - 1)
    return ops, pos


def coq_op(kind, arg):
    c = {"edit_iface": "EditIface", "edit_body": "EditBody", "build": "Build", "check": "Check"}
    if kind == "link":
        return "(Link [%s])" % "; ".join(str(PK.index(p)) for p in arg)
    return "(%s %d)" % (c[kind], PK.index(arg))


def property_on_real(h, results, cores):
    """after the history: if the final link succeeded, every dep hash recorded in a linked core must be the interface hash of the dependency's core"""
    last = results[-1]
    if not last.get("ok"):
        return None
    linked = h[-1][1]
    for p in linked:
        c = cores.get(p)
        if not c:
            return {"kind": "link succeeded although %s.core is missing" % p}
        for d, hh in (c.get("deps") or {}).items():
            cd = cores.get(d)
            if d not in linked or not cd:
                return {"kind": "link succeeded although dependency %s of %s is not linked" % (d, p)}
            if cd["iface_hash"] != hh:
                return {"kind": "link accepted %s built against interface %s of %s, but the linked %s.core exports %s" % (p, hh[:12], d, d, cd["iface_hash"][:12]), "stale_package": p, "dependency": d}
    return None


CORRUPTIONS = [
    ("core", "/format_version", 2, False),
    ("core", "/compiler_abi", 7, False),
    ("core", "/package", "Other", False),
    ("core", "/interface/interface_hash", "00" * 32, False),
    ("core", "/interface/format_version", 3, False),
    ("core", "/interface/compiler_abi", 9, False),
    ("core", "/interface/package", "Other", False),
    ("core", "/deps/Base", "11" * 32, False),
    ("core", "/interface/deps/Base", "22" * 32, False),
    ("core", "/sources", ["elsewhere.gom"], True),  # not covered by validation: accepted
]


def check(run):
    broken = []
    try:
        vlib.proof_stage(run, "C15", ["C15/Properties.v", "C15/Exec.v"])
    except Broken as b:
        broken.append(b)
    hs, n_exh = gen_histories(run)
    inputs = []
    poss = []
    for i, (shape, h) in enumerate(hs):
        ops, pos = to_ops(shape, h)
        inputs.append({"dir": os.path.join(vlib.BUILD, "tmp", "c15", "h%05d" % i), "ops": ops})
        poss.append(pos)
    res = vlib.run_harness("sep", inputs, shards=vlib.NCPU)
    wits, mism = [], []
    rows = []
    for i, ((shape, h), r, pos) in enumerate(zip(hs, res, poss)):
        results = [r["results"][k] for k in pos]
        if any("panic" in x for x in r["results"]):
            wits.append({"kind": "separate compilation API panicked", "shape": SHAPES[shape], "history": h, "results": [x for x in r["results"] if "panic" in x]})
            continue
        w = property_on_real(h, results, r["cores"])
        if w:
            w.update({"shape": SHAPES[shape], "history": h, "sources": "lib/props/c15.py source(shape, pkg, iface_version, body_version)", "results": [{k: v for k, v in x.items() if k != "go"} for x in results]})
            wits.append(w)
        # observation list for the model comparison
        seen = []
        obs = []
        for (kind, _), x in zip(h, results):
            if kind in ("edit_iface", "edit_body"):
                obs.append("(true, None)")
            elif kind in ("build", "check") and x.get("ok"):
                if x["hash"] not in seen:
                    seen.append(x["hash"])
                obs.append("(true, Some %d)" % seen.index(x["hash"]))
            else:
                obs.append("(%s, None)" % ("true" if x.get("ok") else "false"))
        rows.append("(%d, [%s], [%s])" % (shape, "; ".join(coq_op(k, a) for k, a in h), "; ".join(obs)))
    try:
        per = 120
        chunks = [list(range(k, min(k + per, len(rows)))) for k in range(0, len(rows), per)]
        texts = ["From Goml Require Import Common.Base C15.Model C15.Exec.\nDefinition cases : list (N * list op * list (bool * option N)) := [\n%s\n].\nEval vm_compute in (mismatches Bool.eqb history_ok (map (fun c => (c, true)) cases)).\n" % ";\n".join(rows[k] for k in ch) for ch in chunks]
        for ch, out in zip(chunks, vlib.coq_eval_many("c15", texts)):
            mism += [ch[j] for j in vlib.parse_nat_list(out)]
    except Broken as b:
        broken.append(b)
    # ---- single-field corruption of a valid core: read_core/link must reject (per the model's validate)
    corr_inputs = []
    for file, ptr, val, _ in CORRUPTIONS:
        ops, _ = to_ops(0, [("build", p) for p in ["Base", "Lib", "Util", "Main"]])
        ops.append({"op": "patch", "file": "out/Lib.%s" % file, "pointer": ptr, "value": val})
        ops.append({"op": "link", "pkgs": LINKSET[0]})
        corr_inputs.append({"dir": os.path.join(vlib.BUILD, "tmp", "c15", "c" + ptr.replace("/", "_")), "ops": ops})
    # interface files of another version / altered, offered to a dependent build
    for ptr, val in (("/format_version", 2), ("/compiler_abi", 3), ("/interface_hash", "33" * 32), ("/package", "Other")):
        ops, _ = to_ops(0, [("build", "Base")])
        ops.append({"op": "patch", "file": "out/Base.interface", "pointer": ptr, "value": val})
        ops.append({"op": "build", "pkg": "Lib", "inputs": ["Lib/lib.gom"]})
        corr_inputs.append({"dir": os.path.join(vlib.BUILD, "tmp", "c15", "i" + ptr.replace("/", "_")), "ops": ops})
    cres = vlib.run_harness("sep", corr_inputs, shards=8)
    expect_accept = [c[3] for c in CORRUPTIONS] + [False] * 4
    labels = ["core" + c[1] for c in CORRUPTIONS] + ["interface/format_version", "interface/compiler_abi", "interface/interface_hash", "interface/package"]
    for lab, exp, r in zip(labels, expect_accept, cres):
        last = r["results"][-1]
        if "panic" in last:
            wits.append({"kind": "panic on a corrupted artifact", "field": lab, "impl": last})
        elif bool(last.get("ok")) and not exp:
            wits.append({"kind": "altered artifact accepted", "field": lab, "how": "build all packages of shape 0, patch the JSON field, then link (core) / build Lib (interface)", "impl": {k: v for k, v in last.items() if k != "go"}})
    # ---- kinds of edits: everything a dependent can observe must change the hash, a body-only edit must not ----------
    import ifacegen

    einputs = [{"dir": os.path.join(vlib.BUILD, "tmp", "c15", "edit%02d" % i), "ops": ifacegen.ops(nm)} for i, (nm, _, _) in enumerate(ifacegen.EDITS)]
    eres = vlib.run_harness("sep", einputs, shards=8)
    edit_stats = {"edits": len(ifacegen.EDITS), "stale_links_refused": 0, "body_only_links_accepted": 0}
    known_edits = {k["replay"]["edit"]: k for k in run.known if k["replay"]["kind"] == "iface-edit"}
    for (nm, visible, _), r in zip(ifacegen.EDITS, eres):
        rs = r["results"]
        if any("panic" in x for x in rs):
            wits.append({"kind": "separate compilation API panicked", "edit": nm, "results": [x for x in rs if "panic" in x]})
            continue
        if not (rs[2].get("ok") and rs[3].get("ok") and rs[4].get("ok") and rs[6].get("ok")):
            broken.append(Broken("generator", "C15 edit kinds: the project for `%s` does not build: %s" % (nm, [x.get("err") for x in rs if not x.get("ok")][:2])))
            continue
        second = rs[7].get("ok")
        if visible and second:
            if nm in known_edits:
                run.known_finding(known_edits[nm]["id"], "%s: %s" % (known_edits[nm]["id"], known_edits[nm]["what"]))
            else:
                wits.append({"kind": "a dependent built before the edit `%s` of its dependency still links after only the dependency was rebuilt" % nm, "edit": nm, "base_before": ifacegen.BASE, "base_after": ifacegen.edited(nm), "main": ifacegen.MAIN,
                             "history": "build Base, build Main, link; edit Base; build Base; link Base+Main"})
        elif visible:
            edit_stats["stale_links_refused"] += 1
        elif not second:
            wits.append({"kind": "an edit that changes no interface (`%s`) makes link refuse an up-to-date dependent: %s" % (nm, rs[7].get("err", "")[:200]), "edit": nm, "base_before": ifacegen.BASE, "base_after": ifacegen.edited(nm), "main": ifacegen.MAIN})
        else:
            edit_stats["body_only_links_accepted"] += 1
    # ---- a stale dependent whose pin alone is brought up to date (not rebuilt) must still be refused ---------------------
    # (the top-level deps of a core are covered by no hash; validation ties them to the hashed interface.deps)
    vis = [nm for nm, visible, _ in ifacegen.EDITS if visible and nm not in known_edits][:3]
    rinputs, rlabels = [], []
    for nm in vis:
        for wh in ("top", "interface", "both"):
            o = ifacegen.ops(nm)
            o.insert(len(o) - 1, {"op": "repin", "file": "out/Main.core", "dep": "Base", "from": "out/Base.core", "where": wh})
            rinputs.append({"dir": os.path.join(vlib.BUILD, "tmp", "c15", "repin_%s_%s" % (nm, wh)), "ops": o})
            rlabels.append((nm, wh))
    edit_stats["repinned_stale_cores_refused"] = 0
    for (nm, wh), r in zip(rlabels, vlib.run_harness("sep", rinputs, shards=8)):
        rs = r["results"]
        if any("panic" in x for x in rs):
            wits.append({"kind": "separate compilation API panicked", "edit": nm, "results": [x for x in rs if "panic" in x]})
        elif not (rs[-2].get("ok") and rs[-2].get("changed")):
            broken.append(Broken("generator", "C15 repin: could not rewrite the pin of Main.core after `%s`: %s" % (nm, rs[-2])))
        elif rs[-1].get("ok"):
            wits.append({"kind": "a stale dependent links after only its recorded pin (%s deps) was overwritten with the dependency's current hash; it was never rebuilt against the edited interface (`%s`)" % (wh, nm),
                         "edit": nm, "where": wh, "base_before": ifacegen.BASE, "base_after": ifacegen.edited(nm), "main": ifacegen.MAIN, "history": "build Base, build Main, link; edit Base; build Base; repin Main.core; link Base+Main"})
        else:
            edit_stats["repinned_stale_cores_refused"] += 1
    # ---- the same interface has the same hash in every process; fresh artifacts validate and link ---------------------
    import subprocess

    exe = vlib.build_harness()
    hashes, link_ok = [], []
    nproc = 6 if run.tier == "quick" else 16
    for k_ in range(nproc):
        d_ = os.path.join(vlib.BUILD, "tmp", "c15", "rich%02d" % k_)
        ops_ = [{"op": "write", "path": "Rich/lib.gom", "text": ifacegen.rich("7" if k_ % 2 == 0 else "8 + 1")}, {"op": "write", "path": "Main/main.gom", "text": ifacegen.RICH_MAIN},
                {"op": "check", "pkg": "Rich", "inputs": ["Rich/lib.gom"]}, {"op": "build", "pkg": "Rich", "inputs": ["Rich/lib.gom"]}, {"op": "build", "pkg": "Main", "inputs": ["Main/main.gom"]}, {"op": "link", "pkgs": ["Rich", "Main"]}]
        pr = subprocess.run([exe, "sep"], input=json.dumps({"dir": d_, "ops": ops_}) + "\n", capture_output=True, text=True, timeout=120, env=vlib.ENV)
        try:
            rs = json.loads(pr.stdout)["results"]
        except (ValueError, KeyError):
            broken.append(Broken("harness", "sep did not answer: " + pr.stdout[-300:] + pr.stderr[-300:]))
            continue
        hashes.append((rs[2].get("hash"), rs[3].get("hash")))
        link_ok.append((bool(rs[4].get("ok")), bool(rs[5].get("ok")), (rs[4].get("err") or rs[5].get("err") or "")[:200]))
    edit_stats["fresh_process_builds"] = len(hashes)
    distinct = {h for pair in hashes for h in pair}
    if hashes and (len(distinct) != 1 or None in distinct):
        wits.append({"kind": "the same interface (bodies differ only) got %d different hashes in %d fresh processes (check and build of each)" % (len(distinct), len(hashes)), "hashes": sorted(str(h)[:16] for h in distinct), "package": ifacegen.rich("7")})
    for ok_main, ok_link, err in link_ok:
        if not (ok_main and ok_link):
            wits.append({"kind": "freshly built, unaltered artifacts are refused: " + err, "package": ifacegen.rich("7"), "main": ifacegen.RICH_MAIN})
            break
    # artifacts as a compiler with OTHER version constants would have written them (versions changed consistently in the
    # unit and its embedded interface, hash recomputed over them): check/build/link of this compiler must refuse them
    ver_stats = {"cases": 0, "refused": 0}
    try:
        vcases = []
        base_ops, _ = to_ops(0, [("build", p) for p in ["Base", "Lib", "Util", "Main"]])
        for target in ("out/Main.core", "out/Base.core", "out/Lib.core", "out/Base.interface"):
            for fv, abi in ((2, 1), (1, 2), (2, 2), (0, 1)):
                ops = list(base_ops) + [{"op": "reversion", "file": target, "format_version": fv, "compiler_abi": abi}]
                if target.endswith(".interface"):
                    ops += [o for o in to_ops(0, [("build", "Lib")])[0] if o["op"] in ("check", "build")]
                else:
                    ops.append({"op": "link", "pkgs": LINKSET[0]})
                vcases.append((target, fv, abi, {"dir": os.path.join(vlib.BUILD, "tmp", "c15", "ver%d" % len(vcases)), "ops": ops}))
        for (target, fv, abi, case), r in zip(vcases, vlib.run_harness("sep", [c[3] for c in vcases])):
            ver_stats["cases"] += 1
            rs = r["results"]
            rev = rs[len(base_ops)]
            if not rev.get("ok"):
                broken.append(Broken("harness", "C15 reversion of %s failed: %s" % (target, rev.get("err"))))
                continue
            last = rs[-1]
            if "panic" in last:
                wits.append({"kind": "panic on %s written with format_version %d / compiler_abi %d" % (target, fv, abi), "impl": last})
            elif last.get("ok"):
                wits.append({"kind": "%s written by a compiler with format_version %d / compiler_abi %d (this compiler: 1 / 1) is accepted by %s" % (target, fv, abi, "build" if target.endswith(".interface") else "link"), "history": "build Base, Lib, Util, Main; rewrite %s with the other version constants and the hash recomputed; %s" % (target, "build Lib" if target.endswith(".interface") else "link")})
            else:
                ver_stats["refused"] += 1
    except Broken as b:
        broken.append(b)
    edit_stats["artifacts_of_another_compiler_version"] = ver_stats
    # known finding: the core body (core_ir) is not covered by any checksum
    for k in run.known:
        if k["replay"]["kind"] == "core-body-unchecked":
            ops, _ = to_ops(0, [("build", p) for p in ["Base", "Lib", "Util", "Main"]])
            ops.append({"op": "patch", "file": "out/Base.core", "pointer": "/core_ir/toplevels/0/body", "value": {"EPrim": {"value": {"Int32": {"value": 4242}}, "ty": "TInt32"}}})
            ops.append({"op": "link", "pkgs": LINKSET[0]})
            (kr,) = vlib.run_harness("sep", [{"dir": os.path.join(vlib.BUILD, "tmp", "c15", "kf"), "ops": ops}])
            last = kr["results"][-1]
            if last.get("ok") and "4242" in last.get("go", ""):
                run.known_finding(k["id"], "%s: Base.core with an altered function body (core_ir) is accepted by link and the altered body is emitted" % k["id"])
    nontriv = len({json.dumps(h) for _, h in hs if sum(1 for k, _ in h if k == "link") >= 1 and sum(1 for k, _ in h if k.startswith("edit")) >= 1})
    run.add_cases(len(hs) + len(corr_inputs), nontriv, samples=[{"shape": hs[i][0], "history": hs[i][1]} for i in (0, n_exh // 2, len(hs) - 1)])
    run.cov["rule"] = (
        "histories of {edit body, edit interface, check, build, link} over three dependency shapes of packages Base/Lib/Util/Main (double diamond, chain, diamond): %d systematic (build all, link, one edit of each kind on each package, every subset rebuilt, link) + %d random (3-15 ops); "
        "each is executed against the real check_package/build_package/read_core/link_cores with real files; per op the success flag and the equality pattern of interface hashes are compared in coqc with the model; after a successful final link the real .core files are inspected: every recorded dependency hash must equal the dependency core's interface hash; "
        "plus %d single-field corruptions of core/interface JSON. non-trivial = contains an edit and a link" % (n_exh, len(hs) - n_exh, len(corr_inputs))
    )
    run.cov["rule"] += (
        "; %d kinds of edits of a dependency used by an already built dependent (struct fields reordered/added/renamed/retyped, enum variants reordered/added, payloads reordered/extended, trait methods reordered/added/retyped, "
        "method and function signatures changed, items added/removed, impls added/removed): after rebuilding only the dependency, link must refuse the stale dependent; 4 body-only/layout edits must still link" % len(ifacegen.EDITS)
    )
    run.cov["correspondence"] = {"edit_kinds": edit_stats, "histories": len(hs), "model_mismatches": len(mism), "links_ok": sum(1 for (s, h), r, pos in zip(hs, res, poss) if r["results"][pos[-1]].get("ok")), "links_rejected": sum(1 for (s, h), r, pos in zip(hs, res, poss) if not r["results"][pos[-1]].get("ok")), "corruptions": len(corr_inputs)}
    run.cov["open_obligations"] = ["what counts as interface-visible is abstracted to a version number; that every signature/field/variant/trait/impl change alters the serialized exports is exercised only for added functions", "cyclic core sets and duplicate cores are outside the generated histories"]
    run.assumptions = ["sha256 is injective on the interface hash views of one history (hypothesis H_inj of every theorem)", "serde_json serialisation of the hash view is injective on the fields it contains"]
    if wits:
        for w in wits[:3]:
            run.violation(w)
    elif mism or broken:
        run.violation({"broken": [b.what for b in broken] + (["correspondence: artifact state machine vs real check/build/link"] if mism else []), "detail": [b.detail for b in broken],
                       "examples": [{"shape": hs[i][0], "history": hs[i][1], "impl": [{k: v for k, v in res[i]["results"][p].items() if k != "go"} for p in poss[i]]} for i in mism[:3]],
                       "theorems_no_longer_shown": ["link_never_mixes_interfaces"]}, no_input=True)


def replay(run, path):
    with open(path) as f:
        w = json.load(f)
    print(json.dumps(w, indent=1)[:3000])
    return 0
