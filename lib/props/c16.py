"""C16 — packages are isolated by imports and trait implementations are coherent."""
import itertools
import json
import os
import shutil

import vlib
from vlib import Broken

PK = ["Data", "Main", "Other", "Traits"]  # codes 0..3, sorted like the strings
CODE = {n: i for i, n in enumerate(PK)}

# types an impl can be written for: (label, source text given the writing package, tyref for the model)
#   nominal types live in Data (struct S, enum E) or in the writing package (struct L<pkg>)
TYPES = ["Data::S", "Data::E", "local", "int32", "Vec[int32]", "Ref[int32]", "(int32, bool)", "string"]
OTHER_K = {"int32": 1, "Vec[int32]": 2, "Ref[int32]": 3, "(int32, bool)": 4, "string": 5}


# the ways a package can name something of another package (label, source with {k} = number, {t} = target package)
REF_KINDS = [
    ("struct literal", "fn use{k}() -> int32 {{\n    let q = {t}::L{t} {{ w: 1 }};\n    q.w\n}}"),
    ("function call", "fn use{k}() -> int32 {{\n    {t}::fn_{t}()\n}}"),
    ("type in a signature", "fn use{k}(q: {t}::L{t}) -> int32 {{\n    1\n}}"),
    ("type in a let annotation", "fn use{k}() -> int32 {{\n    let q: Vec[{t}::L{t}] = vec_new();\n    vec_len(q)\n}}"),
    ("enum variant", "fn use{k}() -> int32 {{\n    match {t}::E{t}::V{t} {{ {t}::E{t}::V{t} => 1, {t}::E{t}::W{t}(n) => n }}\n}}"),
    ("static method path", "fn use{k}() -> int32 {{\n    let q = {t}::L{t}::make();\n    1\n}}"),
    ("trait in a bound", "fn use{k}[T: {t}::Tr{t}](x: T) -> int32 {{\n    1\n}}"),
    ("trait static call", "fn use{k}(x: {t}::L{t}) -> int32 {{\n    {t}::Tr{t}::tm(x)\n}}"),
    ("trait object type", "fn use{k}(d: dyn {t}::Tr{t}) -> int32 {{\n    1\n}}"),
    ("struct field type", "struct U{k} {{ inner: {t}::L{t} }}"),
    ("impl of the foreign trait", "struct V{k} {{ z: int32 }}\nimpl {t}::Tr{t} for V{k} {{\n    fn tm(self: V{k}) -> int32 {{ self.z }}\n}}"),
]


def ty_src(t, pkg):
    if t == "local":
        return "L%s" % pkg
    if t.startswith("Data::") and pkg == "Data":
        return t[6:]
    return t


def ty_model(t, pkg):
    if t == "local":
        return "(TNominal %d %d 0)" % (CODE[pkg], 10 + CODE[pkg])
    if t == "Data::S":
        return "(TNominal 0 1 0)"
    if t == "Data::E":
        return "(TNominal 0 2 0)"
    return "(TOther %d)" % OTHER_K[t]


def gen_projects(run):
    """project: {"imports": {pkg: [..]}, "impls": [(pkg, trait_pkg, type label)], "refs": [(pkg, target pkg)]}"""
    rng = run.sub_rng("c16")
    ps = []
    # systematic: one impl of Traits::Show in each package for each type, with and without the needed imports
    for pkg in PK:
        for t in TYPES:
            for imp_traits in (True, False):
                for imp_data in (True, False):
                    imports = {p: [] for p in PK}
                    imports["Main"] = ["Data", "Other", "Traits"]
                    if pkg != "Main":
                        imports[pkg] = ([x for x in ("Traits",) if imp_traits and pkg != "Traits"] + [x for x in ("Data",) if imp_data and pkg != "Data"])
                    else:
                        imports["Main"] = [x for x, on in (("Data", imp_data), ("Other", True), ("Traits", imp_traits)) if on]
                    ps.append({"imports": imports, "impls": [(pkg, "Traits", t)], "refs": []})
    # two impls of the same trait/type pair in different packages (coherence)
    for a, b in itertools.permutations(PK, 2):
        for t in ("Data::S", "int32", "Vec[int32]"):
            imports = {p: [] for p in PK}
            imports["Main"] = [x for x in PK if x != "Main"]
            for p in (a, b):
                if p != "Main":
                    imports[p] = [x for x in ("Traits", "Data") if x != p and not (x == "Data" and p == "Traits" and rng.random() < 0.5)]
            ps.append({"imports": imports, "impls": [(a, "Traits", t), (b, "Traits", t)], "refs": []})
    # the same impl twice in one package, the trait (and type) written plainly or with the package's own name in front
    for pkg in PK:
        for t in ("local", "int32", "Data::S"):
            for sp1, sp2 in itertools.product(("plain", "qual"), repeat=2):
                imports = {p: [] for p in PK}
                imports["Main"] = [x for x in PK if x != "Main"]
                if pkg not in ("Main", "Data"):
                    imports[pkg] = ["Data"]
                ps.append({"imports": imports, "impls": [(pkg, "self", t, sp1), (pkg, "self", t, sp2)], "refs": []})
                ps.append({"imports": imports, "impls": [(pkg, "self", t, sp1)], "refs": []})
    for t in ("local", "int32"):
        for sp1, sp2 in itertools.product(("plain", "qual"), repeat=2):
            imports = {p: [] for p in PK}
            imports["Main"] = [x for x in PK if x != "Main"]
            ps.append({"imports": imports, "impls": [("Traits", "Traits", t, sp1), ("Traits", "Traits", t, sp2)], "refs": []})
    # the same impl of the IMPORTED trait twice in one package (the trait lives in another package's environment)
    for pkg in PK:
        if pkg == "Traits":
            continue
        for t in ("local", "Data::S") if pkg != "Data" else ("local", "Data::S", "Data::E"):
            if t.startswith("Data::") and pkg not in ("Data",):
                continue  # (would be an orphan: judged elsewhere)
            imports = {p: [] for p in PK}
            imports["Main"] = [x for x in PK if x != "Main"]
            if pkg != "Main":
                imports[pkg] = ["Traits"]
            ps.append({"imports": imports, "impls": [(pkg, "Traits", t), (pkg, "Traits", t)], "refs": []})
            ps.append({"imports": imports, "impls": [(pkg, "Traits", t)], "refs": []})
    # qualified references with / without import
    for src_pkg in PK:
        for tgt in PK:
            if tgt == src_pkg:
                continue
            for imported in (True, False):
                imports = {p: [] for p in PK}
                imports["Main"] = [x for x in PK if x != "Main" and (x != tgt or imported or src_pkg != "Main")]
                if src_pkg != "Main":
                    imports[src_pkg] = [tgt] if imported else []
                if src_pkg == "Main" and not imported:
                    imports["Main"] = [x for x in PK if x not in ("Main", tgt)]
                for kind in range(len(REF_KINDS)):
                    ps.append({"imports": imports, "impls": [], "refs": [(src_pkg, tgt, kind)]})
    # the target is imported by a package the source imports, but not by the source itself
    for src_pkg in PK:
        for mid in PK:
            for tgt in PK:
                if len({src_pkg, mid, tgt}) < 3 or "Main" in (mid, tgt):
                    continue
                for kind in range(len(REF_KINDS)):
                    imports = {p: [] for p in PK}
                    imports[mid] = [tgt]
                    imports[src_pkg] = [mid]
                    if src_pkg != "Main":
                        imports["Main"] = [src_pkg]
                    ps.append({"imports": imports, "impls": [], "refs": [(src_pkg, tgt, kind)]})
    n_sys = len(ps)
    n = 40 if run.tier == "quick" else 500
    for _ in range(n):
        imports = {p: [] for p in PK}
        for p in PK:
            cands = [x for x in PK if x != p and x != "Main"]
            imports[p] = rng.sample(cands, rng.randint(0, len(cands)))
        impls = [(rng.choice(PK), rng.choice(["Traits", "self"]), rng.choice(TYPES)) for _ in range(rng.randint(1, 3))]
        refs = [(rng.choice(PK), rng.choice([x for x in PK if x != "Main"]), rng.randrange(len(REF_KINDS))) for _ in range(rng.randint(0, 2))]
        refs = [(a, b, k) for a, b, k in refs if a != b]
        ps.append({"imports": imports, "impls": impls, "refs": refs})
    # package names must be compared whole: every second project is written with names that extend one another
    # (Ma < Main < MainOther < MainTraits keeps the order of Data < Main < Other < Traits the model relies on)
    ps = ps[:n_sys] + [dict(p_, rename=RENAME) for p_ in ps[:n_sys]] + ps[n_sys:] + [dict(p_, rename=RENAME) for p_ in ps[n_sys:]]
    n_sys *= 2
    return ps, n_sys


RENAME = {"Data": "Ma", "Other": "MainOther", "Traits": "MainTraits"}


def write_project(root, p):
    write_project0(root, p)
    ren = p.get("rename")
    if not ren:
        return
    import re
    pat = re.compile(r"\b(%s)\b" % "|".join(ren))
    for d_ in sorted(os.listdir(root)):
        full = os.path.join(root, d_)
        for dp, _, fn in os.walk(full) if os.path.isdir(full) else [(root, [], [d_])]:
            for x in fn:
                fp = os.path.join(dp, x)
                t = open(fp).read()
                with open(fp, "w") as f:
                    f.write(pat.sub(lambda m: ren[m.group(1)], t))
        if os.path.isdir(full) and d_ in ren:
            os.rename(full, os.path.join(root, ren[d_]))


def write_project0(root, p):
    shutil.rmtree(root, ignore_errors=True)
    os.makedirs(root)
    for pkg in PK:
        s = "package %s\n" % pkg + "".join("import %s\n" % i for i in p["imports"][pkg]) + "\n"
        if pkg == "Traits":
            s += "trait Show {\n    fn show(Self) -> string;\n}\n\n"
        if pkg == "Data":
            s += "struct S { v: int32 }\n\nenum E { A, B }\n\n"
        s += "struct L%s { w: int32 }\n\n" % pkg
        if any(im[0] == pkg and im[1] == "self" for im in p["impls"]):
            s += "trait Own%s {\n    fn own(Self) -> string;\n}\n\n" % pkg
        for k, im in enumerate(p["impls"]):
            ip, tp, t = im[0], im[1], im[2]
            qual = len(im) > 3 and im[3] == "qual"   # the trait (and a local type) written with the package's own name in front
            if ip != pkg:
                continue
            ts = ty_src(t, pkg)
            if qual and t == "local":
                ts = "%s::%s" % (pkg, ts)
            if tp == "self":
                s += "impl %sOwn%s for %s {\n    fn own(self: %s) -> string { \"o%d\" }\n}\n\n" % (pkg + "::" if qual else "", pkg, ts, ts, k)
            else:
                tr = ("Traits::Show" if qual else "Show") if pkg == "Traits" else "Traits::Show"
                s += "impl %s for %s {\n    fn show(self: %s) -> string { \"s%d\" }\n}\n\n" % (tr, ts, ts, k)
        # what other packages may refer to: a function, an enum, an inherent static method, a trait with an impl
        s += "fn fn_%s() -> int32 { 1 }\n\nenum E%s { V%s, W%s(int32) }\n\nimpl L%s {\n    fn make() -> L%s { L%s { w: 2 } }\n}\n\n" % (pkg, pkg, pkg, pkg, pkg, pkg, pkg)
        s += "trait Tr%s {\n    fn tm(Self) -> int32;\n}\n\nimpl Tr%s for L%s {\n    fn tm(self: L%s) -> int32 { self.w }\n}\n\n" % (pkg, pkg, pkg, pkg)
        for k, (rp, tgt, kind) in enumerate(p["refs"]):
            if rp == pkg:
                s += REF_KINDS[kind][1].format(k=k, t=tgt) + "\n\n"
        if pkg == "Main":
            s += "fn main() {\n    ()\n}\n"
            with open(os.path.join(root, "main.gom"), "w") as f:
                f.write(s)
        else:
            os.makedirs(os.path.join(root, pkg))
            with open(os.path.join(root, pkg, "lib.gom"), "w") as f:
                f.write(s)


def reachable(p):
    seen, todo = ["Main"], list(p["imports"]["Main"])
    while todo:
        x = todo.pop()
        if x in seen:
            continue
        seen.append(x)
        todo += p["imports"][x]
    return seen


EXEC = """From Goml Require Import Common.Base Pkg.Discover C16.Model C16.Properties.
(* verdict classes: 0 accepted, 1 import cycle, 2 visibility, 3 orphan, 4 duplicate *)
Definition verdict (c : graph * list implr * list (N * N)) : N :=
  let '(g, l, refs) := c in
  match topo g with
  | TErr _ => 1
  | TOk _ =>
      if negb (forallb (impl_visible (imports_of g)) l && forallb (fun '(a, b) => allowed (imports_of g) a b) refs) then 2
      else if negb (forallb orphan_ok l) then 3
      else if negb (no_dup_in_pkg l && no_dup_across l) then 4
      else 0
  end.
"""


def real_verdict(r):
    if r.get("ok"):
        return 0
    if "panic" in r:
        return 99
    msgs = " | ".join(d["message"] for d in r.get("diagnostics") or [])
    if "cycle" in msgs:
        return 1
    # any diagnostic that is not about orphans or duplicates is about a name that cannot be seen (the wording varies with
    # the position of the reference: "not imported", "Unresolved", "not found for member access", ...)
    vis = any(not any(x in d["message"] for x in ("orphan rule", "already defined", "multiple packages")) for d in r.get("diagnostics") or [])
    if vis:
        return 2
    if "orphan rule" in msgs:
        return 3
    if "already defined" in msgs or "multiple packages" in msgs:
        return 4
    return 2


def check(run):
    broken = []
    try:
        vlib.proof_stage(run, "C16", ["C16/Properties.v"])
    except Broken as b:
        broken.append(b)
    ps, n_sys = gen_projects(run)
    root = os.path.join(vlib.BUILD, "tmp", "c16")
    shutil.rmtree(root, ignore_errors=True)
    inputs = []
    for i, p in enumerate(ps):
        d = os.path.join(root, "p%04d" % i)
        write_project(d, p)
        inputs.append({"path": os.path.join(d, "main.gom")})
    res = vlib.run_harness("compile", inputs, shards=vlib.NCPU)
    shutil.rmtree(root, ignore_errors=True)
    rows, wits, mism = [], [], []
    reals = []
    for p, r in zip(ps, res):
        live = reachable(p)
        g = "[%s]" % "; ".join("(%d, [%s])" % (CODE[x], "; ".join(str(CODE[i]) for i in p["imports"][x])) for x in PK if x in live)
        impls = "[%s]" % "; ".join(
            "{| im_pkg := %d; im_trait_pkg := %d; im_trait := %d; im_ty := %s |}" % (CODE[ip], CODE[ip] if tp == "self" else 3, (20 + CODE[ip]) if tp == "self" else 7, ty_model(t, ip))
            for ip, tp, t in [im[:3] for im in p["impls"]] if ip in live
        )
        refs = "[%s]" % "; ".join("(%d, %d)" % (CODE[a], CODE[b]) for a, b, _ in p["refs"] if a in live)
        rv = real_verdict(r)
        reals.append(rv)
        rows.append("((%s, %s, %s), %d)" % (g, impls, refs, rv))
        if rv == 99:
            wits.append({"kind": "compiler panicked on a package layout", "project": p, "impl": r})
    model = []
    try:
        per = 200
        chunks = [list(range(k, min(k + per, len(rows)))) for k in range(0, len(rows), per)]
        texts = [EXEC + "Definition cases : list ((graph * list implr * list (N * N)) * N) := [\n%s\n].\nEval vm_compute in (mismatches N.eqb verdict cases).\n" % ";\n".join(rows[k] for k in ch) for ch in chunks]
        for ch, out in zip(chunks, vlib.coq_eval_many("c16", texts)):
            mism += [ch[j] for j in vlib.parse_nat_list(out)]
    except Broken as b:
        broken.append(b)
    # the property itself on the implementation: an accepted project never contains an orphan impl,
    # an unimported qualified reference, or two impls of one (trait, type) pair (decided by the statement, not by the model's verdict order)
    for i in mism:
        p, r = ps[i], res[i]
        live = reachable(p)
        if not r.get("ok"):
            continue
        for ip, tp, t in [im[:3] for im in p["impls"]]:
            if ip not in live:
                continue
            trait_pkg = ip if tp == "self" else "Traits"
            type_pkg = ip if t == "local" else ("Data" if t.startswith("Data::") else None)
            if trait_pkg != ip and type_pkg != ip:
                wits.append({"kind": "orphan impl accepted: trait %s::Show for %s written in package %s" % (trait_pkg, t, ip), "project": p, "files": files_of(p)})
            for need in (trait_pkg, type_pkg):
                if need and need != ip and need not in p["imports"][ip]:
                    wits.append({"kind": "package %s uses %s without importing it, accepted" % (ip, need), "project": p, "files": files_of(p)})
        keys = [(("self" + ip) if tp == "self" else "Traits", t if t != "local" else "local" + ip) for ip, tp, t in [im[:3] for im in p["impls"]] if ip in live]
        if len(set(keys)) < len(keys):
            wits.append({"kind": "two implementations of one trait for one type accepted", "project": p, "files": files_of(p)})
        for a, b, _ in p["refs"]:
            if a in live and b not in p["imports"][a]:
                wits.append({"kind": "package %s names %s::L%s without importing %s, accepted" % (a, b, b, b), "project": p, "files": files_of(p)})
    # ---- a directory whose files disagree about the package they belong to is rejected, wherever the stray file sorts ----
    mstats = {"cases": 0, "rejected": 0}
    try:
        import shutil as _sh

        mroot = os.path.join(vlib.BUILD, "tmp", "c16mis")
        _sh.rmtree(mroot, ignore_errors=True)
        minputs, mmeta = [], []
        good = {"Geo": "package Geo\nimport Util\nfn area(w: int32, h: int32) -> int32 { Util::double(w * h) }\n", "Util": "package Util\nfn double(x: int32) -> int32 { x + x }\n"}
        main = "package Main\nimport Geo\nimport Util\nfn main() { string_println(int32_to_string(Geo::area(2, 3) + Util::double(1))) }\n"
        k_ = 0

        def put(files):
            nonlocal k_
            d_ = os.path.join(mroot, "m%03d" % k_)
            k_ += 1
            for fn_, tx_ in files.items():
                os.makedirs(os.path.dirname(os.path.join(d_, fn_)), exist_ok=True)
                with open(os.path.join(d_, fn_), "w") as f_:
                    f_.write(tx_)
            minputs.append({"path": d_ + "/main.gom", "timeout_ms": 20000})
            mmeta.append(files)

        for host in ("Geo", "Util"):
            for stray_name in ("a_stray.gom", "zz_stray.gom"):
                for declared in ("Util", "Geo", "Main", "Nowhere"):
                    if declared == host:
                        continue
                    for body in ("fn stray_fn(x: int32) -> int32 { x * 3 }", "fn double(x: int32) -> int32 { x * 3 }"):
                        put({"main.gom": main, "Geo/geo.gom": good["Geo"], "Util/util.gom": good["Util"], "%s/%s" % (host, stray_name): "package %s\n%s\n" % (declared, body)})
        for declared in ("Util", "Other"):
            put({"main.gom": main, "Geo/geo.gom": good["Geo"], "Util/util.gom": good["Util"], "extra.gom": "package %s\nfn extra_fn() -> int32 { 1 }\n" % declared})
        put({"main.gom": main, "Geo/geo.gom": good["Geo"], "Util/util.gom": good["Util"]})  # control: accepted
        mres = vlib.run_harness("compile", minputs, shards=vlib.NCPU)
        if not mres[-1].get("ok"):
            broken.append(Broken("generator", "C16 misdeclared packages: the control project is rejected: %s" % json.dumps(mres[-1].get("diagnostics"))[:300]))
        for files, r in list(zip(mmeta, mres))[:-1]:
            mstats["cases"] += 1
            if r.get("ok"):
                wits.append({"kind": "a package directory with a file that declares another package is accepted", "files": files})
            elif "panic" in r or r.get("timeout"):
                wits.append({"kind": "panic/hang on a package directory with a file that declares another package", "files": files, "impl": {k2: v2 for k2, v2 in r.items() if k2 != "go"}})
            else:
                mstats["rejected"] += 1
        _sh.rmtree(mroot, ignore_errors=True)
    except Broken as b:
        broken.append(b)
    hist = {}
    for v in reals:
        hist[v] = hist.get(v, 0) + 1
    run.add_cases(len(ps), len({json.dumps(p, sort_keys=True) for p in ps if p["impls"] or p["refs"]}), samples=[ps[0], ps[n_sys // 2], ps[-1]])
    run.cov["rule"] = (
        "4-package projects (Data, Main, Other, Traits): %d systematic (an impl of Traits::Show written in each package for each of 8 types incl. Vec/Ref/tuple/primitives with every combination of the needed imports; "
        "the same (trait, type) implemented in two packages; qualified references with/without import) + %d random placements (imports incl. cycles, own traits, several impls, references); "
        "each is compiled by the real compiler; accepted / import-cycle / visibility / orphan / duplicate verdicts are compared in coqc with the model; non-trivial = has an impl or a qualified reference" % (n_sys, len(ps) - n_sys)
    )
    run.cov["correspondence"] = {"misdeclared_package_files": mstats, "projects": len(ps), "model_mismatches": len(mism), "real_verdicts(0 ok,1 cycle,2 visibility,3 orphan,4 duplicate)": hist}
    run.cov["open_obligations"] = ["qualified names in every syntactic position (types in signatures, patterns, trait bounds, struct literals) are exercised only through struct literals and impl headers", "generic impls and impls for type applications are outside the generated placements"]
    run.assumptions = ["a package can only mention a trait or nominal type of another package through a qualified name"]
    if wits:
        for w in wits[:3]:
            run.violation(w)
    elif mism or broken:
        run.violation({"broken": [b.what for b in broken] + (["correspondence: acceptance verdict model vs compiler"] if mism else []), "detail": [b.detail for b in broken],
                       "examples": [{"project": ps[i], "real_verdict": reals[i], "impl": {k: v for k, v in res[i].items() if k != "go"}} for i in mism[:4]],
                       "theorems_no_longer_shown": ["at_most_one_impl_per_trait_and_type"]}, no_input=True)


def files_of(p):
    d = os.path.join(vlib.BUILD, "tmp", "c16w")
    write_project(d, p)
    out = {}
    for dp, _, fn in os.walk(d):
        for x in fn:
            out[os.path.relpath(os.path.join(dp, x), d)] = open(os.path.join(dp, x)).read()
    shutil.rmtree(d, ignore_errors=True)
    return out


def replay(run, path):
    with open(path) as f:
        w = json.load(f)
    print(json.dumps(w, indent=1)[:3000])
    return 0
