"""C04 — the compiler never crashes or hangs: any input gives a result or diagnostics."""
import glob
import json
import os
import shutil
import sys

import vlib
from vlib import Broken

sys.path.insert(0, os.path.dirname(os.path.abspath(__file__)))
import c12  # noqa: E402

KEYWORDS = ["fn", "let", "match", "if", "else", "while", "struct", "enum", "trait", "impl", "for", "return", "go", "dyn", "extern", "package", "import", "true", "false"]
PUNCT = ["(", ")", "{", "}", "[", "]", ",", ";", ":", "::", "->", "=>", "=", "==", "+", "-", "*", "/", ".", "|", "&&", "||", "!", "<", ">", "#", "_", "\"", "\\\\", "\\"]


# trait objects made from instances of generic types, inherent and trait methods on them
DYN_GENERIC = [
    """enum Maybe[T] { Nothing, Just(T) }
struct Pair[A, B] { l: A, r: B }
trait Describe { fn describe(Self) -> string; }
impl Describe for Maybe[int32] { fn describe(self: Maybe[int32]) -> string { match self { Nothing => "none", Just(n) => int32_to_string(n) } } }
impl Describe for Pair[int32, string] { fn describe(self: Pair[int32, string]) -> string { int32_to_string(self.l) + self.r } }
fn show(d: dyn Describe) -> string { Describe::describe(d) }
fn main() {
    let j: Maybe[int32] = Just(3);
    let a: dyn Describe = j;
    let m: Maybe[int32] = Nothing;
    let p: Pair[int32, string] = Pair { l: 1, r: "x" };
    let _ = string_println(show(a));
    let _ = string_println(show(m));
    string_println(show(p))
}
""",
    """struct Cell[T] { v: T }
trait Sz { fn sz(Self) -> int32; }
impl Sz for Cell[bool] { fn sz(self: Cell[bool]) -> int32 { if self.v { 1 } else { 0 } } }
impl Sz for Vec[int32] { fn sz(self: Vec[int32]) -> int32 { vec_len(self) } }
impl Sz for (int32, Cell[bool]) { fn sz(self: (int32, Cell[bool])) -> int32 { self.0 } }
fn main() {
    let c0: Cell[bool] = Cell { v: true };
    let c: dyn Sz = c0;
    let v0: Vec[int32] = vec_new();
    let v1: Vec[int32] = vec_push(v0, 4);
    let w: dyn Sz = v1;
    let t0: (int32, Cell[bool]) = (7, Cell { v: false });
    let t: dyn Sz = t0;
    string_println(int32_to_string(Sz::sz(c) + Sz::sz(w) + Sz::sz(t)))
}
""",
]


CYCLE_BODIES = [
    "let f = |x| x(x);",
    "let pick = |thunk| if true { thunk } else { thunk() };",
    "let pick = |thunk| if true { thunk() } else { thunk };",
    "let pick = |thunk| match 1 { 0 => thunk, _ => thunk(2) };",
    "let g = |h| h(h)(h);",
    "let w = |a| (a, a(1)); let _ = w(w);",
    "let k = |f| |x| f(f)(x);",
    "let o = |g| g(|z| g);",
    "let s = |c| if true { c } else { (c, c) };",
    "let s = |c| if true { (1, c) } else { c };",
    "let s = |c| if true { c } else { [c] };",
    "let s = |c| if true { c } else { ref(c) };",
    "let s = |c| if true { c } else { vec_push(vec_new(), c) };",
    "let s = |c| if true { c } else { |u: int32| c };",
    "let s = |c| if true { c } else { || c };",
    "let s = |c, d| if true { c(d) } else { d(c) };",
    "let s = |c| if true { c } else { Bx { v: c } };",
    "let s = |c| if true { c } else { Sm(c) };",
    "let s = |c| if true { c } else { Sm(Bx { v: (c, 1) }) };",
    "let v = vec_new(); let v = vec_push(v, v);",
    "let r = ref(|x: int32| x); let _ = ref_set(r, |y| ref_get(r));",
    "let a = |q| gid(q)(q);",
    "let a = |q| gid(q(q));",
    "let t = |x| (x, x); let u = t(t); let _ = u.0(u);",
    "let z = |p| p.0(p);",
    "let m = |e| match e { Sm(i) => i(e), Nn => e };",
    "let y = |f| f(|x| f(x)(x));",
    "let l = |n| if n { l0(n) } else { n(l0) };",
]


def typer_cycles(rng, n):
    head = "struct Bx[T] { v: T }\nenum Op[T] { Nn, Sm(T) }\nfn gid[T](x: T) -> T { x }\nfn l0[T](x: T) -> T { x }\n"
    out = [head + "fn main() { %s () }\n" % b for b in CYCLE_BODIES]
    for _ in range(max(0, n - len(out))):
        a, b = rng.sample(CYCLE_BODIES, 2)
        b2 = b.replace("let s =", "let s2 =").replace("let pick =", "let pick2 =").replace("let f =", "let f2 =")
        out.append(head + "fn helper(k: int32) -> int32 { %s k }\nfn main() { %s let _ = helper(1); () }\n" % (b2, a))
    return out


def mutate(rng, t):
    k = rng.random()
    if k < 0.2:
        return t[: rng.randint(0, len(t))]
    if k < 0.4:
        i = rng.randint(0, len(t))
        return t[:i] + t[i + rng.randint(1, 20) :]
    if k < 0.6:
        i = rng.randint(0, len(t))
        return t[:i] + rng.choice(KEYWORDS + PUNCT) + " " + t[i:]
    if k < 0.75:
        words = t.split(" ")
        if len(words) > 3:
            i, j = rng.randrange(len(words)), rng.randrange(len(words))
            words[i], words[j] = words[j], words[i]
        return " ".join(words)
    if k < 0.85:
        a, b = rng.choice([("int32", "bool"), ("int32", "string"), ("+", "&&"), ("(", "{"), ("true", "1"), ("let", "fn"), ("=>", "="), ("Vec", "Ref"), ("1", "1u8")])
        return t.replace(a, b, rng.randint(1, 3))
    lines = t.split("\n")
    if len(lines) > 2:
        i = rng.randrange(len(lines))
        lines.insert(i, lines[rng.randrange(len(lines))])
    return "\n".join(lines)


def acceptable(r):
    """None if the result is fine, else what is wrong"""
    if "panic" in r:
        return "panic: " + r["panic"][:200]
    if r.get("timeout"):
        return "no result within the time limit (hang)"
    if r.get("ok"):
        return None
    ds = r.get("diagnostics")
    if not ds:
        return "failed without any diagnostic"
    if not any(d["severity"] == "Error" for d in ds):
        return "failed without an error-severity diagnostic"
    n = r.get("src_len", 0)
    for d in ds:
        if d["range"] is not None and not (0 <= d["range"][0] <= d["range"][1] <= n):
            return "diagnostic range %r lies outside the text (len %d)" % (d["range"], n)
    return None


def check(run):
    broken = []
    try:
        vlib.proof_stage(run, "C04", ["C12/Properties.v"], pins="C04")
    except Broken as b:
        broken.append(b)
    rng = run.sub_rng("c04")
    wits = []
    # ---- S1: lexing + parsing of arbitrary text (shared with C12) ----------
    tins, n_exh = c12.text_inputs(run)
    try:
        tres = vlib.run_harness("lexparse", [{"text": t, "timeout_ms": 3000} for t in tins], shards=vlib.NCPU)
    except vlib.Hang as h:
        tres = []
        for x in h.inputs:
            wits.append({"kind": "lexing/parsing gave no result within 3 s (hang)", "text": x["text"], "entry": "parser::parse"})
    for t, r in zip(tins, tres):
        if r.get("timeout"):
            wits.append({"kind": "lexing/parsing gave no result within 3 s (hang)", "text": t, "entry": "parser::parse"})
        elif "panic" in r:
            wits.append({"kind": "lexing/parsing panicked: " + r["panic"][:200], "text": t, "entry": "parser::parse"})
        else:
            for d in r["diags"]:
                if d is not None and not (0 <= d[0] <= d[1] <= len(t.encode())):
                    wits.append({"kind": "parser diagnostic range %r outside the text" % d, "text": t, "entry": "parser::parse"})
    # ---- S2: the whole compile entry point on mutated programs --------------
    corpus = sorted(glob.glob(os.path.join(vlib.REPO, "crates/compiler/src/tests/pipeline/*/main.gom")))
    texts = [open(p, encoding="utf-8").read() for p in corpus]
    n_mut = 500 if run.tier == "quick" else 8000
    progs = [mutate(rng, rng.choice(texts)) for _ in range(n_mut)]
    # programs of every generator of this suite (generics, traits and trait objects over generic instances, closures,
    # derives, effects in every position) as they are, and mutated
    sys.path.insert(0, os.path.dirname(os.path.abspath(__file__)))
    import c18 as c18mod
    import genericgen
    import genprog
    import namegen

    q = run.tier == "quick"
    valid = [genprog.G(rng, fail_rate=0.05).program(depth=rng.choice([2, 3])) for _ in range(20 if q else 300)]
    valid += [genprog.closure_program(rng) for _ in range(10 if q else 150)]
    valid += [genprog.discard_program(rng) for _ in range(10 if q else 150)]
    valid += [genericgen.Gen(rng).program(n_stmts=4, depth=2)[0] for _ in range(15 if q else 200)]
    for _ in range(8 if q else 120):
        g = c18mod.Gen(rng)
        g.make_types(rng.choice([2, 3]))
        valid.append(g.program(4)[0])
    valid += [t for _, _, _, t in namegen.cases(rng, 0, full=False)][:: 40 if q else 4]
    valid += DYN_GENERIC
    import matrixgen
    valid += matrixgen.sources(run, "c04", per_quick=12)
    n_valid = len(valid)
    progs += valid + [mutate(rng, rng.choice(valid)) for _ in range(200 if q else 4000)]
    progs += ["fn main() { " + "(" * d + "1" + ")" * d + " }" for d in (50, 100)]
    progs += ["fn main() { let x = " + "if true { " * d + "1" + " } else { 2 }" * d + "; () }" for d in (20, 50)]
    progs += ["fn main() { " + "let _ = 1; " * 1000 + "() }"]
    root = os.path.join(vlib.BUILD, "tmp", "c04")
    shutil.rmtree(root, ignore_errors=True)
    inputs = []
    for i, src in enumerate(progs):
        d = os.path.join(root, "p%05d" % i)
        os.makedirs(d)
        with open(os.path.join(d, "main.gom"), "w") as f:
            f.write(src)
        inputs.append({"path": os.path.join(d, "main.gom"), "timeout_ms": 8000})
    try:
        cres = vlib.run_harness("compile", inputs, shards=vlib.NCPU, timeout=1800)
    except vlib.Hang as h:
        cres = []
        for x in h.inputs:
            wits.append({"kind": "no result within the time limit (hang)", "program": open(x["path"], encoding="utf-8").read(), "entry": "pipeline::compile"})
    stats = {"ok": 0, "parser": 0, "lower": 0, "typer": 0, "compile": 0}
    for src, r in zip(progs, cres):
        msg = acceptable(r)
        if msg:
            wits.append({"kind": msg, "program": src, "entry": "pipeline::compile"})
        elif r.get("ok"):
            stats["ok"] += 1
        else:
            stats[r.get("error_kind", "?")] = stats.get(r.get("error_kind", "?"), 0) + 1
    shutil.rmtree(root, ignore_errors=True)
    # ---- S2b: an ordinary error inside an IMPORTED package of a project: diagnostics, never a panic further down ----
    import re as _re

    import c03 as c03mod
    import c14 as c14mod

    LIB_BAD = [(w_, s_) for w_, s_ in c03mod.ILL if not any(x in s_ for x in ("pi(", "P {", "B(", "C(", "Tick", " A "))]
    LIB_BAD += [("unknown field of a local struct", "let _ = injected_s().zz;"), ("constructor pattern with too many fields", "let _ = match injected_e() { IA(y, z) => y, IB => 0 };"),
                ("literal pattern of another type", "let _ = match 1 { true => 0, _ => 1 };"), ("call of an undefined function", "let _ = injected_nowhere(1);"), ("annotation that does not fit", "let ys: string = 1;")]
    pbase = os.path.join(vlib.BUILD, "tmp", "c04proj")
    shutil.rmtree(pbase, ignore_errors=True)
    pj_inputs, pj_meta = [], []
    for i in range(40 if q else 500):
        files = dict(c14mod.gen_project(rng)[0])
        imps = lambda tx: _re.findall(r"^import (\w+)", tx, _re.M)
        reach, todo = set(), imps("".join(v for f_, v in files.items() if "/" not in f_))
        while todo:
            x = todo.pop()
            if x not in reach:
                reach.add(x)
                todo += imps("".join(v for f_, v in files.items() if f_.startswith(x + "/")))
        libs = sorted(f_ for f_ in files if "/" in f_ and f_.endswith(".gom") and f_.split("/")[0] in reach)
        if not libs:
            continue
        target = rng.choice(libs)
        why, stmt = rng.choice(LIB_BAD)
        files[target] = files[target] + "\nstruct InjS { a: int32 }\nenum InjE { IA(int32), IB }\nfn injected_s() -> InjS { InjS { a: 1 } }\nfn injected_e() -> InjE { IB }\nfn injected_bad() -> unit {\n    %s\n    ()\n}\n" % stmt
        d = os.path.join(pbase, "g%03d" % i)
        for fn_, tx_ in files.items():
            os.makedirs(os.path.dirname(os.path.join(d, fn_)), exist_ok=True)
            with open(os.path.join(d, fn_), "w") as f_:
                f_.write(tx_)
        pj_inputs.append({"path": d + "/main.gom", "timeout_ms": 20000})
        pj_meta.append((why, target, files))
    stats["projects_with_an_error_in_an_imported_package"] = len(pj_inputs)
    try:
        pres = vlib.run_harness("compile", pj_inputs, shards=vlib.NCPU)
    except vlib.Hang as h:
        pres = []
        wits.append({"kind": "no result within the time limit (hang) on a project with an error in an imported package", "program": h.inputs[0]["path"], "entry": "pipeline::compile"})
    for (why, target, files), r in zip(pj_meta, pres):
        if "panic" in r or r.get("timeout"):
            wits.append({"kind": "%s instead of diagnostics (the error is in the imported package file %s: %s)" % ("panic: " + r["panic"][:160] if "panic" in r else "hang", target, why), "files": files, "program": files[target], "entry": "pipeline::compile"})
    shutil.rmtree(pbase, ignore_errors=True)
    # ---- S3: the command-line front end (rendering of diagnostics, check/build/link) ----
    from concurrent.futures import ThreadPoolExecutor
    croot = os.path.join(vlib.BUILD, "tmp", "c04cli")
    shutil.rmtree(croot, ignore_errors=True)
    cli_cases = []
    n_cli = 120 if run.tier == "quick" else 1200
    for i in range(n_cli):
        d = os.path.join(croot, "q%04d" % i)
        os.makedirs(os.path.join(d, "Lib"))
        k = rng.random()
        lib_body = rng.choice(texts)
        lib_body = "\n".join(l for l in lib_body.split("\n") if not l.startswith("fn main"))
        lib = "package Lib\n" + (mutate(rng, lib_body) if k < 0.7 else lib_body)
        extra = "package Main\n" + mutate(rng, rng.choice(texts)) if 0.4 < k < 0.8 else None
        main = "package Main\nimport Lib\nfn main() { () }\n" if k < 0.9 else mutate(rng, rng.choice(texts))
        files = {"main.gom": main, "Lib/lib.gom": lib}
        if extra:
            files["zextra.gom"] = extra
        for fn, tx in files.items():
            with open(os.path.join(d, fn), "w") as f:
                f.write(tx)
        if k < 0.8:
            args = ["run", "main.gom"]
        elif k < 0.87:
            args = ["check", "--package", "Lib", "--input", "Lib/lib.gom", "--output", "out"]
        elif k < 0.94:
            args = ["build", "--package", "Lib", "--input", "Lib/lib.gom", "--output", "out"]
        else:
            with open(os.path.join(d, "a.core"), "w") as f:
                f.write(mutate(rng, '{"format_version":1,"package":"Lib","items":[]}'))
            args = ["link", "--input", "a.core", "--output", "out.go"]
        cli_cases.append((d, args, files))
    for j, src in enumerate(["fn main() { " + "let _ = 1; " * 600 + "() }", "fn main() { let _ = " + "(" * 300 + "1" + ")" * 300 + "; () }"]):
        d = os.path.join(croot, "flat%d" % j)
        os.makedirs(d)
        with open(os.path.join(d, "main.gom"), "w") as f:
            f.write(src)
        cli_cases.append((d, ["run", "main.gom"], {"main.gom": src}))
    # programs that ask the typer for a cyclic (infinite) type in every way a type can contain another: function
    # parameter and result, tuple, array, Ref, Vec, generic struct and enum, closures returning themselves; each must end
    # in diagnostics. Run through the command line because a stack overflow cannot be caught in-process.
    for j, src in enumerate(typer_cycles(rng, 30 if run.tier == "quick" else 300)):
        d = os.path.join(croot, "cyc%03d" % j)
        os.makedirs(d)
        with open(os.path.join(d, "main.gom"), "w") as f:
            f.write(src)
        cli_cases.append((d, [rng.choice(["run", "run", "check"]), "main.gom"] if False else ["run", "main.gom"], {"main.gom": src}))
    vlib.build_cli()
    with ThreadPoolExecutor(max_workers=vlib.NCPU) as ex:
        cli_res = list(ex.map(lambda c: vlib.run_cli(c[1], c[0]), cli_cases))
    cli_stats = {}
    for (d, args, files), (kind, rc, err) in zip(cli_cases, cli_res):
        cli_stats[args[0] + ":" + kind] = cli_stats.get(args[0] + ":" + kind, 0) + 1
        if kind in ("panic", "signal", "hang"):
            wits.append({"kind": "command line `%s` ended by %s: %s" % (" ".join(args), kind, err[:300]), "files": files, "program": "".join(files.values()), "entry": "goml CLI"})
        elif kind == "error" and not err.strip():
            wits.append({"kind": "command line `%s` failed (exit %s) without any message" % (" ".join(args), rc), "files": files, "program": "".join(files.values()), "entry": "goml CLI"})
    shutil.rmtree(croot, ignore_errors=True)
    # ---- S4: damaged interface / core artifacts offered to check, build and link ------------------------------
    import copy

    lib_src = "package Lib\nstruct LS { v: int32 }\nenum LE { LX, LY(int32) }\ntrait LT { fn show(Self) -> string; }\nimpl LT for LS { fn show(self: LS) -> string { int32_to_string(self.v) } }\nfn l_mk(n: int32) -> LS { LS { v: n } }\nfn l_id[T](x: T) -> T { x }\n"
    main_src = "package Main\nimport Lib\nfn main() { string_println(Lib::LT::show(Lib::l_id(Lib::l_mk(3)))) }\n"
    base_ops = [{"op": "write", "path": "Lib/lib.gom", "text": lib_src}, {"op": "write", "path": "main.gom", "text": main_src}, {"op": "build", "pkg": "Lib", "inputs": ["Lib/lib.gom"]}]
    (pr,) = vlib.run_harness("sep", [{"dir": os.path.join(vlib.BUILD, "tmp", "c04art0"), "ops": base_ops + [{"op": "build", "pkg": "Main", "inputs": ["main.gom"]}, {"op": "read", "path": "out/Lib.interface"}, {"op": "read", "path": "out/Lib.core"}, {"op": "read", "path": "out/Main.core"}]}])
    arts = {"out/Lib.interface": pr["results"][-3].get("text"), "out/Lib.core": pr["results"][-2].get("text"), "out/Main.core": pr["results"][-1].get("text")}
    art_stats = {"cases": 0, "rejected": 0, "accepted": 0}

    def damage(text):
        k = rng.random()
        if k < 0.25:
            return text[: rng.randint(0, len(text))]
        if k < 0.35:
            i = rng.randint(0, len(text))
            return text[:i] + rng.choice(["}", "{", "[", "\"", ",", "null", "1e999", "\\u0000"]) + text[i:]
        try:
            j = json.loads(text)
        except ValueError:
            return text
        # structural damage at a random node
        nodes = []

        def walk(x, path_):
            nodes.append(path_)
            if isinstance(x, dict):
                for kk, vv in x.items():
                    walk(vv, path_ + [kk])
            elif isinstance(x, list):
                for ii, vv in enumerate(x):
                    walk(vv, path_ + [ii])

        walk(j, [])
        path_ = rng.choice(nodes)
        if not path_:
            return json.dumps(rng.choice([[], 1, "x", None, {}]))
        parent = j
        for step in path_[:-1]:
            parent = parent[step]
        last = path_[-1]
        choice = rng.random()
        if choice < 0.3:
            if isinstance(parent, dict):
                del parent[last]
            else:
                parent.pop(last)
        elif choice < 0.8:
            parent[last] = rng.choice([None, 0, -1, 18446744073709551615, "", "Lib", [], {}, True, [[]], {"TParam": {"name": "T"}}, "TInt32"])
        else:
            if isinstance(parent, list):
                parent.append(copy.deepcopy(parent[last]))
            else:
                parent["extra_" + str(last)] = copy.deepcopy(parent[last])
        return json.dumps(j)

    art_cases = []
    if all(arts.values()):
        for i in range(60 if run.tier == "quick" else 1500):
            which = rng.choice(sorted(arts))
            bad = damage(arts[which])
            ops = list(base_ops)
            if which == "out/Main.core":
                ops.append({"op": "build", "pkg": "Main", "inputs": ["main.gom"]})
            ops.append({"op": "write", "path": which, "text": bad})
            if which == "out/Lib.interface":
                ops += [{"op": "check", "pkg": "Main", "inputs": ["main.gom"]}, {"op": "build", "pkg": "Main", "inputs": ["main.gom"]}]
            elif which == "out/Lib.core":
                ops.append({"op": "build", "pkg": "Main", "inputs": ["main.gom"]})
            ops.append({"op": "link", "pkgs": ["Lib", "Main"]})
            art_cases.append((which, bad, {"dir": os.path.join(vlib.BUILD, "tmp", "c04art%d" % (i + 1)), "ops": ops}))
        # stale but well-formed: every entry of every table of the embedded interface removed (or the table emptied) while the
        # recorded hash stays — validation has to refuse it; nothing downstream may meet the inconsistent tables
        def tables(x, path_, acc):
            if isinstance(x, (dict, list)) and path_:
                acc.append(path_)
            if isinstance(x, dict):
                for kk, vv in x.items():
                    if len(path_) < 4:
                        tables(vv, path_ + [kk], acc)
            return acc

        n_sys = 0
        for which in sorted(arts):
            j0 = json.loads(arts[which])
            root_path = [] if which.endswith(".interface") else ["interface"]
            sub = j0
            for step in root_path:
                sub = sub[step]
            for tp in tables(sub, [], []):
                cont = sub
                for step in tp:
                    cont = cont[step]
                if not isinstance(cont, (dict, list)) or not cont:
                    continue
                keys = list(cont.keys()) if isinstance(cont, dict) else list(range(len(cont)))
                if len(keys) > 8 and run.tier == "quick":
                    keys = rng.sample(keys, 8)
                for kk in keys + [None]:
                    j = copy.deepcopy(j0)
                    c2 = j
                    for step in root_path + tp:
                        c2 = c2[step]
                    if kk is None:
                        c2.clear()
                    elif isinstance(c2, dict):
                        del c2[kk]
                    else:
                        c2.pop(kk)
                    bad = json.dumps(j)
                    ops = list(base_ops)
                    if which == "out/Main.core":
                        ops.append({"op": "build", "pkg": "Main", "inputs": ["main.gom"]})
                    ops.append({"op": "write", "path": which, "text": bad})
                    if which == "out/Lib.interface":
                        ops += [{"op": "check", "pkg": "Main", "inputs": ["main.gom"]}, {"op": "build", "pkg": "Main", "inputs": ["main.gom"]}]
                    elif which == "out/Lib.core":
                        ops.append({"op": "build", "pkg": "Main", "inputs": ["main.gom"]})
                    ops.append({"op": "link", "pkgs": ["Lib", "Main"]})
                    art_cases.append((which, bad, {"dir": os.path.join(vlib.BUILD, "tmp", "c04arts%d" % n_sys), "ops": ops}))
                    n_sys += 1
        art_stats["stale_table_cases"] = n_sys
        ares = vlib.run_harness("sep", [c[2] for c in art_cases], shards=vlib.NCPU, timeout=1800)
        for (which, bad, case), r in zip(art_cases, ares):
            art_stats["cases"] += 1
            after = r["results"][len(base_ops) :]
            if any("panic" in x for x in after):
                px = [x["panic"] for x in after if "panic" in x][0]
                wits.append({"kind": "a damaged %s made check/build/link panic: %s" % (which, px[:200]), "artifact": which, "program": bad, "entry": "separate::{check_package,build_package,read_core,link_cores}"})
            elif all(x.get("ok") for x in after):
                art_stats["accepted"] += 1
            else:
                art_stats["rejected"] += 1
    # ---- known findings -------------------------------------------------------
    known_inputs = {}
    for k in run.known:
        if k["replay"].get("kind") == "namegen-cases":
            import namegen as _ng

            still = []
            for tpl, role, nm in k["replay"]["cases"]:
                names = dict(_ng.PLAIN)
                names[role] = nm
                src_ = _ng.render(names, tpl)
                dk = os.path.join(vlib.BUILD, "tmp", "c04kn")
                shutil.rmtree(dk, ignore_errors=True)
                os.makedirs(dk)
                with open(os.path.join(dk, "main.gom"), "w") as f_:
                    f_.write(src_)
                (r,) = vlib.run_harness("compile", [{"path": os.path.join(dk, "main.gom"), "timeout_ms": 8000}])
                if acceptable(r):
                    still.append("%s:%s=%s" % (tpl, role, nm))
                    known_inputs["%s/%s/%s/%s" % (k["id"], tpl, role, nm)] = src_
                shutil.rmtree(dk, ignore_errors=True)
            if still:
                run.known_finding(k["id"], "%s: %s — still failing for %d listed choices: %s" % (k["id"], k["what"], len(still), ", ".join(still)))
            continue
        p = os.path.join(vlib.VERIF, k["replay"]["program"])
        (r,) = vlib.run_harness("compile", [{"path": p, "timeout_ms": 4000}])
        msg = acceptable(r)
        if msg:
            run.known_finding(k["id"], "%s: %s — %s (%s)" % (k["id"], k["what"], msg, k["replay"]["program"]))
            known_inputs[k["id"]] = open(p).read()
    # only the listed input itself is a known finding; any other hang or panic is reported
    wits = [w for w in wits if w.get("program") not in known_inputs.values()]
    run.add_cases(len(tins) + len(progs) + n_cli, len(set(tins)) + len(set(progs)) - 2 + n_cli, samples=[json.dumps(tins[300]), progs[0][:300], progs[n_mut][:80]])
    run.level = "exploration"
    run.cov["rule"] = (
        "S1: %d texts (exhaustive strings over a 26-symbol token alphabet up to length %d, corpus files, prefixes/deletions/insertions/CRLF conversions, token soups) through lexer+parser: no panic, diagnostic ranges inside the text; "
        "S2: %d mutated corpus programs (prefixes, deleted spans, inserted keywords/punctuation, swapped words, type/operator substitutions, duplicated lines) + bounded nesting (100 parentheses, 50 nested ifs, 1000 statements) through pipeline::compile on a thread with the command line's stack size (256 MiB) with an 8 s watchdog: "
        "the result must be success or >= 1 error diagnostic with every range inside the text; "
        "S3: %d multi-file projects (mutated dependency package, extra file in the root package, mutated entry) through the real command-line binary (run / check / build / link with a damaged core): no panic exit, no signal, no hang, a failure prints a message. distinct_nontrivial = distinct inputs"
        % (len(tins), 3 if run.tier == "quick" else 4, len(progs), n_cli)
    )
    run.cov["correspondence"] = {"damaged_artifacts": art_stats, "cli_results": cli_stats, "compile_results": stats, "texts": len(tins), "programs": len(progs)}
    run.cov["proved_parts"] = ["multi-line string scanner never indexes out of bounds and never bumps mid-character (C12 multiline_scanner_safe)", "the match-compiler model reaches a panic site only through KPanic results that the first-match theorem's hypothesis names (C06)"]
    run.cov["open_obligations"] = ["termination and panic-freedom of the recursive-descent parser, AST lowering, typer, mono, lift, ANF and the Go backend are explored, not proved", "check/build/link with corrupted artifacts are exercised under C15"]
    run.assumptions = ["a hang is observed as no result within 8 s"]
    if wits:
        for w in sorted(wits, key=lambda w: len(w.get("program", "") or w.get("text", "")))[:3]:
            run.violation(w)
    elif broken:
        run.violation({"broken": [b.what for b in broken], "detail": [b.detail for b in broken]}, no_input=True)


def replay(run, path):
    with open(path) as f:
        w = json.load(f)
    print(json.dumps(w, indent=1)[:2000])
    return 0
