"""C17 — all call forms of a method agree; coercion needs a visible impl; ambiguity is rejected."""
import json
import os
import shutil

import callgen
import semrun
import vlib
from vlib import Broken


def write_proj(root, files):
    for fn, tx in files.items():
        os.makedirs(os.path.dirname(os.path.join(root, fn)), exist_ok=True)
        with open(os.path.join(root, fn), "w") as f:
            f.write(tx)


def check(run):
    run.level = "translation_validation"
    broken = []
    try:
        vlib.proof_stage(run, "C17", ["C01/Properties.v"], pins="C01")
    except Broken as b:
        broken.append(b)
    rng = run.sub_rng("c17")
    n = 40 if run.tier == "quick" else 800
    base = os.path.join(vlib.BUILD, "tmp", "c17")
    shutil.rmtree(base, ignore_errors=True)
    projs, plains, negs, forms = [], [], [], {}
    for i in range(n):
        g = callgen.Gen(rng)
        files, plain, fu = g.project(n_calls=rng.choice([6, 10]))
        for k, v in fu.items():
            forms[k] = forms.get(k, 0) + v
        d = os.path.join(base, "g%04d" % i)
        write_proj(d, files)
        dm = os.path.join(base, "m%04d" % i)
        write_proj(dm, {"main.gom": plain})
        projs.append((d + "/main.gom", files))
        plains.append((dm + "/main.gom", plain))
        for j, (why, nf) in enumerate(g.negatives()):
            dn = os.path.join(base, "n%04d_%d" % (i, j))
            write_proj(dn, nf)
            negs.append((dn + "/main.gom", why, nf))
    wits = []
    stats = {"projects": n, "agree": 0, "negatives": len(negs), "negatives_rejected": 0}
    try:
        res = semrun.compare("c17", [p for p, _ in plains], src_stage="tast", go_paths=[p for p, _ in projs])
        for (pp, files), (pm, plain), r in zip(projs, plains, res):
            st = r["status"]
            if st == "agree":
                stats["agree"] += 1
                continue
            stats[st] = stats.get(st, 0) + 1
            if st == "skipped":
                continue
            kind = {
                "differ": "a call form ran other code than the implementation for the receiver's type (outputs differ from direct calls)",
                "go-stuck": "the Go emitted for the project is not executable in the Go model (undefined or ill-typed name)",
                "panic": "the compiler panicked or did not answer",
                "rejected": "a project using only applicable call forms was rejected" if r.get("side") == "go" else "the direct-call reference program was rejected",
                "src-stuck": "the direct-call reference program is stuck in the source model",
                "conv-error": "an IR dump has a shape the model cannot read",
            }[st]
            w = {"kind": kind, "status": st, "files": files, "reference_program": plain}
            if st in ("rejected", "panic"):
                w["impl"] = r.get("compile")
            wits.append(w)
        nres = vlib.run_harness("compile", [{"path": p, "timeout_ms": 20000} for p, _, _ in negs], shards=vlib.NCPU)
        for (p, why, nf), r in zip(negs, nres):
            if r.get("ok"):
                wits.append({"kind": "accepted although it must be rejected: " + why, "files": nf})
            elif "panic" in r or r.get("timeout"):
                wits.append({"kind": "panic/hang instead of a diagnostic: " + why, "files": nf, "impl": {k: v for k, v in r.items() if k != "go"}})
            else:
                stats["negatives_rejected"] += 1
    except Broken as b:
        broken.append(b)
    shutil.rmtree(base, ignore_errors=True)
    run.add_cases(n + len(negs), stats["agree"] + stats["negatives_rejected"], samples=[projs[0][1]["main.gom"][-700:]])
    run.cov["rule"] = (
        "three-package projects (LibA: trait Show + types, LibB: another trait Show + type, Main: trait Tr, struct, generic struct) with a random impl matrix over 3 traits x 10 receiver types "
        "(primitives, tuple, own/foreign structs and enums, generic instances; impls placed in any package the orphan rule allows); every chosen (trait, type, method) is called through all applicable forms: "
        "Tr::m(x,a) concrete, x.m(a) and Tr::m(x,a) through a T: Tr bound (alone and combined with other bounds, both orders), Tr::m(d,a) on let-coerced dyn, dyn coercion at an argument; inherent x.m(a) / T::m(x,a). "
        "Reference: a single-package trait-free program calling each impl body as a plain function (Sem/Src.v at the typed tree); the project's Go (Sem/GoSem.v) must print the same. "
        "Negatives (one each): dyn coercion / UFCS without impl, ambiguous dot call through two bounds sharing the method name (incl. two traits both named Show), UFCS through a bound that does not name the trait - each must be rejected. distinct_nontrivial = agreeing projects + rejected negatives"
    )
    run.cov["correspondence"] = {"stats": stats, "call_forms_exercised": forms}
    run.cov["open_obligations"] = ["no theorem about the typer's method resolution; per-program validation only", "an unsatisfied trait bound at a generic call site is accepted (recorded under C03/C02), so it is not among the negatives here"]
    run.assumptions = ["the direct-call program is the meaning of 'the implementation for the receiver's type'"]
    for k in run.known:
        if k["replay"]["kind"] == "call-form-rejected":
            (r,) = vlib.run_harness("compile", [{"path": os.path.join(vlib.VERIF, k["replay"]["program"]), "timeout_ms": 20000}])
            if not r.get("ok") and any("Method" in d["message"] and "not found" in d["message"] for d in (r.get("diagnostics") or [])):
                run.known_finding(k["id"], "%s: %s (%s)" % (k["id"], k["what"], k["replay"]["program"]))
    if wits:
        for w in wits[:3]:
            run.violation(w)
    elif broken:
        run.violation({"broken": [b.what for b in broken], "detail": [b.detail for b in broken]}, no_input=True)


def replay(run, path):
    with open(path) as f:
        w = json.load(f)
    print(json.dumps(w, indent=1)[:4000])
    return 0
