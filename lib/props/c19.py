"""C19 — generated names are unique and never capture Go or runtime names."""
import itertools
import json
import os
import re
import sys

import vlib
from vlib import Broken

sys.path.insert(0, os.path.join(vlib.VERIF, "translate"))

GO_KEYWORDS = """break default func interface select case defer go map struct chan else goto package
switch const fallthrough if range type continue for import return var""".split()

ALPHABET = [97, 95, 48, 120, 35, 103, 111, 233, 47]
BOUNDARY = [0, 1, 31, 32, 34, 45, 46, 64, 91, 96, 123, 127, 128, 255, 2047, 2048, 0xD7FF, 0xE000, 0xFFFF, 0x10000, 0x1F600, 0x10FFFF]


def gen_cases(run):
    maxlen = 4 if run.tier == "quick" else 5
    cases = [[]]
    for n in range(1, maxlen + 1):
        for t in itertools.product(ALPHABET, repeat=n):
            cases.append(list(t))
    n_exh = len(cases)
    for k in GO_KEYWORDS:
        b = [ord(c) for c in k]
        cases.append(b)
        cases.append(b + [95])
        cases.append(b[:-1])
        cases.append([ord(k[0]) - 32] + b[1:])
        cases.append(b + [35] + b)
    for c in BOUNDARY:
        cases.append([c])
        cases.append([97, c, 98])
    rng = run.sub_rng("c19-random")
    nrand = 600 if run.tier == "quick" else 6000
    for _ in range(nrand):
        n = rng.randint(1, 12)
        s = []
        for _ in range(n):
            k = rng.random()
            if k < 0.55:
                s.append(rng.choice(b"abcxyzABZ019_#"))
            elif k < 0.8:
                s.append(rng.randint(0, 127))
            else:
                c = rng.choice([rng.randint(128, 0x7FF), rng.randint(0x800, 0xD7FF), rng.randint(0xE000, 0xFFFF), rng.randint(0x10000, 0x10FFFF)])
                s.append(c)
        cases.append(s)
    return cases, n_exh


def model_mismatches(cases, outs, name="c19"):
    """Compare inside Coq: returns indices where model go_ident differs from impl."""
    shards = []
    idx = list(range(len(cases)))
    per = 800
    chunks = [idx[i : i + per] for i in range(0, len(idx), per)]
    texts = []
    for ch in chunks:
        rows = []
        for i in ch:
            rows.append("(%s,%s)" % (vlib.coq_Nlist(cases[i]).replace("%N", ""), vlib.coq_Nlist(outs[i]).replace("%N", "")))
        texts.append(
            "From Goml Require Import Common.Base C19.Model.\n"
            "Definition cases : list (str * str) := [\n%s\n]%%N.\n"
            "Eval vm_compute in (mismatches list_eqb go_ident cases).\n" % ";\n".join(rows)
        )
    results = vlib.coq_eval_many(name, texts)
    bad = []
    for ch, out in zip(chunks, results):
        for j in vlib.parse_nat_list(out):
            bad.append(ch[j])
    return bad


IDENT_RE = re.compile(r"\A[A-Za-z_][A-Za-z0-9_]*\Z")


def property_search(cases, outs):
    """Evaluate C19's statement directly on the implementation's outputs."""
    wit = []
    seen = {}
    for s, o in zip(cases, outs):
        txt = bytes(o).decode("utf-8", "replace")
        src = "".join(chr(c) for c in s)
        if not IDENT_RE.match(txt) or txt in GO_KEYWORDS:
            wit.append({"kind": "illegal-go-identifier", "input_codepoints": s, "input": src, "go_ident": txt})
            continue
        if re.match(r"\A[A-Za-z][A-Za-z0-9_]*\Z", src) and src not in GO_KEYWORDS and txt != src:
            wit.append({"kind": "user-identifier-not-verbatim", "input": src, "go_ident": txt})
        if all((chr(c).isascii() and chr(c).isalnum()) or c == 35 for c in s):
            if txt in seen and seen[txt] != s:
                wit.append({"kind": "collision-on-letters-digits-hash", "inputs": [seen[txt], s], "go_ident": txt})
            seen.setdefault(txt, s)
    return wit


def program_stage(run, wits, broken):
    """program level: one adversarial identifier at a time in a program that uses every kind of user-named entity; the emitted
    Go must be accepted by the Go checker model and behave like the same program with plain names"""
    sys.path.insert(0, os.path.dirname(os.path.abspath(__file__)))
    import c02
    import go2coq
    import namegen
    import rustdbg
    import semrun

    rng = run.sub_rng("c19-programs")
    cs = namegen.cases(rng, 40 if run.tier == "quick" else 1500, full=run.tier != "quick")
    st = {"programs": len(cs), "accepted": 0, "rejected": 0, "go_checker_clean": 0, "behave_like_plain_names": 0, "known_collisions": 0, "outside_model": 0}
    root, paths = semrun.write_programs("c19n", [t for _, _, _, t in cs])
    res = vlib.run_harness("compile", [{"path": p_, "dumps": ["go_dbg"], "timeout_ms": 20000} for p_ in paths], shards=vlib.NCPU)
    known = {}
    for k in run.known:
        if k["replay"]["kind"] == "name-collision":
            for tpl, role, nm in k["replay"]["cases"]:
                known[(tpl, role, nm)] = k["id"]
    hit = {}
    fails = {}  # index -> description

    def record(i, what):
        fails.setdefault(i, what)

    acc = []
    for i, ((tpl, role, nm, t), r) in enumerate(zip(cs, res)):
        if "panic" in r or r.get("timeout"):
            record(i, "the compiler panicked or did not answer: %s" % str(r.get("panic", "timeout"))[:160])
        elif r.get("ok"):
            st["accepted"] += 1
            acc.append(i)
        else:
            st["rejected"] += 1
            if role is None:
                broken.append(Broken("generator", "C19 program stage: the plain-named template %s is rejected" % tpl))
    # the Go checker model, in batches: the code of the first finding of each program (0 = none)
    per = 24
    hdr = "From Goml Require Import Common.Base Sem.GoAst C02.GoCheck.\nOpen Scope N_scope.\n"
    texts = []
    for k0 in range(0, len(acc), per):
        g = acc[k0 : k0 + per]
        texts.append(hdr + "".join("Definition f%d := %s.\n" % (i, go2coq.file(rustdbg.parse(res[i]["dumps"]["go_dbg"]))) for i in g)
                     + "Eval vm_compute in [%s].\n" % "; ".join("match go_wf f%d with [] => 0 | (_, (c, _)) :: _ => c end" % i for i in g))
    codes = []
    for o in vlib.coq_eval_many("c19n", texts, timeout=1500):
        codes += vlib.parse_nat_list(o)
    if len(codes) != len(acc):
        raise Broken("coq-output", "C19 program stage: %d checker results for %d programs" % (len(codes), len(acc)))
    for i, code in zip(acc, codes):
        if code:
            record(i, "Go would reject the emitted program: %s" % c02.CODES.get(code, code))
        else:
            st["go_checker_clean"] += 1
    # behaviour under the Go model, compared with the plain-named program of the same template
    outs = semrun.go_outputs("c19p", [paths[i] for i in acc], per=16)
    plain = {cs[i][0]: o for i, o in zip(acc, outs) if cs[i][1] is None}
    for i, o in zip(acc, outs):
        ref = plain.get(cs[i][0])
        if ref is None or o.get("status") != "ok" or ref.get("status") != "ok":
            st["outside_model"] += 1
            continue
        e = o.get("ending", "").replace("GoSem.", "")
        ref = dict(ref, ending=ref.get("ending", "").replace("GoSem.", ""))
        if e.startswith("EStuck"):
            record(i, "the emitted Go of the renamed program is not executable in the Go model (undefined, shadowed or ill-typed name)")
        elif e.startswith("EUnsupported") or e.startswith("EFuel"):
            st["outside_model"] += 1
        elif o["stdout"] == ref["stdout"] and e.split()[0:1] == ref.get("ending", "").split()[0:1]:
            st["behave_like_plain_names"] += 1
        else:
            record(i, "the renamed program behaves differently from the program with plain names (prints %r, plain names print %r)" % (o["stdout"][:80], ref["stdout"][:80]))
    # the plain-named programs themselves must mean what their source says (typed tree vs emitted Go), otherwise
    # "behaves like the plain-named program" would compare a defect with itself
    plain_idx = [i for i in acc if cs[i][1] is None]
    for i, r in zip(plain_idx, semrun.compare("c19plain", [paths[i] for i in plain_idx], src_stage="tast")):
        if r["status"] != "agree":
            record(i, "the plain-named program: typed source and emitted Go %s" % r["status"])
            cs[i] = (cs[i][0], "plain", "plain", cs[i][3])
    for i, what in sorted(fails.items()):
        tpl, role, nm, t = cs[i]
        roles, nms = role.split("+"), nm.split(",")
        ks = [known.get((tpl, r_, n_)) for r_, n_ in zip(roles, nms)]
        kid = next((k for k in ks if k), None)
        if kid:
            st["known_collisions"] += 1
            hit.setdefault(kid, []).append("%s:%s=%s" % (tpl, role, nm))
        else:
            wits.append({"kind": "user identifier `%s` (role %s of template %s): %s" % (nm, role, tpl, what), "program": t, "go_text": res[i].get("go")})
    for k in run.known:
        if k["id"] in hit:
            run.known_finding(k["id"], "%s: %s — still failing for %d listed choices, e.g. %s" % (k["id"], k["what"], len(hit[k["id"]]), ", ".join(hit[k["id"]][:4])))
    import shutil

    shutil.rmtree(root, ignore_errors=True)
    return st


TN_TYPES = [
    ("int32", "1"), ("bool", "true"), ("string", '"s"'), ("[int32; 2]", "[1, 2]"), ("[int32; 3]", "[1, 2, 3]"), ("[bool; 2]", "[true, false]"), ("[[int32; 2]; 2]", "[[1, 2], [3, 4]]"),
    ("[[int32; 2]; 3]", "[[1, 2], [3, 4], [5, 6]]"), ("[[int32; 3]; 2]", "[[1, 2, 3], [4, 5, 6]]"), ("Vec[int32]", "mkvi()"), ("Vec[bool]", "mkvb()"), ("Vec[[int32; 2]]", "mkva2()"), ("Vec[[int32; 3]]", "mkva3()"),
    ("Vec[Vec[int32]]", "mkvv()"), ("Ref[int32]", "ref(1)"), ("Ref[bool]", "ref(true)"), ("Ref[[int32; 2]]", "ref([1, 2])"), ("Ref[Vec[int32]]", "ref(mkvi())"), ("(int32, bool)", "(1, true)"), ("(bool, int32)", "(true, 1)"),
    ("((int32, bool), string)", '((1, true), "s")'), ("(int32, (bool, string))", '(1, (true, "s"))'), ("(int32, bool, string)", '(1, true, "s")'), ("Bq[int32]", "Bq { v: 1 }"), ("Bq[bool]", "Bq { v: true }"),
    ("Bq[(int32, bool)]", "Bq { v: (1, true) }"), ("Bq[[int32; 2]]", "Bq { v: [1, 2] }"), ("Bq[Bq[int32]]", "Bq { v: Bq { v: 1 } }"), ("Pq", "Pq { a: 1 }"), ("Eq", "Eqa"), ("(int32) -> int32", "idq"), ("(int32) -> bool", "posq"),
    ("(int32, int32) -> int32", "addq"), ("((int32) -> int32, int32)", "(idq, 1)"), ("dyn Tq", "dq"),
    ("Oq[int32]", "Sq(1)"), ("Oq[bool]", "Sq(true)"), ("Oq[Oq[int32]]", "Sq(Sq(1))"), ("Oq[Bq[int32]]", "Sq(Bq { v: 1 })"),
    ("((int32, int32), int32, int32)", "((1, 2), 3, 4)"), ("((int32, int32, int32), int32)", "((1, 2, 3), 4)"), ("(int32, (int32, int32), int32)", "(1, (2, 3), 4)"),
    # function types that differ only in where an (empty) parameter list sits
    ("() -> int32", "sevq"), ("() -> (int32) -> int32", "mkfq"), ("(() -> int32) -> int32", "appq"), ("(int32) -> () -> int32", "constq"), ("() -> () -> int32", "mk0q"), ("(unit) -> int32", "unitq"),
]


TN_FAMILIES = [
    ["[int32; 2]", "[int32; 3]", "[bool; 2]"], ["[[int32; 2]; 2]", "[[int32; 2]; 3]", "[[int32; 3]; 2]"], ["Vec[[int32; 2]]", "Vec[[int32; 3]]", "Vec[Vec[int32]]", "Vec[int32]"],
    ["Ref[int32]", "Ref[bool]", "Ref[[int32; 2]]", "Ref[Vec[int32]]"], ["(int32, bool)", "(bool, int32)", "(int32, bool, string)"], ["((int32, bool), string)", "(int32, (bool, string))", "(int32, bool, string)"],
    ["Bq[int32]", "Bq[bool]", "Bq[(int32, bool)]", "Bq[[int32; 2]]", "Bq[Bq[int32]]"], ["(int32) -> int32", "(int32) -> bool", "(int32, int32) -> int32"], ["int32", "bool", "string", "Pq", "Eq", "dyn Tq"],
    ["((int32, int32), int32, int32)", "((int32, int32, int32), int32)", "(int32, (int32, int32), int32)"],
    ["Oq[int32]", "Oq[bool]", "Oq[Oq[int32]]", "Oq[Bq[int32]]"],
    ["() -> (int32) -> int32", "(() -> int32) -> int32", "(int32) -> () -> int32", "() -> () -> int32"], ["() -> int32", "(unit) -> int32", "(int32) -> int32"],
]


def typename_program(rng, n):
    """n functions, each taking a tuple of two types drawn from structurally confusable types: every distinct type must get its own Go name"""
    head = ("struct Bq[T] { v: T }\nenum Oq[T] { Nq, Sq(T) }\nstruct Pq { a: int32 }\nenum Eq { Eqa, Eqb(int32) }\ntrait Tq { fn tq(Self) -> int32; }\nimpl Tq for int32 { fn tq(self: int32) -> int32 { self } }\n"
            "fn idq(x: int32) -> int32 { x }\nfn sevq() -> int32 { 7 }\nfn mkfq() -> (int32) -> int32 { idq }\nfn appq(g: () -> int32) -> int32 { g() }\nfn constq(x: int32) -> () -> int32 { sevq }\nfn mk0q() -> () -> int32 { sevq }\nfn unitq(u: unit) -> int32 { 1 }\nfn posq(x: int32) -> bool { x > 0 }\nfn addq(x: int32, y: int32) -> int32 { x + y }\n"
            "fn mkvi() -> Vec[int32] { vec_new() }\nfn mkvb() -> Vec[bool] { vec_new() }\nfn mkva2() -> Vec[[int32; 2]] { vec_new() }\nfn mkva3() -> Vec[[int32; 3]] { vec_new() }\nfn mkvv() -> Vec[Vec[int32]] { vec_new() }\n")
    fns, calls = [], ["    let dq: dyn Tq = 5;"]
    # half of the functions come in pairs that differ in ONE component by a sibling type (same shape, other length /
    # element / nesting), so that a name that forgets that detail collides inside one program
    plan = []
    while len(plan) < n:
        if rng.random() < 0.6:
            fam = rng.choice(TN_FAMILIES)
            a_, b_ = rng.sample(fam, 2)
            other = rng.choice(TN_TYPES)
            shape = rng.choice(["pair", "pair", "triple", "nested", "vec", "ref", "arr"])
            first = rng.random() < 0.5
            hk = rng.choice(["ref", "array", "vec", "ref", "array", "vec", None])  # both siblings get the same per-type helper
            for x_ in (a_, b_):
                tx = next(t for t in TN_TYPES if t[0] == x_)
                plan.append(((tx, other) if first else (other, tx), shape, hk, 0 if first else 1))
        else:
            plan.append(((rng.choice(TN_TYPES), rng.choice(TN_TYPES)), rng.choice(["pair", "pair", "triple", "nested", "vec", "ref", "arr"]), rng.choice(["ref", "array", "vec", None, None, None]), 0))
    for i, (((t1, v1), (t2, v2)), shape, hk, hpos) in enumerate(plan):
        if shape == "pair":
            ty, val = "(%s, %s)" % (t1, t2), "(%s, %s)" % (v1, v2)
        elif shape == "triple":
            ty, val = "(%s, %s, int32)" % (t1, t2), "(%s, %s, 1)" % (v1, v2)
        elif shape == "nested":
            ty, val = "((%s, %s), %s)" % (t1, t2, t1), "((%s, %s), %s)" % (v1, v2, v1)
        elif shape == "vec":
            ty, val = "(Vec[%s], %s)" % (t1, t2), None
        elif shape == "ref":
            ty, val = "(Ref[%s], %s)" % (t1, t2), "(ref(%s), %s)" % (v1, v2)
        else:
            ty, val = "([%s; 2], %s)" % (t1, t2), "([%s, %s], %s)" % (v1, v1, v2)
        if val is None:
            fns.append("fn mk%d() -> Vec[%s] { vec_new() }\nfn tn%d(t: %s) -> int32 { %d }" % (i, t1, i, ty, i))
            calls.append("    let _ = string_println(int32_to_string(tn%d((mk%d(), %s))));" % (i, i, v2))
        else:
            fns.append("fn tn%d(t: %s) -> int32 { %d }" % (i, ty, i))
            calls.append("    let _ = string_println(int32_to_string(tn%d(%s)));" % (i, val))
        # the per-type runtime helpers (ref/ref_get/ref_set, array_get/array_set, vec_push/vec_get/vec_len) at this type:
        # their Go names are built from the type as well
        if hk is not None:
            k_ = hk
            if hpos == 1:
                t1, v1 = t2, v2
            if k_ == "ref":
                calls.append("    let hr%d = ref(%s); let _ = ref_set(hr%d, ref_get(hr%d));" % (i, v1, i, i))
            elif k_ == "array":
                calls.append("    let ha%d = [%s, %s]; let hb%d = array_set(ha%d, 0, array_get(ha%d, 1));" % (i, v1, v1, i, i, i))
            else:
                calls.append("    let hv%d: Vec[%s] = vec_new(); let hv%d = vec_push(hv%d, %s); let _ = (vec_len(hv%d), vec_get(hv%d, 0));" % (i, t1, i, i, v1, i, i))
    return head + "\n".join(fns) + "\nfn main() {\n" + "\n".join(calls) + "\n    ()\n}\n"


def typename_stage(run, wits, broken):
    """distinct types get distinct Go type names (and Go would accept the declarations)"""
    import c02
    import go2coq
    import rustdbg
    import semrun

    rng = run.sub_rng("c19-typenames")
    progs = [typename_program(rng, rng.randint(4, 10)) for _ in range(30 if run.tier == "quick" else 500)]
    for fixed_ in ("tuple_arity", "fn_arity"):  # minimized programs of repaired collisions run first
        progs.insert(0, open(os.path.join(vlib.VERIF, "corpus", "C19", fixed_, "main.gom")).read())
    root, paths = semrun.write_programs("c19tn", progs)
    res = vlib.run_harness("compile", [{"path": p_, "dumps": ["go_dbg"], "timeout_ms": 20000} for p_ in paths], shards=vlib.NCPU)
    st = {"programs": len(progs), "accepted": 0, "clean": 0}
    texts, idx = [], []
    for i, (src_, r) in enumerate(zip(progs, res)):
        if "panic" in r or r.get("timeout"):
            wits.append({"kind": "the compiler panicked on a program that only names types: " + str(r.get("panic", "timeout"))[:200], "program": src_})
            continue
        if not r.get("ok"):
            continue  # (a closure-typed position and the like may be rejected; acceptance is not judged here)
        st["accepted"] += 1
        names = re.findall(r"^type (\w+) ", r["go"], re.M)
        dup = sorted(x for x in set(names) if names.count(x) > 1)
        if dup:
            wits.append({"kind": "two different types are emitted under the Go type name %s" % dup[0], "program": src_})
            continue
        try:
            texts.append("Definition f%d := %s.\n" % (len(texts), go2coq.file(rustdbg.parse(r["dumps"]["go_dbg"]))))
            idx.append(i)
        except (go2coq.Conv, KeyError, AssertionError):
            pass
    per_ = 12
    hdr = "From Goml Require Import Common.Base Sem.GoAst C02.GoCheck.\nOpen Scope N_scope.\n"
    codes = []
    for o in vlib.coq_eval_many("c19tn", [hdr + "".join(texts[k : k + per_]) + "Eval vm_compute in [%s].\n" % "; ".join("match go_wf f%d with [] => 0 | (_, (c, _)) :: _ => c end" % j for j in range(k, min(k + per_, len(texts)))) for k in range(0, len(texts), per_)], timeout=1500):
        codes += vlib.parse_nat_list(o)
    for i, code in zip(idx, codes):
        if code:
            wits.append({"kind": "Go would reject the type declarations or their uses: %s" % c02.CODES.get(code, code), "program": progs[i]})
        else:
            st["clean"] += 1
    import shutil

    shutil.rmtree(root, ignore_errors=True)
    if st["accepted"] * 2 < len(progs):
        broken.append(Broken("generator", "C19 type names: fewer than half of the programs are accepted (%d of %d)" % (st["accepted"], len(progs))))
    return st


def replay_known(run):
    for k in run.known:
        kid = k["id"]
        if k["replay"]["kind"] == "go-ident-collision":
            a, b = k["replay"]["inputs"]
            oa, ob = vlib.run_harness("go-ident", [[ord(c) for c in a], [ord(c) for c in b]])
            if oa.get("out") == ob.get("out"):
                run.known_finding(kid, "%s: go_ident(%r) == go_ident(%r) == %r" % (kid, a, b, bytes(oa["out"]).decode()))
        elif k["replay"]["kind"] == "type-name-collision":
            (res,) = vlib.run_harness("compile", [{"path": os.path.join(vlib.VERIF, k["replay"]["program"])}])
            if res.get("ok"):
                names = re.findall(r"^type (\w+) ", res["go"], re.M)
                dup = sorted(x for x in set(names) if names.count(x) > 1)
                if dup:
                    run.known_finding(kid, "%s: %s (%s declares %s twice)" % (kid, k["what"], k["replay"]["program"], dup[0]))
        elif k["replay"]["kind"] == "gensym-capture":
            p = os.path.join(vlib.VERIF, k["replay"]["program"])
            (res,) = vlib.run_harness("compile", [{"path": p}])
            fn = k["replay"]["function"]
            if res.get("ok") and re.search(r"^func %s\(" % fn, res["go"], re.M) and re.search(r"^\s+var %s \S+ =" % fn, res["go"], re.M):
                run.known_finding(kid, "%s: user function `%s` is shadowed by compiler temporary `%s` in emitted Go (%s)" % (kid, fn, fn, k["replay"]["program"]))


def check(run):
    broken = []
    try:
        import go_keywords
        import gensym_prefixes

        kws = go_keywords.run()
        prefixes = gensym_prefixes.run()
        run.cov["correspondence"]["translated_tables"] = {"go_keywords": kws, "gensym_prefixes": prefixes}
        vlib.proof_stage(run, "C19", ["C19/Properties.v"])
    except Broken as b:
        broken.append(b)
    cases, n_exh = gen_cases(run)
    outs_raw = vlib.run_harness("go-ident", cases)
    outs = []
    panics = []
    for c, o in zip(cases, outs_raw):
        if "panic" in o:
            panics.append(c)
            outs.append([])
        else:
            outs.append(o["out"])
    mism = []
    try:
        mism = model_mismatches(cases, outs)
    except Broken as b:
        broken.append(b)
    wits = property_search(cases, outs)
    for c in panics:
        wits.append({"kind": "panic", "input_codepoints": c})
    nontriv = len({tuple(c) for c, o in zip(cases, outs) if o != c})
    run.add_cases(
        len(cases),
        nontriv,
        samples=[{"input": "".join(chr(x) for x in cases[i]), "go_ident": bytes(outs[i]).decode("utf-8", "replace")} for i in (7, 300, n_exh + 3, len(cases) - 1)],
    )
    run.cov["rule"] = (
        "go_ident: all strings over the code points %s up to length %d (%d, exhaustive) + Go keywords and one-edit variants + boundary code points + %d random scalar-value strings; "
        "non-trivial = the implementation's output differs from the input (the name had to be escaped); each case is compared with the Coq model inside coqc"
        % (ALPHABET, 4 if run.tier == "quick" else 5, n_exh, len(cases) - n_exh)
    )
    run.cov["exhaustive"] = False
    run.cov["correspondence"]["go_ident_cases"] = len(cases)
    run.cov["correspondence"]["go_ident_mismatches"] = len(mism)
    run.cov["correspondence"]["distribution"] = {
        "identity": sum(1 for c, o in zip(cases, outs) if o == c),
        "escaped": sum(1 for c, o in zip(cases, outs) if o != c),
        "non_ascii": sum(1 for c in cases if any(x > 127 for x in c)),
    }
    run.cov["open_obligations"] = [
        "encode_ty / go_type_name_for / ty_compact injectivity (type-name helpers) is not modelled yet",
        "uniqueness of declared identifiers across a whole emitted Go file is checked per program under C02, not proved",
    ]
    run.assumptions = [
        "Gensym counter stays below 2^31 (i32 counter; overflow panics in debug builds)",
        "goml identifiers follow the lexer regex [A-Za-z][A-Za-z_0-9]*",
    ]
    replay_known(run)
    try:
        run.cov["correspondence"]["programs_with_adversarial_names"] = program_stage(run, wits, broken)
    except Broken as b:
        broken.append(b)
    try:
        run.cov["correspondence"]["type_names"] = typename_stage(run, wits, broken)
    except Broken as b:
        broken.append(b)
    run.cov["rule"] += (
        "; program level: a program with a struct, enum, trait, impl, inherent method, functions, parameters, locals, a closure, a tuple and a trait object "
        "(with and without Vec/Ref/string runtime helpers) in which ONE user identifier at a time is replaced by a Go keyword, a Go predeclared identifier, a runtime helper name, "
        "a compiler temporary (t12, x0, mtmp1, ret5, ...), a name ending in `main`, a name of the shape of a mangled local (vq__8) or the name of a helper the compiler generates from the other names "
        "(dyn__Tr__wrap__S__m, closure_env_c_0, Tuple2_int32_S, a variant's name), plus random pairs of such choices: when accepted, the emitted Go must pass the Go checker model (go_wf) and behave like the plain-named program under Sem/GoSem.v"
    )
    if wits:
        for w in wits[:3]:
            w["replay_cmd"] = "echo '<json array of code points>' | _build/cargo/debug/gomlv go-ident"
            run.violation(w)
    elif mism or broken:
        run.violation(
            {
                "broken": [b.what for b in broken] + (["correspondence go_ident model vs implementation"] if mism else []),
                "detail": [b.detail for b in broken],
                "mismatching_inputs": [{"input_codepoints": cases[i], "impl": outs[i]} for i in mism[:10]],
                "theorems_no_longer_shown": ["go_ident_legal", "go_ident_identity", "go_ident_injective_partial"],
            },
            no_input=True,
        )


def replay(run, path):
    with open(path) as f:
        w = json.load(f)
    if "input_codepoints" in w:
        (o,) = vlib.run_harness("go-ident", [w["input_codepoints"]])
        print(json.dumps({"input": w["input_codepoints"], "impl": o}))
    else:
        print(json.dumps(w, indent=1))
    return 0
