"""C08 — closures keep their lexical meaning after lambda lifting."""
import json

import genprog
import semcheck
import semrun
import vlib
from vlib import Broken


def check(run):
    run.level = "translation_validation"
    broken = []
    try:
        vlib.proof_stage(run, "C08", ["C01/Properties.v"], pins="C01")
    except Broken as b:
        broken.append(b)
    wits, stats, cstats, srcs = [], {}, None, []
    try:
        crng = run.sub_rng("C08-closures")
        extra = [genprog.closure_program(crng) for _ in range(150 if run.tier == "quick" else 3000)]
        import matrixgen
        extra += matrixgen.sources(run, "c08", subset="closure")
        wits, stats, cstats, srcs = semcheck.run_semantic_check(run, "C08", 40, 600, features={"closure", "ref", "match", "while", "tuple", "struct", "string", "dyn", "bare"}, with_corpus=False, extra_sources=extra)
    except Broken as b:
        broken.append(b)
    # known finding: a closure passed to a function-typed parameter
    for k in run.known:
        if k["replay"]["kind"] == "closure-as-argument":
            p = vlib.VERIF + "/" + k["replay"]["program"]
            r = semrun.compare("c08kf", [p], src_stage="tast")[0]
            if r["status"] in ("go-stuck", "differ", "conv-error"):
                run.known_finding(k["id"], "%s: %s (%s): %s" % (k["id"], k["what"][:140], k["replay"]["program"], r["status"]))
    n = stats.get("generated", 0)
    run.add_cases(n, stats.get("agree", 0), samples=[s[s.index("fn main") :][:700] for s in srcs[-3:]])
    run.cov["programs"] = n
    run.cov["disagreements_checked"] = n
    run.cov["rule"] = (
        "closure-focused programs: every captured variable (int, bool, string, Ref, closure, trait object) occurs in exactly ONE syntactic position of the closure body "
        "(default arm / first arm of a literal match, while condition, while body, if branch or condition, nested closure up to depth 2, tuple component, enum-match arm, call of a captured closure, dyn call receiver), "
        "1-3 closures per program each called twice; plus general generated programs with closures. Real TAST and real Go AST are executed by the Coq semantics; behaviours must agree. distinct_nontrivial = agreeing completed runs"
    )
    run.cov["correspondence"] = {"generated": stats}
    run.cov["open_obligations"] = ["lift_correct (value relation between closures and closure-env structs) is not proved", "closures flowing through function-typed parameters / returns / fields are a known finding and are masked in the generator"]
    run.assumptions = ["Sem/Src.v closure semantics: capture by value of the defining environment, Ref cells shared"]
    if wits:
        for w in wits[:3]:
            run.violation(w)
    elif broken:
        run.violation({"broken": [b.what for b in broken], "detail": [b.detail for b in broken]}, no_input=True)


def replay(run, path):
    with open(path) as f:
        w = json.load(f)
    if "program" in w:
        root, paths = semrun.write_programs("c08replay", [w["program"]])
        print(json.dumps(semrun.details("c08replay", paths[0], src_stage="tast"), indent=1)[:4000])
    return 0
