"""C12 — the syntax tree is lossless and positions are exact (shares its input streams with C04)."""
import glob
import itertools
import json
import os
import re

import vlib
from vlib import Broken

SCAN_ALPHABET = ["\\", " ", "\t", "\n", "\r", "a", "你", "\\\\"]
TOKEN_ALPHABET = ["fn", " ", "\n", "x", "1", "(", ")", "{", "}", ";", "=", "\"s\"", "\\\\a\n", "let", "//c\n", "你", "match", ",", "=>", "#", "+", "1.5", "1u8", "::", "\"", "\\"]


def scan_inputs(run):
    n = 5 if run.tier == "quick" else 6
    out = [""]
    for k in range(1, n + 1):
        for t in itertools.product(SCAN_ALPHABET[:7], repeat=k):
            out.append("".join(t))
    rng = run.sub_rng("c12-scan")
    for _ in range(3000 if run.tier == "quick" else 30000):
        out.append("".join(rng.choice(SCAN_ALPHABET) for _ in range(rng.randint(1, 14))))
    return out


def text_inputs(run):
    rng = run.sub_rng("c12-text")
    out = [""]
    n = 3 if run.tier == "quick" else 4
    for k in range(1, n + 1):
        for t in itertools.product(TOKEN_ALPHABET, repeat=k):
            out.append("".join(t))
    n_exh = len(out)
    corpus = sorted(glob.glob(os.path.join(vlib.REPO, "crates/compiler/src/tests/pipeline/*/main.gom")))
    texts = [open(p, encoding="utf-8").read() for p in corpus]
    out += texts
    for _ in range(500 if run.tier == "quick" else 6000):
        t = rng.choice(texts)
        k = rng.random()
        if k < 0.3:  # prefix (what an editor sees while typing)
            out.append(t[: rng.randint(0, len(t))])
        elif k < 0.6:  # delete a span
            i = rng.randint(0, len(t))
            out.append(t[:i] + t[i + rng.randint(1, 12) :])
        elif k < 0.85:  # insert junk
            i = rng.randint(0, len(t))
            out.append(t[:i] + "".join(rng.choice(TOKEN_ALPHABET) for _ in range(rng.randint(1, 4))) + t[i:])
        else:  # CRLF conversion of some line ends
            out.append("".join((l + ("\r\n" if rng.random() < 0.5 else "\n")) for l in t.split("\n")))
    for _ in range(300 if run.tier == "quick" else 3000):
        out.append("".join(rng.choice(TOKEN_ALPHABET) for _ in range(rng.randint(4, 30))))
    out += nesting_texts(rng, 60 if run.tier == "quick" else 600)
    # characters that lexers like to treat specially: byte order mark, other Unicode spaces and line separators, zero-width
    # characters, lone carriage returns, form feed, vertical tab, NUL, non-characters; at the start and inside files
    SPECIAL = ["\ufeff", "\u00a0", "\u2028", "\u2029", "\u3000", "\u200b", "\u200d", "\r", "\x0c", "\x0b", "\x00", "\x7f", "\u0085", "\ufffe", "\U0001f600", "\u0301"]
    for ch in SPECIAL:
        base_t = rng.choice(texts)
        out.append(ch + base_t)
        out.append(base_t + ch)
        out.append("fn main() { let x = 1;%s let y = 2; () }\n" % ch)
        out.append("fn main() { let s = \"a%sb\"; () }\n// c%sd\n" % (ch, ch))
        out.append("fn a() -> int32 { 1 }\n%sfn b() -> int32 { 2 }\n" % ch)
    for _ in range(80 if run.tier == "quick" else 800):
        t = rng.choice(texts)
        for _ in range(rng.randint(1, 3)):
            i = rng.randint(0, len(t))
            t = t[:i] + rng.choice(SPECIAL) + t[i:]
        out.append(t)
    return out, n_exh


OPENERS = ["f(", "(", "[", "g(1, ", "{ ", "if c { ", "match x { 0 => ", "|y| ", "S { a: ", "(1, ", "-", "!", "h(a)(", "a + ", "vec_push(v, ", "let z = "]
CLOSERS = {"f(": ")", "(": ")", "[": "]", "g(1, ": ")", "{ ": " }", "if c { ": " } else { 0 }", "match x { 0 => ": ", _ => 1 }", "|y| ": "", "S { a: ": " }", "(1, ": ")", "-": "", "!": "", "h(a)(": ")", "a + ": "", "vec_push(v, ": ")", "let z = ": ""}
STOPPERS = [";", "}", "let q = 1;", ")", "]", "=>", ",", "fn", "struct S { a: int32 }", "\n}\nfn next() { 1 }\n", "else", "\\\\ml\n", "\"str", "'"]


def nesting_texts(rng, n):
    """deeply nested expressions, complete and unfinished (what an editor sees before the closing brackets are typed),
    followed by a token the parser refuses to skip and by more items: the tree must still cover every byte"""
    out = []
    tail = "\nfn after_a() -> int32 { 1 }\nfn after_b(x: int32) -> int32 { x + 2 }\n"
    for d in (5, 13, 26, 27, 40, 51, 52, 64, 100, 130, 257, 300):
        for op in ("f(", "[", "(", "g(1, ", "{ ", "S { a: "):
            body = op * d + "1"
            out.append("fn main() { " + body + CLOSERS[op] * d + " }" + tail)          # complete
            out.append("fn main() { " + body + tail)                                   # nothing closed
            out.append("fn main() { let r = " + body + ";\n    let s = 2;\n}" + tail)  # stopped by ;
            out.append("fn main() { " + body + CLOSERS[op] * (d // 2) + " }" + tail)   # half closed
    for _ in range(n):
        d = rng.choice([3, 8, 14, 20, 27, 35, 52, 70, 120, 260])
        ops = [rng.choice(OPENERS) for _ in range(d)]
        body = "".join(ops) + rng.choice(["1", "x", '"s"', "", "f()"])
        closed = rng.choice([0, 0, d // 3, d // 2, d - 1, d])
        close = "".join(CLOSERS[o] for o in reversed(ops[d - closed :])) if closed else ""
        out.append("fn main() { " + body + close + rng.choice(STOPPERS) + rng.choice(["", " }", tail, " }" + tail]))
    return out


def is_boundary(b, i):
    return i == len(b) or (b[i] & 0xC0) != 0x80


def impl_oracle(text, r):
    """C12's statement evaluated on the implementation's result"""
    b = text.encode("utf-8")
    if r.get("timeout"):
        return "lexing/parsing gave no result within 3 s (does not terminate)"
    if "panic" in r:
        return "lexing/parsing panicked: " + r["panic"][:200]
    pos = 0
    for kind, s, e, _ in r["tokens"]:
        if s != pos or e < s:
            return "token ranges do not tile the text at byte %d (token %s %d..%d)" % (pos, kind, s, e)
        if not is_boundary(b, s) or not is_boundary(b, e):
            return "token %s range %d..%d is not on a character boundary" % (kind, s, e)
        pos = e
    if pos != len(b):
        return "tokens cover %d of %d bytes" % (pos, len(b))
    if r["tree_text"] != text:
        return "the syntax tree text differs from the input"
    leaves = [x[1] for x in r["leaves"]]
    if "".join(leaves) != text or len(leaves) != len(r["tokens"]):
        return "tree leaves are not exactly the tokens (%d leaves, %d tokens)" % (len(leaves), len(r["tokens"]))
    if not r["node_ranges_ok"]:
        return "a syntax node range lies outside the text"
    for d in r["diags"]:
        if d is not None and not (0 <= d[0] <= d[1] <= len(b)):
            return "diagnostic range %r outside the text (len %d)" % (d, len(b))
    return None


def coq_event(e):
    if e[0] == "O":
        return "(EvOpen %s %s)" % ("true" if e[1] == "TombStone" else "false", "None" if e[2] is None else "(Some %d)" % e[2])
    return {"C": "EvClose", "A": "EvAdvance", "E": "EvError"}[e[0]]


def check(run, prop="C12"):
    broken = []
    try:
        vlib.proof_stage(run, "C12", ["C12/Properties.v"])
    except Broken as b:
        broken.append(b)
    wits, mism = [], []
    # ---- (a) scanner correspondence --------------------------------
    sins = scan_inputs(run)
    sres = vlib.run_harness("lexparse", [{"text": "\\\\" + s} for s in sins], shards=vlib.NCPU)
    rows = []
    for s, r in zip(sins, sres):
        if "panic" in r:
            wits.append({"kind": "lexing/parsing panicked: " + r["panic"][:200], "text": "\\\\" + s})
            rows.append(None)
            continue
        t0 = r["tokens"][0]
        real = "(Some %d)" % (t0[2] - 2) if t0[0] == "MultilineStr" else "None"
        rows.append("(%s, %s)" % (vlib.coq_Nlist(list(s.encode("utf-8"))), real))
    try:
        idx = [i for i, x in enumerate(rows) if x is not None]
        per = 2500
        chunks = [idx[k : k + per] for k in range(0, len(idx), per)]
        texts = [
            "From Goml Require Import Common.Base C12.Model.\nDefinition oeq (a b : option N) := match a, b with None, None => true | Some x, Some y => N.eqb x y | _, _ => false end.\n"
            "Definition model (bs : list N) : option N := match ml_scan bs with Bump c => Some (N.of_nat c) | _ => None end.\n"
            "Definition cases : list (list N * option N) := [\n%s\n]%%N.\nEval vm_compute in (mismatches oeq model cases).\n" % ";\n".join(rows[i] for i in ch)
            for ch in chunks
        ]
        for ch, out in zip(chunks, vlib.coq_eval_many("c12scan", texts)):
            mism += [{"scanner_input": "\\\\" + sins[ch[j]], "impl_first_token": sres[ch[j]]["tokens"][0]} for j in vlib.parse_nat_list(out)]
    except Broken as b:
        broken.append(b)
    # ---- (b) build_tree correspondence + (c) the property on the implementation
    tins, n_exh = text_inputs(run)
    try:
        tres = vlib.run_harness("lexparse", [{"text": t, "timeout_ms": 3000} for t in tins], shards=vlib.NCPU)
        tres2 = vlib.run_harness("lexparse", [{"text": t, "timeout_ms": 3000} for t in tins[:: max(1, len(tins) // 400)]], shards=4)
    except vlib.Hang as h:
        tres, tres2 = [], []
        for x in h.inputs:
            wits.append({"kind": "lexing/parsing gave no result within 3 s (does not terminate)", "text": x["text"]})
    for t, r in zip(tins[:: max(1, len(tins) // 400)], tres2):
        pass
    brow, bidx = [], []
    adv_short = 0
    for i, (t, r) in enumerate(zip(tins, tres)):
        msg = impl_oracle(t, r)
        if msg:
            wits.append({"kind": msg, "text": t})
            continue
        evs = r["events"]
        toks = r["tokens"]
        nontrivia = sum(1 for x in toks if not x[3])
        advs = sum(1 for e in evs if e[0] == "A")
        if advs < nontrivia or not evs or evs[0][0] != "O":
            adv_short += 1
            wits.append({"kind": "the parser stopped before consuming every token (%d advances for %d non-trivia tokens)" % (advs, nontrivia), "text": t})
            continue
        if len(t) <= 400:
            brow.append("([%s], [%s], %d)" % ("; ".join(coq_event(e) for e in evs), "; ".join("true" if x[3] else "false" for x in toks), len(r["leaves"])))
            bidx.append(i)
    # determinism: the sampled second run must give identical trees
    for t, a in zip(tins[:: max(1, len(tins) // 400)], tres2):
        b = tres[tins.index(t)]
        if a.get("debug") != b.get("debug") or a.get("tokens") != b.get("tokens"):
            wits.append({"kind": "parsing the same text twice gave different trees", "text": t})
    try:
        per = 1500
        chunks = [list(range(k, min(k + per, len(brow)))) for k in range(0, len(brow), per)]
        texts = [
            "From Goml Require Import Common.Base C12.Model.\nOpen Scope nat_scope.\n"
            "Fixpoint nat_list_eqb (a b : list nat) := match a, b with [], [] => true | x :: a', y :: b' => Nat.eqb x y && nat_list_eqb a' b' | _, _ => false end.\n"
            "Definition ok (c : list event * list token * nat) : bool := let '(evs, toks, n) := c in nat_list_eqb (leaves (build evs toks)) (seq 0 n).\n"
            "Definition cases : list (list event * list token * nat) := [\n%s\n].\nEval vm_compute in (mismatches Bool.eqb ok (map (fun c => (c, true)) cases)).\n" % ";\n".join(brow[k] for k in ch)
            for ch in chunks
        ]
        for ch, out in zip(chunks, vlib.coq_eval_many("c12tree", texts)):
            mism += [{"tree_input": tins[bidx[ch[j]]]} for j in vlib.parse_nat_list(out)]
    except Broken as b:
        broken.append(b)
    # ---- failing-input search around scanner mismatches: the end of the token moved, so look for an input
    #      on which the moved end violates the property itself (mid-character bump, lost byte, panic)
    if mism and not wits:
        rng = run.sub_rng("c12-search")
        seeds = [m["scanner_input"] for m in mism if "scanner_input" in m][:60]
        variants = []
        for s0 in seeds:
            variants.append(s0 + "x")
            variants.append(s0.replace("a", "你"))
            for _ in range(30):
                chars = list(s0)
                for k in range(len(chars)):
                    if chars[k] not in "\\\r\n" and rng.random() < 0.5:
                        chars[k] = rng.choice(["你", "é", "a", " "])
                variants.append("".join(chars) + rng.choice(["", "x", "\nx", "你\nx"]))
        for _ in range(3000):
            n = rng.randint(2, 4)
            lines = ["\\\\" + "".join(rng.choice(["a", "你", " ", "é"]) for _ in range(rng.randint(0, 3))) for _ in range(n)]
            variants.append("".join(l + rng.choice(["\n", "\r\n"]) for l in lines) + rng.choice(["x", "", "你"]))
        vres = vlib.run_harness("lexparse", [{"text": t, "timeout_ms": 3000} for t in variants], shards=vlib.NCPU)
        for t, r in zip(variants, vres):
            msg = impl_oracle(t, r)
            if msg:
                wits.append({"kind": msg, "text": t, "found_by": "search around scanner correspondence mismatches"})
    seen_texts = set()
    wits = [w for w in wits if not (w["text"] in seen_texts or seen_texts.add(w["text"]))]
    run.add_cases(len(sins) + len(tins), len(set(sins)) + len(set(tins)) - 2, samples=[json.dumps(sins[40]), json.dumps(sins[-1]), json.dumps(tins[500]), json.dumps(tins[-1])[:200]])
    run.cov["rule"] = (
        "(a) multi-line string scanner: every string over {backslash, space, tab, LF, CR, 'a', a 3-byte CJK char} up to length %d after the opening `\\\\` + random longer ones incl. doubled backslashes: the end of the first token must be where ml_scan says (compared in coqc); "
        "(b) parser events and token lists of every text in (c) up to 400 bytes are replayed by the build_tree model and must give exactly the real tree's leaves; "
        "(c) texts: every string over a %d-symbol token alphabet (keywords, punctuation, literals, comments, multi-line strings, stray quote/backslash, non-ASCII) up to length %d (%d), the 74 corpus files, prefixes / deletions / insertions / CRLF conversions of them, random token soups: "
        "tokens must tile the text on character boundaries, tree text and leaves must equal the input, node and diagnostic ranges must lie in the text, at least one Advance per non-trivia token, same tree twice, no panic"
        % (5 if run.tier == "quick" else 6, len(TOKEN_ALPHABET), 3 if run.tier == "quick" else 4, n_exh)
    )
    run.cov["correspondence"] = {"scanner_cases": len(sins), "texts": len(tins), "tree_replays": len(brow), "model_mismatches": len(mism), "parser_short_of_advances": adv_short}
    run.cov["open_obligations"] = ["that the parser's outer loop emits one Advance per non-trivia token is checked on every parsed text, not proved (the recursive-descent parser is not modelled)", "the logos-generated token automaton is not modelled; only its tiling/boundary contract is checked on every lexed text"]
    run.assumptions = ["rowan's GreenNodeBuilder turns the operation sequence into a tree whose leaves are the Tok operations in order"]
    if wits:
        for w in sorted(wits, key=lambda w: len(w["text"]))[:3]:
            w["replay_cmd"] = "echo '{\"text\": <json string>}' | _build/cargo/debug/gomlv lexparse"
            run.violation(w)
    elif mism or broken:
        run.violation({"broken": [b.what for b in broken] + (["correspondence: scanner / build_tree model vs implementation"] if mism else []), "detail": [b.detail for b in broken], "examples": mism[:6],
                       "theorems_no_longer_shown": ["multiline_scanner_safe", "tree_is_lossless"]}, no_input=True)


def replay(run, path):
    with open(path) as f:
        w = json.load(f)
    if "text" in w:
        (r,) = vlib.run_harness("lexparse", [{"text": w["text"]}])
        print(json.dumps({k: v for k, v in r.items() if k != "debug"})[:3000])
    return 0
