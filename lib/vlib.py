"""Shared machinery for /verif/check: builds, Coq evaluation, evidence, violations."""
import glob
import hashlib
import json
import os
import random
import re
import shutil
import subprocess
import sys
import time

VERIF = os.path.dirname(os.path.dirname(os.path.abspath(__file__)))
REPO = os.environ.get("GOML_REPO", "/repo")
BUILD = os.path.join(VERIF, "_build")
COQ = os.path.join(VERIF, "coq")
THEORIES = os.path.join(COQ, "theories")
PINS = os.path.join(COQ, "pins")
CARGO_TARGET = os.path.join(BUILD, "cargo")
HARNESS_BIN = os.path.join(CARGO_TARGET, "debug", "gomlv")
EVIDENCE = os.path.join(VERIF, "evidence")
REPLAYS = os.path.join(VERIF, "replays")
NCPU = os.cpu_count() or 4

GUARD = "goml_verif"

ENV = dict(os.environ)
ENV.update(
    {
        "CARGO_NET_OFFLINE": "true",
        "CARGO_TARGET_DIR": CARGO_TARGET,
        "RUSTFLAGS": (os.environ.get("RUSTFLAGS", "") + " --cfg " + GUARD).strip(),
    }
)


class Broken(Exception):
    """A tie (proof, translator, correspondence) no longer checks."""

    def __init__(self, what, detail=""):
        super().__init__(what)
        self.what = what
        self.detail = detail


def log(*a):
    print("[check]", *a, file=sys.stderr, flush=True)


def sh(cmd, cwd=None, timeout=1800, env=None, input=None):
    p = subprocess.run(
        cmd,
        cwd=cwd,
        env=env or ENV,
        input=input,
        stdout=subprocess.PIPE,
        stderr=subprocess.PIPE,
        text=True,
        timeout=timeout,
    )
    return p.returncode, p.stdout, p.stderr


def write_if_changed(path, text):
    os.makedirs(os.path.dirname(path), exist_ok=True)
    if os.path.exists(path):
        with open(path) as f:
            if f.read() == text:
                return False
    with open(path, "w") as f:
        f.write(text)
    return True


# ---------------------------------------------------------------- harness ---

_harness_built = False


def build_harness():
    """Build gomlv against /repo's *current working tree* (path deps)."""
    global _harness_built
    if _harness_built:
        return HARNESS_BIN
    hdir = os.path.join(VERIF, "harness")
    lock_src = os.path.join(REPO, "Cargo.lock")
    lock_dst = os.path.join(hdir, "Cargo.lock")
    # keep /repo's pinned versions; cargo adds the gomlv entry itself
    if not os.path.exists(lock_dst):
        shutil.copy(lock_src, lock_dst)
    t0 = time.time()
    rc, out, err = sh(["cargo", "build", "--offline"], cwd=hdir, timeout=3000)
    if rc != 0:
        # retry once from /repo's lock (the lock may have drifted)
        shutil.copy(lock_src, lock_dst)
        rc, out, err = sh(["cargo", "build", "--offline"], cwd=hdir, timeout=3000)
    if rc != 0:
        raise Broken("harness-build", err[-4000:])
    log("harness built in %.1fs" % (time.time() - t0))
    _harness_built = True
    return HARNESS_BIN


CLI_BIN = os.path.join(BUILD, "cargo-cli", "debug", "compiler")
_cli_built = False


def build_cli():
    """Build /repo's own command-line binary from the current working tree."""
    global _cli_built
    if _cli_built:
        return CLI_BIN
    env = dict(ENV, CARGO_TARGET_DIR=os.path.join(BUILD, "cargo-cli"), CARGO_NET_OFFLINE="true")
    rc, out, err = sh(["cargo", "build", "--offline", "-p", "compiler", "--bin", "compiler"], cwd=REPO, timeout=3000, env=env)
    if rc != 0:
        raise Broken("cli-build", err[-4000:])
    _cli_built = True
    return CLI_BIN


def run_cli(args, cwd, timeout=20):
    """returns (kind, rc, stderr) with kind in ok/error/panic/signal/hang"""
    try:
        p = subprocess.run([build_cli(), *args], cwd=cwd, capture_output=True, text=True, timeout=timeout, errors="replace")
    except subprocess.TimeoutExpired:
        return "hang", None, ""
    if p.returncode == 0:
        return "ok", 0, p.stderr
    if p.returncode == 101 or "panicked at" in p.stderr:
        return "panic", p.returncode, p.stderr
    if p.returncode < 0:
        return "signal", p.returncode, p.stderr
    return "error", p.returncode, p.stderr


def run_harness(sub, inputs, args=(), timeout=900, shards=None):
    """Feed JSON lines to `gomlv sub`, return parsed JSON lines (same order)."""
    exe = build_harness()
    inputs = list(inputs)
    if shards is None:
        shards = 1 if len(inputs) < 2000 else NCPU
    if shards <= 1:
        return _run_harness1(exe, sub, inputs, args, timeout)
    from concurrent.futures import ThreadPoolExecutor

    n = len(inputs)
    step = (n + shards - 1) // shards
    chunks = [inputs[i : i + step] for i in range(0, n, step)]
    with ThreadPoolExecutor(max_workers=shards) as ex:
        res = list(ex.map(lambda c: _run_harness1(exe, sub, c, args, timeout), chunks))
    out = []
    for r in res:
        out.extend(r)
    return out


class Hang(Broken):
    """several cases of one harness run gave no answer within their time limit; .inputs are those cases"""

    def __init__(self, sub, inputs):
        Broken.__init__(self, "harness-hang:" + sub, json.dumps(inputs[0])[:2000])
        self.inputs = inputs


def _limit_memory():
    import resource

    resource.setrlimit(resource.RLIMIT_AS, (24 << 30, 24 << 30))


def _run_harness1(exe, sub, inputs, args, timeout):
    results = [None] * len(inputs)
    todo = list(range(len(inputs)))
    hung = []
    t_end = time.time() + timeout
    while todo:
        data = "".join(json.dumps(inputs[i], separators=(",", ":")) + "\n" for i in todo)
        try:
            p = subprocess.run([exe, sub, *args], env=ENV, input=data, stdout=subprocess.PIPE, stderr=subprocess.PIPE, text=True, timeout=max(5, t_end - time.time()), preexec_fn=_limit_memory)
        except subprocess.TimeoutExpired:
            raise Broken("harness-run:" + sub, "no answer within %ds (%d cases outstanding; first: %s)" % (timeout, len(todo), json.dumps(inputs[todo[0]])[:600]))
        rc, out, err = p.returncode, p.stdout, p.stderr
        if rc != 0:
            raise Broken("harness-run:" + sub, (err or out)[-4000:])
        lines = [l for l in out.split("\n") if l.strip()]
        if len(lines) != len(todo):
            raise Broken(
                "harness-run:" + sub,
                "expected %d result lines, got %d\n%s" % (len(todo), len(lines), err[-2000:]),
            )
        rest = []
        for i, l in zip(todo, lines):
            r = json.loads(l)
            if isinstance(r, dict) and r.get("skipped"):
                rest.append(i)  # a case before it ran away and the process gave up: submit again
            else:
                results[i] = r
                if isinstance(r, dict) and r.get("timeout"):
                    hung.append(inputs[i])
        if len(hung) >= 3 and rest:
            raise Hang(sub, hung)  # every hanging case costs its full time limit: three are enough to report
        if len(rest) == len(todo):
            raise Broken("harness-run:" + sub, "no progress")
        todo = rest
    return results


# -------------------------------------------------------------------- coq ---


def coq_files():
    fs = sorted(glob.glob(os.path.join(THEORIES, "**", "*.v"), recursive=True))
    return [os.path.relpath(f, COQ) for f in fs]


def coq_prepare():
    files = coq_files()
    proj = "-Q theories Goml\n-arg -w -arg -notation-overridden,-deprecated-hint-without-locality,-deprecated-instance-without-locality\n" + "\n".join(files) + "\n"
    changed = write_if_changed(os.path.join(COQ, "_CoqProject"), proj)
    mk = os.path.join(COQ, "Makefile")
    if changed or not os.path.exists(mk):
        rc, out, err = sh(["coq_makefile", "-f", "_CoqProject", "-o", "Makefile"], cwd=COQ)
        if rc != 0:
            raise Broken("coq_makefile", err)


def coq_make(targets, timeout=2400):
    """Full .vo build of the given theories-relative .v files (and deps)."""
    coq_prepare()
    vos = [os.path.join("theories", t[:-2] + ".vo") for t in targets]
    t0 = time.time()
    rc, out, err = sh(["make", "-j%d" % NCPU, *vos], cwd=COQ, timeout=timeout)
    log("coq make %s: rc=%d in %.1fs" % (" ".join(targets), rc, time.time() - t0))
    if rc != 0:
        raise Broken("coq-build", (out[-3000:] + "\n" + err[-5000:]))
    return out


def coqc_file(path, timeout=1200):
    rc, out, err = sh(
        ["coqc", "-noglob", "-Q", THEORIES, "Goml", "-w", "-all", path],
        cwd=os.path.dirname(path),
        timeout=timeout,
    )
    return rc, out, err


def coq_eval(name, text, timeout=1200):
    """Write a cases file and run coqc on it; returns stdout. Raises Broken."""
    d = os.path.join(BUILD, "cases")
    os.makedirs(d, exist_ok=True)
    path = os.path.join(d, name + ".v")
    with open(path, "w") as f:
        f.write(text)
    rc, out, err = coqc_file(path, timeout)
    if rc != 0:
        raise Broken("coq-eval:" + name, (out[-2000:] + err[-4000:]))
    return out


def coq_eval_many(name, texts, timeout=1200):
    """Evaluate several independent cases files in parallel."""
    from concurrent.futures import ThreadPoolExecutor

    with ThreadPoolExecutor(max_workers=NCPU) as ex:
        futs = [ex.submit(coq_eval, "%s_%03d" % (name, i), t, timeout) for i, t in enumerate(texts)]
        return [f.result() for f in futs]


FORBIDDEN = re.compile(
    r"\b(Admitted|admit|Axiom|Axioms|Parameter|Parameters|Conjecture|Conjectures|Admit\s+Obligations|"
    r"Unset\s+Guard\s+Checking|Unset\s+Positivity\s+Checking|Unset\s+Universe\s+Checking|bypass_check|"
    r"type-in-type|impredicative-set|native_compute)\b"
)
_COMMENT = re.compile(r"\(\*.*?\*\)", re.S)


def strip_comments(src):
    prev = None
    while prev != src:
        prev = src
        src = _COMMENT.sub(" ", src)
    return src


def grep_forbidden():
    bad = []
    for f in glob.glob(os.path.join(COQ, "**", "*.v"), recursive=True):
        with open(f) as fh:
            src = strip_comments(fh.read())
        # string literals may legitimately contain words; drop them
        src = re.sub(r'"(?:[^"]|"")*"', '""', src)
        for m in FORBIDDEN.finditer(src):
            bad.append("%s: %s" % (os.path.relpath(f, VERIF), m.group(0)))
        for m in re.finditer(r"^\s*(Variable|Variables|Hypothesis|Hypotheses|Context)\b", src, re.M):
            # allowed only inside a Section
            pre = src[: m.start()]
            opened = len(re.findall(r"^\s*Section\s+\w+", pre, re.M))
            closed = len(re.findall(r"^\s*End\s+\w+", pre, re.M)) - len(re.findall(r"^\s*Module\s+(Type\s+)?\w+", pre, re.M))
            if opened - max(closed, 0) <= 0:
                bad.append("%s: %s outside a Section" % (os.path.relpath(f, VERIF), m.group(1)))
    return bad


STD_AXIOMS = {
    # allow-listed standard-library axioms (named in DESIGN.md trusted base)
    "Coq.Logic.FunctionalExtensionality.functional_extensionality_dep",
    "FunctionalExtensionality.functional_extensionality_dep",
    "functional_extensionality_dep",
}


def check_pins(prop, allow_axioms=()):
    """Compile coq/pins/<prop>.v: `Check thm : statement.` pins and
    `Print Assumptions thm.`  Returns (n_theorems, axioms_seen, theorem_names)."""
    path = os.path.join(PINS, prop + ".v")
    with open(path) as f:
        src = f.read()
    names = re.findall(r"^Print Assumptions\s+([\w.']+)\s*\.", src, re.M)
    checks = re.findall(r"^Check\s+\(([\w.']+)\s*:", src, re.M)
    missing = [n for n in names if n not in checks]
    if missing:
        raise Broken("pins", "theorems without a pinned statement: %s" % missing)
    d = os.path.join(BUILD, "pins")
    os.makedirs(d, exist_ok=True)
    dst = os.path.join(d, "Pins_" + prop + ".v")
    shutil.copy(path, dst)
    rc, out, err = coqc_file(dst)
    if rc != 0:
        raise Broken("pins:" + prop, (out[-1500:] + err[-4000:]))
    closed = out.count("Closed under the global context")
    axioms = []
    for blk in re.findall(r"Axioms:\n((?:.+\n?)+?)(?=\n\S|\Z)", out):
        for m in re.finditer(r"^([\w.']+)\s*:", blk, re.M):
            axioms.append(m.group(1))
    n_ax_blocks = out.count("Axioms:")
    if closed + n_ax_blocks != len(names):
        raise Broken("pins:" + prop, "expected %d Print Assumptions results, saw %d\n%s" % (len(names), closed + n_ax_blocks, out[-2000:]))
    allow = set(allow_axioms)
    bad = [a for a in axioms if a not in allow and a.split(".")[-1] not in allow]
    if bad:
        raise Broken("axioms:" + prop, "non-allow-listed axioms: %s" % sorted(set(bad)))
    return len(names), sorted(set(axioms)), names


# ---------------------------------------------------------- coq term text ---


def coq_N(n):
    return "%d%%N" % n


def coq_list(items, ty=None):
    s = "[" + "; ".join(items) + "]"
    return s


def coq_Nlist(xs):
    return "[" + ";".join(str(x) for x in xs) + "]%N"


def coq_string(b):
    """Coq string literal for a str (bytes passed through as UTF-8)."""
    return '"' + b.replace('"', '""') + '"%string'


def parse_nat_list(out):
    """Parse `= [a; b; c] : list nat` (possibly wrapped) from coqc output."""
    m = re.search(r"=\s*(\[.*?\])\s*:\s*list", out, re.S)
    if not m:
        raise Broken("coq-output", out[-1000:])
    body = m.group(1).strip()[1:-1].strip()
    if not body:
        return []
    return [int(re.sub(r"%\w+", "", x).strip()) for x in body.split(";")]


# ---------------------------------------------------------------- results ---


def sha(x):
    return hashlib.sha256(json.dumps(x, sort_keys=True, default=str).encode()).hexdigest()[:12]


class Run:
    """One check run of one property: collects coverage, findings, violations."""

    def __init__(self, prop, tier, seed):
        self.prop = prop
        self.tier = tier
        self.seed = seed
        self.rng = random.Random(seed)
        self.t0 = time.time()
        self.cov = {
            "obligations": 0,
            "discharged": 0,
            "checker_cmd": "",
            "trusted_base": [],
            "evaluations": 0,
            "distinct_nontrivial": 0,
            "rule": "",
            "samples": [],
            "theorems": [],
            "axioms_seen": [],
            "correspondence": {},
            "known_findings_replayed": [],
            "open_obligations": [],
        }
        self.assumptions = []
        self.violations = []  # (replay_path, suffix)
        self.known_lines = []
        self.level = "proof"
        kf = os.path.join(VERIF, "known_findings.json")
        self.known = []
        if os.path.exists(kf):
            with open(kf) as f:
                self.known = [k for k in json.load(f)["findings"] if k["property"] == prop and k.get("status") == "known"]

    def sub_rng(self, tag):
        return random.Random("%d/%s" % (self.seed, tag))

    def add_cases(self, n, distinct_nontrivial, samples=()):
        self.cov["evaluations"] += n
        self.cov["distinct_nontrivial"] += distinct_nontrivial
        for s in samples:
            if len(self.cov["samples"]) < 12:
                self.cov["samples"].append(s)

    def violation(self, replay_obj, no_input=False):
        os.makedirs(REPLAYS, exist_ok=True)
        h = sha(replay_obj)
        path = os.path.join(REPLAYS, "%s-%s.json" % (self.prop, h))
        replay_obj = dict(replay_obj)
        replay_obj.setdefault("property", self.prop)
        replay_obj.setdefault("seed", self.seed)
        with open(path, "w") as f:
            json.dump(replay_obj, f, indent=1, default=str)
        self.violations.append((path, no_input))

    def known_finding(self, kid, text):
        line = "KNOWN-FINDING: property=%s %s" % (self.prop, text)
        self.known_lines.append(line)
        self.cov["known_findings_replayed"].append(kid)

    def finish(self):
        wall = time.time() - self.t0
        ev = {
            "property_id": self.prop,
            "tier": self.tier,
            "seed": self.seed,
            "level": self.level,
            "coverage": self.cov,
            "assumptions": self.assumptions,
            "wall_s": round(wall, 2),
            "violations": len(self.violations),
        }
        os.makedirs(EVIDENCE, exist_ok=True)
        with open(os.path.join(EVIDENCE, self.prop + ".json"), "w") as f:
            json.dump(ev, f, indent=1, default=str)
        for l in self.known_lines:
            print(l)
        for path, no_input in self.violations:
            print("VIOLATION property=%s replay=%s%s" % (self.prop, path, " no-failing-input-found" if no_input else ""))
        sys.stdout.flush()
        if self.violations:
            return 1
        print("OK property=%s tier=%s obligations=%d/%d cases=%d wall=%.1fs" % (self.prop, self.tier, self.cov["discharged"], self.cov["obligations"], self.cov["evaluations"], wall))
        return 0


TRUSTED_COMMON = [
    "Coq 8.16.1 kernel (coqc, vm_compute conversion; no native_compute)",
    "hand-written Gallina model of the named Rust functions (modelled, not verified)",
    "correspondence harness gomlv (Rust, calls the real public functions of /repo) and the Python driver that encodes cases as Coq terms and compares inside coqc",
]


def proof_stage(run, prop, targets, allow_axioms=(), pins=None):
    """Build the property's theories, check pins and assumptions, grep."""
    bad = grep_forbidden()
    if bad:
        raise Broken("forbidden-constructs", "\n".join(bad))
    coq_make(targets)
    n, axioms, names = check_pins(pins or prop, allow_axioms)
    run.cov["obligations"] += n
    run.cov["discharged"] += n
    run.cov["theorems"] = names
    run.cov["axioms_seen"] = axioms
    run.cov["checker_cmd"] = "make -C coq -j%d %s && coqc coq/pins/%s.v (Check-pinned statements + Print Assumptions)" % (
        NCPU,
        " ".join("theories/" + t[:-2] + ".vo" for t in targets),
        pins or prop,
    )
    run.cov["trusted_base"] = TRUSTED_COMMON + (["standard-library axioms: " + ", ".join(axioms)] if axioms else ["axioms: none (every pinned theorem is closed under the global context)"])
