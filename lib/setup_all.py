"""./check setup — build everything from files on disk (offline)."""
import glob
import importlib
import os
import sys

import vlib

sys.path.insert(0, os.path.join(vlib.VERIF, "translate"))


def main():
    ok = True
    for f in sorted(glob.glob(os.path.join(vlib.VERIF, "translate", "*.py"))):
        name = os.path.basename(f)[:-3]
        try:
            importlib.import_module(name).run()
        except vlib.Broken as b:
            print("translator %s: %s %s" % (name, b.what, b.detail))
            ok = False
    try:
        vlib.coq_prepare()
        allv = [os.path.relpath(p, vlib.THEORIES) for p in glob.glob(os.path.join(vlib.THEORIES, "**", "*.v"), recursive=True)]
        vlib.coq_make(allv, timeout=6000)
    except vlib.Broken as b:
        print("coq build:", b.what, b.detail)
        ok = False
    try:
        vlib.build_harness()
    except vlib.Broken as b:
        print("harness build:", b.what, b.detail)
        ok = False
    print("setup", "ok" if ok else "FAILED")
    return 0 if ok else 1
