"""C10: arithmetic programs over the eight integer types with a Python oracle (wrap modulo 2^N, division truncating toward
zero, division by zero fails, signed/unsigned comparison): operands come through parameters, as two literals, as a variable
and a literal, and in divisions whose quotient is never used."""

BITS = {"int8": 8, "int16": 16, "int32": 32, "int64": 64, "uint8": 8, "uint16": 16, "uint32": 32, "uint64": 64}
SUFFIX = {"int8": "i8", "int16": "i16", "int32": "i32", "int64": "i64", "uint8": "u8", "uint16": "u16", "uint32": "u32", "uint64": "u64"}


def signed(t):
    return t.startswith("int")


def lo(t):
    return -(2 ** (BITS[t] - 1)) if signed(t) else 0


def hi(t):
    return 2 ** (BITS[t] - 1) - 1 if signed(t) else 2 ** BITS[t] - 1


def wrap(t, z):
    m = 2 ** BITS[t]
    z %= m
    return z - m if signed(t) and z > hi(t) else z


def tdiv(x, y):
    q = abs(x) // abs(y)
    return q if (x >= 0) == (y >= 0) else -q


def apply(t, op, x, y):
    """-> value, or None for a division by zero"""
    if op == "+":
        return wrap(t, x + y)
    if op == "-":
        return wrap(t, x - y)
    if op == "*":
        return wrap(t, x * y)
    if y == 0:
        return None
    return wrap(t, tdiv(x, y))


def lit(t, v):
    assert 0 <= v <= hi(t)
    return "%d%s" % (v, SUFFIX[t])


def program(rng, t):
    """-> (source, expected stdout bytes, fails: bool)"""
    h, l = hi(t), lo(t)
    pool = [0, 1, 2, 3, 7, h, h - 1, h // 2, h // 2 + 1, rng.randint(0, h), rng.randint(0, h)]
    if signed(t):
        pool += [l, l + 1, -1, -2, -rng.randint(1, h)]
    vals = [rng.choice(pool) for _ in range(6)]
    if rng.random() < 0.35:
        vals[rng.randrange(6)] = 0
    lines = ["fn add(a: %s, b: %s) -> %s { a + b }" % (t, t, t), "fn sub(a: %s, b: %s) -> %s { a - b }" % (t, t, t), "fn mul(a: %s, b: %s) -> %s { a * b }" % (t, t, t), "fn div(a: %s, b: %s) -> %s { a / b }" % (t, t, t)]
    for nm, sym in (("lt", "<"), ("gt", ">"), ("le", "<="), ("ge", ">="), ("eq", "=="), ("ne", "!=")):
        lines.append("fn %s(a: %s, b: %s) -> bool { a %s b }" % (nm, t, t, sym))
    if signed(t):
        lines.append("fn neg(a: %s) -> %s { -a }" % (t, t))
    lines.append("fn main() {")
    for i, v in enumerate(vals):
        if v >= 0:
            e = lit(t, v)
        elif v == l:
            e = "sub(sub(%s, %s), %s)" % (lit(t, 0), lit(t, h), lit(t, 1))
        else:
            e = "sub(%s, %s)" % (lit(t, 0), lit(t, -v))
        lines.append("    let v%d: %s = %s;" % (i, t, e))
    out = []
    failed = False
    show = t + "_to_string"
    fn = {"+": "add", "-": "sub", "*": "mul", "/": "div"}
    for k in range(rng.randint(5, 9)):
        form = rng.choice(["param", "param", "litlit", "varlit", "litvar", "unused", "cmp", "neg", "inline"])
        op = rng.choice(["+", "-", "*", "/"])
        i, j = rng.randrange(6), rng.randrange(6)
        x, y = vals[i], vals[j]
        if form == "param":
            lines.append("    let _ = string_println(%s(%s(v%d, v%d)));" % (show, fn[op], i, j))
            r = apply(t, op, x, y)
        elif form == "inline":
            lines.append("    let _ = string_println(%s(v%d %s v%d));" % (show, i, op, j))
            r = apply(t, op, x, y)
        elif form == "litlit":
            a, b = rng.choice([0, 1, 2, h, h - 1, h // 2 + 1, rng.randint(0, h)]), rng.choice([0, 1, 2, 3, h, rng.randint(0, h)])
            lines.append("    let r%d = %s %s %s;" % (k, lit(t, a), op, lit(t, b)))
            lines.append("    let _ = string_println(%s(r%d));" % (show, k))
            r = apply(t, op, a, b)
        elif form == "varlit":
            b = rng.choice([0, 1, 2, 3, h, rng.randint(0, h)])
            lines.append("    let r%d = v%d %s %s;" % (k, i, op, lit(t, b)))
            lines.append("    let _ = string_println(%s(r%d));" % (show, k))
            r = apply(t, op, x, b)
        elif form == "litvar":
            a = rng.choice([0, 1, 2, h, h // 2 + 1, rng.randint(0, h)])
            lines.append("    let r%d = %s %s v%d;" % (k, lit(t, a), op, j))
            lines.append("    let _ = string_println(%s(r%d));" % (show, k))
            r = apply(t, op, a, y)
        elif form == "unused":
            # the quotient is never read: the division must still happen (and fail on a zero divisor)
            which = rng.choice(["let _ = v%d / v%d;" % (i, j), "let q%d = v%d / v%d;" % (k, i, j), "let _ = div(v%d, v%d);" % (i, j), "let q%d = %s / v%d;" % (k, lit(t, 1), j)])
            lines.append("    " + which)
            lines.append('    let _ = string_println("after %d");' % k)
            r = "after %d" % k if y != 0 else None
        elif form == "cmp":
            nm, f = rng.choice([("lt", lambda a, b: a < b), ("gt", lambda a, b: a > b), ("le", lambda a, b: a <= b), ("ge", lambda a, b: a >= b), ("eq", lambda a, b: a == b), ("ne", lambda a, b: a != b)])
            lines.append("    let _ = string_println(bool_to_string(%s(v%d, v%d)));" % (nm, i, j))
            r = "true" if f(x, y) else "false"
        else:
            if not signed(t):
                continue
            lines.append("    let _ = string_println(%s(neg(v%d)));" % (show, i))
            r = wrap(t, -x)
        if r is None:
            failed = True
            break
        out.append(str(r))
    lines.append("    ()\n}")
    return "\n".join(lines) + "\n", ("".join(x + "\n" for x in out)).encode(), failed
