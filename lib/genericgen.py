"""Generator of generic goml programs P together with P' = "the generic definitions with the
types substituted": every generic function is copied once per instantiation with its type
parameters replaced textually, and every call names its copy. P' contains no generic
function, so its typed tree has a direct source-level meaning (Sem/Src.v at the TAST); the
property C07 says P must behave like P'.

Types are tuples: ('int32',) ('bool',) ('string',) ('P',) ('E',) ('tup', a, b) ('Box', a) ('Opt', a)
('Vec', a) ('var', 'T').
"""

TYPES_PRELUDE = """struct P { a: int32, b: bool }
enum E { A, B(int32), C(bool, int32) }
struct Box[T] { v: T }
enum Opt[T] { None_, Some_(T) }
struct Two[T, U] { l: T, r: U }
enum Res[T, U] { Ok_(T), Err_(U) }
trait Sh { fn sh(Self) -> string; fn bump(Self) -> Self; }
impl Box[int32] {
    fn tag(self: Box[int32]) -> string { "int" }
}
"""


def ty_text(t):
    k = t[0]
    if k == "tup":
        return "(%s, %s)" % (ty_text(t[1]), ty_text(t[2]))
    if k in ("Box", "Opt", "Vec"):
        return "%s[%s]" % (k, ty_text(t[1]))
    if k in ("Two", "Res"):
        return "%s[%s, %s]" % (k, ty_text(t[1]), ty_text(t[2]))
    if k == "var":
        return t[1]
    if k == "fn":  # ('fn', result, parameter types...)
        return "(%s) -> %s" % (", ".join(ty_text(x) for x in t[2:]), ty_text(t[1]))
    return k


def subst(t, s):
    if t[0] == "var":
        return s[t[1]]
    return (t[0],) + tuple(subst(x, s) if isinstance(x, tuple) else x for x in t[1:])


def T(n):
    return ("var", n)


class Item:
    """a generic function: tparams [(name, bounded)], params [(name, type)], ret type, body(ctx) -> text"""

    def __init__(self, name, tparams, params, ret, body, method_of=None):
        self.name, self.tparams, self.params, self.ret, self.body, self.method_of = name, tparams, params, ret, body, method_of


class Ctx:
    def __init__(self, gen, s):
        self.gen, self.s = gen, s  # s None: generic rendering

    def ty(self, t):
        return ty_text(t if self.s is None else subst(t, self.s))

    def call(self, name, targs, args):
        """call of generic item `name` at type arguments targs (types over the current tparams)"""
        it = self.gen.items[name]
        if self.s is None:
            if it.method_of:
                return "%s::%s(%s)" % (it.method_of, name.split(".")[1], ", ".join(args))
            return "%s(%s)" % (name, ", ".join(args))
        conc = tuple(subst(t, self.s) for t in targs)
        return "%s(%s)" % (self.gen.instance(name, conc), ", ".join(args))

    def sh(self, t, e):
        """string rendering of e : t through the trait (bound in generic code, impl in concrete code)"""
        if self.s is not None:
            self.gen.need_sh(subst(t, self.s))
        return "Sh::sh(%s)" % e

    def bump(self, t, e):
        if self.s is not None:
            self.gen.need_sh(subst(t, self.s))
        return ("%s.bump()" % e) if self.s is None and e.isidentifier() else "Sh::bump(%s)" % e


def make_items():
    A, B = T("T"), T("U")
    items = [
        Item("gid", [("T", False)], [("x", A)], A, lambda c: "x"),
        Item("gpair", [("T", False), ("U", False)], [("a", A), ("b", B)], ("tup", A, B), lambda c: "(a, b)"),
        Item("gswap", [("T", False), ("U", False)], [("p", ("tup", A, B))], ("tup", B, A), lambda c: "match p { (a, b) => (b, a) }"),
        Item("gchoose", [("T", False)], [("c", ("bool",)), ("a", A), ("b", A)], A, lambda c: "if c { a } else { b }"),
        Item("gbox2", [("T", False)], [("x", A)], ("Box", ("Box", A)), lambda c: "Box { v: Box { v: x } }"),
        Item("gunbox", [("T", False)], [("b", ("Box", A))], A, lambda c: "b.v"),
        Item("gor", [("T", False)], [("o", ("Opt", A)), ("d", A)], A, lambda c: "match o { Some_(x) => x, None_ => d }"),
        Item("gsome", [("T", False)], [("x", A)], ("Opt", A), lambda c: "Some_(x)"),
        Item("gtwo", [("T", False), ("U", False)], [("a", A), ("b", B)], ("Two", B, A), lambda c: "Two { l: b, r: a }"),
        Item("gleft", [("T", False), ("U", False)], [("t", ("Two", A, B))], A, lambda c: "t.l"),
        Item("gvec2", [("T", False)], [("a", A), ("b", A)], ("Vec", A), lambda c: "let v: Vec[%s] = vec_new(); let v = vec_push(v, a); vec_push(v, b)" % c.ty(A)),
        Item("glast", [("T", False)], [("v", ("Vec", A))], A, lambda c: "vec_get(v, vec_len(v) - 1)"),
        Item("gshow2", [("T", True)], [("x", A)], ("string",), lambda c: "(%s + \"|\") + %s" % (c.sh(A, "x"), c.sh(A, c.bump(A, "x")))),
        Item("gshowpair", [("T", True), ("U", True)], [("a", A), ("b", B)], ("string",), lambda c: "(%s + \",\") + %s" % (c.sh(A, "a"), c.sh(B, "b"))),
        Item("gshowopt", [("T", True)], [("o", ("Opt", A))], ("string",), lambda c: "match o { Some_(x) => { let y: %s = x; \"S:\" + %s }, None_ => \"N\" }" % (c.ty(A), c.sh(A, "y"))),
        # generic calling generic (transitive instantiation at derived types)
        Item("gvia", [("T", True)], [("x", A)], ("string",), lambda c: "let a: %s = %s; let b: %s = %s; %s + %s" % (c.ty(A), c.call("gid", [A], ["x"]), c.ty(("Opt", A)), c.call("gsome", [A], [c.call("gchoose", [A], ["true", "x", "x"])]), c.call("gshow2", [A], ["a"]), c.call("gshowopt", [A], ["b"]))),
        Item("gdeep", [("T", True)], [("x", A)], ("string",), lambda c: "let y: %s = %s; %s" % (c.ty(A), c.call("gunbox", [A], [c.call("gunbox", [("Box", A)], [c.call("gbox2", [A], ["x"])])]), c.call("gshowpair", [("int32",), A], ["7", "y"]))),
        # recursion at the same instance
        Item("grep", [("T", True)], [("x", A), ("n", ("int32",))], ("string",), lambda c: "if n == 0 { \"\" } else { %s + %s }" % (c.sh(A, "x"), c.call("grep", [A], [c.bump(A, "x"), "n - 1"]))),
        Item("gcount", [("T", False)], [("v", ("Vec", A)), ("i", ("int32",))], ("int32",), lambda c: "if i == vec_len(v) { 0 } else { 1 + %s }" % c.call("gcount", [A], ["v", "i + 1"])),
        # a local closure inside a generic function
        Item("gclos", [("T", True)], [("x", A)], ("string",), lambda c: "let f = |y: %s| %s + \"!\"; f(x) + f(%s)" % (c.ty(A), c.sh(A, "y"), c.bump(A, "x"))),
        # inherent methods of a generic type
        Item("Box.wrap", [("T", False)], [("x", A)], ("Box", A), lambda c: "Box { v: x }", method_of="Box"),
        Item("Box.get", [("T", False)], [("self", ("Box", A))], A, lambda c: "self.v", method_of="Box"),
        Item("Box.tag", [("T", False)], [("self", ("Box", A))], ("string",), lambda c: "\"any\"", method_of="Box"),
        # a type parameter that occurs only in the result type (bound by the expected type at the call)
        Item("gokr", [("T", False), ("U", False)], [("x", A)], ("Res", A, B), lambda c: "Ok_(x)"),
        Item("gerr", [("T", False), ("U", False)], [("e", B)], ("Res", A, B), lambda c: "Err_(e)"),
        Item("gres", [("T", True), ("U", True)], [("r", ("Res", A, B))], ("string",), lambda c: "match r { Ok_(x) => { let y: %s = x; \"ok:\" + %s }, Err_(e) => { let z: %s = e; \"err:\" + %s } }" % (c.ty(A), c.sh(A, "y"), c.ty(B), c.sh(B, "z"))),
        # type parameters that occur only in the result type of a function-typed parameter / only in its parameters
        Item("gcallr", [("T", True)], [("n", ("int32",)), ("f", ("fn", A, ("int32",)))], ("string",), lambda c: "let y: %s = f(n); let z: %s = f(n + 1); %s + %s" % (c.ty(A), c.ty(A), c.sh(A, "y"), c.sh(A, "z"))),
        Item("grun2", [("T", False)], [("f", ("fn", A))], ("int32",), lambda c: "let _ = f(); let _ = f(); 2"),
        Item("gapp", [("T", False), ("U", False)], [("f", ("fn", B, A)), ("x", A)], B, lambda c: "f(x)"),
        # a type parameter that occurs ONLY in the result type (no parameter mentions it)
        Item("gnone", [("T", False)], [], ("Opt", A), lambda c: "None_"),
        Item("gvnew", [("T", False)], [], ("Vec", A), lambda c: "vec_new()"),
        Item("Two.flip", [("T", False), ("U", False)], [("self", ("Two", A, B))], ("Two", B, A), lambda c: "Two { l: self.r, r: self.l }", method_of="Two"),
    ]
    return {i.name: i for i in items}


class Gen:
    def __init__(self, rng):
        self.rng = rng
        self.items = make_items()
        self.instances = {}  # (name, conc types) -> mono name
        self.order = []
        self.sh_needed = []
        self.used = set()
        self.helpers = []

    # ---- concrete types and values -------------------------------------------------------
    def conc_type(self, d):
        r = self.rng.random()
        if d <= 0 or r < 0.45:
            return self.rng.choice([("int32",), ("bool",), ("string",), ("P",), ("E",), ("int32",)])
        k = self.rng.choice(["tup", "Box", "Opt", "Two", "Vec"])
        if k in ("tup", "Two"):
            return (k, self.conc_type(d - 1), self.conc_type(d - 1))
        return (k, self.conc_type(d - 1))

    def value(self, t):
        k, r = t[0], self.rng
        if k == "int32":
            return str(r.choice([0, 1, 2, 3, 7, 41, 2147483647]))
        if k == "bool":
            return r.choice(["true", "false"])
        if k == "string":
            return r.choice(['"a"', '""', '"xy"', '"q|,"'])
        if k == "P":
            return "P { a: %s, b: %s }" % (self.value(("int32",)), self.value(("bool",)))
        if k == "E":
            return r.choice(["A", "B(%s)" % self.value(("int32",)), "C(%s, %s)" % (self.value(("bool",)), self.value(("int32",)))])
        if k == "tup":
            return "(%s, %s)" % (self.value(t[1]), self.value(t[2]))
        if k == "Box":
            return "Box { v: %s }" % self.value(t[1])
        if k == "Two":
            return "Two { l: %s, r: %s }" % (self.value(t[1]), self.value(t[2]))
        if k == "Opt":
            # a bare None_ has no type of its own: only inside a typed position
            return "Some_(%s)" % self.value(t[1])
        if k == "Vec":
            return "%s(%s, %s)" % (self.mk_vec(t[1]), self.value(t[1]), self.value(t[1]))
        raise ValueError(t)

    def mk_vec(self, elt):
        name = "mkv_" + mangle(elt)
        self.used.add(("mkvec", elt))
        return name

    # ---- Sh impls ---------------------------------------------------------------------------
    def need_sh(self, t):
        if t in self.sh_needed:
            return
        self.sh_needed.append(t)
        for x in t[1:]:
            if isinstance(x, tuple):
                self.need_sh(x)

    def sh_impl(self, t):
        k, tt = t[0], ty_text(t)
        if k == "int32":
            body, bump = "int32_to_string(self)", "self + 1"
        elif k == "bool":
            body, bump = "bool_to_string(self)", "!self"
        elif k == "string":
            body, bump = '"\'" + self + "\'"', 'self + "+"'
        elif k == "P":
            body, bump = '"P(" + int32_to_string(self.a) + "," + bool_to_string(self.b) + ")"', "P { a: self.a + 1, b: self.b }"
        elif k == "E":
            body = 'match self { A => "A", B(n) => "B(" + int32_to_string(n) + ")", C(f, n) => "C(" + bool_to_string(f) + "," + int32_to_string(n) + ")" }'
            bump = "match self { A => B(0), B(n) => C(true, n), C(f, n) => A }"
        elif k == "tup":
            body = 'match self { (a, b) => "(" + Sh::sh(a) + ";" + Sh::sh(b) + ")" }'
            bump = "match self { (a, b) => (Sh::bump(a), b) }"
        elif k == "Box":
            body, bump = '"Box(" + Sh::sh(self.v) + ")"', "Box { v: Sh::bump(self.v) }"
        elif k == "Two":
            body, bump = '"Two(" + Sh::sh(self.l) + "/" + Sh::sh(self.r) + ")"', "Two { l: self.l, r: Sh::bump(self.r) }"
        elif k == "Opt":
            body = 'match self { Some_(x) => "Some(" + Sh::sh(x) + ")", None_ => "None" }'
            bump = "match self { Some_(x) => None_, None_ => None_ }"
        elif k == "Vec":
            body = '"Vec#" + int32_to_string(vec_len(self)) + ":" + Sh::sh(vec_get(self, 0))'
            bump = "vec_push(self, vec_get(self, 0))"
        return "impl Sh for %s {\n    fn sh(self: %s) -> string { %s }\n    fn bump(self: %s) -> %s { %s }\n}\n" % (tt, tt, body, tt, tt, bump)

    def helper(self, sig, body):
        """a plain top-level function, passed by name where a function value is expected"""
        name = "hf%d" % len(self.helpers)
        self.helpers.append("fn %s%s { %s }" % (name, sig, body))
        return name

    # ---- instances --------------------------------------------------------------------------
    def instance(self, name, conc):
        key = (name, conc)
        if key not in self.instances:
            self.instances[key] = "%s__m%d" % (name.replace(".", "_"), len(self.instances))
            self.order.append(key)
        return self.instances[key]

    # ---- main -------------------------------------------------------------------------------
    def expr_of(self, t, d, gctx, mctx):
        """returns (generic text, mono text) of an expression of concrete type t built from generic calls"""
        r = self.rng
        if d > 0 and r.random() < 0.75:
            cands = []
            for it in self.items.values():
                s = match_ret(it.ret, t)
                if s is not None and it.name not in ("grep", "gcount", "Box.tag", "gokr", "gerr", "gres", "gcallr", "grun2", "gapp", "gnone", "gvnew"):
                    cands.append((it, s))
            if cands:
                it, s = r.choice(cands)
                for (tp, bounded) in it.tparams:
                    if tp not in s:
                        s[tp] = self.conc_type(1)
                args_g, args_m = [], []
                for (pn, pt) in it.params:
                    g, m = self.expr_of(subst(pt, s), d - 1, gctx, mctx)
                    args_g.append(g)
                    args_m.append(m)
                for (tp, bounded) in it.tparams:
                    if bounded:
                        self.need_sh(s[tp])
                targs = [s[tp] for tp, _ in it.tparams]
                self.used.add(it.name)
                if False:
                    g = "%s.%s(%s)" % (args_g[0], it.name.split(".")[1], ", ".join(args_g[1:]))
                else:
                    g = gctx.call(it.name, targs, args_g)
                return g, mctx.call(it.name, targs, args_m)
        v = self.value(t)
        return v, v

    def program(self, n_stmts=6, depth=3):
        gctx, mctx = Ctx(self, None), Ctx(self, {})
        stmts_g, stmts_m = [], []
        for _ in range(n_stmts):
            k = self.rng.random()
            if k < 0.25:
                t = ("string",)
                g, m = self.expr_of(t, depth, gctx, mctx)
            elif k < 0.35:
                t = self.conc_type(1)
                self.need_sh(t)
                a = self.value(t)
                n = self.rng.choice([0, 1, 3])
                g = gctx.call("grep", [t], [a, str(n)])
                m = mctx.call("grep", [t], [a, str(n)])
                self.used.add("grep")
            elif k < 0.52 and k >= 0.42:
                # a concrete inherent impl for Box[int32] overlaps the generic one: the exact receiver type wins
                t = self.rng.choice([("int32",), ("string",), ("bool",), ("int32",), ("P",)])
                g, m = self.expr_of(("Box", t), depth - 1, gctx, mctx)
                w = "w%d" % len(stmts_g)
                stmts_g.append("    let %s: %s = %s;" % (w, ty_text(("Box", t)), g))
                stmts_m.append("    let %s: %s = %s;" % (w, ty_text(("Box", t)), m))
                g = "%s.tag()" % w
                m = ("%s.tag()" % w) if t == ("int32",) else mctx.call("Box.tag", [t], [w])
                self.used.add("Box.tag")
            elif k >= 0.52 and k < 0.64:
                ta, tb = self.conc_type(1), self.conc_type(1)
                self.need_sh(ta)
                self.need_sh(tb)
                rt = ("Res", ta, tb)
                w = "r%d" % len(stmts_g)
                which = self.rng.choice(["gokr", "gerr"])
                arg = self.value(ta if which == "gokr" else tb)
                stmts_g.append("    let %s: %s = %s;" % (w, ty_text(rt), gctx.call(which, [ta, tb], [arg])))
                stmts_m.append("    let %s: %s = %s;" % (w, ty_text(rt), mctx.call(which, [ta, tb], [arg])))
                g = gctx.call("gres", [ta, tb], [w])
                m = mctx.call("gres", [ta, tb], [w])
                self.used.update([which, "gres"])
            elif k >= 0.64 and k < 0.76:
                t = self.conc_type(1)
                self.need_sh(t)
                which = self.rng.choice(["gcallr", "grun2", "gapp"])
                if which == "gcallr":
                    f = self.helper("(i: int32) -> %s" % ty_text(t), self.value(t) if t != ("int32",) else "i * 2")
                    n0 = str(self.rng.choice([0, 5]))
                    g = gctx.call("gcallr", [t], [n0, f])
                    m = mctx.call("gcallr", [t], [n0, f])
                elif which == "grun2":
                    f = self.helper("() -> %s" % ty_text(t), "let _ = string_println(\"run\"); %s" % self.value(t))
                    g = "int32_to_string(%s)" % gctx.call("grun2", [t], [f])
                    m = "int32_to_string(%s)" % mctx.call("grun2", [t], [f])
                else:
                    u = self.conc_type(1)
                    self.need_sh(u)
                    f = self.helper("(a: %s) -> %s" % (ty_text(t), ty_text(u)), self.value(u))
                    x = self.value(t)
                    g = "Sh::sh(%s)" % gctx.call("gapp", [t, u], [f, x])
                    m = "Sh::sh(%s)" % mctx.call("gapp", [t, u], [f, x])
                self.used.add(which)
            elif k < 0.42:
                t = self.conc_type(1)
                a = self.value(("Vec", t))
                g = "int32_to_string(%s)" % gctx.call("gcount", [t], [a, "0"])
                m = "int32_to_string(%s)" % mctx.call("gcount", [t], [a, "0"])
                self.used.add("gcount")
            elif k >= 0.76 and k < 0.86:
                t = self.conc_type(1)
                self.need_sh(t)
                w = "o%d" % len(stmts_g)
                if self.rng.random() < 0.6:
                    stmts_g.append("    let %s: %s = %s;" % (w, ty_text(("Opt", t)), gctx.call("gnone", [t], [])))
                    stmts_m.append("    let %s: %s = %s;" % (w, ty_text(("Opt", t)), mctx.call("gnone", [t], [])))
                    g = gctx.call("gshowopt", [t], [w])
                    m = mctx.call("gshowopt", [t], [w])
                    self.used.update(["gnone", "gshowopt"])
                else:
                    stmts_g.append("    let %s: %s = %s;" % (w, ty_text(("Vec", t)), gctx.call("gvnew", [t], [])))
                    stmts_m.append("    let %s: %s = %s;" % (w, ty_text(("Vec", t)), mctx.call("gvnew", [t], [])))
                    g = "int32_to_string(%s)" % gctx.call("gcount", [t], [w, "0"])
                    m = "int32_to_string(%s)" % mctx.call("gcount", [t], [w, "0"])
                    self.used.update(["gvnew", "gcount"])
            else:
                t = self.conc_type(2)
                self.need_sh(t)
                g, m = self.expr_of(t, depth, gctx, mctx)
                g, m = "Sh::sh(%s)" % g, "Sh::sh(%s)" % m
            stmts_g.append("    let _ = string_println(%s);" % g)
            stmts_m.append("    let _ = string_println(%s);" % m)
        # close the instance set: render bodies of instances (may add more instances)
        mono_fns = []
        i = 0
        while i < len(self.order):
            name, conc = self.order[i]
            it = self.items[name]
            s = {tp: c for (tp, _), c in zip(it.tparams, conc)}
            c = Ctx(self, s)
            ps = ", ".join("%s: %s" % (pn, c.ty(pt)) for pn, pt in it.params)
            mono_fns.append("fn %s(%s) -> %s { %s }" % (self.instances[(name, conc)], ps, c.ty(it.ret), it.body(c)))
            i += 1
        # generic definitions (all of them: unused generic items must leave no trace)
        gen_fns, methods = [], {}
        g0 = Ctx(self, None)
        for it in self.items.values():
            tps = ", ".join(tp + (": Sh" if b else "") for tp, b in it.tparams)
            ps = ", ".join("%s: %s" % (pn, ty_text(pt)) for pn, pt in it.params)
            if it.method_of:
                methods.setdefault(it.method_of, []).append("    fn %s(%s) -> %s { %s }" % (it.name.split(".")[1], ps, ty_text(it.ret), it.body(g0)))
            else:
                gen_fns.append("fn %s[%s](%s) -> %s { %s }" % (it.name, tps, ps, ty_text(it.ret), it.body(g0)))
        for ty, ms in methods.items():
            hdr = {"Box": "impl[T] Box[T]", "Two": "impl[T, U] Two[T, U]"}[ty]
            gen_fns.append("%s {\n%s\n}" % (hdr, "\n".join(ms)))
        mkvecs = []
        for u in sorted(x for x in self.used if isinstance(x, tuple)):
            elt = u[1]
            mkvecs.append("fn mkv_%s(a: %s, b: %s) -> Vec[%s] { let v: Vec[%s] = vec_new(); let v = vec_push(v, a); vec_push(v, b) }" % (mangle(elt), ty_text(elt), ty_text(elt), ty_text(elt), ty_text(elt)))
        impls = "".join(self.sh_impl(t) for t in self.sh_needed)
        common = TYPES_PRELUDE + impls + "\n".join(mkvecs + self.helpers) + "\n"
        P = common + "\n".join(gen_fns) + "\nfn main() {\n" + "\n".join(stmts_g) + "\n    ()\n}\n"
        Pm = common + "\n".join(mono_fns) + "\nfn main() {\n" + "\n".join(stmts_m) + "\n    ()\n}\n"
        info = {"instances": [(n, [ty_text(c) for c in cs]) for n, cs in self.order], "used_items": sorted(x for x in self.used if isinstance(x, str))}
        return P, Pm, info


def mangle(t):
    return "".join(ch if ch.isalnum() else "_" for ch in ty_text(t))


def match_ret(pat, t, s=None):
    """one-way match of a return type pattern against a concrete type"""
    s = {} if s is None else s
    if pat[0] == "var":
        if pat[1] in s:
            return s if s[pat[1]] == t else None
        s[pat[1]] = t
        return s
    if pat[0] != t[0] or len(pat) != len(t):
        return None
    for a, b in zip(pat[1:], t[1:]):
        if match_ret(a, b, s) is None:
            return None
    return s
