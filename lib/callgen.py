"""Generator for C17: a three-package project P in which every method is called through all
applicable call forms, paired with a single-package, trait-free program P' in which each impl
method is a plain function called directly; plus negative variants (one ill-formed call each)
that must be rejected."""

# type key -> (package, goml type text in P seen from Main, type text in P', sample values (P text, P' text), show(self) expr)
TYPES = {
    "int32": (None, "int32", "int32", [("3", "3"), ("0", "0"), ("41", "41")], "int32_to_string(self)"),
    "bool": (None, "bool", "bool", [("true", "true"), ("false", "false")], "bool_to_string(self)"),
    "string": (None, "string", "string", [('"s"', '"s"'), ('""', '""')], "self"),
    "tup": (None, "(int32, bool)", "(int32, bool)", [("(1, true)", "(1, true)"), ("(7, false)", "(7, false)")], 'match self { (a, b) => int32_to_string(a) + bool_to_string(b) }'),
    "AS": ("LibA", "LibA::AS", "AS", [("LibA::AS { a: 3 }", "AS { a: 3 }"), ("LibA::AS { a: 9 }", "AS { a: 9 }")], "int32_to_string(self.a)"),
    "AE": ("LibA", "LibA::AE", "AE", [("LibA::AE::AX", "AX"), ("LibA::AE::AY(2)", "AY(2)")], 'match self { AX => "AX", AY(n) => "AY" + int32_to_string(n) }'),
    "BS": ("LibB", "LibB::BS", "BS", [("LibB::BS { f: true }", "BS { f: true }")], "bool_to_string(self.f)"),
    "MP": ("Main", "MP", "MP", [("MP { a: 1, b: 2 }", "MP { a: 1, b: 2 }"), ("MP { a: 5, b: 0 }", "MP { a: 5, b: 0 }")], "int32_to_string(self.a + self.b)"),
    "BoxI": ("Main", "Box[int32]", "Box[int32]", [("Box { v: 4 }", "Box { v: 4 }")], "int32_to_string(self.v)"),
    "BoxS": ("Main", "Box[string]", "Box[string]", [('Box { v: "z" }', 'Box { v: "z" }')], "self.v"),
}
# trait key -> (package, path seen from Main, methods)
TRAITS = {
    "AShow": ("LibA", "LibA::Show", ["m", "n", "nm"]),
    "BShow": ("LibB", "LibB::Show", ["m", "q", "qm"]),
    "Tr": ("Main", "Tr", ["m", "r", "rm"]),
}
TYPE_DEFS = {
    "LibA": "struct AS { a: int32 }\nenum AE { AX, AY(int32) }\nstruct LBox[T] { v: T }\nimpl[T] LBox[T] {\n    fn im(self: LBox[T], a: int32) -> string { \"inh.im@LBox(\" + int32_to_string(a) + \")\" }\n}\n",
    "LibB": "struct BS { f: bool }\n",
    "Main": "struct MP { a: int32, b: int32 }\nstruct Box[T] { v: T }\n",
}
IMPORTS = {"LibA": [], "LibB": ["LibA"], "Main": ["LibA", "LibB"]}


def type_in(pkg, tk):
    """type text as written inside package pkg"""
    p, main_text, plain, _, _ = TYPES[tk]
    if p is None or p == pkg:
        return plain
    return "%s::%s" % (p, plain)


def trait_in(pkg, trk):
    p, _, _ = TRAITS[trk]
    return "Show" if p == pkg and trk != "Tr" else ("Tr" if trk == "Tr" else "%s::Show" % p)


def allowed_home(trk, tk):
    """package where `impl trait for type` may live (orphan rule), preferring the trait's package"""
    tp = TRAITS[trk][0]
    yp = TYPES[tk][0]
    order = {"LibA": 0, "LibB": 1, "Main": 2}
    cands = []
    for pkg in ("LibA", "LibB", "Main"):
        sees_trait = pkg == tp or tp in IMPORTS[pkg]
        sees_type = yp is None or pkg == yp or yp in IMPORTS[pkg]
        local = pkg == tp or pkg == yp
        if sees_trait and sees_type and local:
            cands.append(pkg)
    return cands


def sig(m):
    return {"m": ("(Self, int32) -> string", True), "n": ("(Self) -> string", False), "q": ("(Self) -> string", False), "r": ("(Self) -> string", False),
            # names that END in another method's name, with that method's signature
            "nm": ("(Self, int32) -> string", True), "qm": ("(Self, int32) -> string", True), "rm": ("(Self, int32) -> string", True)}[m]


def method_body(trk, tk, m, show, arg):
    tag = '"%s.%s@%s("' % (trk, m, tk)
    return "%s + %s + %s" % (tag, show, ('"," + int32_to_string(a) + ")"' if arg else '")"'))


class Gen:
    def __init__(self, rng):
        self.rng = rng
        r = rng
        self.impls = {}  # (trait, type) -> home package
        for trk in TRAITS:
            for tk in TYPES:
                homes = allowed_home(trk, tk)
                if homes and r.random() < 0.55:
                    self.impls[(trk, tk)] = r.choice(homes)
        # make sure the interesting overlaps exist
        for tk in ("MP", "AS", "int32"):
            for trk in ("AShow", "BShow"):
                if (trk, tk) not in self.impls and allowed_home(trk, tk) and r.random() < 0.8:
                    self.impls[(trk, tk)] = r.choice(allowed_home(trk, tk))
        self.inherent = [tk for tk in ("AS", "MP", "BS", "AE") if r.random() < 0.7]
        self.box_inherent = r.random() < 0.7
        self.helpers = {}  # text -> name (generic helper functions in Main)
        self.plain = {}

    # ---- the packages of P -----------------------------------------------------------------
    def package(self, pkg):
        out = ["package %s" % pkg] + ["import %s" % i for i in IMPORTS[pkg]] + [TYPE_DEFS[pkg]]
        for trk, (tp, _, ms) in TRAITS.items():
            if tp == pkg:
                out.append("trait %s {\n%s\n}" % ("Tr" if trk == "Tr" else "Show", "\n".join("    fn %s%s;" % (m, sig(m)[0]) for m in ms)))
        for (trk, tk), home in self.impls.items():
            if home != pkg:
                continue
            tt = type_in(pkg, tk)
            ms = []
            order = list(TRAITS[trk][2])
            self.rng.shuffle(order)  # an impl may list its methods in any order
            for m in order:
                arg = sig(m)[1]
                ms.append("    fn %s(self: %s%s) -> string { %s }" % (m, tt, ", a: int32" if arg else "", method_body(trk, tk, m, self.show(pkg, tk), arg)))
            out.append("impl %s for %s {\n%s\n}" % (trait_in(pkg, trk), tt, "\n".join(ms)))
        for tk in self.inherent:
            if TYPES[tk][0] == pkg:
                tt = type_in(pkg, tk)
                out.append("impl %s {\n    fn im(self: %s, a: int32) -> string { %s }\n}" % (tt, tt, method_body("inh", tk, "im", self.show(pkg, tk), True)))
        if pkg == "Main" and self.box_inherent:
            out.append('impl[T] Box[T] {\n    fn im(self: Box[T], a: int32) -> string { "inh.im@Box(" + int32_to_string(a) + ")" }\n}')
        return "\n".join(out) + "\n"

    def show(self, pkg, tk):
        s = TYPES[tk][4]
        if tk == "AE" and pkg != "LibA":
            s = s.replace("AX =>", "LibA::AE::AX =>").replace("AY(n) =>", "LibA::AE::AY(n) =>")
        return s

    # ---- call forms ----------------------------------------------------------------------------
    def helper(self, kind, bounds, trk, m):
        """generic or dyn helper function in Main; returns its name"""
        arg = sig(m)[1]
        key = (kind, tuple(bounds), trk, m)
        if key in self.helpers:
            return self.helpers[key][0]
        name = "h%d" % len(self.helpers)
        path = TRAITS[trk][1]
        ps = "x: T" + (", a: int32" if arg else "")
        bs = " + ".join(TRAITS[b][1] for b in bounds)
        if kind == "dot":
            text = "fn %s[T: %s](%s) -> string { x.%s(%s) }" % (name, bs, ps, m, "a" if arg else "")
        elif kind == "path":
            text = "fn %s[T: %s](%s) -> string { %s::%s(x%s) }" % (name, bs, ps, path, m, ", a" if arg else "")
        else:
            text = "fn %s(d: dyn %s%s) -> string { %s::%s(d%s) }" % (name, path, ", a: int32" if arg else "", path, m, ", a" if arg else "")
        self.helpers[key] = (name, text)
        return name

    def forms(self, trk, tk, m, x, a):
        """all applicable call forms of trait method m on variable x of type tk"""
        arg = sig(m)[1]
        path = TRAITS[trk][1]
        args = ", %s" % a if arg else ""
        out = [("ufcs-concrete", [], "%s::%s(%s%s)" % (path, m, x, args))]
        # bounds: the trait alone, or together with another trait implemented for the type
        others = [o for o in TRAITS if o != trk and (o, tk) in self.impls]
        for extra in [[]] + [[o] for o in others]:
            bounds = [trk] + extra if self.rng.random() < 0.5 else extra + [trk]
            clash = any(m in TRAITS[o][2] for o in extra)
            if not clash:
                out.append(("dot-through-bound", [], "%s(%s%s)" % (self.helper("dot", bounds, trk, m), x, args)))
            out.append(("ufcs-through-bound", [], "%s(%s%s)" % (self.helper("path", bounds, trk, m), x, args)))
        d = "d_" + x
        out.append(("dyn-let", ["let %s: dyn %s = %s;" % (d, path, x)], "%s::%s(%s%s)" % (path, m, d, args)))
        out.append(("dyn-argument", [], "%s(%s%s)" % (self.helper("dyn", [], trk, m), x, args)))
        return out

    def plain_fn(self, trk, tk, m):
        key = (trk, tk, m)
        if key not in self.plain:
            arg = sig(m)[1]
            name = "p_%s_%s_%s" % (trk, tk, m)
            body = method_body(trk, tk, m, TYPES[tk][4], arg)
            self.plain[key] = (name, "fn %s(self: %s%s) -> string { %s }" % (name, TYPES[tk][2], ", a: int32" if arg else "", body))
        return self.plain[key][0]

    def project(self, n_calls=10):
        r = self.rng
        g_stmts, m_stmts, forms_used = [], [], {}
        pairs = sorted(self.impls)
        k = 0
        for _ in range(n_calls):
            if not pairs:
                break
            if r.random() < 0.2 and (self.inherent or self.box_inherent):
                cands = list(self.inherent) + (["BoxI", "BoxS"] if self.box_inherent else []) + ["LBoxI", "LBoxS"]
                tk = r.choice(cands)
                # a generic type of another package with an inherent method
                LB = {"LBoxI": [("LibA::LBox { v: 4 }", "LBox { v: 4 }")], "LBoxS": [('LibA::LBox { v: "z" }', 'LBox { v: "z" }')]}
                vg, vm = r.choice(LB[tk] if tk in LB else TYPES[tk][3])
                x = "x%d" % k
                k += 1
                a = str(r.choice([0, 1, 7]))
                tpath = {"AS": "LibA::AS", "AE": "LibA::AE", "BS": "LibB::BS", "MP": "MP", "BoxI": "Box", "BoxS": "Box", "LBoxI": "LibA::LBox", "LBoxS": "LibA::LBox"}[tk]
                form = r.choice(["dot", "path"])
                call = ("%s.im(%s)" % (x, a)) if form == "dot" else "%s::im(%s, %s)" % (tpath, x, a)
                forms_used["inherent-" + form] = forms_used.get("inherent-" + form, 0) + 1
                if tk.startswith("LBox"):
                    ref = '"inh.im@LBox(" + int32_to_string(%s) + ")"' % a
                elif tk.startswith("Box"):
                    ref = '"inh.im@Box(" + int32_to_string(%s) + ")"' % a
                else:
                    name = "p_inh_%s_im" % tk
                    self.plain[("inh", tk, "im")] = (name, "fn %s(self: %s, a: int32) -> string { %s }" % (name, TYPES[tk][2], method_body("inh", tk, "im", TYPES[tk][4], True)))
                    ref = "%s(%s, %s)" % (name, x, a)
                g_stmts += ["let %s = %s;" % (x, vg), "let _ = string_println(%s);" % call]
                m_stmts += ["let %s = %s;" % (x, vm), "let _ = string_println(%s);" % ref]
                continue
            trk, tk = r.choice(pairs)
            m = r.choice(TRAITS[trk][2])
            vg, vm = r.choice(TYPES[tk][3])
            x = "x%d" % k
            k += 1
            a = str(r.choice([0, 1, 7]))
            ref = "%s(%s%s)" % (self.plain_fn(trk, tk, m), x, (", " + a) if sig(m)[1] else "")
            g_stmts.append("let %s: %s = %s;" % (x, TYPES[tk][1], vg))
            m_stmts.append("let %s: %s = %s;" % (x, TYPES[tk][2], vm))
            for name, pre, call in self.forms(trk, tk, m, x, a):
                forms_used[name] = forms_used.get(name, 0) + 1
                g_stmts += pre + ["let _ = string_println(%s);" % call]
                m_stmts.append("let _ = string_println(%s);" % ref)
        main_fn = "fn main() {\n" + "\n".join("    " + s for s in g_stmts) + "\n    ()\n}\n"
        files = {
            "LibA/lib.gom": self.package("LibA"),
            "LibB/lib.gom": self.package("LibB"),
            "main.gom": self.package("Main") + "\n".join(t for _, t in self.helpers.values()) + "\n" + main_fn,
        }
        plain = "struct AS { a: int32 }\nenum AE { AX, AY(int32) }\nstruct BS { f: bool }\nstruct MP { a: int32, b: int32 }\nstruct Box[T] { v: T }\nstruct LBox[T] { v: T }\n"
        plain += "\n".join(t for _, t in self.plain.values()) + "\nfn main() {\n" + "\n".join("    " + s for s in m_stmts) + "\n    ()\n}\n"
        return files, plain, forms_used

    # ---- negative variants: exactly one ill-formed use, must be rejected ------------------------
    def negatives(self):
        r = self.rng
        out = []
        missing = [(trk, tk) for trk in TRAITS for tk in TYPES if (trk, tk) not in self.impls]
        base = self.package("Main")
        for trk, tk in r.sample(missing, min(3, len(missing))):
            path, m = TRAITS[trk][1], "m"
            vg = TYPES[tk][3][0][0]
            out.append(("dyn coercion of %s to dyn %s without an impl" % (tk, path), "fn main() { let x: %s = %s; let d: dyn %s = x; string_println(%s::m(d, 1)) }" % (TYPES[tk][1], vg, path, path)))
            out.append(("UFCS call of %s::m on %s without an impl" % (path, tk), "fn main() { let x: %s = %s; string_println(%s::m(x, 1)) }" % (TYPES[tk][1], vg, path)))
            # (an unsatisfied bound at a generic call is accepted by the typer: known finding under C03/C02, not judged here)
        both = [tk for tk in TYPES if sum(1 for trk in TRAITS if (trk, tk) in self.impls) >= 2]
        for tk in both[:2]:
            trs = [trk for trk in TRAITS if (trk, tk) in self.impls][:2]
            if r.random() < 0.5:
                trs.reverse()
            vg = TYPES[tk][3][0][0]
            out.append(("ambiguous dot call: m is a method of both %s and %s" % (TRAITS[trs[0]][1], TRAITS[trs[1]][1]), "fn gamb[T: %s + %s](x: T) -> string { x.m(1) }\nfn main() { let x: %s = %s; string_println(gamb(x)) }" % (TRAITS[trs[0]][1], TRAITS[trs[1]][1], TYPES[tk][1], vg)))
        # a trait object of one trait is not a receiver for the like-named method of another trait
        for (trk, tk) in r.sample(sorted(self.impls), min(3, len(self.impls))):
            others = [o for o in TRAITS if o != trk]
            for o in others:
                vg = TYPES[tk][3][0][0]
                out.append(("%s::m called on a `dyn %s` receiver (no impl of the former for the trait object)" % (TRAITS[o][1], TRAITS[trk][1]),
                            "fn main() { let x: %s = %s; let d: dyn %s = x; string_println(%s::m(d, 1)) }" % (TYPES[tk][1], vg, TRAITS[trk][1], TRAITS[o][1])))
        trs = r.sample(sorted(TRAITS), 2)
        out.append(("UFCS through a bound that does not name the trait", "fn gnb[T: %s](x: T) -> string { %s::m(x, 1) }\nfn main() { () }" % (TRAITS[trs[0]][1], TRAITS[trs[1]][1])))
        return [(why, {"LibA/lib.gom": self.package("LibA"), "LibB/lib.gom": self.package("LibB"), "main.gom": base + body + "\n"}) for why, body in out]
