"""C19, program level: one program template whose user-chosen identifiers are parameters; adversarial choices for one
role at a time (Go keywords, predeclared identifiers, runtime helpers, compiler temporaries, names of generated helpers
derived from the other names) against the same program with plain names."""

TEMPLATE_SRC = """struct {S} {{ {fa}: int32, {fb}: int32 }}
enum {E} {{ {Va}, {Vb}(int32) }}
trait {Tr} {{ fn {m}(Self, int32) -> int32; fn pre_{m}(Self, int32) -> int32; }}
impl {Tr} for {S} {{
    fn pre_{m}(self: {S}, k: int32) -> int32 {{ self.{fb} * 100 + k }}
    fn {m}(self: {S}, k: int32) -> int32 {{ self.{fa} + k }}
}}
impl {S} {{ fn {im}(self: {S}) -> int32 {{ self.{fb} * 2 }} }}
fn {f}({p}: int32, {q}: int32) -> int32 {{ let {v} = {p} * 10; let {w} = {v} + {q}; {w} }}
fn {g}({p}: {E}) -> int32 {{ match {p} {{ {Va} => 1, {Vb}({v}) => {v} + {f}({v}, 2) }} }}
fn main() {{
    let {v} = {S} {{ {fa}: 3, {fb}: 4 }};
    let _ = string_println(int32_to_string({f}(1, 2)));
    let _ = string_println(int32_to_string({g}({Vb}(5))));
    let _ = string_println(int32_to_string({g}({Va})));
    let _ = string_println(int32_to_string({Tr}::{m}({v}, 7)));
    let _ = string_println(int32_to_string({v}.{im}()));
    let {c} = |{p}: int32| {p} + {v}.{fa};
    let {w} = (1, {v});
    let d: dyn {Tr} = {v};
    let _ = string_println(int32_to_string({Tr}::{m}(d, 1)));
    let _ = string_println(int32_to_string({Tr}::pre_{m}(d, 1)));
    let _ = string_println(int32_to_string({w}.0));
%(extra)s    string_println(int32_to_string({c}(9)))
}}
"""

EXTRA = """    let vv: Vec[int32] = vec_new();
    let vv = vec_push(vec_push(vv, 4), 6);
    let _ = string_println(int32_to_string(vec_len(vv) + vec_get(vv, 1)));
    let _ = string_println(string_get("hey", 1) + int32_to_string(string_len("hey")));
    let rr = ref(5);
    let _ = ref_set(rr, ref_get(rr) + {f}(1, 1));
    let _ = string_println(int32_to_string(ref_get(rr)));
    let _ = string_println(bool_to_string({v}.{fb} > 3));
"""
# template a: no runtime helpers beyond printing; template b: Vec, Ref and string helpers (whose Go code uses len, append, string, new, panic)
TEMPLATES = {"a": TEMPLATE_SRC % {"extra": ""}, "b": TEMPLATE_SRC % {"extra": EXTRA}}

PLAIN = {"S": "Sx", "E": "Ex", "Tr": "Trq", "Va": "Vaq", "Vb": "Vbq", "fa": "faq", "fb": "fbq", "m": "mq", "im": "imq", "f": "fq", "g": "gq", "p": "pq", "q": "qq", "v": "vq", "w": "wq", "c": "cq"}
LOWER_ROLES = ["fa", "fb", "m", "im", "f", "g", "p", "q", "v", "w", "c"]
UPPER_ROLES = ["S", "E", "Tr", "Va", "Vb"]

GO_KEYWORDS = "break default func interface select case defer go map struct chan else goto package switch const fallthrough if range type continue for import return var".split()
GO_PREDECLARED = ("any bool byte comparable complex64 complex128 error float32 float64 int int8 int16 int32 int64 rune string uint uint8 uint16 uint32 uint64 uintptr true false iota nil "
                  "append cap clear close complex copy delete imag len make max min new panic print println real recover").split()
RUNTIME = "fmt os strings string_println string_print int32_to_string bool_to_string missing ref ref_get ref_set vec_new vec_push vec_get vec_len array_get array_set unit_to_string init main main0 main1".split()
TEMPS = ["t0", "t1", "t5", "t12", "x0", "x1", "x2", "mtmp0", "mtmp1", "ret0", "ret1", "ret5", "ret12", "jp0", "env0", "env7", "p0", "p1", "self", "_x"]
SHAPES = ["domain", "remain", "xmain", "a_b", "a__b", "a__0", "pq__0", "pq__3", "vq__1", "vq__8", "wq__2", "fq__0", "x__0", "go_", "func_", "type_", "isEx", "apply", "closure_env_cq_0"]


def derived(names):
    """names of helpers the compiler generates from the OTHER names of the program"""
    n = names
    lower = ["dyn__%s__wrap__%s__%s" % (n["Tr"], n["S"], n["m"]), "dyn__%s__vtable__%s" % (n["Tr"], n["S"]), "closure_env_%s_0" % n["c"], "is%s" % n["E"], "dyn__%s" % n["Tr"], "trait_impl_%s_%s_%s" % (n["Tr"], n["S"], n["m"])]
    upper = ["Tuple2_int32_%s" % n["S"], n["Va"], n["Vb"], n["S"], n["E"], "Dyn__%s" % n["Tr"], "GoError", "Tuple2_int32_int32", "Ref_int32", "Vec_int32", "Self", "T", "Main", "Builtin"]
    return lower, upper


def render(names, tpl="a"):
    return TEMPLATES[tpl].format(**names)


def cases(rng, n_random, full=True):
    """-> [(template, role, name, program text)]; role None: the plain program of that template"""
    dl, du = derived(PLAIN)
    lower_pool = GO_KEYWORDS + GO_PREDECLARED + RUNTIME + TEMPS + SHAPES + dl
    upper_pool = du + [x.capitalize() for x in ("func", "type", "len", "string", "error", "main")] + ["X0", "T0", "Ret0", "A_b", "A__0"]
    res = []
    for tpl in ("a", "b"):
        res.append((tpl, None, None, render(PLAIN, tpl)))
        for roles, pool in ((LOWER_ROLES, lower_pool), (UPPER_ROLES, upper_pool)):
            for ri, role in enumerate(roles):
                for ni, nm in enumerate(pool):
                    if not full and role not in ("f", "g", "S", "E", "Tr", "Va", "Vb") and (ni + ri) % 8 != 0:
                        continue  # quick tier: a stride of the pool for fields, methods, parameters and locals
                    names = dict(PLAIN)
                    names[role] = nm
                    if nm == PLAIN[role] or len(set(names.values())) < len(names):
                        continue
                    res.append((tpl, role, nm, render(names, tpl)))
    # two adversarial roles at once
    for _ in range(n_random):
        names = dict(PLAIN)
        for role in rng.sample(LOWER_ROLES, 2):
            names[role] = rng.choice(lower_pool)
        if names["f"] == names["g"] or names["fa"] == names["fb"] or names["m"] == names["im"]:
            continue
        if len(set(names.values())) < len(names):
            continue  # two roles under one name shadow each other in the source already: not a renaming
        ch = sorted(k for k in names if names[k] != PLAIN[k])
        tpl = rng.choice(["a", "b"])
        res.append((tpl, "+".join(ch), ",".join(names[k] for k in ch), render(names, tpl)))
    return res
