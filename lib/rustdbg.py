"""Parser for Rust `{:?}` output of derived Debug impls -> generic trees.
node := ("struct", name, {field: node}) | ("tuple", name, [node]) | ("unit", name) | ("list", [node])
      | ("str", s) | ("num", text) | ("bool", b) | ("anon", [node])  (anonymous tuple)"""
import re


class ParseError(Exception):
    pass


_IDENT = re.compile(r"[A-Za-z_][A-Za-z_0-9]*(?:::[A-Za-z_][A-Za-z_0-9]*)*")
_NUM = re.compile(r"\d+\.\.\d+|-?(?:\d+\.\d+(?:e-?\d+)?|\d+(?:e-?\d+)?|inf|NaN)")


def parse(text):
    p = _P(text)
    v = p.value()
    p.ws()
    if p.i != len(text):
        raise ParseError("trailing input at %d: %r" % (p.i, text[p.i : p.i + 40]))
    return v


class _P:
    def __init__(self, t):
        self.t = t
        self.i = 0

    def ws(self):
        t, n = self.t, len(self.t)
        while self.i < n and t[self.i] in " \n\t":
            self.i += 1

    def expect(self, c):
        self.ws()
        if self.t[self.i : self.i + len(c)] != c:
            raise ParseError("expected %r at %d: %r" % (c, self.i, self.t[self.i : self.i + 40]))
        self.i += len(c)

    def peek(self):
        self.ws()
        return self.t[self.i] if self.i < len(self.t) else ""

    def seq(self, close):
        out = []
        while True:
            if self.peek() == close:
                self.i += 1
                return out
            out.append(self.value())
            if self.peek() == ",":
                self.i += 1

    def string(self):
        # Rust Debug string: escapes \" \\ \n \r \t \0 \' \u{...}
        assert self.t[self.i] == '"'
        self.i += 1
        out = []
        t = self.t
        while True:
            c = t[self.i]
            if c == '"':
                self.i += 1
                return "".join(out)
            if c == "\\":
                d = t[self.i + 1]
                self.i += 2
                if d == "n":
                    out.append("\n")
                elif d == "r":
                    out.append("\r")
                elif d == "t":
                    out.append("\t")
                elif d == "0":
                    out.append("\0")
                elif d == "u":
                    j = t.index("}", self.i)
                    out.append(chr(int(t[self.i + 1 : j], 16)))
                    self.i = j + 1
                else:
                    out.append(d)
            else:
                out.append(c)
                self.i += 1

    def value(self):
        c = self.peek()
        if c == '"':
            return ("str", self.string())
        if c == "[":
            self.i += 1
            return ("list", self.seq("]"))
        if c == "(":
            self.i += 1
            return ("anon", self.seq(")"))
        if c == "{":  # map / set debug
            self.i += 1
            items = []
            while True:
                if self.peek() == "}":
                    self.i += 1
                    return ("map", items)
                k = self.value()
                if self.peek() == ":":
                    self.i += 1
                    v = self.value()
                    items.append((k, v))
                else:
                    items.append((k, None))
                if self.peek() == ",":
                    self.i += 1
        m = _NUM.match(self.t, self.i)
        if m and (c.isdigit() or c == "-" or self.t.startswith("inf", self.i) or self.t.startswith("NaN", self.i)):
            self.i = m.end()
            return ("num", m.group(0))
        m = _IDENT.match(self.t, self.i)
        if not m:
            raise ParseError("unexpected %r at %d: %r" % (c, self.i, self.t[self.i : self.i + 40]))
        name = m.group(0)
        self.i = m.end()
        if name == "true":
            return ("bool", True)
        if name == "false":
            return ("bool", False)
        nxt = self.peek()
        if nxt == "{":
            self.i += 1
            fields = {}
            while True:
                if self.peek() == "}":
                    self.i += 1
                    return ("struct", name, fields)
                fm = _IDENT.match(self.t, self.i)
                if not fm:
                    raise ParseError("field name expected at %d: %r" % (self.i, self.t[self.i : self.i + 40]))
                fname = fm.group(0)
                self.i = fm.end()
                self.expect(":")
                fields[fname] = self.value()
                if self.peek() == ",":
                    self.i += 1
        if nxt == "(":
            self.i += 1
            return ("tuple", name, self.seq(")"))
        return ("unit", name)
