"""Printer from the parser's AST (Rust Debug dump of ast::File, as a rustdbg tree) back to goml source with only
the necessary parentheses and its own layout, and a canonical form of the AST without source pointers.
parse(print(parse(s))) must equal parse(s) for every accepted s: the printed text has other trivia, other line
breaks and no redundant parentheses, so the parser must read every item, type, pattern and expression form
the same way again (C11)."""
import random

BINSYM = {"Add": "+", "Sub": "-", "Mul": "*", "Div": "/", "And": "&&", "Or": "||", "Less": "<", "Greater": ">", "LessEq": "<=", "GreaterEq": ">=", "Eq": "==", "NotEq": "!="}
BINLVL = {"Or": 1, "And": 3, "Eq": 9, "NotEq": 9, "Less": 11, "Greater": 11, "LessEq": 11, "GreaterEq": 11, "Add": 13, "Sub": 13, "Mul": 15, "Div": 15}
INTSUF = {"EInt": "", "EInt8": "i8", "EInt16": "i16", "EInt32": "i32", "EInt64": "i64", "EUInt8": "u8", "EUInt16": "u16", "EUInt32": "u32", "EUInt64": "u64",
          "PInt": "", "PInt8": "i8", "PInt16": "i16", "PInt32": "i32", "PInt64": "i64", "PUInt8": "u8", "PUInt16": "u16", "PUInt32": "u32", "PUInt64": "u64"}
PRIMTY = {"TUnit": "unit", "TBool": "bool", "TInt8": "int8", "TInt16": "int16", "TInt32": "int32", "TInt64": "int64", "TUint8": "uint8", "TUint16": "uint16", "TUint32": "uint32", "TUint64": "uint64",
          "TFloat32": "float32", "TFloat64": "float64", "TString": "string"}


class Unprintable(Exception):
    pass


def ident(x):
    return x[2][0][1]


def path(p):
    return "::".join(ident(s[2]["ident"]) for s in p[2]["segments"][1])


def lit_string(s):
    out = []
    for ch in s:
        o = ord(ch)
        if ch == '"':
            out.append('\\"')
        elif ch == "\\":
            out.append("\\\\")
        elif ch == "\n":
            out.append("\\n")
        elif ch == "\t":
            out.append("\\t")
        elif ch == "\r":
            out.append("\\r")
        elif o < 32:
            out.append("\\u%04x" % o)
        else:
            out.append(ch)
    return '"' + "".join(out) + '"'


def ty(t):
    if t[0] == "unit":
        return PRIMTY[t[1]]
    k, f = t[1], t[2]
    if k == "TTuple":
        return "(" + ", ".join(ty(x) for x in f["typs"][1]) + ")"
    if k == "TCon":
        return path(f["path"])
    if k == "TDyn":
        return "dyn " + path(f["trait_path"])
    if k == "TApp":
        return ty(f["ty"]) + "[" + ", ".join(ty(x) for x in f["args"][1]) + "]"
    if k == "TArray":
        return "[" + ty(f["elem"]) + "; " + f["len"][1] + "]"
    if k == "TFunc":
        return "(" + ", ".join(ty(x) for x in f["params"][1]) + ") -> " + ty(f["ret_ty"])
    raise Unprintable("type " + k)


def pat(p):
    k, f = p[1], p[2]
    if k == "PVar":
        return ident(f["name"])
    if k == "PUnit":
        return "()"
    if k == "PBool":
        return "true" if f["value"][1] else "false"
    if k in INTSUF:
        return f["value"][1] + INTSUF[k]
    if k == "PString":
        return lit_string(f["value"][1])
    if k == "PConstr":
        a = f["args"][1]
        return path(f["constructor"]) + ("(" + ", ".join(pat(x) for x in a) + ")" if a else "")
    if k == "PStruct":
        return path(f["name"]) + " { " + ", ".join("%s: %s" % (ident(x[1][0]), pat(x[1][1])) for x in f["fields"][1]) + " }"
    if k == "PTuple":
        return "(" + ", ".join(pat(x) for x in f["pats"][1]) + ")"
    if k == "PWild":
        return "_"
    raise Unprintable("pattern " + k)


class P:
    def __init__(self, rng=None):
        self.rng = rng or random.Random(0)
        self.ind = 0

    def nl(self):
        return "\n" + "    " * self.ind + (self.rng.choice(["", "", "// c\n" + "    " * self.ind]) if self.rng.random() < 0.1 else "")

    def level(self, e):
        k = e[1]
        if k == "EBinary":
            return BINLVL[e[2]["op"][1]]
        if k == "EUnary":
            return 23
        if k in ("EClosure", "EIf", "EMatch", "EWhile", "EGo", "ELet"):
            return 0
        return 100

    def expr(self, e, ctx=0):
        s = self.expr0(e)
        return "(" + s + ")" if self.level(e) < ctx else s

    def block(self, e):
        """e is an expression used as a block body"""
        if e[1] == "EBlock":
            items = e[2]["exprs"][1]
        else:
            items = [e]
        if not items:
            return "{}"
        self.ind += 1
        out = "{"
        for i, x in enumerate(items):
            last = i == len(items) - 1
            out += self.nl() + self.stmt(x) + ("" if last and x[1] != "ELet" else ";")
        self.ind -= 1
        return out + self.nl() + "}"

    def stmt(self, e):
        if e[1] == "ELet":
            f = e[2]
            ann = f["annotation"]
            a = "" if ann[0] == "unit" else ": " + ty(ann[2][0])
            return "let %s%s = %s" % (pat(f["pat"]), a, self.expr(f["value"]))
        return self.expr(e)

    def expr0(self, e):
        k, f = e[1], e[2]
        if k == "EPath":
            return path(f["path"])
        if k == "EUnit":
            return "()"
        if k == "EBool":
            return "true" if f["value"][1] else "false"
        if k in INTSUF:
            return f["value"][1] + INTSUF[k]
        if k == "EFloat":
            v = repr(float(f["value"][1]))
            if "e" in v or "inf" in v or "nan" in v:
                raise Unprintable("float spelling")
            return v
        if k in ("EFloat32", "EFloat64"):
            return f["value"][1] + ("f32" if k == "EFloat32" else "f64")
        if k == "EString":
            return lit_string(f["value"][1])
        if k == "EConstr":
            a = f["args"][1]
            return path(f["constructor"]) + ("(" + ", ".join(self.expr(x) for x in a) + ")" if a else "")
        if k == "EStructLiteral":
            fs = f["fields"][1]
            return path(f["name"]) + " { " + ", ".join("%s: %s" % (ident(x[1][0]), self.expr(x[1][1])) for x in fs) + " }" if fs else path(f["name"]) + " {}"
        if k == "ETuple":
            return "(" + ", ".join(self.expr(x) for x in f["items"][1]) + ")"
        if k == "EArray":
            return "[" + ", ".join(self.expr(x) for x in f["items"][1]) + "]"
        if k == "ELet":
            return self.stmt(e)
        if k == "EClosure":
            ps = []
            for p in f["params"][1]:
                t = p[2]["ty"]
                ps.append(ident(p[2]["name"]) + ("" if t[0] == "unit" else ": " + ty(t[2][0])))
            body = f["body"]
            return "|" + ", ".join(ps) + "| " + (self.block(body) if body[1] == "EBlock" else self.expr(body))
        if k == "EMatch":
            self.ind += 1
            arms = []
            for a in f["arms"][1]:
                b = a[2]["body"]
                arms.append(self.nl() + pat(a[2]["pat"]) + " => " + (self.block(b) if b[1] == "EBlock" else self.expr(b)) + ",")
            self.ind -= 1
            return "match " + self.expr(f["expr"]) + " {" + "".join(arms) + self.nl() + "}"
        if k == "EIf":
            return "if " + self.expr(f["cond"]) + " " + self.block(f["then_branch"]) + " else " + self.block(f["else_branch"])
        if k == "EWhile":
            return "while " + self.expr(f["cond"]) + " " + self.block(f["body"])
        if k == "EGo":
            return "go " + self.expr(f["expr"])
        if k == "ECall":
            return self.expr(f["func"], 100) + "(" + ", ".join(self.expr(x) for x in f["args"][1]) + ")"
        if k == "EUnary":
            return {"Neg": "-", "Not": "!"}[f["op"][1]] + self.expr(f["expr"], 23)
        if k == "EBinary":
            l = BINLVL[f["op"][1]]
            return self.expr(f["lhs"], l) + " " + BINSYM[f["op"][1]] + " " + self.expr(f["rhs"], l + 1)
        if k == "EProj":
            return self.expr(f["tuple"], 100) + "." + f["index"][1]
        if k == "EField":
            return self.expr(f["expr"], 100) + "." + ident(f["field"])
        if k == "EBlock":
            return self.block(e)
        raise Unprintable("expr " + k)

    def generics(self, f):
        gens = [ident(g) for g in f["generics"][1]]
        if not gens:
            return ""
        bounds = {}
        if "generic_bounds" in f:
            for b in f["generic_bounds"][1]:
                bounds[ident(b[1][0])] = [path(p) for p in b[1][1][1]]
        return "[" + ", ".join(g + (": " + " + ".join(bounds[g]) if bounds.get(g) else "") for g in gens) + "]"

    def fn(self, f):
        ps = ", ".join("%s: %s" % (ident(p[1][0]), ty(p[1][1])) for p in f["params"][1])
        r = f["ret_ty"]
        ret = "" if r[0] == "unit" else " -> " + ty(r[2][0])
        return "fn %s%s(%s)%s %s" % (ident(f["name"]), self.generics(f), ps, ret, self.block(f["body"]))

    def item(self, it):
        k, f = it[1], it[2][0][2]
        if f.get("attrs") and f["attrs"][1]:
            raise Unprintable("attributes")
        if k == "Fn":
            return self.fn(f)
        if k == "StructDef":
            return "struct %s%s { %s }" % (ident(f["name"]), self.generics(f), ", ".join("%s: %s" % (ident(x[1][0]), ty(x[1][1])) for x in f["fields"][1]))
        if k == "EnumDef":
            vs = []
            for v in f["variants"][1]:
                ts = v[1][1][1]
                vs.append(ident(v[1][0]) + ("(" + ", ".join(ty(t) for t in ts) + ")" if ts else ""))
            return "enum %s%s { %s }" % (ident(f["name"]), self.generics(f), ", ".join(vs))
        if k == "TraitDef":
            ms = []
            for m in f["method_sigs"][1]:
                g = m[2]
                ms.append("fn %s(%s) -> %s;" % (ident(g["name"]), ", ".join(ty(t) for t in g["params"][1]), ty(g["ret_ty"])))
            return "trait %s { %s }" % (ident(f["name"]), " ".join(ms))
        if k == "ImplBlock":
            gens = [ident(g) for g in f["generics"][1]]
            g = "[" + ", ".join(gens) + "]" if gens else ""
            tn = f["trait_name"]
            head = "impl%s %s" % (g, ty(f["for_type"])) if tn[0] == "unit" else "impl%s %s for %s" % (g, path(tn[2][0]), ty(f["for_type"]))
            self.ind += 1
            body = "".join(self.nl() + self.fn(m[2]) for m in f["methods"][1])
            self.ind -= 1
            return head + " {" + body + self.nl() + "}"
        if k == "ExternType":
            return "extern type " + ident(f["goml_name"])
        if k == "ExternGo":
            ps = ", ".join("%s: %s" % (ident(p[1][0]), ty(p[1][1])) for p in f["params"][1])
            r = f["ret_ty"]
            ret = "" if r[0] == "unit" else " -> " + ty(r[2][0])
            sym = ' "%s"' % f["go_symbol"][1] if f["explicit_go_symbol"][1] else ""
            return 'extern "go" "%s"%s %s(%s)%s' % (f["package_path"][1], sym, ident(f["goml_name"]), ps, ret)
        raise Unprintable("item " + k)

    def file(self, tree):
        f = tree[2]
        out = ["package " + ident(f["package"])] + ["import " + ident(i) for i in f["imports"][1]]
        for it in f["toplevels"][1]:
            out.append(self.item(it))
        return "\n".join(out) + "\n"


def canon(n):
    """the tree without source pointers"""
    k = n[0]
    if k == "struct":
        return ("S", n[1], tuple((a, canon(b)) for a, b in n[2].items() if a not in ("astptr", "ast")))
    if k == "tuple":
        return ("T", n[1], tuple(canon(x) for x in n[2]))
    if k in ("list", "anon"):
        return (k, tuple(canon(x) for x in n[1]))
    return n
