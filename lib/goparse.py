"""A lexer (with Go's automatic semicolon insertion) and parser for the Go subset goml emits, and the same
canonical tree computed from the backend's Go AST (Rust Debug dump).  If the emitted *text* parses to the
tree the backend meant, what is established on the AST (Sem/GoSem.v, C02/GoCheck.v) holds for the text."""
import re


class GoSyntaxError(Exception):
    pass


KEYWORDS = {"break", "case", "chan", "const", "continue", "default", "defer", "else", "fallthrough", "for", "func", "go", "goto", "if", "import", "interface", "map", "package", "range", "return", "select", "struct", "switch", "type", "var"}
OPS = ["<<=", ">>=", "&^=", "...", "&&", "||", "<-", "++", "--", "==", "!=", "<=", ">=", ":=", "+=", "-=", "*=", "/=", "%=", "&=", "|=", "^=", "<<", ">>", "&^",
       "+", "-", "*", "/", "%", "&", "|", "^", "<", ">", "=", "!", "(", ")", "[", "]", "{", "}", ",", ";", ".", ":", "~"]
SIMPLE_ESC = {"a": "\a", "b": "\b", "f": "\f", "n": "\n", "r": "\r", "t": "\t", "v": "\v", "\\": "\\", '"': '"'}


def lex(src):
    """-> list of (kind, value) with kind in ident keyword int float str op; semicolons inserted per the Go spec"""
    toks = []
    i, n = 0, len(src)

    def need_semi():
        if not toks:
            return False
        k, v = toks[-1]
        return k in ("ident", "int", "float", "str") or (k == "keyword" and v in ("break", "continue", "fallthrough", "return")) or (k == "op" and v in ("++", "--", ")", "]", "}"))

    while i < n:
        c = src[i]
        if c == "\n":
            if need_semi():
                toks.append(("op", ";"))
            i += 1
        elif c in " \t\r":
            i += 1
        elif src.startswith("//", i):
            j = src.find("\n", i)
            i = n if j < 0 else j
        elif src.startswith("/*", i):
            j = src.find("*/", i + 2)
            if j < 0:
                raise GoSyntaxError("unterminated comment")
            if "\n" in src[i:j] and need_semi():
                toks.append(("op", ";"))
            i = j + 2
        elif c.isalpha() or c == "_":
            j = i
            while j < n and (src[j].isalnum() or src[j] == "_"):
                j += 1
            w = src[i:j]
            toks.append(("keyword" if w in KEYWORDS else "ident", w))
            i = j
        elif c.isdigit():
            m = re.match(r"\d+\.\d*(?:[eE][+-]?\d+)?|\d+[eE][+-]?\d+|0[xX][0-9a-fA-F]+|\d+", src[i:])
            t = m.group(0)
            toks.append(("float" if ("." in t or "e" in t.lower() and not t.lower().startswith("0x")) else "int", t))
            i += len(t)
        elif c == '"':
            j = i + 1
            out = bytearray()  # Go strings are byte sequences: \xNN and \NNN are single bytes, \uNNNN is the UTF-8 encoding
            while True:
                if j >= n or src[j] == "\n":
                    raise GoSyntaxError("string literal not terminated")
                ch = src[j]
                if ch == '"':
                    j += 1
                    break
                if ch == "\\":
                    e = src[j + 1] if j + 1 < n else ""
                    if e in SIMPLE_ESC:
                        out += SIMPLE_ESC[e].encode("utf-8")
                        j += 2
                    elif e == "x" and re.match(r"[0-9a-fA-F]{2}", src[j + 2 : j + 4]):
                        out.append(int(src[j + 2 : j + 4], 16))
                        j += 4
                    elif e == "u" and re.match(r"[0-9a-fA-F]{4}", src[j + 2 : j + 6]):
                        cp = int(src[j + 2 : j + 6], 16)
                        if 0xD800 <= cp < 0xE000:
                            raise GoSyntaxError("escape is invalid Unicode code point")
                        out += chr(cp).encode("utf-8")
                        j += 6
                    elif e == "U" and re.match(r"[0-9a-fA-F]{8}", src[j + 2 : j + 10]):
                        cp = int(src[j + 2 : j + 10], 16)
                        if cp > 0x10FFFF or 0xD800 <= cp < 0xE000:
                            raise GoSyntaxError("escape is invalid Unicode code point")
                        out += chr(cp).encode("utf-8")
                        j += 10
                    elif e and e in "01234567" and re.match(r"[0-7]{3}", src[j + 1 : j + 4]):
                        v8 = int(src[j + 1 : j + 4], 8)
                        if v8 > 255:
                            raise GoSyntaxError("octal escape value > 255")
                        out.append(v8)
                        j += 4
                    else:
                        raise GoSyntaxError("unknown escape sequence \\%s" % e)
                else:
                    if ch == "\ufeff" and j > 0:
                        raise GoSyntaxError("illegal byte order mark")
                    out += ch.encode("utf-8")
                    j += 1
            toks.append(("str", bytes(out).decode("latin-1")))
            i = j
        elif c == "`":
            j = src.find("`", i + 1)
            if j < 0:
                raise GoSyntaxError("raw string literal not terminated")
            toks.append(("str", src[i + 1 : j].replace("\r", "").encode("utf-8").decode("latin-1")))
            i = j + 1
        elif c == "'":
            raise GoSyntaxError("rune literals are not in the emitted subset")
        else:
            for op in OPS:
                if src.startswith(op, i):
                    toks.append(("op", op))
                    i += len(op)
                    break
            else:
                raise GoSyntaxError("invalid character %r" % c)
    if need_semi():
        toks.append(("op", ";"))
    return toks


BINPREC = {"||": 1, "&&": 2, "==": 3, "!=": 3, "<": 3, "<=": 3, ">": 3, ">=": 3, "+": 4, "-": 4, "*": 5, "/": 5}


class Parser:
    def __init__(self, toks):
        self.t = toks
        self.i = 0
        self.nolit = 0  # composite literals are not allowed at the top level of an if/switch header

    def peek(self, k=0):
        return self.t[self.i + k] if self.i + k < len(self.t) else ("eof", "")

    def at(self, v):
        return self.peek()[1] == v and self.peek()[0] in ("op", "keyword")

    def eat(self, v):
        if not self.at(v):
            raise GoSyntaxError("expected %r, found %r (token %d)" % (v, self.peek()[1], self.i))
        self.i += 1

    def ident(self):
        k, v = self.peek()
        if k != "ident":
            raise GoSyntaxError("expected identifier, found %r (token %d)" % (v, self.i))
        self.i += 1
        return v

    def semi(self):
        if self.at(")") or self.at("}"):
            return
        self.eat(";")

    # ---- file -----------------------------------------------------------------------------------
    def file(self):
        items = []
        self.eat("package")
        items.append(("package", self.ident()))
        self.semi()
        while self.at("import"):
            self.i += 1
            paths = []
            if self.at("("):
                self.i += 1
                while not self.at(")"):
                    if self.peek()[0] == "ident":
                        self.i += 1
                    k, v = self.peek()
                    if k != "str":
                        raise GoSyntaxError("import path expected")
                    paths.append(v)
                    self.i += 1
                    self.semi()
                self.eat(")")
            else:
                paths.append(self.peek()[1])
                self.i += 1
            items.append(("import", paths))
            self.semi()
        while self.peek()[0] != "eof":
            items.append(self.topdecl())
            self.semi()
        return items

    def topdecl(self):
        if self.at("type"):
            self.i += 1
            name = self.ident()
            if self.at("="):
                self.i += 1
                return ("alias", name, self.type_())
            if self.at("struct"):
                self.i += 1
                self.eat("{")
                fields = []
                while not self.at("}"):
                    f = self.ident()
                    fields.append((f, self.type_()))
                    self.semi()
                self.eat("}")
                return ("struct", name, fields)
            if self.at("interface"):
                self.i += 1
                self.eat("{")
                ms = []
                while not self.at("}"):
                    m = self.ident()
                    ps = self.params()
                    ret = None if (self.at(";") or self.at("}")) else self.type_()
                    ms.append((m, ps, ret))
                    self.semi()
                self.eat("}")
                return ("iface", name, ms)
            raise GoSyntaxError("unsupported type declaration")
        if self.at("func"):
            self.i += 1
            recv = None
            if self.at("("):
                self.i += 1
                rn = self.ident()
                rt = self.type_()
                self.eat(")")
                recv = (rn, rt)
            name = self.ident()
            ps = self.params()
            ret = None if self.at("{") else self.type_()
            body = self.block()
            return ("method", recv, name, ps, ret, body) if recv else ("fn", name, ps, ret, body)
        raise GoSyntaxError("unexpected %r at top level (token %d)" % (self.peek()[1], self.i))

    def params(self):
        self.eat("(")
        ps = []
        while not self.at(")"):
            n = self.ident()
            ps.append((n, self.type_()))
            if not self.at(")"):
                self.eat(",")
        self.eat(")")
        return ps

    def type_(self):
        if self.at("*"):
            self.i += 1
            return ("ptr", self.type_())
        if self.at("["):
            self.i += 1
            if self.at("]"):
                self.i += 1
                return ("slice", self.type_())
            k, v = self.peek()
            if k != "int":
                raise GoSyntaxError("array length expected")
            self.i += 1
            self.eat("]")
            return ("array", int(v), self.type_())
        if self.at("struct"):
            self.i += 1
            self.eat("{")
            self.eat("}")
            return ("unit",)
        if self.at("func"):
            self.i += 1
            self.eat("(")
            ts = []
            while not self.at(")"):
                ts.append(self.type_())
                if not self.at(")"):
                    self.eat(",")
            self.eat(")")
            ret = None
            if not (self.at(";") or self.at(")") or self.at(",") or self.at("{") or self.at("}") or self.at("=") or self.peek()[0] == "eof"):
                ret = self.type_()
            return ("func", ts, ret)
        n = self.ident()
        if self.at("."):
            self.i += 1
            n += "." + self.ident()
        return ("name", n)

    # ---- statements -------------------------------------------------------------------------------
    def block(self):
        self.eat("{")
        ss = []
        while not self.at("}"):
            ss.append(self.stmt())
            self.semi()
        self.eat("}")
        return ss

    def stmt(self):
        if self.at("var"):
            self.i += 1
            x = self.ident()
            t = self.type_()
            v = None
            if self.at("="):
                self.i += 1
                v = self.expr()
            return ("var", x, t, v)
        if self.at("return"):
            self.i += 1
            if self.at(";") or self.at("}"):
                return ("return", None)
            return ("return", self.expr())
        if self.at("break"):
            self.i += 1
            return ("break",)
        if self.at("go"):
            self.i += 1
            return ("go", self.expr())
        if self.at("for"):
            self.i += 1
            return ("for", self.block())
        if self.at("if"):
            self.i += 1
            self.nolit += 1
            c = self.expr()
            self.nolit -= 1
            th = self.block()
            el = None
            if self.at("else"):
                self.i += 1
                el = self.block()
            return ("if", c, th, el)
        if self.at("switch"):
            self.i += 1
            bind = None
            if self.peek()[0] == "ident" and self.peek(1) == ("op", ":="):
                bind = self.ident()
                self.i += 1
            self.nolit += 1
            e = self.expr(allow_type_switch=True)
            self.nolit -= 1
            self.eat("{")
            cases, default = [], None
            is_type = isinstance(e, tuple) and e[0] == "typeswitch"
            while not self.at("}"):
                if self.at("default"):
                    self.i += 1
                    self.eat(":")
                    default = self.case_body()
                else:
                    self.eat("case")
                    c = self.type_() if is_type else self.expr()
                    self.eat(":")
                    cases.append((c, self.case_body()))
            self.eat("}")
            if is_type:
                return ("tswitch", bind, e[1], cases, default)
            if bind is not None:
                raise GoSyntaxError("binding in an expression switch")
            return ("switch", e, cases, default)
        if self.at("*"):
            self.i += 1
            p = self.unary()
            self.eat("=")
            return ("passign", p, self.expr())
        e = self.expr()
        if self.at("="):
            self.i += 1
            v = self.expr()
            if e[0] == "id":
                return ("assign", e[1], v)
            if e[0] == "field":
                return ("fassign", e, v)
            if e[0] == "index":
                return ("iassign", e[1], e[2], v)
            raise GoSyntaxError("cannot assign to this expression")
        return ("expr", e)

    def case_body(self):
        ss = []
        while not (self.at("case") or self.at("default") or self.at("}")):
            ss.append(self.stmt())
            self.semi()
        return ss

    # ---- expressions ---------------------------------------------------------------------------------
    def expr(self, prec=1, allow_type_switch=False):
        l = self.unary(allow_type_switch)
        while True:
            k, v = self.peek()
            if k == "op" and v in BINPREC and BINPREC[v] >= prec:
                self.i += 1
                r = self.expr(BINPREC[v] + 1)
                l = ("bin", v, l, r)
            else:
                return l

    def unary(self, allow_type_switch=False):
        k, v = self.peek()
        if k == "op" and v in ("-", "!", "&", "*"):
            self.i += 1
            return ("un", v, self.unary())
        if k == "op" and v in ("++", "--", "<-", "^", "+"):
            raise GoSyntaxError("operator %s is not in the emitted subset" % v)
        return self.primary(allow_type_switch)

    def primary(self, allow_type_switch=False):
        k, v = self.peek()
        if k == "int":
            self.i += 1
            e = ("int", v)
        elif k == "float":
            self.i += 1
            e = ("float", repr(float(v)))
        elif k == "str":
            self.i += 1
            e = ("str", v)
        elif self.at("("):
            self.i += 1
            self.nolit, saved = 0, self.nolit
            e = self.expr()
            self.nolit = saved
            self.eat(")")
        elif self.at("[") or self.at("struct"):
            t = self.type_()
            if t == ("unit",):
                self.eat("{")
                self.eat("}")
                e = ("unit",)
            else:
                self.eat("{")
                es = []
                self.nolit, saved = 0, self.nolit
                while not self.at("}"):
                    es.append(self.expr())
                    if not self.at("}"):
                        self.eat(",")
                self.nolit = saved
                self.eat("}")
                e = ("arr", t, es)
        elif k == "ident":
            self.i += 1
            if v == "nil":
                e = ("nil",)
            elif v in ("true", "false"):
                e = ("bool", v == "true")
            else:
                e = ("id", v)
        else:
            raise GoSyntaxError("unexpected %r in expression (token %d)" % (v, self.i))
        while True:
            if self.at("."):
                if self.peek(1) == ("op", "("):
                    self.i += 2
                    if self.at("type"):
                        if not allow_type_switch:
                            raise GoSyntaxError(".(type) outside a type switch")
                        self.i += 1
                        self.eat(")")
                        return ("typeswitch", e)
                    t = self.type_()
                    self.eat(")")
                    e = ("cast", e, t)
                else:
                    self.i += 1
                    f = self.ident()
                    if e[0] == "id" and "." not in e[1] and self.qualified(e[1]):
                        e = ("id", e[1] + "." + f)
                    else:
                        e = ("field", e, f)
            elif self.at("("):
                self.i += 1
                args = []
                self.nolit, saved = 0, self.nolit
                while not self.at(")"):
                    args.append(self.expr())
                    if not self.at(")"):
                        self.eat(",")
                self.nolit = saved
                self.eat(")")
                e = ("call", e, args)
            elif self.at("["):
                self.i += 1
                self.nolit, saved = 0, self.nolit
                ix = self.expr()
                self.nolit = saved
                self.eat("]")
                e = ("index", e, ix)
            elif self.at("{") and e[0] == "id" and self.nolit == 0 and e[1] in self.struct_names:
                self.i += 1
                fs = []
                self.nolit, saved = 0, self.nolit
                while not self.at("}"):
                    f = self.ident()
                    self.eat(":")
                    fs.append((f, self.expr()))
                    if not self.at("}"):
                        self.eat(",")
                self.nolit = saved
                self.eat("}")
                e = ("struct", e[1], fs)
            else:
                return e

    struct_names = None
    packages = ()

    def qualified(self, name):
        return name in self.packages


def parse(src):
    toks = lex(src)
    p = Parser(toks)
    # names of declared struct types and imported packages (one pre-pass over the tokens)
    p.struct_names = {toks[i + 1][1] for i in range(len(toks) - 2) if toks[i] == ("keyword", "type") and toks[i + 2] == ("keyword", "struct")}
    pk = set()
    for i, t in enumerate(toks):
        if t == ("keyword", "import"):
            j = i + 1
            while j < len(toks) and toks[j] != ("op", ")"):
                if toks[j][0] == "str":
                    pk.add(toks[j][1].split("/")[-1])
                j += 1
                if toks[i + 1] != ("op", "("):
                    break
    p.packages = pk
    return p.file()


# ---- the same tree from the backend's AST (rustdbg tree of goast::File) ---------------------------------
PRIMT = {"TBool": "bool", "TInt8": "int8", "TInt16": "int16", "TInt32": "int32", "TInt64": "int64", "TUint8": "uint8", "TUint16": "uint16", "TUint32": "uint32", "TUint64": "uint64",
         "TFloat32": "float32", "TFloat64": "float64", "TString": "string"}
UNOP = {"Neg": "-", "Not": "!", "AddrOf": "&", "Deref": "*"}
BINOP = {"Add": "+", "Sub": "-", "Mul": "*", "Div": "/", "Less": "<", "Greater": ">", "LessEq": "<=", "GreaterEq": ">=", "Eq": "==", "NotEq": "!=", "And": "&&", "Or": "||"}


def a_type(t):
    if t[0] == "unit":
        if t[1] == "TUnit":
            return ("unit",)
        if t[1] == "TVoid":
            return None
        return ("name", PRIMT[t[1]])
    n, f = t[1], t[2]
    if n in ("TStruct", "TName"):
        return ("name", f["name"][1])
    if n == "TPointer":
        return ("ptr", a_type(f["elem"]))
    if n == "TSlice":
        return ("slice", a_type(f["elem"]))
    if n == "TArray":
        return ("array", int(f["len"][1]), a_type(f["elem"]))
    if n == "TFunc":
        return ("func", [a_type(x) for x in f["params"][1]], a_type(f["ret_ty"]))
    raise ValueError(n)


def a_opt(x, f):
    if x[0] == "unit" and x[1] == "None":
        return None
    return f(x[2][0])


def a_expr(e):
    n, f = e[1], e[2]
    if n == "Nil":
        return ("nil",)
    if n == "Unit":
        return ("unit",)
    if n == "Var":
        return ("id", f["name"][1])
    if n == "Bool":
        return ("bool", f["value"][1])
    if n == "Int":
        return ("int", f["value"][1])
    if n == "Float":
        # the node holds an f64 and is printed with Rust's Display: 2.0 is written 2 (an integer constant that Go converts by context)
        x = float(f["value"][1])
        return ("int", str(int(x))) if x.is_integer() else ("float", repr(x))
    if n == "String":
        return ("str", f["value"][1].encode("utf-8").decode("latin-1"))  # as the bytes Go sees
    if n == "Call":
        return ("call", a_expr(f["func"]), [a_expr(a) for a in f["args"][1]])
    if n == "UnaryOp":
        return ("un", UNOP[f["op"][1]], a_expr(f["expr"]))
    if n == "BinaryOp":
        return ("bin", BINOP[f["op"][1]], a_expr(f["lhs"]), a_expr(f["rhs"]))
    if n == "FieldAccess":
        return ("field", a_expr(f["obj"]), f["field"][1])
    if n == "Index":
        return ("index", a_expr(f["array"]), a_expr(f["index"]))
    if n == "Cast":
        return ("cast", a_expr(f["expr"]), a_type(f["ty"]))
    if n == "StructLiteral":
        t = a_type(f["ty"])
        return ("struct", t[1] if t and t[0] == "name" else t, [(x[1][0][1], a_expr(x[1][1])) for x in f["fields"][1]])
    if n == "ArrayLiteral":
        return ("arr", a_type(f["ty"]), [a_expr(x) for x in f["elems"][1]])
    raise ValueError("expr " + n)


def a_block(b):
    return [a_stmt(s) for s in b[2]["stmts"][1]]


def a_stmt(s):
    if s[0] == "tuple" and s[1] == "Expr":
        return ("expr", a_expr(s[2][0]))
    if s[0] == "unit" and s[1] == "Break":
        return ("break",)
    n, f = s[1], s[2]
    if n == "Go":
        return ("go", a_expr(f["call"]))
    if n == "VarDecl":
        return ("var", f["name"][1], a_type(f["ty"]), a_opt(f["value"], a_expr))
    if n == "Assignment":
        return ("assign", f["name"][1], a_expr(f["value"]))
    if n == "FieldAssign":
        return ("fassign", a_expr(f["target"]), a_expr(f["value"]))
    if n == "PointerAssign":
        return ("passign", a_expr(f["pointer"]), a_expr(f["value"]))
    if n == "IndexAssign":
        return ("iassign", a_expr(f["array"]), a_expr(f["index"]), a_expr(f["value"]))
    if n == "Return":
        return ("return", a_opt(f["expr"], a_expr))
    if n == "If":
        return ("if", a_expr(f["cond"]), a_block(f["then"]), a_opt(f["else_"], a_block))
    if n == "Loop":
        return ("for", a_block(f["body"]))
    if n == "SwitchExpr":
        return ("switch", a_expr(f["expr"]), [(a_expr(c[1][0]), a_block(c[1][1])) for c in f["cases"][1]], a_opt(f["default"], a_block))
    if n == "SwitchType":
        return ("tswitch", a_opt(f["bind"], lambda x: x[1]), a_expr(f["expr"]), [(a_type(c[1][0]), a_block(c[1][1])) for c in f["cases"][1]], a_opt(f["default"], a_block))
    raise ValueError("stmt " + n)


def a_params(l):
    return [(x[1][0][1], a_type(x[1][1])) for x in l[1]]


def a_file(tree):
    out = []
    for it in tree[2]["toplevels"][1]:
        k, f = it[1], it[2][0][2]
        if k == "Package":
            out.append(("package", f["name"][1]))
        elif k == "Import":
            out.append(("import", [x[2]["path"][1] for x in f["specs"][1]]))
        elif k == "Interface":
            out.append(("iface", f["name"][1], [(m[2]["name"][1], a_params(m[2]["params"]), a_opt(m[2]["ret"], a_type)) for m in f["methods"][1]]))
        elif k == "Struct":
            out.append(("struct", f["name"][1], [(x[2]["name"][1], a_type(x[2]["ty"])) for x in f["fields"][1]]))
            for m in f["methods"][1]:
                g = m[2]
                out.append(("method", (g["receiver"][2]["name"][1], a_type(g["receiver"][2]["ty"])), g["name"][1], a_params(g["params"]), None, a_block(g["body"])))
        elif k == "TypeAlias":
            out.append(("alias", f["name"][1], a_type(f["ty"])))
        elif k == "Fn":
            out.append(("fn", f["name"][1], a_params(f["params"]), a_opt(f["ret_ty"], a_type), a_block(f["body"])))
    return out


def norm(x):
    if isinstance(x, (list, tuple)):
        return tuple(norm(y) for y in x)
    return x


def first_difference(a, b, path="file"):
    """a readable pointer to where two canonical trees differ"""
    if type(a) != type(b) or (isinstance(a, tuple) and len(a) != len(b)):
        return "%s: %r vs %r" % (path, str(a)[:160], str(b)[:160])
    if isinstance(a, tuple):
        for i, (x, y) in enumerate(zip(a, b)):
            d = first_difference(x, y, "%s/%s" % (path, a[0] if i and isinstance(a[0], str) else i))
            if d:
                return d
        return None
    return None if a == b else "%s: %r vs %r" % (path, a, b)
