"""C15: kinds of edits of a dependency. An edit that a dependent built earlier can observe (layout, order, types,
signatures, the set of exported items) must change the interface hash, so that linking the stale dependent is refused;
an edit of a function body only must not."""

BASE = """package Base
struct Acc { credit: int32, debit: int32 }
enum Kind { Ka, Kb(int32), Kc(bool, int32) }
trait Tr { fn one(Self) -> int32; fn two(Self) -> int32; }
impl Tr for Acc {
    fn one(self: Acc) -> int32 { self.credit }
    fn two(self: Acc) -> int32 { self.debit }
}
impl Acc { fn total(self: Acc, k: int32) -> int32 { self.credit + self.debit + k } }
fn mk(n: int32) -> Acc { Acc { credit: n, debit: 1 } }
fn kind(n: int32) -> Kind { if n == 0 { Ka } else { if n == 1 { Kb(n) } else { Kc(true, n) } } }
fn val() -> int32 { 7 }
fn gen[T](x: T) -> T { x }
"""

MAIN = """package Main
import Base
fn main() {
    let a: Base::Acc = Base::mk(100);
    let _ = string_println(int32_to_string(a.credit));
    let _ = string_println(int32_to_string(a.total(2)));
    let _ = string_println(int32_to_string(Base::Tr::one(a) + Base::Tr::two(a)));
    let d: dyn Base::Tr = a;
    let _ = string_println(int32_to_string(Base::Tr::two(d)));
    let _ = string_println(int32_to_string(match Base::kind(1) { Base::Kind::Ka => 0, Base::Kind::Kb(n) => n, Base::Kind::Kc(_, n) => n + 1 }));
    string_println(int32_to_string(Base::val() + Base::gen(3)))
}
"""

# (name, observable by a dependent?, [(old text, new text)])
EDITS = [
    ("struct fields reordered", True, [("struct Acc { credit: int32, debit: int32 }", "struct Acc { debit: int32, credit: int32 }")]),
    ("struct field added", True, [("struct Acc { credit: int32, debit: int32 }", "struct Acc { credit: int32, debit: int32, extra: int32 }"), ("Acc { credit: n, debit: 1 }", "Acc { credit: n, debit: 1, extra: 0 }")]),
    ("struct field added in front", True, [("struct Acc { credit: int32, debit: int32 }", "struct Acc { extra: int32, credit: int32, debit: int32 }"), ("Acc { credit: n, debit: 1 }", "Acc { extra: 0, credit: n, debit: 1 }")]),
    ("struct field renamed", True, [("debit", "owing")]),
    ("struct field type changed", True, [("struct Acc { credit: int32, debit: int32 }", "struct Acc { credit: int32, debit: bool }"), ("fn two(self: Acc) -> int32 { self.debit }", "fn two(self: Acc) -> int32 { if self.debit { 1 } else { 0 } }"),
                                          ("self.credit + self.debit + k", "self.credit + k"), ("debit: 1 }", "debit: true }")]),
    ("enum variants reordered", True, [("enum Kind { Ka, Kb(int32), Kc(bool, int32) }", "enum Kind { Kb(int32), Ka, Kc(bool, int32) }")]),
    ("enum variant added", True, [("enum Kind { Ka, Kb(int32), Kc(bool, int32) }", "enum Kind { Ka, Kb(int32), Kc(bool, int32), Kd }")]),
    ("enum variant payload reordered", True, [("Kc(bool, int32)", "Kc(int32, bool)"), ("Kc(true, n)", "Kc(n, true)")]),
    ("enum variant payload extended", True, [("Kb(int32)", "Kb(int32, int32)"), ("Kb(n)", "Kb(n, n)")]),
    ("trait methods reordered", True, [("trait Tr { fn one(Self) -> int32; fn two(Self) -> int32; }", "trait Tr { fn two(Self) -> int32; fn one(Self) -> int32; }")]),
    ("trait method added", True, [("fn two(Self) -> int32; }", "fn two(Self) -> int32; fn three(Self) -> int32; }"), ("    fn two(self: Acc) -> int32 { self.debit }\n", "    fn two(self: Acc) -> int32 { self.debit }\n    fn three(self: Acc) -> int32 { 3 }\n")]),
    ("trait method signature changed", True, [("fn two(Self) -> int32; }", "fn two(Self) -> int64; }"), ("fn two(self: Acc) -> int32 { self.debit }", "fn two(self: Acc) -> int64 { 2i64 }")]),
    ("inherent method signature changed", True, [("fn total(self: Acc, k: int32) -> int32 { self.credit + self.debit + k }", "fn total(self: Acc, k: int32, j: int32) -> int32 { self.credit + self.debit + k + j }")]),
    ("inherent method removed", True, [("impl Acc { fn total(self: Acc, k: int32) -> int32 { self.credit + self.debit + k } }\n", "")]),
    ("function parameter added", True, [("fn mk(n: int32) -> Acc {", "fn mk(n: int32, m: int32) -> Acc {")]),
    ("function result type changed", True, [("fn val() -> int32 { 7 }", "fn val() -> int64 { 7i64 }")]),
    ("function removed", True, [("fn val() -> int32 { 7 }\n", "")]),
    ("function added", True, [("fn val() -> int32 { 7 }\n", "fn val() -> int32 { 7 }\nfn val2() -> int32 { 8 }\n")]),
    ("generic function bound added", True, [("fn gen[T](x: T) -> T { x }", "fn gen[T: Tr](x: T) -> T { x }")]),
    ("impl added", True, [("fn val() -> int32 { 7 }\n", "fn val() -> int32 { 7 }\nimpl Tr for int32 {\n    fn one(self: int32) -> int32 { self }\n    fn two(self: int32) -> int32 { self }\n}\n")]),
    ("trait impl removed", True, [("impl Tr for Acc {\n    fn one(self: Acc) -> int32 { self.credit }\n    fn two(self: Acc) -> int32 { self.debit }\n}\n", "")]),
    ("function body changed", False, [("fn val() -> int32 { 7 }", "fn val() -> int32 { 8 }")]),
    ("method body changed", False, [("fn one(self: Acc) -> int32 { self.credit }", "fn one(self: Acc) -> int32 { self.credit + 1 }")]),
    ("constructor body changed", False, [("Acc { credit: n, debit: 1 }", "Acc { credit: n + 1, debit: 2 }")]),
    ("comment and layout changed", False, [("fn val() -> int32 { 7 }", "// a comment\nfn val()   ->   int32 {\n    7\n}")]),
]


def edited(name):
    for nm, vis, subs in EDITS:
        if nm == name:
            t = BASE
            for a, b in subs:
                assert a in t, (nm, a)
                t = t.replace(a, b)
            return t
    raise KeyError(name)


def ops(name):
    """build Base and Main, apply the edit to Base, rebuild Base only, link"""
    return [
        {"op": "write", "path": "Base/lib.gom", "text": BASE},
        {"op": "write", "path": "Main/main.gom", "text": MAIN},
        {"op": "build", "pkg": "Base", "inputs": ["Base/lib.gom"]},
        {"op": "build", "pkg": "Main", "inputs": ["Main/main.gom"]},
        {"op": "link", "pkgs": ["Base", "Main"]},
        {"op": "write", "path": "Base/lib.gom", "text": edited(name)},
        {"op": "build", "pkg": "Base", "inputs": ["Base/lib.gom"]},
        {"op": "link", "pkgs": ["Base", "Main"]},
    ]


# a package that exports every kind of item several times over (maps inside the interface must serialise in one order)
RICH = """package Rich
extern type Dur
extern type Conn
extern type Buf
extern type Loc
extern type Rgx
extern "go" "time" dur_of(n: int32) -> Dur
extern "go" "strings" "ToUpper" up(s: string) -> string
extern "go" "strings" "ToLower" low(s: string) -> string
extern "go" "path" "Base" base(p: string) -> string
struct Aa { x: int32 }
struct Bb { y: bool, a: Aa }
struct Cc[T] { v: T }
enum Ee { E1, E2(int32) }
enum Ff[T] { F1, F2(T) }
trait Ta { fn ta(Self) -> int32; }
trait Tb { fn tb(Self) -> string; fn tb2(Self, int32) -> int32; }
impl Ta for Aa { fn ta(self: Aa) -> int32 { self.x } }
impl Ta for Bb { fn ta(self: Bb) -> int32 { 1 } }
impl Ta for int32 { fn ta(self: int32) -> int32 { self } }
impl Tb for Aa { fn tb(self: Aa) -> string { "a" } fn tb2(self: Aa, n: int32) -> int32 { n } }
impl Tb for string { fn tb(self: string) -> string { self } fn tb2(self: string, n: int32) -> int32 { n } }
impl Aa { fn get(self: Aa) -> int32 { self.x } fn mk(n: int32) -> Aa { Aa { x: n } } }
impl[T] Cc[T] { fn unwrap(self: Cc[T]) -> T { self.v } }
fn f1() -> int32 { BODY }
fn f2[T](x: T) -> T { x }
fn f3[T: Ta](x: T) -> int32 { Ta::ta(x) }
fn f4(a: Aa, b: Bb) -> Ee { E2(a.x) }
"""
RICH_MAIN = """package Main
import Rich
fn main() {
    let a: Rich::Aa = Rich::Aa::mk(3);
    string_println(int32_to_string(Rich::f1() + Rich::f3(a) + Rich::f2(1)))
}
"""


def rich(body="7"):
    return RICH.replace("BODY", body)
