"""Core / Mono / Lift / ANF trees (Rust Debug, via rustdbg) -> Coq terms of C03.Typed (every node keeps its type)"""
import vlib


class Conv(Exception):
    pass


def S(s):
    return vlib.coq_Nlist(list(s.encode("utf-8")))


INT = {"TInt8": 8, "TInt16": 16, "TInt32": 32, "TInt64": 64, "TUint8": 108, "TUint16": 116, "TUint32": 132, "TUint64": 164}


def name_of(x):
    if x[0] == "tuple" and x[1] == "TastIdent":
        return x[2][0][1]
    if x[0] in ("unit", "str"):
        return x[1]
    return render(x)


def render(x):
    """text of a node that the Debug output printed unquoted (collapsed type names such as Opt__(bool,int32))"""
    k = x[0]
    if k in ("unit", "str", "num"):
        return str(x[1])
    if k == "bool":
        return "true" if x[1] else "false"
    if k == "tuple":
        return x[1] + "(" + ",".join(render(y) for y in x[2]) + ")"
    if k == "list":
        return "[" + ",".join(render(y) for y in x[1]) + "]"
    if k == "anon":
        return "(" + ",".join(render(y) for y in x[1]) + ")"
    if k == "struct":
        return x[1] + "{" + ",".join("%s:%s" % (a, render(b)) for a, b in x[2].items()) + "}"
    raise Conv("name " + repr(x)[:80])


def ty(t):
    if t[0] == "unit":
        n = t[1]
        if n in INT:
            return "(TInt %d)" % INT[n]
        if n in ("TFloat32", "TFloat64"):
            return "(TFloat %s)" % n[6:]
        if n in ("TUnit", "TBool", "TString"):
            return n
        raise Conv("type " + n)
    if t[0] == "tuple":
        n, a = t[1], t[2]
        if n in ("TStruct", "TEnum"):
            return "(TNamed %s)" % S(name_of(a[0]))
        if n == "TParam":
            return "(TParam %s)" % S(name_of(a[0]))
        if n == "TVar":
            return "(TVar %s)" % "".join(ch for ch in repr(a[0]) if ch.isdigit())[:9]
        if n == "TDyn":
            return "(TDyn %s)" % S(name_of(a[0]))
        if n == "TTuple":
            return "(TTuple [%s])" % "; ".join(ty(x) for x in a[0][1])
        if n == "TApp":
            return "(TApp %s [%s])" % (ty(a[0]), "; ".join(ty(x) for x in a[1][1]))
        if n == "TArray":
            return "(TArray %s %s)" % (a[0][1], ty(a[1]))
        if n == "TVec":
            return "(TVec %s)" % ty(a[0])
        if n == "TRef":
            return "(TRef %s)" % ty(a[0])
        if n == "TFunc":
            return "(TFunc [%s] %s)" % ("; ".join(ty(x) for x in a[0][1]), ty(a[1]))
    if t[0] == "struct":
        n, f = t[1], t[2]
        if n in ("TStruct", "TEnum"):
            return "(TNamed %s)" % S(name_of(f["name"]))
        if n == "TParam":
            return "(TParam %s)" % S(name_of(f["name"]))
        if n == "TDyn":
            return "(TDyn %s)" % S(name_of(f["trait_name"]))
        if n == "TTuple":
            return "(TTuple [%s])" % "; ".join(ty(x) for x in f["typs"][1])
        if n == "TApp":
            return "(TApp %s [%s])" % (ty(f["ty"]), "; ".join(ty(x) for x in f["args"][1]))
        if n == "TArray":
            return "(TArray %s %s)" % (f["len"][1], ty(f["elem"]))
        if n == "TVec":
            return "(TVec %s)" % ty(f["elem"])
        if n == "TRef":
            return "(TRef %s)" % ty(f["elem"])
        if n == "TFunc":
            return "(TFunc [%s] %s)" % ("; ".join(ty(x) for x in f["params"][1]), ty(f["ret_ty"]))
    raise Conv("type " + repr(t)[:100])


BIN = {"Add": "BArith", "Sub": "BArith", "Mul": "BArith", "Div": "BArith", "Less": "BCmp", "Greater": "BCmp", "LessEq": "BCmp", "GreaterEq": "BCmp", "Eq": "BEq", "NotEq": "BEq", "And": "BLogic", "Or": "BLogic"}


def lst(xs):
    return "[%s]" % "; ".join(xs)


def expr(e):
    k, f = e[1], e[2] if e[0] == "struct" else None
    if f is None:
        raise Conv("expr " + repr(e)[:80])
    t = ty(f["ty"]) if "ty" in f else None
    if k in ("EVar", "ImmVar"):
        return "(XVar %s %s)" % (S(f["name"][1]), t)
    if k in ("EPrim", "ImmPrim", "ImmTag"):
        return "(XPrim %s)" % t
    if k == "EConstr":
        return "(XConstr true %s %s)" % (lst(expr(a) for a in f["args"][1]), t)
    if k == "ETuple":
        return "(XTuple %s %s)" % (lst(expr(a) for a in f["items"][1]), t)
    if k == "EArray":
        return "(XArray %s %s)" % (lst(expr(a) for a in f["items"][1]), t)
    if k == "EClosure":
        ps = lst("(%s, %s)" % (S(p[2]["name"][1]), ty(p[2]["ty"])) for p in f["params"][1])
        return "(XClosure %s %s %s)" % (ps, expr(f["body"]), t)
    if k == "ELet":
        return "(XLet %s %s %s %s)" % (S(f["name"][1]), expr(f["value"]), expr(f["body"]), t)
    if k == "EMatch":
        d = f["default"]
        dflt = "None" if d[0] == "unit" and d[1] == "None" else "(Some %s)" % expr(d[2][0])
        return "(XMatch %s %s %s %s)" % (expr(f["expr"]), lst(expr(a[2]["body"]) for a in f["arms"][1]), dflt, t)
    if k == "EIf":
        return "(XIf %s %s %s %s)" % (expr(f["cond"]), expr(f["then_branch"] if "then_branch" in f else f["then"]), expr(f["else_branch"] if "else_branch" in f else f["else_"]), t)
    if k == "EWhile":
        return "(XWhile %s %s %s)" % (expr(f["cond"]), expr(f["body"]), t)
    if k == "EGo":
        return "(XGo %s %s)" % (expr(f["expr"] if "expr" in f else f["closure"]), t)
    if k == "EConstrGet":
        return "(XGet %s %s)" % (expr(f["expr"]), t)
    if k == "EUnary":
        return "(XUn %s %s %s)" % ({"Neg": "UNeg", "Not": "UNot"}[f["op"][1]], expr(f["expr"]), t)
    if k == "EBinary":
        return "(XBin %s %s %s %s)" % (BIN[f["op"][1]], expr(f["lhs"]), expr(f["rhs"]), t)
    if k == "ECall":
        return "(XCall %s %s %s)" % (expr(f["func"]), lst(expr(a) for a in f["args"][1]), t)
    if k == "EToDyn":
        return "(XToDyn %s %s %s %s)" % (S(name_of(f["trait_name"])), ty(f["for_ty"]), expr(f["expr"]), t)
    if k == "EDynCall":
        return "(XDynCall %s %s %s %s)" % (S(name_of(f["trait_name"])), expr(f["receiver"]), lst(expr(a) for a in f["args"][1]), t)
    if k == "ETraitCall":
        return "(XTraitCall %s %s %s)" % (expr(f["receiver"]), lst(expr(a) for a in f["args"][1]), t)
    if k == "EProj":
        return "(XProj %s %s %s)" % (expr(f["tuple"]), f["index"][1], t)
    # ANF
    if k == "CImm":
        return expr(f["imm"])
    if k == "ACExpr":
        return expr(f["expr"])
    if k == "ALet":
        return "(XLet %s %s %s %s)" % (S(f["name"][1]), expr(f["value"]), expr(f["body"]), t)
    raise Conv("expr kind " + k)


def file(tree):
    fns = []
    for fn in tree[2]["toplevels"][1]:
        f = fn[2]
        # Core leaves Fn.generics empty; the type parameters are the TParam names of the signature
        import re as _re
        sig_txt = repr(f["params"]) + repr(f["ret_ty"])
        gnames = sorted(set(_re.findall(r"'TParam', \[\('(?:unit|str)', '([^']+)'\)\]", sig_txt)))
        gens = lst(S(g) for g in gnames)
        ps = lst("(%s, %s)" % (S(p[1][0][1]), ty(p[1][1])) for p in f["params"][1])
        fns.append("{| t_name := %s; t_generics := %s; t_params := %s; t_ret := %s; t_body := %s |}" % (S(f["name"][1]), gens, ps, ty(f["ret_ty"]), expr(f["body"])))
    return lst(fns)
