"""lift_dbg / anf_dbg (Rust Debug, parsed by rustdbg) -> Coq terms of C09.Anf (types dropped)."""
import re

import vlib


class Conv(Exception):
    pass


def S(s):
    return vlib.coq_Nlist(list(s.encode("utf-8")))


def canon(t):
    """compact canonical text of a Debug tree (constructors, primitive values, names)"""
    k = t[0]
    if k == "struct":
        return "%s{%s}" % (t[1], ",".join("%s:%s" % (f, canon(v)) for f, v in t[2].items()))
    if k == "tuple":
        return "%s(%s)" % (t[1], ",".join(canon(v) for v in t[2]))
    if k == "unit":
        return t[1]
    if k in ("list", "anon"):
        return "[%s]" % ",".join(canon(v) for v in t[1])
    if k == "str":
        return '"%s"' % t[1]
    if k == "num":
        return t[1]
    if k == "bool":
        return "true" if t[1] else "false"
    raise Conv("canon " + repr(t)[:60])


def opnum(t):
    """an operator as a number: its name read in base 256"""
    n = 0
    for b in canon(t).encode():
        n = n * 256 + b
    return "%d" % n


def num(t):
    if t[0] != "num":
        raise Conv("number " + repr(t)[:60])
    return t[1]


def name(t):
    if t[0] == "str":
        return S(t[1])
    if t[0] == "tuple" and t[1] == "TastIdent":
        return S(t[2][0][1])
    raise Conv("name " + repr(t)[:60])


def lst(items):
    return "[" + "; ".join(items) + "]"


def is_enum(c):
    return c[0] == "tuple" and c[1] == "Enum"


def tag_index(c):
    return num(c[2][0][2]["index"])


def pat(t):
    """a match-arm pattern of the lifted tree -> immediate (compile_match_arms_to_anf)"""
    k, f = t[1], t[2]
    if k == "EVar":
        return "(IVar %s)" % name(f["name"])
    if k == "EPrim":
        return "(IPrim %s)" % S(canon(f["value"]))
    if k == "EConstr" and is_enum(f["constructor"]):
        return "(ITag %s)" % tag_index(f["constructor"])
    raise Conv("pattern " + k)


NUMERIC = {"Int8", "Int16", "Int32", "Int64", "UInt8", "UInt16", "UInt32", "UInt64", "Float32", "Float64"}


def lit_class(v):
    """0 not a number, 1 a non-zero numeric literal, 2 a zero numeric literal (numeric_literal_is_zero in anf.rs)"""
    if v[0] != "struct" or v[1] not in NUMERIC:
        return 0
    txt = v[2]["value"][1]
    try:
        return 2 if float(txt) == 0 else 1
    except ValueError:
        return 1


def lexpr(t):
    if t[0] != "struct":
        raise Conv("lexpr " + repr(t)[:60])
    k, f = t[1], t[2]
    if k == "EVar":
        return "(LVar %s)" % name(f["name"])
    if k == "EPrim":
        return "(LPrim %s %d)" % (S(canon(f["value"])), lit_class(f["value"]))
    if k == "EConstr":
        if is_enum(f["constructor"]) and not f["args"][1]:
            return "(LTag %s)" % tag_index(f["constructor"])
        return "(LConstr %s %s)" % (S(canon(f["constructor"])), lst([lexpr(a) for a in f["args"][1]]))
    if k == "ETuple":
        return "(LTuple %s)" % lst([lexpr(a) for a in f["items"][1]])
    if k == "EArray":
        return "(LArray %s)" % lst([lexpr(a) for a in f["items"][1]])
    if k == "ELet":
        return "(LLet %s %s %s)" % (name(f["name"]), lexpr(f["value"]), lexpr(f["body"]))
    if k == "EIf":
        return "(LIf %s %s %s)" % (lexpr(f["cond"]), lexpr(f["then_branch"]), lexpr(f["else_branch"]))
    if k == "EWhile":
        return "(LWhile %s %s)" % (lexpr(f["cond"]), lexpr(f["body"]))
    if k == "EGo":
        return "(LGo %s)" % lexpr(f["expr"])
    if k == "EMatch":
        arms = ["(%s, %s)" % (pat(a[2]["lhs"]), lexpr(a[2]["body"])) for a in f["arms"][1]]
        d = f["default"]
        dflt = "None" if d[0] == "unit" else "(Some %s)" % lexpr(d[2][0])
        return "(LMatch %s %s %s)" % (lexpr(f["expr"]), lst(arms), dflt)
    if k == "EConstrGet":
        return "(LGet %s %s %s)" % (lexpr(f["expr"]), S(canon(f["constructor"])), num(f["field_index"]))
    if k == "EUnary":
        return "(LUn %s %s)" % (opnum(f["op"]), lexpr(f["expr"]))
    if k == "EBinary":
        return "(LBin %s %s %s)" % (opnum(f["op"]), lexpr(f["lhs"]), lexpr(f["rhs"]))
    if k == "ECall":
        return "(LCall %s %s)" % (lexpr(f["func"]), lst([lexpr(a) for a in f["args"][1]]))
    if k == "EToDyn":
        return "(LToDyn %s %s)" % (S(canon(f["trait_name"]) + "@" + canon(f["for_ty"])), lexpr(f["expr"]))
    if k == "EDynCall":
        return "(LDynCall %s %s %s %s)" % (S(canon(f["trait_name"])), S(canon(f["method_name"])), lexpr(f["receiver"]), lst([lexpr(a) for a in f["args"][1]]))
    if k == "EProj":
        return "(LProj %s %s)" % (lexpr(f["tuple"]), num(f["index"]))
    raise Conv("lexpr " + k)


def imm(t):
    k, f = t[1], t[2]
    if k == "ImmVar":
        return "(IVar %s)" % name(f["name"])
    if k == "ImmPrim":
        return "(IPrim %s)" % S(canon(f["value"]))
    if k == "ImmTag":
        return "(ITag %s)" % num(f["index"])
    raise Conv("imm " + k)


def cexpr(t):
    k, f = t[1], t[2]
    if k == "CImm":
        return "(CImm %s)" % imm(f["imm"])
    if k == "EConstr":
        return "(CConstr %s %s)" % (S(canon(f["constructor"])), lst([imm(a) for a in f["args"][1]]))
    if k == "ETuple":
        return "(CTuple %s)" % lst([imm(a) for a in f["items"][1]])
    if k == "EArray":
        return "(CArray %s)" % lst([imm(a) for a in f["items"][1]])
    if k == "EMatch":
        arms = ["(%s, %s)" % (imm(a[2]["lhs"]), aexpr(a[2]["body"])) for a in f["arms"][1]]
        d = f["default"]
        dflt = "None" if d[0] == "unit" else "(Some %s)" % aexpr(d[2][0])
        return "(CMatch %s %s %s)" % (imm(f["expr"]), lst(arms), dflt)
    if k == "EIf":
        return "(CIf %s %s %s)" % (imm(f["cond"]), aexpr(f["then"]), aexpr(f["else_"]))
    if k == "EWhile":
        return "(CWhile %s %s)" % (aexpr(f["cond"]), aexpr(f["body"]))
    if k == "EConstrGet":
        return "(CGet %s %s %s)" % (imm(f["expr"]), S(canon(f["constructor"])), num(f["field_index"]))
    if k == "EUnary":
        return "(CUn %s %s)" % (opnum(f["op"]), imm(f["expr"]))
    if k == "EBinary":
        return "(CBin %s %s %s)" % (opnum(f["op"]), imm(f["lhs"]), imm(f["rhs"]))
    if k == "ECall":
        return "(CCall %s %s)" % (imm(f["func"]), lst([imm(a) for a in f["args"][1]]))
    if k == "EToDyn":
        return "(CToDyn %s %s)" % (S(canon(f["trait_name"]) + "@" + canon(f["for_ty"])), imm(f["expr"]))
    if k == "EDynCall":
        return "(CDynCall %s %s %s %s)" % (S(canon(f["trait_name"])), S(canon(f["method_name"])), imm(f["receiver"]), lst([imm(a) for a in f["args"][1]]))
    if k == "EGo":
        return "(CGo %s)" % imm(f["closure"])
    if k == "EProj":
        return "(CProj %s %s)" % (imm(f["tuple"]), num(f["index"]))
    raise Conv("cexpr " + k)


def aexpr(t):
    k, f = t[1], t[2]
    if k == "ACExpr":
        return "(ARet %s)" % cexpr(f["expr"])
    if k == "ALet":
        return "(ALet %s %s %s)" % (name(f["name"]), cexpr(f["value"]), aexpr(f["body"]))
    raise Conv("aexpr " + k)


_T = re.compile(r"^t(\d+)$")


def temps(t, acc):
    """indices of the temporaries t<k> bound in an A-normal form"""
    if t[0] == "struct":
        if t[1] == "ALet" and t[2]["name"][0] == "str":
            m = _T.match(t[2]["name"][1])
            if m:
                acc.append(int(m.group(1)))
        for v in t[2].values():
            temps(v, acc)
    elif t[0] == "tuple":
        for v in t[2]:
            temps(v, acc)
    elif t[0] in ("list", "anon"):
        for v in t[1]:
            temps(v, acc)
    return acc


def functions(lift_tree, anf_tree):
    """-> [(name, Coq lexpr, start of the temporary counter, Coq aexpr)] for every function of the program"""
    lf = {f[2]["name"][1]: f for f in lift_tree[2]["toplevels"][1]}
    out = []
    for a in anf_tree[2]["toplevels"][1]:
        nm = a[2]["name"][1]
        if nm not in lf:
            raise Conv("function %s of the A-normal form is not in the lifted program" % nm)
        ts = temps(a[2]["body"], [])
        out.append((nm, lexpr(lf[nm][2]["body"]), min(ts) if ts else 0, aexpr(a[2]["body"])))
    if len(out) != len(lf):
        raise Conv("the A-normal form has %d functions, the lifted program %d" % (len(out), len(lf)))
    return out
