#!/usr/bin/env python3
"""Regenerates /verif/MANIFEST.json from the table below (keeps it schema-valid)."""
import json
import os

HERE = os.path.dirname(os.path.dirname(os.path.abspath(__file__)))

TRUST = ("Coq 8.16.1 kernel + vm_compute; hand-written Gallina model tied to /repo by (T) table translators and (D) the "
         "gomlv differential harness; axioms per Print Assumptions are listed in the evidence file. The Rust code is modelled, not verified.")

CLAIMED = {
    "C19": dict(
        technique="Coq proof (go_ident legality/identity/partial injectivity, local and gensym name injectivity/disjointness, refutation witnesses) + translator-generated keyword and gensym-prefix tables + exhaustive differential correspondence of go_ident inside coqc; program level: one adversarial identifier at a time (Go keywords and predeclared names, runtime helpers, temporaries, names of generated helpers) in a program using every kind of named entity, and programs that name structurally confusable types: the Go checker model must accept the result and it must behave like the plain-named program, which in turn must mean what its typed source says",
        text="Machine-checked theorems about a Gallina model of go_ident, gensym naming and local renaming (8 pinned theorems, no axioms), "
             "tied to mangle.rs by regenerated tables and by comparing the model with the real go_ident on every string over a 9-symbol alphabet up to length 4 (5 in thorough) plus keyword, boundary and random Unicode cases; "
             "the property's statement (legal identifier, not a Go keyword, verbatim user identifiers, no collision on letters/digits/#) is additionally evaluated on the implementation's outputs. Known collisions are refutation theorems and known findings.",
        design_ref="DESIGN.md §4 C19",
        note=TRUST + " Type-name helpers (encode_ty, go_type_name_for) are not in the Coq model; distinctness of the names they give is explored per program.",
    ),
}

CLAIMED["C06"] = dict(
    technique="Coq proof by induction on fuel that the decision tree emitted by the match-compiler model evaluates to the first matching arm with its bindings, for all typed pattern matrices and values (bool/unit/int/string/tuple/enum/struct, nested, variables, wildcards); the model is compared tree-for-tree and name-for-name with the real compile_match output inside coqc, and first-match is evaluated on the real tree; end to end: the match sub-matrix (all pattern kinds, escaped string patterns, discarded matches) through both semantics",
    text="compile_match_first_match (16 proof files, no axioms): for every type environment, scrutinee type, list of arms typed against it and well-typed scrutinee value, if the model accepts the match and reaches no panic site, eval_core of the emitted tree equals first_match (same arm, same bindings up to order), Missing when no arm matches; non-exhaustive integer matches are rejected. "
         "The model (strip, branch-variable choice, per-type splits incl. the IndexMap/fallback bookkeeping, gensym threading) is tied to compile_match.rs by exhaustive small and random matrices compiled by the real compiler: the real Core tree must equal the model's tree syntactically, and independently the real tree is checked against first-match on every value.",
    design_ref="DESIGN.md §4 C06",
    note=TRUST + " Fuel sufficiency and generic (type-applied) enums/structs are outside the theorem; the Core->Go lowering of the tree is covered by C01's per-program validation.",
)

CLAIMED["C05"] = dict(
    technique="Coq proof that the resolver model (one flat env cloned at scope entry, threaded elsewhere) equals the scope-stack semantics of the event stream, for all programs; differential correspondence of the model with the real NameResolution through the HIR, inside coqc",
    text="resolve_is_lexical is proved by mutual induction for every function body over let/tuple patterns/blocks/if/while/match arms/closures/n-ary nodes (no axioms). The model is tied to name_resolution.rs by resolving exhaustive two-level nestings and random bodies with the real resolver and comparing every binder id and every use's resolution (local id / definition / builtin / unresolved) with the model and, independently, with the specification.",
    design_ref="DESIGN.md §4 C05",
    note=TRUST + " Multi-segment paths, constructors, struct literals and the typer's own scope handling are outside the model.",
)

CLAIMED["C10"] = dict(
    technique="Coq proofs about the literal checker model (exact value, range rejection, print/parse round trip through the Go literal), Go's wrap-around arithmetic and %d rendering; differential correspondence of literal acceptance and emitted Go literal/operator/type text with the real compiler inside coqc; arithmetic programs over all integer types against a Python oracle; float operand types, literal values and literal/literal operations against exact constant folding",
    text="11 pinned theorems (no axioms): an accepted literal denotes the written value and survives the TAST re-parse and Go printing (literal_end_to_end), out-of-range literals are rejected, intN arithmetic in the emitted Go wraps modulo 2^N / division truncates and fails on zero (model of Go), integer to_string is injective decimal. "
         "Tied to the code by compiling one-literal programs (all of 0..299 for 8-bit types, boundaries for all widths, expression and pattern positions) and operator programs for all 8 types and comparing verdicts, Go literal text, operator symbols and Go type names with the model.",
    design_ref="DESIGN.md §4 C10",
    note=TRUST + " Floats: only the type mapping is checked; float_to_string's %d is a known finding. Go's arithmetic semantics is a model of the Go spec.",
)

CLAIMED["C13"] = dict(
    technique="Coq proof that discovery order and topological order are invariant under every permutation of every import set (the HashSet iteration order), on a model compared with the real discover_packages/topo_sort_packages inside coqc; fresh-process byte-for-byte comparison as the failing-input search; fresh-process comparison of all dumps (ast, hir, tast, core, mono, lift, anf, go) and diagnostics for multi-package projects, feature-rich single files, rejected programs with several errors, several extern packages and link histories with several stale packages",
    text="discovery_order_independent and topo_order_independent are proved for all package file systems and all permutations of all import lists (no axioms); the model (work-queue discipline, sort points, error classes) is compared with the real functions on exhaustive 4-package import relations (cycles included) and random layouts with missing/misdeclared packages. "
         "Independently every check compiles generated, corpus and probe projects in several fresh processes and from a re-created directory tree and compares all stage dumps byte for byte.",
    design_ref="DESIGN.md §4 C13",
    note=TRUST + " Other hash-map iteration sites on the compile path are covered only by the multi-process comparison.",
)

CLAIMED["C15"] = dict(
    technique="Coq invariant proof over all histories of the artifact state machine (edit/check/build/link) with the hash function an injective parameter; history-level differential correspondence with the real check_package/build_package/read_core/link_cores through real files, inside coqc; inspection of the real .core files after each successful link as the failing-input search; 25 kinds of edits of a dependency (21 observable ones must be refused at link, 4 body-only ones must link) and hash stability of a package with every kind of export across fresh processes",
    text="link_never_mixes_interfaces: for every history, if link accepts a set of cores then each linked package was built against exactly the exported interface its dependencies' linked cores carry (induction over the op list, hash injectivity as the only hypothesis; no axioms). body-only edits keep and interface edits change the hash; single-field corruptions covered by validation are rejected; the unhashed core body is a refutation theorem and a known finding. "
         "Tied to separate.rs/artifact.rs by executing systematic and random histories over three dependency shapes against the real API and comparing success flags and hash equality patterns with the model.",
    design_ref="DESIGN.md §4 C15",
    note=TRUST + " Assumes sha256 collision freedom on the hash views of one history; 'interface-visible change' is abstracted to a version number.",
)

CLAIMED["C16"] = dict(
    technique="Coq proofs: the DFS topological sort model yields a dependency-respecting order (so mutual imports are rejected) and, from the orphan rule + visibility + per-package uniqueness, global coherence of trait impls; differential correspondence of acceptance verdicts with the real compiler on systematic package/impl placements, inside coqc; 11 kinds of cross-package references with direct, missing and transitive imports; duplicate impls under plain and self-qualified paths",
    text="at_most_one_impl_per_trait_and_type: for every accepted import graph and every list of impl blocks that passes the orphan rule, the visibility rule and the per-package duplicate check, no two impls share a (trait, type) pair (no axioms) — proved through topo_respects_deps for the DFS model of topo_sort_packages. "
         "The model's predicates (is_local_name / is_local_nominal_type / package_allowed / duplicate checks / cycle detection) are tied to the code by compiling 4-package projects with every placement of an impl of a foreign or own trait for 8 kinds of types and of qualified references, and comparing the accepted / cycle / visibility / orphan / duplicate verdicts.",
    design_ref="DESIGN.md §4 C16",
    note=TRUST + " Items are abstract (traits, nominal types, impl headers, qualified references); generic impls are outside the placements.",
)

CLAIMED["C01"] = dict(
    category="translation_validation",
    technique="per-program translation validation with two Coq semantics (Sem/Src.v on the real typed source tree, Sem/GoSem.v on the real emitted Go AST) evaluated in coqc; both semantics validated against outputs recorded from real Go; general pass-correctness theorems open; generators include the position x feature matrix (lib/matrixgen.py: every construct a pass must rewrite in every syntactic position)",
    text='Every run compiles type-directed generated programs (probes in every position, pattern matrices called on value grids, closures, refs, vectors, trait objects, failing operations) and the 74 corpus programs with the real compiler, reads the real TAST and Go AST back and executes both in Coq; stdout and the way the program ends must agree, and corpus programs must reproduce the output recorded from real Go. The unbounded theorem (composition of pass correctness) is not proved; the claimed level is per-program validation with machine-checked executable semantics.',
    design_ref="DESIGN.md §4 C01",
    note=TRUST + " Sem/GoSem.v is a model of Go (no floats, one goroutine schedule); Sem/Src.v is the source-level meaning; both reproduce the recorded real-Go output of 63-66 corpus programs. This is validation per program, not a proof about all programs.",
)
CLAIMED["C08"] = dict(
    category="translation_validation",
    technique="per-program translation validation with two Coq semantics (Sem/Src.v on the real typed source tree, Sem/GoSem.v on the real emitted Go AST) evaluated in coqc; both semantics validated against outputs recorded from real Go; general pass-correctness theorems open; the closure sub-matrix (captures of every kind, closures in struct fields, function values, closures using capture-free closures)",
    text='Closure-focused programs in which each captured variable occurs in exactly one syntactic position of the closure body (match arms incl. default, while condition/body, if, nested closures, tuple, enum match, captured closures and trait objects) are compiled and the real TAST vs real Go AST behaviours compared in Coq. lift_correct is not proved; closures in function-typed positions are a known finding.',
    design_ref="DESIGN.md §4 C08",
    note=TRUST + " Sem/GoSem.v is a model of Go (no floats, one goroutine schedule); Sem/Src.v is the source-level meaning; both reproduce the recorded real-Go output of 63-66 corpus programs. This is validation per program, not a proof about all programs.",
)
CLAIMED["C09"] = dict(
    category="translation_validation",
    technique="per-program translation validation with two Coq semantics (Sem/Src.v on the real typed source tree, Sem/GoSem.v on the real emitted Go AST) evaluated in coqc; both semantics validated against outputs recorded from real Go; plus a Coq model of anf.rs (continuation-passing, explicit gensym counter) with the theorem that A-normalisation keeps every operation exactly once, in left-to-right order, inside the same branch, the model being compared node for node with the real A-normal form of every function; plus a Coq mirror of the effect classification of dead-code elimination (go/dce.rs) with the theorem that what it calls effect-free is unobservable under Sem/GoSem.v, compared with the real classification (goml_verif hook) on every expression and statement of every emitted function",
    text="Programs with printing probes around operands, arguments, conditions and branches, a systematic matrix of unit-typed effect expressions x statement positions, Ref updates and failing operations are compiled; order and multiplicity of effects and the failure point of the real Go AST (after ANF, Go generation, DCE) must equal the typed source program's under the Coq semantics. "
         "anf_preserves_meaning (no axioms): for EVERY interpretation of literals and operations (calls, arithmetic, construction, trait-object calls, spawning: anything with evaluated operands, free to print, update the heap or fail), of conditions and of arm selection, if the lifted body evaluates to a value or a run-time failure then the model's A-normal form evaluates to the same value in the same world or fails in the same world (registers agree except for the temporaries), under a decidable well-formedness condition that is checked on every real function body; proved through anf_is_wrap_of_flat (the continuation-passing model equals a first-order description). "
         "anf_keeps_every_operation_once_in_order / anf_in_context_keeps_order (no axioms): for every lifted body, counter value and continuation that performs the received operation first, the operation trace of the model's A-normal form is the left-to-right operands-first trace of the source, with if/while/match branches kept apart. The model (C09/Anf.v) must equal the real A-normal form (names of temporaries included) for every function of every generated and corpus program. "
         "effect_free_expression_is_unobservable / effect_free_statement_is_unobservable (no axioms): for every Go expression and statement that has_effects / stmt_has_effects (C09/Dce.v, equal to expr_has_side_effects / stmt_has_side_effects on every node of every emitted function) classify as effect-free, in every environment, state and fuel: if it evaluates, standard output is unchanged and the heap only extended; if it fails, it is a nil dereference or failed type assertion with the output unchanged, never an index or a division. "
         "Go generation and the use DCE makes of the classification (liveness) are covered by translation validation only; && / || evaluation of both operands is a known finding (short_circuit_refuted).",
    design_ref="DESIGN.md §4 C09",
    note=TRUST + " Sem/GoSem.v is a model of Go (no floats, one goroutine schedule); Sem/Src.v is the source-level meaning; both reproduce the recorded real-Go output of 63-66 corpus programs. This is validation per program, not a proof about all programs.",
)

CLAIMED["C12"] = dict(
    technique="Coq proofs about models of the multi-line string scanner (every index in bounds, bump ends on a line end) and of build_tree (the tree's leaves are the tokens in order, nothing dropped or duplicated, for every event list); byte-for-byte differential correspondence of scanner results and of the leaf sequence replayed from the real parser's events, inside coqc; losslessness, range bounds and char-boundary checks on the real lexer/parser outputs as the failing-input search",
    text="multiline_scanner_safe (for every byte sequence the scanner model never reads outside the input and its bump length ends at the end of input or on a line feed), tree_leaves_are_a_token_prefix and tree_is_lossless (for every event list and token list the leaves of the built tree are exactly tokens 0..m-1 in order, and all of them when the events advance over every non-trivia token) — no axioms. "
         "Tied to lexer/src/lib.rs and parser/src/{parser,event}.rs by comparing the scanner model with the real lex_multiline_string callback on exhaustive byte strings over its alphabet, and by replaying the real parser's event streams through the model's build and comparing the leaves with the real rowan tree; independently every run checks on the real outputs that token and tree texts concatenate to the input, ranges are ordered and inside the text, and no boundary splits a UTF-8 character.",
    design_ref="DESIGN.md §4 C12",
    note=TRUST + " The logos-generated DFA for the other tokens is explored (exhaustive short strings, corpus mutations), not modelled; the parser's grammar functions are covered through their event streams only.",
)
CLAIMED["C04"] = dict(
    category="exploration",
    technique="Coq theorems for the panic sites that are modelled (scanner indexing, tree building; totality of every model function is by construction) re-checked on each run; the rest of 'never crashes or hangs' is explored: exhaustive short token strings, mutated corpus programs, deep nesting, multi-file projects through pipeline::compile under catch_unwind + watchdog and through the real command-line binary; programs of every generator (incl. the matrix), deep unfinished nestings, special Unicode characters and programs that ask for cyclic types go through compile and the command line",
    text="Crash- and hang-freedom of the whole Rust compiler is not a theorem here: only the multi-line scanner (no out-of-bounds read, for all inputs) and the tree builder (total, lossless) are proved. Everything else is exploration with the real code: every input must give success or at least one error diagnostic whose range lies in the text; no panic, signal, or missing answer within 8 s, including the CLI's rendering of diagnostics for multi-file projects and check/build/link on damaged inputs.",
    design_ref="DESIGN.md §4 C04",
    note=TRUST + " The claimed level is exploration with proved parts; polymorphic recursion diverging in mono is a known finding.",
)

CLAIMED["C07"] = dict(
    category="translation_validation",
    technique="per-program translation validation against the property's own wording (each generic program P is paired with P', every generic definition copied per instantiation with its type parameters substituted textually; real Go AST of P and real typed tree of P' executed by the Coq semantics); Coq model of ty_compact / spec_name_for with a proof that the printed type determines the type, compared with the real Mono instance names inside coqc; Mono residue and instance-set inspection; the generic sub-matrix (incl. method-level type parameters, generic instances as fields of non-generic types) through both semantics, Mono residue, unspecialised-definition and Go checker checks",
    text="printed_type_determines_the_type (no axioms): for all types with non-empty generic applications, equal compact token sequences imply equal types, by a verified reader of the printed form; a character-level refutation example records that '__' inside type names defeats the joined instance name (known finding). Every run: 23 generic items instantiated at nested concrete types; Go(P) must behave like the substituted P'; Mono(P) must contain no TParam/TVar/TApp, unique names, exactly the reachable instances, and the names the Coq model computes. mono_correct is not proved; non-termination on polymorphic recursion is a known finding.",
    design_ref="DESIGN.md §4 C07",
    note=TRUST + " Sem/GoSem.v is a model of Go and Sem/Src.v the source-level meaning (both validated against outputs recorded from real Go); textual substitution in the generator defines the meaning of an instance. The behaviour part is validation per program, not a proof about all programs.",
)

CLAIMED["C17"] = dict(
    category="translation_validation",
    technique="per-project translation validation: three-package projects calling every method through all applicable call forms are paired with a trait-free single-package program that calls each impl body directly; the project's real Go AST (Sem/GoSem.v) and the reference's real typed tree (Sem/Src.v) are executed inside coqc and must print the same; single-error negative variants must be rejected by the real typer; imported generic types, suffix-related method names, trait objects passed to like-named methods of other traits",
    text="Random impl matrices over 3 traits (two of them both named Show, in different packages) x 10 receiver types (primitives, tuple, own and foreign structs/enums, generic instances), impls placed wherever the orphan rule allows; forms: Tr::m(x,a) concrete, x.m(a) and Tr::m(x,a) through bounds (single and combined, both orders), Tr::m(d,a) on let-coerced and argument-coerced dyn, inherent x.m(a) and T::m(x,a). Negatives: dyn coercion / UFCS without an impl, ambiguous dot call through two bounds, UFCS through a bound that does not name the trait. No theorem about the typer's resolution.",
    design_ref="DESIGN.md §4 C17",
    note=TRUST + " Sem/GoSem.v is a model of Go (interface assertions by method set) and Sem/Src.v the source-level meaning; validation per program, not a proof about all programs.",
)

CLAIMED["C18"] = dict(
    technique="Coq proof that a type-directed JSON decoder reads the text written by the model of derive(ToJson) (object per struct, tag/fields per variant, strings through the %q model of Sem/GoSem.v) back to the value, for all definitions and values; the encoder model is compared byte for byte with what the real compiled program prints (real Go AST executed by Sem/GoSem.v) and the Coq decoder is run on the real text, inside coqc; to_string and JSON well-formedness (Python json) are evaluated on the real output; every spelling of the derive attribute; variant names shared between enums",
    text="to_json_decodes_back_to_the_value (no axioms): for all struct/enum definitions with distinct quote-free variant names, all values with JSON-safe strings (printable ASCII and \\b \\t \\n \\f \\r) and all continuations not starting with a digit, dec (enc v ++ rest) = (v, rest); control characters are a refutation example and a known finding. "
         "Every run: 1-4 derived definitions per program (all integer types, bool, string, unit, nested and recursive types, field names like tag/fields/to_json), 3-6 values each; the model must print exactly the real text, the Coq decoder must recover the value from the real text, to_string must equal the documented rendering, Python's json must accept and decode the text; 13 unsupported or hostile definitions must give a diagnostic or working code.",
    design_ref="DESIGN.md §4 C18",
    note=TRUST + " Integers are modelled as their decimal spelling (that the spelling is the number is C10's theorem); derive(ToString) is checked on outputs only; non-ASCII strings are outside the Go model's Quote.",
)

CLAIMED["C11"] = dict(
    technique="Coq proof that, for the model of the Pratt loop (expr_bp, arg_list, binding powers) and of the call re-association in lowering, parsing the minimal-parentheses rendering of any tree of the class ok returns that tree (induction over trees, 'for all sufficiently large fuel'); pinned theorem on the binding-power table; the model and the class are compared with the real parser+lowering on the same token strings inside coqc; literal fidelity evaluated on the real parser and through Sem/GoSem.v; every literal kind in 47 expression positions; the Go text of every string literal lexed with Go's rules (bytes vs code points, no byte order mark)",
    text="print_then_parse_is_identity: for every tree whose callees are atoms/calls/field accesses and whose prefix operands carry no call on their postfix chain, parse_fuel f (print e) = Some e for all large f (no axioms); binding_powers_as_documented; refutation examples for the three association deviations outside the class (known findings). "
         "Tied to parser/src/expr.rs and ast/src/lower.rs by running the model and the real parser on all operator pairs/triples, prefix x binary, calls, fields and 1500+ random trees (every one must be in ok, parse to itself in both, and print to the same tokens); literals: every escape spelling, multi-line strings (LF/CRLF), integer and float spellings, printed output of compiled programs.",
    design_ref="DESIGN.md §4 C11",
    note=TRUST + " Items, patterns, types and the non-operator expression forms are outside the model; adequacy of the model's concrete fuel is tested, not proved.",
)

CLAIMED["C14"] = dict(
    category="translation_validation",
    technique="per-project validation: generated multi-package projects are compiled whole (pipeline::compile) and separately (check/build through interface and core JSON files in random topological orders, then link_cores in build or random order) by the real code; acceptance verdicts and check/build interface hashes are compared, and the two real Go ASTs are executed by Sem/GoSem.v inside coqc and must behave alike; the artifact-consistency theorem of C15 (link never mixes interfaces) is re-checked; both outputs are also checked by the Go checker model; library packages have pass-heavy bodies and Main uses indirect dependencies implicitly",
    text="6 dependency shapes over up to 3 libraries + Main, each library exporting a struct, an enum with struct payload, a generic struct with inherent method, a trait with own/foreign impls, generic and bounded generic functions; Main with impls of foreign traits, cross-package generics, dyn coercions and, at random, a second source file with or without its own import line (ill-formed variants must be rejected both ways). No theorem that link o build equals the whole-program pipeline.",
    design_ref="DESIGN.md §4 C14",
    note=TRUST + " Sem/GoSem.v is a model of Go; Go texts of the two pipelines differ in declaration order and temporaries, so behaviour (stdout and ending) is compared, not text.",
)

CLAIMED["C03"] = dict(
    technique="Coq: an executable type-consistency checker over a typed mirror of the Core/Mono/Lift/ANF trees, with proved soundness for closedness and for absence of generic residue; the real stage trees (Rust Debug dumps, every node with the type the compiler put on it) of generated, corpus and multi-package programs are translated node for node and checked inside coqc; single type errors injected into generated programs must be rejected by the real typer; the matrix programs are checked at all four stages; 59 kinds of injected type errors, also inside an imported package, must be rejected",
    text="accepted_trees_are_closed and accepted_mono_trees_have_no_residue (no axioms): whatever check accepts has every variable bound by an enclosing binder/parameter, a top-level function or a listed builtin, and after monomorphisation no TParam/TVar/TApp on any node. check additionally enforces binder types, instance matching of top-level functions, and let/if/while/match/call/tuple/projection/array/closure/operator/dyn typing and declared return types. "
         "Every run checks all four stage trees of ~190 (thorough ~1800) accepted programs and requires rejection of 32 kinds of injected type errors.",
    design_ref="DESIGN.md §4 C03",
    note=TRUST + " lib/typed2coq.py (Debug tree -> Coq term) is trusted to keep names and types; constructor field types and trait method signatures are not re-checked; an unsatisfied trait bound at a generic call is a known finding.",
)

CLAIMED["C20"] = dict(
    category="exploration",
    technique="exploration of the real query functions (hover_type, dot_completions, colon_colon_completions) under catch_unwind at every cursor position of small texts and sampled positions of generated programs, prefixes and mutations; hover on binders compared with the typed-tree dump; completion items judged against the declarations of generated incomplete programs. No model of the query layer: only the token/tree losslessness it relies on is a theorem (C12); hover on pattern/closure/function binders and on expressions of every call form against types known by construction; every offered completion item is inserted and compiled",
    text="Crash-freedom at all (line, column) incl. positions outside the text; hover on every let binder of generated programs with inference-heavy statements must print the type of the typed tree; completions after p.<prefix>, Enum::<prefix>, Type::<prefix> must name declared fields/methods/variants with the right prefix and field type and omit no field. This is exploration, not proof.",
    design_ref="DESIGN.md §4 C20",
    note=TRUST + " The proof technique does not reach the query layer (it is glue over the typer's side tables); the claimed level is exploration.",
)

CLAIMED["C02"] = dict(
    category="translation_validation",
    technique="per-program validation with a Coq-defined checker for the emitted Go subset (go_wf: derives types from declarations as Go does and reports undeclared/duplicate names, ill-typed calls, assignments, returns, literals and operators, unused locals and imports) evaluated in coqc on the real Go AST, plus an independent Go lexer (automatic semicolon insertion) and parser that must map the emitted text back to that AST; the matrix, Go-keyword names for every kind of entity and Go's constant-expression rule (Sem/GoConst.v) are part of the stream",
    text="Every accepted program from all generators of this suite, the corpus and multi-package projects: the Go text must parse (Go lexical rules, semicolon insertion, operator precedence, literal escapes) to exactly the AST the backend built, and go_wf of that AST must be empty. Pinned theorem: an accepted file declares each top-level name once (no axioms); examples show each finding class is reported. go_wf is a model of the Go front end, validated on the corpus recorded from real Go (058's compile error is reproduced and is a known finding).",
    design_ref="DESIGN.md §4 C02",
    note=TRUST + " lib/goparse.py (Python) is the text-to-tree tie and is trusted to follow the Go specification for the emitted subset; go_wf does not cover Go rules outside that subset.",
)

NOT_YET = {}

# stages added in the later mutant rounds (appended to the level text of the property)
LATER = {
    "C03": " Type-confusion matrix: for every ordered pair of 32 types a value of one is offered where the other is expected (result, annotated let, argument) and every builtin/projection/operator is applied to every type it does not fit; all must be rejected with a diagnostic and the identity at each type accepted.",
    "C04": " Every harness entry runs under a per-case watchdog (a case that gives no answer is reported and the process replaced), so a hang is reported with its input. Damaged artifacts include every entry of every table of an embedded interface removed with the recorded hash kept.",
    "C07": " Generators include type parameters that occur only in the result type of a function without parameters.",
    "C08": " The matrix includes functions that return closures (alone and as a tuple of closures sharing a Ref), defined before their callers.",
    "C13": " The files of one package are handed to check/build in every order: interface, core and linked Go must be byte-identical.",
    "C14": " A third of the generated projects carry one defect of a kind reported by each stage (typer, name resolution, match compilation) in a package the entry package reaches: both ways must reject.",
    "C16": " Directories with a file that declares another package (each host package, sorting first or last, each declared name, the root directory) must be rejected.",
    "C19": " The type-name stage also instantiates the per-type runtime helpers (ref / array / vec) at sibling types (array lengths, tuple arities and nestings, instances).",
    "C20": " Texts cut right after `x.`, `x.y`, `P::`, `P::Q` are queried at the very end of the text.",
    "C01": " A Go side that exhausts the evaluation fuel while the source program ends within an eighth of it counts as a disagreement (non-termination).",
    "C09": " A Go side that exhausts the evaluation fuel while the source program ends within an eighth of it counts as a disagreement (non-termination).",
}


def main():
    for k_, v_ in LATER.items():
        if k_ in CLAIMED and not CLAIMED[k_]["text"].endswith(v_):
            CLAIMED[k_]["text"] = CLAIMED[k_]["text"] + v_
    props = [json.loads(l) for l in open(os.path.join(HERE, "properties.jsonl"))]
    checks = []
    na = []
    for p in props:
        pid = p["id"]
        if pid in CLAIMED:
            c = CLAIMED[pid]
            checks.append({
                "property_id": pid,
                "quick_cmd": "./check %s --tier quick" % pid,
                "thorough_cmd": "./check %s --tier thorough" % pid,
                "evidence_file": "/verif/evidence/%s.json" % pid,
                "replay_cmd_template": "./check %s --replay {path}" % pid,
                "engine": "coq+gomlv",
                "level_claimed": {"category": c.get("category", "proof"), "text": c["text"], "design_ref": c["design_ref"]},
                "level_note": c["note"],
                "technique": c["technique"],
            })
        else:
            na.append({"property_id": pid, "reason": NOT_YET.get(pid, "not claimed yet: the Coq model and correspondence check for this property are not built at this commit (planned in DESIGN.md §4); no other technique is substituted")})
    m = {
        "version": 1,
        "setup_cmd": "./check setup",
        "hooks": {
            "guard": "goml_verif",
            "enable": "RUSTFLAGS='--cfg goml_verif' (set by lib/vlib.py for every harness build); one hook: crates/compiler/src/go/dce.rs verif_expr_has_side_effects / verif_stmt_has_side_effects (pub wrappers of the private effect classification of dead-code elimination, used by C09); crates/compiler/Cargo.toml declares the cfg name in [lints.rust]",
            "baseline_off_cmd": "cd /repo && cargo test --workspace --no-fail-fast --offline",
            "source_commits": ["66aa15b566f86d8f2ed29cb4b5073841d04a44b9"],
            "add_only": True,
        },
        "engines": [
            {"name": "coq+gomlv", "path": "/verif/check", "serves_properties": sorted(CLAIMED), "kind_free_text": "Coq 8.16.1 theories under coq/theories (models, proofs, pinned property theorems), table translators under translate/, Rust differential harness under harness/, Python driver lib/"}
        ],
        "checks": checks,
        "not_applicable": na,
        "notes": "One driver: ./check Cxx --tier quick|thorough. Known findings: known_findings.json. See DESIGN.md.",
    }
    with open(os.path.join(HERE, "MANIFEST.json"), "w") as f:
        json.dump(m, f, indent=1)
    print("MANIFEST: %d checks, %d not_applicable" % (len(checks), len(na)))

if __name__ == "__main__":
    main()
