From Coq Require Import List ZArith Lia Bool Arith.
Import ListNotations.

Inductive name := User (n : nat) | Gen (n : nat).
Definition name_eqb (a b : name) : bool :=
  match a, b with
  | User x, User y => Nat.eqb x y
  | Gen x, Gen y => Nat.eqb x y
  | _, _ => false
  end.
Lemma name_eqb_spec a b : reflect (a = b) (name_eqb a b).
Proof. destruct a, b; simpl; try (constructor; congruence);
  destruct (Nat.eqb_spec n n0); constructor; congruence. Qed.

Inductive pat :=
| PWild | PVar (x : nat) | PBool (b : bool) | PTuple (ps : list pat).

Inductive val := VBool (b : bool) | VTuple (vs : list val).

Fixpoint psize (p : pat) : nat :=
  match p with
  | PTuple ps => S (fold_right (fun p a => psize p + a) 0 ps)
  | _ => 1
  end.

Definition env := list (name * val).
Fixpoint lookup (x : name) (r : env) : option val :=
  match r with
  | [] => None
  | (y, v) :: r' => if name_eqb x y then Some v else lookup x r'
  end.

(* spec: pattern matching producing user bindings *)
Fixpoint pmatch (p : pat) (v : val) {struct p} : option (list (nat * val)) :=
  match p, v with
  | PWild, _ => Some []
  | PVar x, _ => Some [(x, v)]
  | PBool b, VBool c => if Bool.eqb b c then Some [] else None
  | PTuple ps, VTuple vs =>
      (fix go (ps : list pat) (vs : list val) : option (list (nat * val)) :=
         match ps, vs with
         | [], [] => Some []
         | p :: ps', v :: vs' =>
             match pmatch p v, go ps' vs' with
             | Some a, Some b => Some (a ++ b)
             | _, _ => None
             end
         | _, _ => None
         end) ps vs
  | _, _ => None
  end.

Record row := { cols : list (name * pat); binds : list (nat * name); body : nat }.

Inductive core :=
| CBody (bs : list (nat * name)) (n : nat)
| CMissing
| CLetProj (x : name) (y : name) (i : nat) (k : core)
| CIfBool (y : name) (t f : core).

Definition row_size (r : row) := fold_right (fun c a => psize (snd c) + a) 0 (cols r).
Definition rows_size (rs : list row) := fold_right (fun r a => S (row_size r) + a) 0 rs.

Definition move_vars (r : row) : row :=
  fold_right (fun c acc =>
     match snd c with
     | PVar x => {| cols := cols acc; binds := (x, fst c) :: binds acc; body := body acc |}
     | PWild => acc
     | _ => {| cols := c :: cols acc; binds := binds acc; body := body acc |}
     end) {| cols := []; binds := binds r; body := body r |} (cols r).

Definition remove_col (y : name) (r : row) : option (pat * row) :=
  (fix go (cs : list (name * pat)) (pre : list (name * pat)) :=
     match cs with
     | [] => None
     | (z, p) :: cs' =>
         if name_eqb y z then Some (p, {| cols := rev pre ++ cs'; binds := binds r; body := body r |})
         else go cs' ((z, p) :: pre)
     end) (cols r) [].

Fixpoint seqn (g n : nat) : list name :=
  match n with 0 => [] | S n' => Gen g :: seqn (S g) n' end.

Fixpoint compile (fuel : nat) (g : nat) (tys : name -> nat (* tuple arity, 0 = bool *)) (rs : list row)
  : option core :=
  match fuel with
  | 0 => None
  | S fuel' =>
    match map move_vars rs with
    | [] => Some CMissing
    | r0 :: rest =>
      match cols r0 with
      | [] => Some (CBody (binds r0) (body r0))
      | (y, _) :: _ =>
        match tys y with
        | 0 =>
          let split (want : bool) :=
            flat_map (fun r => match remove_col y r with
                               | Some (PBool b, r') => if Bool.eqb b want then [r'] else []
                               | Some (_, r') => [r']
                               | None => [r]
                               end) (r0 :: rest) in
          match compile fuel' g tys (split true), compile fuel' g tys (split false) with
          | Some t, Some f => Some (CIfBool y t f)
          | _, _ => None
          end
        | ar =>
          let xs := seqn g ar in
          let rs' := map (fun r => match remove_col y r with
                                   | Some (PTuple ps, r') =>
                                       {| cols := cols r' ++ combine xs ps; binds := binds r'; body := body r' |}
                                   | _ => r
                                   end) (r0 :: rest) in
          match compile fuel' (g + ar) (fun z => match z with Gen k => if Nat.leb g k && Nat.ltb k (g+ar) then 0 else tys z | _ => tys z end) rs' with
          | Some k =>
            Some ((fix lets (xs : list name) (i : nat) (k : core) :=
                     match xs with [] => k | x :: xs' => CLetProj x y i (lets xs' (S i) k) end) xs 0 k)
          | None => None
          end
        end
      end
    end
  end.

(* quick sanity *)
Definition r1 := {| cols := [(User 0, PTuple [PBool true; PVar 5])]; binds := []; body := 1 |}.
Definition r2 := {| cols := [(User 0, PVar 6)]; binds := []; body := 2 |}.
Eval vm_compute in compile 20 0 (fun z => match z with User 0 => 2 | _ => 0 end) [r1; r2].
