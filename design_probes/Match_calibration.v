From Coq Require Import List ZArith Lia Bool Arith.
Import ListNotations.

(* A smaller calibration: bool-only columns, arbitrary number of columns/rows.
   Goal: eval (compile rows) rho = first_match rows rho. *)
Definition name := nat.
Inductive pat := PWild | PBool (b : bool).
Definition env := name -> bool.

Record row := { cols : list (name * pat); body : nat }.

Definition pm (p : pat) (v : bool) : bool :=
  match p with PWild => true | PBool b => Bool.eqb b v end.
Definition row_ok (rho : env) (r : row) : bool :=
  forallb (fun c => pm (snd c) (rho (fst c))) (cols r).
Fixpoint first_match (rs : list row) (rho : env) : option nat :=
  match rs with
  | [] => None
  | r :: rs' => if row_ok rho r then Some (body r) else first_match rs' rho
  end.

Inductive core := CBody (n : nat) | CMissing | CIf (y : name) (t f : core).
Fixpoint eval (c : core) (rho : env) : option nat :=
  match c with
  | CBody n => Some n
  | CMissing => None
  | CIf y t f => if rho y then eval t rho else eval f rho
  end.

Definition strip (r : row) : row :=
  {| cols := filter (fun c => match snd c with PWild => false | _ => true end) (cols r); body := body r |}.

Fixpoint remove_col (y : name) (cs : list (name * pat)) : option (pat * list (name * pat)) :=
  match cs with
  | [] => None
  | (z, p) :: cs' =>
      if Nat.eqb y z then Some (p, cs')
      else match remove_col y cs' with
           | Some (q, rest) => Some (q, (z, p) :: rest)
           | None => None
           end
  end.

Definition split (y : name) (want : bool) (rs : list row) : list row :=
  flat_map (fun r => match remove_col y (cols r) with
                     | Some (PBool b, rest) => if Bool.eqb b want then [{| cols := rest; body := body r |}] else []
                     | Some (PWild, rest) => [{| cols := rest; body := body r |}]
                     | None => [r]
                     end) rs.

Definition csize (r : row) := length (cols r).
Definition rsize (rs : list row) := fold_right (fun r a => S (csize r) + a) 0 rs.

Fixpoint compile (fuel : nat) (rs : list row) : option core :=
  match fuel with
  | 0 => None
  | S fuel' =>
    match map strip rs with
    | [] => Some CMissing
    | r0 :: rest =>
      match cols r0 with
      | [] => Some (CBody (body r0))
      | (y, _) :: _ =>
        match compile fuel' (split y true (r0 :: rest)), compile fuel' (split y false (r0 :: rest)) with
        | Some t, Some f => Some (CIf y t f)
        | _, _ => None
        end
      end
    end
  end.

(* --- lemmas --- *)
Lemma strip_row_ok rho r : row_ok rho (strip r) = row_ok rho r.
Proof.
  unfold row_ok, strip; simpl. induction (cols r) as [|[z p] cs IH]; simpl; auto.
  destruct p; simpl; rewrite ?IH; auto.
Qed.

Lemma first_match_strip rs rho : first_match (map strip rs) rho = first_match rs rho.
Proof. induction rs as [|r rs IH]; simpl; auto. rewrite strip_row_ok, IH. auto. Qed.

(* each var at most once per row *)
Definition nodup_row (r : row) := NoDup (map fst (cols r)).

Lemma remove_col_none y cs : remove_col y cs = None -> ~ In y (map fst cs).
Proof.
  induction cs as [|[z p] cs IH]; simpl; intros H; [tauto|].
  destruct (Nat.eqb_spec y z); [discriminate|].
  destruct (remove_col y cs) as [[q rest]|]; [discriminate|].
  intros [E|I]; [congruence| exact (IH eq_refl I)].
Qed.

Lemma remove_col_incl y cs : forall q rest, remove_col y cs = Some (q, rest) ->
  forall z, In z (map fst rest) -> In z (map fst cs).
Proof.
  induction cs as [|[a b] cs IH]; simpl; intros q rest H z I; [discriminate|].
  destruct (Nat.eqb y a).
  - inversion H; subst. auto.
  - destruct (remove_col y cs) as [[q2 r2]|] eqn:E2; [|discriminate].
    inversion H; subst. simpl in I. destruct I as [I|I]; [auto|]. right. eapply IH; eauto.
Qed.

Lemma remove_col_some rho y cs q rest :
  NoDup (map fst cs) -> remove_col y cs = Some (q, rest) ->
  forallb (fun c => pm (snd c) (rho (fst c))) cs =
  pm q (rho y) && forallb (fun c => pm (snd c) (rho (fst c))) rest
  /\ NoDup (map fst rest) /\ length cs = S (length rest).
Proof.
  revert q rest; induction cs as [|[z p] cs IH]; simpl; intros q rest ND H; [discriminate|].
  inversion ND as [|? ? Hn ND']; subst.
  destruct (Nat.eqb_spec y z).
  - inversion H; subst. auto.
  - destruct (remove_col y cs) as [[q' rest']|] eqn:E; [|discriminate].
    inversion H; subst. destruct (IH _ _ ND' eq_refl) as (E1 & ND2 & L).
    simpl. rewrite E1. split; [ring|]. split; [|lia].
    constructor; auto. intro I. apply Hn. eapply remove_col_incl; eauto.
Qed.

Lemma row_ok_cols rho cs b : row_ok rho {| cols := cs; body := b |} =
  forallb (fun c => pm (snd c) (rho (fst c))) cs.
Proof. reflexivity. Qed.

Lemma split_first_match rho y rs :
  Forall nodup_row rs ->
  first_match (split y (rho y) rs) rho = first_match rs rho.
Proof.
  induction rs as [|r rs IH]; simpl; intros F; auto.
  inversion F as [|? ? ND F']; subst. specialize (IH F').
  unfold split in *; simpl.
  assert (Hr : row_ok rho r = forallb (fun c => pm (snd c) (rho (fst c))) (cols r)) by reflexivity.
  destruct (remove_col y (cols r)) as [[q rest]|] eqn:E.
  - destruct (remove_col_some rho _ _ _ _ ND E) as (E1 & _ & _).
    rewrite Hr, E1.
    destruct q as [|b]; simpl.
    + rewrite row_ok_cols, IH. reflexivity.
    + destruct (Bool.eqb b (rho y)) eqn:Eb; simpl.
      * rewrite row_ok_cols, IH. reflexivity.
      * rewrite IH. reflexivity.
  - simpl. rewrite IH. reflexivity.
Qed.

Lemma split_nodup y w rs : Forall nodup_row rs -> Forall nodup_row (split y w rs).
Proof.
  induction rs as [|r rs IH]; simpl; intros F; [constructor|].
  inversion F as [|? ? ND F']; subst. apply Forall_app; split; auto.
  destruct (remove_col y (cols r)) as [[q rest]|] eqn:E.
  - destruct (remove_col_some (fun _ => true) _ _ _ _ ND E) as (_ & ND2 & _).
    destruct q as [|b]; [repeat constructor; exact ND2|].
    destruct (Bool.eqb b w); repeat constructor; exact ND2.
  - repeat constructor; exact ND.
Qed.

Lemma strip_nodup r : nodup_row r -> nodup_row (strip r).
Proof.
  unfold nodup_row, strip; simpl. induction (cols r) as [|[z p] cs IH]; simpl; intros H; auto.
  inversion H; subst. destruct p; simpl; auto. constructor; auto.
  intro I. apply H2. clear -I. induction cs as [|[a b] cs IH]; simpl in *; auto.
  destruct b; simpl in *; tauto.
Qed.

Lemma compile_S fuel rs : compile (S fuel) rs =
    match map strip rs with
    | [] => Some CMissing
    | r0 :: rest =>
      match cols r0 with
      | [] => Some (CBody (body r0))
      | (y, _) :: _ =>
        match compile fuel (split y true (r0 :: rest)), compile fuel (split y false (r0 :: rest)) with
        | Some t, Some f => Some (CIf y t f)
        | _, _ => None
        end
      end
    end.
Proof. reflexivity. Qed.

Theorem compile_first_match fuel : forall rs c rho,
  Forall nodup_row rs -> compile fuel rs = Some c -> eval c rho = first_match rs rho.
Proof.
  induction fuel as [|fuel IH]; intros rs c rho F H; [discriminate|].
  rewrite <- (first_match_strip rs rho).
  assert (F' : Forall nodup_row (map strip rs)).
  { clear -F. induction F; simpl; constructor; auto using strip_nodup. }
  rewrite compile_S in H. revert H F'.
  destruct (map strip rs) as [|r0 rest]; intros H F'; [inversion H; reflexivity|].
  revert H. destruct (cols r0) as [|[y p] cs] eqn:Ec; intro H.
  - inversion H; subst. cbn [eval first_match]. unfold row_ok. rewrite Ec. reflexivity.
  - revert H.
    destruct (compile fuel (split y true (r0 :: rest))) as [t|] eqn:Et; [|discriminate].
    destruct (compile fuel (split y false (r0 :: rest))) as [f|] eqn:Ef; [|discriminate].
    intro H. inversion H; subst; cbn [eval].
    rewrite <- (split_first_match rho y (r0 :: rest) F').
    destruct (rho y) eqn:Ey.
    + eapply IH; [|exact Et]. apply split_nodup; exact F'.
    + eapply IH; [|exact Ef]. apply split_nodup; exact F'.
Qed.
Print Assumptions compile_first_match.
