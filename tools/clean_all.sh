#!/bin/sh
# every registered check on the current tree (quick tier by default); prints FALSE-ALARM lines for anything not OK
cd /verif
T=${1:-quick}
for p in $(python3 -c "import json; print(' '.join(c['property_id'] for c in json.load(open('MANIFEST.json'))['checks']))"); do
  out=$(./check $p --tier $T 2>/dev/null | grep -v "^KNOWN-FINDING" | tail -1)
  case "$out" in OK*) echo "$out";; *) echo "FALSE-ALARM $p: $out";; esac
done
echo "clean done"
