#!/usr/bin/env python3
"""Golden-neutrality check: re-derive every stage dump of the 74 pipeline corpus programs with the
current /repo and compare with the committed expect-files (the part of the always-failing golden
tests that does not need Go).  Exit 0 iff all match."""
import glob, os, sys
sys.path.insert(0, os.path.join(os.path.dirname(os.path.abspath(__file__)), "..", "lib"))
import vlib

STAGES = ["cst", "ast", "hir", "tast", "core", "mono", "anf", "go"]

def main():
    paths = sorted(glob.glob(os.path.join(vlib.REPO, "crates/compiler/src/tests/pipeline/*/main.gom")))
    res = vlib.run_harness("compile", [{"path": p, "dumps": STAGES} for p in paths], shards=16)
    bad = 0
    for p, r in zip(paths, res):
        if not r.get("ok"):
            print("FAIL compile", p, {k: v for k, v in r.items() if k != "go"}); bad += 1; continue
        for s in STAGES:
            exp = open(p + "." + s).read()
            if r["dumps"][s] != exp:
                print("DIFF", p, s); bad += 1
    pk = sorted(glob.glob(os.path.join(vlib.REPO, "crates/compiler/src/tests/package/*/main.gom")))
    for p, r in zip(pk, vlib.run_harness("compile", [{"path": p} for p in pk], shards=8)):
        if not r.get("ok"):
            print("FAIL compile", p, {k: v for k, v in r.items() if k != "go"}); bad += 1
    paths = paths + pk
    print("golden: %d programs, %d differences" % (len(paths), bad))
    return 1 if bad else 0

if __name__ == "__main__":
    sys.exit(main())
