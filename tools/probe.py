#!/usr/bin/env python3
"""dev helper: tools/probe.py a/main.gom b/main.gom ... -> per program: accepted?, go_wf findings, Go model vs typed-tree model"""
import os, sys
sys.path.insert(0, "/verif/lib"); sys.path.insert(0, "/verif/lib/props")
import vlib, semrun, rustdbg, go2coq, c02

paths = [os.path.abspath(p) for p in sys.argv[1:]]
res = vlib.run_harness("compile", [{"path": p, "dumps": ["go_dbg"], "timeout_ms": 20000} for p in paths])
ok = []
for p, r in zip(paths, res):
    if not r.get("ok"):
        print(p, "NOT ACCEPTED", {k: v for k, v in r.items() if k not in ("go", "dumps")})
        continue
    ok.append(p)
    o = vlib.coq_eval("probe", "From Goml Require Import Common.Base Sem.GoAst C02.GoCheck.\nOpen Scope N_scope.\nDefinition f := %s.\nEval vm_compute in (go_wf f).\n" % go2coq.file(rustdbg.parse(r["dumps"]["go_dbg"])))
    items = c02.decode(o)
    print(p, "go_wf:", [(fn, c02.CODES.get(c, c), who) for fn, c, who in items[:4]] or "clean")
    if "-v" in os.environ.get("PROBE", ""):
        print(r["go"])
if ok:
    for p, r in zip(ok, semrun.compare("probe", ok, src_stage="tast")):
        print(p, "sem:", r["status"], {k: (v if not isinstance(v, str) else v[:300]) for k, v in r.items() if k in ("src", "go", "side", "why")})
