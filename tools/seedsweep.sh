#!/bin/sh
# run every registered check with several seeds on the unchanged tree; print anything that is not OK
cd /verif
TIER=${TIER:-quick}
for sd in ${SEEDS:-1 2 3 7 11}; do
  for p in $(python3 -c "import json; print(' '.join(c['property_id'] for c in json.load(open('MANIFEST.json'))['checks']))"); do
    out=$(VERIF_SEED=$sd ./check $p --tier $TIER 2>/dev/null | grep -v "^KNOWN-FINDING" | tail -1)
    case "$out" in OK*) ;; *) echo "seed=$sd $p: $out";; esac
  done
done
echo "sweep done"
# restore evidence from the default seed
for p in $(python3 -c "import json; print(' '.join(c['property_id'] for c in json.load(open('MANIFEST.json'))['checks']))"); do ./check $p >/dev/null 2>&1; done
