#!/usr/bin/env python3
"""Run the repository test suite (guard off) and compare with BASELINE.json's stable_pass list."""
import json, re, subprocess, sys, os
base = json.load(open("/root/.vp/BASELINE.json"))
env = dict(os.environ); env.pop("RUSTFLAGS", None); env["CARGO_NET_OFFLINE"] = "true"
p = subprocess.run(["cargo", "test", "--workspace", "--no-fail-fast", "--offline"], cwd="/repo", env=env, stdout=subprocess.PIPE, stderr=subprocess.STDOUT, text=True)
ok = set(); crate = None
for line in p.stdout.splitlines():
    m = re.match(r"\s+Running (?:unittests )?(\S+) \(target/debug/deps/([a-z_]+)-", line)
    if m:
        crate = m.group(2)
        if "tests/" in m.group(1):
            crate = "*::" + os.path.basename(m.group(1))[:-3]
        continue
    m = re.match(r"test (\S+) \.\.\. ok", line)
    if m:
        ok.add("%s::%s" % (crate, m.group(1)))
def norm(t):
    return t.split("::", 1)[1] if t.startswith(("parser::", "*::", "compiler::cli_")) else t
okn = {norm(t) for t in ok}
missing = [t for t in base["stable_pass"] if norm(t) not in okn]
print("passed %d; stable baseline %d; missing from pass set: %s" % (len(ok), len(base["stable_pass"]), missing))
sys.exit(1 if missing else 0)
