#!/bin/sh
# every registered check, thorough tier, on the current tree; prints FALSE-ALARM lines for anything not OK, with wall time
cd /verif
for p in ${@:-$(python3 -c "import json; print(' '.join(c['property_id'] for c in json.load(open('MANIFEST.json'))['checks']))")}; do
  t0=$(date +%s)
  out=$(./check $p --tier thorough 2>/dev/null | grep -v "^KNOWN-FINDING" | tail -1)
  t1=$(date +%s)
  case "$out" in OK*) echo "$out";; *) echo "FALSE-ALARM $p ($((t1-t0))s): $out";; esac
done
echo "thorough done"
