#!/bin/sh
# usage: tools/take8.sh Cxx  — copy an agent's round-8 output into seeded8/Cxx and try the check on it
set -u
P=$1; O=/tmp/w8_$P/_out
mkdir -p /verif/seeded8/$P
cp $O/patch.diff $O/meta.json /verif/seeded8/$P/ || exit 2
cp $O/demo.diff /verif/seeded8/$P/ 2>/dev/null
git -C /repo apply --check /verif/seeded8/$P/patch.diff || { echo "patch does not apply to /repo"; exit 2; }
/verif/tools/try_mutant8.sh $P $P
