#!/bin/sh
# usage: tools/try_mutant2.sh <seeded8 dir name> <property id> [tier]  (eighth-round mutants)
set -u
D=/verif/seeded8/$1; P=$2; T=${3:-quick}
cd /verif
cp evidence/$P.json /tmp/evidence_$P.json 2>/dev/null
git -C /repo apply "$D/patch.diff" || { echo "patch does not apply"; exit 2; }
./check "$P" --tier "$T" 2>&1 | grep -v "^\[check\]" | grep -v "^KNOWN-FINDING" | tail -4
git -C /repo checkout -- .
cp /tmp/evidence_$P.json evidence/$P.json 2>/dev/null
git -C /repo status --short | head -3
