#!/usr/bin/env python3
"""Confirm a seeded change in a scratch worktree: demo passes without the patch, fails with it;
the stable baseline tests still pass with it.  Writes/updates seeded/<dir>/meta.json.
usage: confirm_mutant.py <dir> <property> <demo test name> "<what it needs to manifest>" """
import json, os, re, subprocess, sys, shutil
d, prop, demo, needs = sys.argv[1:5]
pkg = sys.argv[5] if len(sys.argv) > 5 else "compiler"
S = "/verif/seeded/" + d
WT = "/tmp/confirm/" + d
env = dict(os.environ, CARGO_NET_OFFLINE="true", CARGO_TARGET_DIR="/tmp/confirm/target")
env.pop("RUSTFLAGS", None)
def sh(cmd, cwd=WT):
    p = subprocess.run(cmd, shell=True, cwd=cwd, env=env, stdout=subprocess.PIPE, stderr=subprocess.STDOUT, text=True)
    return p.returncode, p.stdout
os.makedirs("/tmp/confirm", exist_ok=True)
subprocess.run(["git", "-C", "/repo", "worktree", "remove", "--force", WT], capture_output=True)
rc, out = sh("git -C /repo worktree add -q --detach %s HEAD" % WT, cwd="/")
assert rc == 0, out
meta = {"property": prop, "needs_to_manifest": needs, "ran": []}
try:
    shutil.copytree(S, WT + "/_mutant")
    if os.path.exists(S + "/demo.diff"):
        rc, out = sh("git apply %s/demo.diff" % S); assert rc == 0, out
    cmd = "cargo test -p %s --offline --test %s 2>&1 | grep -E '^test |test result'" % (pkg, demo)
    rc0, out0 = sh(cmd)
    without_ok = "test result: ok" in out0
    rc, out = sh("git apply %s/patch.diff" % S); assert rc == 0, "patch does not apply: " + out
    rc1, out1 = sh(cmd)
    with_fail = "FAILED" in out1 or "failed" in out1
    rc2, out2 = sh("cargo test --workspace --no-fail-fast --offline 2>&1 | grep -E '^test .* ok$' | wc -l")
    base = json.load(open("/root/.vp/BASELINE.json"))
    meta["ran"] = [
        {"cmd": "(scratch worktree at /repo HEAD + demo.diff) " + cmd, "result": "passes without patch" if without_ok else "DOES NOT PASS without patch", "output": out0[-600:]},
        {"cmd": "(+ patch.diff) " + cmd, "result": "fails with patch" if with_fail else "DOES NOT FAIL with patch", "output": out1[-900:]},
        {"cmd": "(+ patch.diff) cargo test --workspace --no-fail-fast --offline", "result": "%s tests ok (stable baseline: %d)" % (out2.strip(), base["n_stable"])},
    ]
    meta["confirmed"] = bool(without_ok and with_fail and int(out2.strip() or 0) - (len(re.findall(r"^test ", out1, re.M)) if False else 0) >= base["n_stable"])
finally:
    subprocess.run(["git", "-C", "/repo", "worktree", "remove", "--force", WT], capture_output=True)
old = {}
if os.path.exists(S + "/meta.json"):
    old = json.load(open(S + "/meta.json"))
old.update(meta)
json.dump(old, open(S + "/meta.json", "w"), indent=1)
print(d, "confirmed" if meta.get("confirmed") else "NOT CONFIRMED", [r["result"] for r in meta["ran"]])
