#!/bin/sh
# every stored mutant against the check of its property; prints MISSED lines for undetected ones
cd /verif
for set in seeded seeded2 seeded3 seeded4 seeded5 seeded6 seeded7 seeded8; do
  for d in $set/C*; do
    p=$(basename $d)
    cp evidence/$p.json /tmp/evidence_$p.json 2>/dev/null
    git -C /repo apply /verif/$d/patch.diff || { echo "NOAPPLY $d"; continue; }
    out=$(./check $p --tier quick 2>/dev/null | grep -v "^KNOWN-FINDING" | tail -1)
    git -C /repo checkout -- .
    cp /tmp/evidence_$p.json evidence/$p.json 2>/dev/null
    case "$out" in VIOLATION*) echo "detected $d";; *) echo "MISSED $d: $out";; esac
  done
done
echo "clean tree:"
for p in $(python3 -c "import json; print(' '.join(c['property_id'] for c in json.load(open('MANIFEST.json'))['checks']))"); do
  out=$(./check $p --tier quick 2>/dev/null | grep -v "^KNOWN-FINDING" | tail -1)
  case "$out" in OK*) echo "$out";; *) echo "FALSE-ALARM $p: $out";; esac
done
echo "regress done"
