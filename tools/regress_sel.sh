#!/bin/sh
# usage: tools/regress_sel.sh C02 C15 ...   every stored mutant of the named properties against its check
cd /verif
for set in seeded seeded2 seeded3 seeded4 seeded5 seeded6 seeded7 seeded8; do
  for p in "$@"; do
    d=$set/$p
    [ -d $d ] || continue
    cp evidence/$p.json /tmp/evidence_$p.json 2>/dev/null
    git -C /repo apply /verif/$d/patch.diff || { echo "NOAPPLY $d"; continue; }
    out=$(./check $p --tier quick 2>/dev/null | grep -v "^KNOWN-FINDING" | tail -1)
    git -C /repo checkout -- .
    cp /tmp/evidence_$p.json evidence/$p.json 2>/dev/null
    case "$out" in VIOLATION*) echo "detected $d";; *) echo "MISSED $d: $out";; esac
  done
done
echo "regress done"
