From Goml Require Import Common.Base Pkg.Discover C16.Model C16.Proofs C16.Properties.
Check (topo_respects_deps : forall g order, topo g = TOk order -> good g order).
Check (topo_covers_all_packages : forall g order, topo g = TOk order -> forall n, In n (map fst g) -> In n order).
Check (mutual_import_rejected : forall g order, topo g = TOk order -> no_mutual_import (imports_of g)).
Check (at_most_one_impl_per_trait_and_type : forall g order l,
  topo g = TOk order -> impls_ok (imports_of g) l = true ->
  forall i j l1 l2 l3, l = l1 ++ i :: l2 ++ j :: l3 -> same_key i j = true -> False).
Check (foreign_trait_for_builtin_type_is_orphan : forall i k,
  im_ty i = TOther k -> im_trait_pkg i <> im_pkg i -> orphan_ok i = false).
Print Assumptions topo_respects_deps.
Print Assumptions topo_covers_all_packages.
Print Assumptions mutual_import_rejected.
Print Assumptions at_most_one_impl_per_trait_and_type.
Print Assumptions foreign_trait_for_builtin_type_is_orphan.
