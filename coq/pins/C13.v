From Goml Require Import Common.Base Pkg.Discover C13.Properties.
From Coq Require Import Permutation.
Check (discovery_order_independent : forall m f f' d i i',
  fs_sim f f' -> Permutation i i' -> discover m f d i = discover m f' d i').
Check (topo_order_independent : forall g g', graph_sim g g' -> topo g = topo g').
Check (sort_canonical : forall l l', Permutation l l' -> isort l = isort l').
Print Assumptions discovery_order_independent.
Print Assumptions topo_order_independent.
Print Assumptions sort_canonical.
