From Goml Require Import Common.Base C11.Model C11.Proofs C11.Properties.
Open Scope nat_scope.
Check (binding_powers_as_documented :
  (forall o, snd (bp o) = S (fst (bp o))) /\
  fst (bp BOr) < fst (bp BAnd) /\ fst (bp BAnd) < fst (bp BEq) /\ fst (bp BEq) = fst (bp BNe) /\
  fst (bp BNe) < fst (bp BLt) /\ fst (bp BLt) = fst (bp BGt) /\ fst (bp BGt) = fst (bp BLe) /\ fst (bp BLe) = fst (bp BGe) /\
  fst (bp BGe) < fst (bp BAdd) /\ fst (bp BAdd) = fst (bp BSub) /\ fst (bp BSub) < fst (bp BMul) /\ fst (bp BMul) = fst (bp BDiv) /\
  (forall o, snd (bp o) < call_bp /\ snd (bp o) < prefix_bp /\ snd (bp o) < fst dot_bp)).
Check (print_then_parse_is_identity :
  forall e, ok e = true -> exists f0, forall f, f0 <= f -> parse_fuel f (print e) = Some e).
Print Assumptions binding_powers_as_documented.
Print Assumptions print_then_parse_is_identity.
