(* Pinned statements for C19: [Check name : statement] fails if a theorem is weakened;
   [Print Assumptions] must report no axiom. *)
From Goml Require Import Common.Base Generated.GoKeywords Generated.GensymPrefixes C19.Model C19.Properties.

Check (go_ident_legal : forall s, forallb is_scalar s = true ->
  is_valid_go_ident (go_ident s) = true /\ in_table go_spec_keywords (go_ident s) = false).
Check (go_ident_identity : forall s, is_user_ident s = true -> is_go_keyword s = false -> go_ident s = s).
Check (go_ident_injective_partial : forall s t,
  Proofs.hash_alnum s = true -> Proofs.hash_alnum t = true -> go_ident s = go_ident t -> s = t).
Check (go_ident_injective_refuted : exists s t, s <> t /\ go_ident s = go_ident t).
Check (local_names_injective : forall h1 i1 h2 i2, local_go h1 i1 = local_go h2 i2 -> h1 = h2 /\ i1 = i2).
Check (gensym_names_injective : forall p n m, gensym_name p n = gensym_name p m -> n = m).
Check (gensym_vs_local_disjoint : forall p n h i, In p gensym_prefixes -> gensym_name p n <> local_go h i).
Check (gensym_captures_user_fn_refuted : exists f p n,
  is_user_ident f = true /\ In p gensym_prefixes /\ go_ident f = go_ident (gensym_name p n)).
Print Assumptions go_ident_legal.
Print Assumptions go_ident_identity.
Print Assumptions go_ident_injective_partial.
Print Assumptions go_ident_injective_refuted.
Print Assumptions local_names_injective.
Print Assumptions gensym_names_injective.
Print Assumptions gensym_vs_local_disjoint.
Print Assumptions gensym_captures_user_fn_refuted.
