From Goml Require Import Common.Base C06.Model C06.Properties.
Check (empty_first_row_selected : forall E fuel r rs s,
  cols (strip_row r) = [] -> compile_rows E (S fuel) (r :: rs) s = (KBody (rbody (strip_row r)), s)).
Print Assumptions empty_first_row_selected.
