From Goml Require Import Common.Base C06.Model C06.Spec C06.Properties.
Check (compile_match_first_match : forall E fuel scrut arms g0 t v k s',
  compile_match E fuel scrut arms g0 = (k, s') -> diag s' = false -> no_panic k ->
  Forall (fun p => pat_ok E p t) arms -> val_ok E v t ->
  (match scrut with G m => (m < g0)%N | U _ => True end) ->
  outcome_equiv (eval_core k [(scrut, v)]) (first_match arms v)).
Check (compile_rows_first_match : forall E fuel rows s k s' Gam rho,
  compile_rows E fuel rows s = (k, s') -> diag s' = false -> no_panic k ->
  WF E Gam rows s rho -> outcome_equiv (eval_core k rho) (first_match_rows rows rho)).
Check (literal_match_without_default_rejected : forall E n w g0,
  diag (snd (compile_match E (S (S n)) (U 0) [PLit (LInt 0) (TyInt w); PLit (LInt 1) (TyInt w)] g0)) = true).
Print Assumptions compile_match_first_match.
Print Assumptions compile_rows_first_match.
Print Assumptions literal_match_without_default_rejected.
