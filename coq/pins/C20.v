From Goml Require Import Common.Base C12.Model C12.Properties.
Open Scope nat_scope.
(* the query layer maps a cursor to a token of the lossless tree; nothing else about it is proved *)
Check (multiline_scanner_safe : forall bs,
  match ml_scan bs with OOB => False | NoToken => True
  | Bump c => c <= length bs /\ (c = length bs \/ get bs c = Some 10%N) end).
Check (tree_leaves_are_a_token_prefix : forall evs toks, exists m, m <= length toks /\ leaves (build evs toks) = seq 0 m).
Check (tree_is_lossless : forall t fp evs toks,
  count_nontrivia toks <= count_adv evs -> leaves (build (EvOpen t fp :: evs) toks) = seq 0 (length toks)).
Print Assumptions multiline_scanner_safe.
Print Assumptions tree_leaves_are_a_token_prefix.
Print Assumptions tree_is_lossless.
