From Goml Require Import Common.Base C09.Anf C09.Order C09.Proofs C09.Properties.
Check (anf_keeps_every_operation_once_in_order : forall fuel body n, (depth body <= fuel)%nat -> ord_a (fst (anf_fn fuel body n)) = ord_src body).
Print Assumptions anf_keeps_every_operation_once_in_order.
Check (anf_in_context_keeps_order : forall fuel e, (depth e <= fuel)%nat -> forall n k tail,
  (forall c m, ord_a (fst (k c m)) = ord_c c ++ tail) -> ord_a (fst (anf fuel e n k)) = ord_src e ++ tail).
Print Assumptions anf_in_context_keeps_order.
