From Goml Require Import Common.Base C09.Anf C09.Order C09.Proofs C09.Properties.
Check (anf_keeps_every_operation_once_in_order : forall fuel body n, (depth body <= fuel)%nat -> ord_a (fst (anf_fn fuel body n)) = ord_src body).
Print Assumptions anf_keeps_every_operation_once_in_order.
Check (anf_in_context_keeps_order : forall fuel e, (depth e <= fuel)%nat -> forall n k tail,
  (forall c m, ord_a (fst (k c m)) = ord_c c ++ tail) -> ord_a (fst (anf fuel e n k)) = ord_src e ++ tail).
Print Assumptions anf_in_context_keeps_order.
From Goml Require Import C09.Flat C09.FlatEq C09.Sem.
Check (anf_preserves_meaning :
  forall (val world : Type) (prim_val : str -> val) (tag_val : N -> val) (unit_val : val) (glob : str -> option val)
         (oper : desc -> list val -> world -> option val * world) (truth : val -> option bool) (pat_match : imm -> val -> bool)
         fs fa body n r w o,
  eval_l val world prim_val tag_val unit_val glob oper truth pat_match fs body r w = Some o ->
  (depth body <= fa)%nat -> wfb body = true ->
  match o with
  | OVal _ _ v r2 w2 =>
      exists ra2, eva val world prim_val tag_val unit_val glob oper truth pat_match (fst (anf_fn fa body n)) r w (OVal _ _ v ra2 w2)
                  /\ ext val r2 ra2
  | OFail _ _ wf => eva val world prim_val tag_val unit_val glob oper truth pat_match (fst (anf_fn fa body n)) r w (OFail _ _ wf)
  end).
Print Assumptions anf_preserves_meaning.
Check (anf_is_wrap_of_flat : forall fuel e n k,
  anf fuel e n k = let '(bs, c, n1) := flat fuel e n in let (a, n2) := k c n1 in (wrap bs a, n2)).
Print Assumptions anf_is_wrap_of_flat.
From Goml Require Import C09.Eqb C09.EqbSound.
Check (corr_true_means_equal : forall body n0 real, fst (corr body n0 real) = true -> fst (anf_fn (depth body) body n0) = real).
Print Assumptions corr_true_means_equal.
From Goml Require Import Sem.GoAst Sem.GoSem C09.Dce C09.DceProofs.
Check (effect_free_expression_is_unobservable :
  forall fns ifaces smethods fuel e rho s, has_effects e = false ->
  match eval fns ifaces smethods fuel e rho s with
  | Ok (_, s') => out s' = out s /\ exists ext, heap s' = heap s ++ ext
  | Panic m o => (m = s_nil \/ m = s_assert) /\ o = out s
  | _ => True
  end).
Print Assumptions effect_free_expression_is_unobservable.
Check (effect_free_statement_is_unobservable :
  forall fns ifaces smethods fuel st rho s, stmt_has_effects st = false ->
  match exec fns ifaces smethods fuel st rho s with
  | Ok (_, _, s') => out s' = out s /\ exists ext, heap s' = heap s ++ ext
  | Panic m o => (m = s_nil \/ m = s_assert) /\ o = out s
  | _ => True
  end).
Print Assumptions effect_free_statement_is_unobservable.
