From Goml Require Import Common.Base C07.Names C07.Proofs C07.Properties.
Check (printed_type_determines_the_type : forall t1 t2, wf t1 = true -> wf t2 = true -> toks t1 = toks t2 -> t1 = t2).
Print Assumptions printed_type_determines_the_type.
