From Goml Require Import Common.Base C10.Model C10.Properties.
Open Scope Z_scope.
Check (literal_value_exact : forall t s z, parse_lit t s = Some z -> digits_val s = Some z /\ in_range t z = true).
Check (literal_out_of_range_rejected : forall t s z, digits_val s = Some z -> in_range t z = false -> parse_lit t s = None).
Check (literal_in_range_accepted : forall t s z, digits_val s = Some z -> in_range t z = true -> parse_lit t s = Some z).
Check (literal_end_to_end : forall t s z, parse_lit t s = Some z -> go_const t (go_lit (builder_value t s)) = Some z).
Check (decimal_print_parse : forall n, digits_val (dec n) = Some (Z.of_N n)).
Check (arith_wraps : forall t op a b z, go_binop t op a b = Val z ->
  in_range t z = true /\ exists exact, (match op with Add => exact = a + b | Sub => exact = a - b | Mul => exact = a * b
     | Div => exact = Z.quot a b /\ b <> 0 end) /\ (z - exact) mod 2 ^ bits t = 0).
Check (arith_exact_without_overflow : forall t op a b exact,
  (match op with Add => exact = a + b | Sub => exact = a - b | Mul => exact = a * b | Div => exact = Z.quot a b /\ b <> 0 end) ->
  in_range t exact = true -> go_binop t op a b = Val exact).
Check (div_by_zero_fails : forall t a, go_binop t Div a 0 = DivByZero).
Check (int_to_string_injective : forall a b, sprintf_d a = sprintf_d b -> a = b).
Check (int_to_string_decimal : forall z, 0 <= z -> digits_val (sprintf_d z) = Some z).
Check (go_type_names_faithful : forallb (fun t => match go_type_meaning (go_ty_name t) with
   | Some (b, s) => (b =? bits t) && Bool.eqb s (signed t) | None => false end) all_ity = true).
Print Assumptions literal_value_exact.
Print Assumptions literal_out_of_range_rejected.
Print Assumptions literal_in_range_accepted.
Print Assumptions literal_end_to_end.
Print Assumptions decimal_print_parse.
Print Assumptions arith_wraps.
Print Assumptions arith_exact_without_overflow.
Print Assumptions div_by_zero_fails.
Print Assumptions int_to_string_injective.
Print Assumptions int_to_string_decimal.
Print Assumptions go_type_names_faithful.
