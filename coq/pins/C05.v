From Goml Require Import Common.Base C05.Model C05.Properties.
Check (resolve_is_lexical : forall G params body n,
  spec_run G (flatten_fn params body) [] n =
  Some (fst (res_fn G params body n), [], snd (res_fn G params body n))).
Check (innermost_binding_wins : forall G x s id, find_stack x s = Some id -> spec_use G x s = RLocal id).
Check (innermost_frame_first : forall x id f s, rfind x f = Some id -> find_stack x (f :: s) = Some id).
Check (unbound_use_is_unresolved : forall G x s,
  find_stack x s = None -> mem x (defs G) = false -> mem x (builtins G) = false -> spec_use G x s = RUnresolved).
Print Assumptions resolve_is_lexical.
Print Assumptions innermost_binding_wins.
Print Assumptions innermost_frame_first.
Print Assumptions unbound_use_is_unresolved.
