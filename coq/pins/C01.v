From Goml Require Import Common.Base.
From Goml Require Sem.GoAst Sem.GoSem Sem.Src C01.Properties.
Check (C01.Properties.go_zero_fuel_is_fuel : forall f, snd (Sem.GoSem.run_go f 0) = Sem.GoSem.EFuel).
Check (C01.Properties.src_zero_fuel_is_fuel : forall fns t, snd (Sem.Src.run_src fns t 0) = Sem.Src.EFuel).
Print Assumptions C01.Properties.go_zero_fuel_is_fuel.
Print Assumptions C01.Properties.src_zero_fuel_is_fuel.
