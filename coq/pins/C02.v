From Goml Require Import Common.Base Sem.GoAst C02.GoCheck C02.Closed C02.Properties.
Check (accepted_files_declare_top_level_names_once : forall f, go_wf f = [] -> NoDup (top_names f)).
Print Assumptions accepted_files_declare_top_level_names_once.
Check (accepted_expressions_mention_declared_names_only :
  forall g fuel sc e, snd (synth g fuel sc e) = [] -> Forall (declared g sc) (reads_e fuel e)).
Print Assumptions accepted_expressions_mention_declared_names_only.
