From Goml Require Import Common.Base Sem.GoAst C02.GoCheck C02.Properties.
Check (accepted_files_declare_top_level_names_once : forall f, go_wf f = [] -> NoDup (top_names f)).
Print Assumptions accepted_files_declare_top_level_names_once.
