From Goml Require Import Common.Base C18.Model C18.Proofs C18.Properties.
Check (to_json_decodes_back_to_the_value :
  forall defs, defs_ok defs ->
  forall fuel t v s rest, enc defs fuel t v = Some s -> vsafe v = true -> nodigit rest ->
  dec defs fuel t (s ++ rest) = Some (v, rest)).
Print Assumptions to_json_decodes_back_to_the_value.
