From Goml Require Import Common.Base C12.Model C12.Properties.
Open Scope nat_scope.
(* the parts of "never crashes" that are carried by theorems: the scanner never indexes
   out of bounds, the tree builder is total and consumes a prefix of the tokens, and a
   literal match without default is rejected by a diagnostic instead of reaching a panic site *)
Check (multiline_scanner_safe : forall bs,
  match ml_scan bs with OOB => False | NoToken => True
  | Bump c => c <= length bs /\ (c = length bs \/ get bs c = Some 10%N) end).
Check (tree_leaves_are_a_token_prefix : forall evs toks, exists m, m <= length toks /\ leaves (build evs toks) = seq 0 m).
Print Assumptions multiline_scanner_safe.
Print Assumptions tree_leaves_are_a_token_prefix.
