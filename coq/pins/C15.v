From Goml Require Import Common.Base C15.Model C15.Properties.
Check (link_never_mixes_interfaces : forall (hash : Type) (hash_eqb : hash -> hash -> bool),
  (forall a b, hash_eqb a b = true <-> a = b) -> forall H : view hash -> hash, (forall a b, H a = H b -> a = b) ->
  forall imps ops ps, (forall p, NoDup (imps p)) ->
  let s := run hash hash_eqb H (init hash imps) ops in
  link hash hash_eqb H s ps = true ->
  forall p c, In p ps -> cfiles _ s p = Some c ->
  forall d h, In (d, h) (c_deps _ c) ->
    exists cd, In d ps /\ cfiles _ s d = Some cd /\
      assoc (c_against _ c) d = Some (v_exports _ (i_view _ (c_iface _ cd))) /\
      v_deps _ (i_view _ (c_iface _ cd)) = c_deps _ cd).
Check (body_edit_keeps_hash_iface_edit_changes_it : forall (hash : Type) (H : view hash -> hash), (forall a b, H a = H b -> a = b) ->
  forall p e e' deps, (i_hash _ (iface_new hash H p e deps) = i_hash _ (iface_new hash H p e' deps)) <-> e = e').
Check (corrupt_format_version_rejected : forall hash hash_eqb H (c : core hash) n, n <> FORMAT_VERSION ->
  core_validate hash hash_eqb H {| c_fmt := n; c_abi := c_abi _ c; c_pkg := c_pkg _ c; c_iface := c_iface _ c;
      c_deps := c_deps _ c; c_body := c_body _ c; c_against := c_against _ c |} = false).
Check (corrupt_exports_rejected : forall (hash : Type) (hash_eqb : hash -> hash -> bool),
  (forall a b, hash_eqb a b = true <-> a = b) -> forall H : view hash -> hash, (forall a b, H a = H b -> a = b) ->
  forall (c : core hash) e,
  validate_hash hash hash_eqb H (c_iface _ c) = true -> e <> v_exports _ (i_view _ (c_iface _ c)) ->
  validate_hash hash hash_eqb H
    {| i_view := {| v_fmt := v_fmt _ (i_view _ (c_iface _ c)); v_abi := v_abi _ (i_view _ (c_iface _ c)); v_pkg := v_pkg _ (i_view _ (c_iface _ c));
                    v_exports := e; v_deps := v_deps _ (i_view _ (c_iface _ c)) |}; i_hash := i_hash _ (c_iface _ c) |} = false).
Check (core_body_not_covered_refuted : forall hash hash_eqb H (c : core hash) b,
  core_validate hash hash_eqb H c = true ->
  core_validate hash hash_eqb H {| c_fmt := c_fmt _ c; c_abi := c_abi _ c; c_pkg := c_pkg _ c; c_iface := c_iface _ c;
      c_deps := c_deps _ c; c_body := b; c_against := c_against _ c |} = true).
Print Assumptions link_never_mixes_interfaces.
Print Assumptions body_edit_keeps_hash_iface_edit_changes_it.
Print Assumptions corrupt_format_version_rejected.
Print Assumptions corrupt_exports_rejected.
Print Assumptions core_body_not_covered_refuted.
