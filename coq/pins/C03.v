From Goml Require Import Common.Base C03.Typed C03.Proofs C03.Properties.
Open Scope N_scope.
Check (accepted_trees_are_closed : forall gs externs post_mono env e,
    check gs externs post_mono env e = None -> unbound gs externs (map fst env) e = []).
Check (accepted_mono_trees_have_no_residue : forall gs externs env e,
    check gs externs true env e = None -> forallb mono_ty (node_types e) = true).
Print Assumptions accepted_trees_are_closed.
Print Assumptions accepted_mono_trees_have_no_residue.
