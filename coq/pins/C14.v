From Goml Require Import Common.Base C15.Model C15.Properties.
(* the part of separate = whole carried by a theorem: whatever link accepts was built against exactly the interfaces it is linked with *)
Check (link_never_mixes_interfaces : forall (hash : Type) (hash_eqb : hash -> hash -> bool),
  (forall a b, hash_eqb a b = true <-> a = b) -> forall H : view hash -> hash, (forall a b, H a = H b -> a = b) ->
  forall imps ops ps, (forall p, NoDup (imps p)) ->
  let s := run hash hash_eqb H (init hash imps) ops in
  link hash hash_eqb H s ps = true ->
  forall p c, In p ps -> cfiles _ s p = Some c ->
  forall d h, In (d, h) (c_deps _ c) ->
    exists cd, In d ps /\ cfiles _ s d = Some cd /\
      assoc (c_against _ c) d = Some (v_exports _ (i_view _ (c_iface _ cd))) /\
      v_deps _ (i_view _ (c_iface _ cd)) = c_deps _ cd).
Print Assumptions link_never_mixes_interfaces.
