(** C10 — property theorems only *)
From Goml Require Import Common.Base C10.Model C10.Proofs.
Open Scope Z_scope.

Theorem literal_value_exact : forall t s z,
  parse_lit t s = Some z -> digits_val s = Some z /\ in_range t z = true.
Proof. exact Proofs.parse_lit_exact. Qed.

Theorem literal_out_of_range_rejected : forall t s z,
  digits_val s = Some z -> in_range t z = false -> parse_lit t s = None.
Proof. exact Proofs.parse_lit_rejects. Qed.

Theorem literal_in_range_accepted : forall t s z,
  digits_val s = Some z -> in_range t z = true -> parse_lit t s = Some z.
Proof. exact Proofs.parse_lit_accepts. Qed.

(** an accepted literal reaches Go (through the TAST re-parse and the printed Go
    literal) as exactly the written value *)
Theorem literal_end_to_end : forall t s z,
  parse_lit t s = Some z -> go_const t (go_lit (builder_value t s)) = Some z.
Proof. exact Proofs.literal_end_to_end. Qed.

Theorem decimal_print_parse : forall n, digits_val (dec n) = Some (Z.of_N n).
Proof. exact Proofs.digits_val_dec. Qed.

Theorem arith_wraps : forall t op a b z,
  go_binop t op a b = Val z ->
  in_range t z = true /\
  exists exact, (match op with Add => exact = a + b | Sub => exact = a - b | Mul => exact = a * b
                              | Div => exact = Z.quot a b /\ b <> 0 end)
                /\ (z - exact) mod 2 ^ bits t = 0.
Proof. exact Proofs.binop_wraps. Qed.

Theorem arith_exact_without_overflow : forall t op a b exact,
  (match op with Add => exact = a + b | Sub => exact = a - b | Mul => exact = a * b
               | Div => exact = Z.quot a b /\ b <> 0 end) ->
  in_range t exact = true -> go_binop t op a b = Val exact.
Proof. exact Proofs.no_overflow_exact. Qed.

Theorem div_by_zero_fails : forall t a, go_binop t Div a 0 = DivByZero.
Proof. exact Proofs.div_by_zero_fails. Qed.

Theorem int_to_string_injective : forall a b, sprintf_d a = sprintf_d b -> a = b.
Proof. exact Proofs.sprintf_d_inj. Qed.

Theorem int_to_string_decimal : forall z, 0 <= z -> digits_val (sprintf_d z) = Some z.
Proof. exact Proofs.sprintf_d_reads_back. Qed.

(** the backend's type names mean, in Go, the width and signedness of the goml type *)
Theorem go_type_names_faithful :
  forallb (fun t => match go_type_meaning (go_ty_name t) with
                    | Some (b, s) => (b =? bits t) && Bool.eqb s (signed t) | None => false end) all_ity = true.
Proof. vm_compute. reflexivity. Qed.

Example literal_nonvacuous :
  parse_lit I8 [49; 50; 55]%N = Some 127 /\ parse_lit I8 [49; 50; 56]%N = None /\
  parse_lit U64 [49;56;52;52;54;55;52;52;48;55;51;55;48;57;53;53;49;54;49;53]%N = Some 18446744073709551615 /\
  go_binop I8 Add 127 1 = Val (-128) /\ go_binop I8 Div (-128) (-1) = Val (-128) /\ go_binop U8 Sub 0 1 = Val 255.
Proof. vm_compute. repeat split. Qed.
