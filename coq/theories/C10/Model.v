(** C10 model: numeric literals, widths, wrap-around, printing.
    - [parse_lit]: typer/check.rs parse_signed_integer / parse_unsigned_integer
      (Rust [str::parse::<iN/uN>] on the digit string the lexer delivers) and the
      re-parse in tast_builder.rs ([unwrap_or(0)]);
    - [go_lit]: go/compile.rs go_literal_from_primitive + go_pprint (decimal text);
    - Go's semantics of sized integer arithmetic ([wrap]) — a model of Go, the
      language the output is written in, not of goml code;
    - runtime [*_to_string] = fmt.Sprintf(verb, x). *)
From Goml Require Import Common.Base.
Open Scope Z_scope.

Inductive ity := I8 | I16 | I32 | I64 | U8 | U16 | U32 | U64.

Definition bits (t : ity) : Z :=
  match t with I8 | U8 => 8 | I16 | U16 => 16 | I32 | U32 => 32 | I64 | U64 => 64 end.
Definition signed (t : ity) : bool :=
  match t with I8 | I16 | I32 | I64 => true | _ => false end.

Definition lo (t : ity) : Z := if signed t then - 2 ^ (bits t - 1) else 0.
Definition hi (t : ity) : Z := if signed t then 2 ^ (bits t - 1) - 1 else 2 ^ bits t - 1.
Definition in_range (t : ity) (z : Z) : bool := (lo t <=? z) && (z <=? hi t).

(** decimal value of a digit string (Horner); None unless all characters are digits
    and the string is non-empty *)
Fixpoint digits_val_acc (s : str) (acc : Z) : option Z :=
  match s with
  | [] => Some acc
  | c :: r => if is_digit c then digits_val_acc r (10 * acc + (Z.of_N c - 48)) else None
  end.
Definition digits_val (s : str) : option Z :=
  match s with [] => None | _ => digits_val_acc s 0 end.

(** the checker: value if it fits, otherwise rejected with a diagnostic *)
Definition parse_lit (t : ity) (s : str) : option Z :=
  match digits_val s with
  | Some z => if in_range t z then Some z else None
  | None => None
  end.

(** TAST builder re-parses the same text; a failure there silently becomes 0 — only
    reachable if the checker accepted a literal that does not parse *)
Definition builder_value (t : ity) (s : str) : Z :=
  match parse_lit t s with Some z => z | None => 0 end.

(** the Go literal text for a value: Rust [to_string] of the primitive *)
Definition z_to_string (z : Z) : str :=
  if z <? 0 then 45%N :: dec (Z.to_N (- z)) else dec (Z.to_N z).
Definition go_lit (z : Z) : str := z_to_string z.

(** what Go makes of that literal in a typed context: its decimal value, which must
    be representable in the type (else Go rejects the program) *)
Definition starts_minus (s : str) : bool := match s with c :: _ => (c =? 45)%N | [] => false end.
Definition go_const (t : ity) (s : str) : option Z :=
  if starts_minus s then
    match digits_val (tl s) with Some z => if in_range t (- z) then Some (- z) else None | None => None end
  else
    match digits_val s with Some z => if in_range t z then Some z else None | None => None end.

(** Go: sized integer arithmetic wraps (two's complement) *)
Definition wrap (t : ity) (z : Z) : Z :=
  if signed t then (z + 2 ^ (bits t - 1)) mod 2 ^ bits t - 2 ^ (bits t - 1)
  else z mod 2 ^ bits t.

Inductive binop := Add | Sub | Mul | Div.
Inductive outcome := Val (z : Z) | DivByZero.

Definition go_binop (t : ity) (op : binop) (a b : Z) : outcome :=
  match op with
  | Add => Val (wrap t (a + b))
  | Sub => Val (wrap t (a - b))
  | Mul => Val (wrap t (a * b))
  | Div => if b =? 0 then DivByZero else Val (wrap t (Z.quot a b))
  end.
Definition go_neg (t : ity) (a : Z) : Z := wrap t (- a).

Inductive cmp := Lt | Gt | Le | Ge | Eq | Ne.
Definition go_cmp (c : cmp) (a b : Z) : bool :=
  match c with
  | Lt => a <? b | Gt => b <? a | Le => a <=? b | Ge => b <=? a | Eq => a =? b | Ne => negb (a =? b)
  end.

(** fmt.Sprintf("%d", x) on an integer *)
Definition sprintf_d (z : Z) : str := z_to_string z.

(** type and operator mapping of the Go backend (goast.rs tast_ty_to_go_type +
    go_pprint of GoType; compile_cexpr's operator map): goml intN is Go intN *)
Definition s_int : str := [105; 110; 116]%N.      (* "int" *)
Definition s_uint : str := [117; 105; 110; 116]%N. (* "uint" *)
Definition go_ty_name (t : ity) : str :=
  (if signed t then s_int else s_uint) ++ dec (Z.to_N (bits t)).

(** Go's meaning of its predeclared sized integer type names (Go spec) *)
Definition go_type_meaning (name : str) : option (Z * bool) :=
  if list_eqb name (s_int ++ [56]%N) then Some (8, true)
  else if list_eqb name (s_int ++ [49; 54]%N) then Some (16, true)
  else if list_eqb name (s_int ++ [51; 50]%N) then Some (32, true)
  else if list_eqb name (s_int ++ [54; 52]%N) then Some (64, true)
  else if list_eqb name (s_uint ++ [56]%N) then Some (8, false)
  else if list_eqb name (s_uint ++ [49; 54]%N) then Some (16, false)
  else if list_eqb name (s_uint ++ [51; 50]%N) then Some (32, false)
  else if list_eqb name (s_uint ++ [54; 52]%N) then Some (64, false)
  else None.

Definition all_ity := [I8; I16; I32; I64; U8; U16; U32; U64].
