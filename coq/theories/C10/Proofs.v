From Goml Require Import Common.Base C10.Model.
From Coq Require Import DecimalN DecimalPos.
Open Scope Z_scope.

Ltac Zify.zify_post_hook ::= Z.div_mod_to_equations.

(* ---------------- literals ---------------- *)

Lemma parse_lit_exact t s z : parse_lit t s = Some z -> digits_val s = Some z /\ in_range t z = true.
Proof.
  unfold parse_lit. destruct (digits_val s) as [v|]; [|discriminate].
  destruct (in_range t v) eqn:R; [|discriminate]. intro H; injection H as <-. now split.
Qed.

Lemma parse_lit_rejects t s z : digits_val s = Some z -> in_range t z = false -> parse_lit t s = None.
Proof. intros H R. unfold parse_lit. now rewrite H, R. Qed.

Lemma parse_lit_accepts t s z : digits_val s = Some z -> in_range t z = true -> parse_lit t s = Some z.
Proof. intros H R. unfold parse_lit. now rewrite H, R. Qed.

Lemma builder_agrees t s z : parse_lit t s = Some z -> builder_value t s = z.
Proof. unfold builder_value. now intros ->. Qed.

(** decimal printing and digit-string evaluation are inverse *)
Ltac digs := change (is_digit 48) with true; change (is_digit 49) with true; change (is_digit 50) with true;
  change (is_digit 51) with true; change (is_digit 52) with true; change (is_digit 53) with true;
  change (is_digit 54) with true; change (is_digit 55) with true; change (is_digit 56) with true;
  change (is_digit 57) with true; cbn iota.

Lemma dva_pos u acc :
  digits_val_acc (uint_digits u) (Z.pos acc) = Some (Z.pos (Pos.of_uint_acc u acc)).
Proof.
  revert acc. induction u; intro acc; cbn [uint_digits digits_val_acc Pos.of_uint_acc]; digs;
    [reflexivity| ..];
    match goal with |- digits_val_acc _ ?z = Some (Z.pos (Pos.of_uint_acc _ ?a)) =>
      replace z with (Z.pos a) by lia; apply IHu end.
Qed.

Lemma dva_zero u : digits_val_acc (uint_digits u) 0 = Some (Z.of_N (Pos.of_uint u)).
Proof.
  induction u; cbn [uint_digits digits_val_acc Pos.of_uint]; digs; [reflexivity| exact IHu | ..];
  match goal with |- digits_val_acc _ ?z = Some (Z.of_N (N.pos (Pos.of_uint_acc _ ?a))) =>
      replace z with (Z.pos a) by lia; apply dva_pos end.
Qed.

Lemma digits_val_dec n : digits_val (dec n) = Some (Z.of_N n).
Proof.
  unfold digits_val. pose proof (dec_nonempty n) as NE. destruct (dec n) eqn:E; [congruence|].
  rewrite <- E. unfold dec. rewrite dva_zero.
  change (Pos.of_uint (N.to_uint n)) with (N.of_uint (N.to_uint n)).
  now rewrite DecimalN.Unsigned.of_to.
Qed.

(** the Go literal printed for an in-range value is read back by Go as that value *)
Lemma go_lit_roundtrip t z : in_range t z = true -> go_const t (go_lit z) = Some z.
Proof.
  intro R. unfold go_lit, z_to_string, go_const.
  destruct (Z.ltb_spec z 0) as [Hn|Hp].
  - cbn [starts_minus tl]. rewrite N.eqb_refl.
    rewrite digits_val_dec. rewrite Z2N.id by lia. replace (- - z) with z by lia. now rewrite R.
  - pose proof (dec_nonempty (Z.to_N z)) as NE.
    pose proof (dec_all_digits (Z.to_N z)) as AD.
    assert (S : starts_minus (dec (Z.to_N z)) = false).
    { destruct (dec (Z.to_N z)) as [|c r]; [reflexivity|]. cbn in AD |- *.
      apply andb_true_iff in AD as [AD _]. unfold is_digit in AD. lia. }
    rewrite S, digits_val_dec, Z2N.id by lia. now rewrite R.
Qed.

(** the literal a user writes, if accepted, reaches Go as its own value *)
Lemma literal_end_to_end t s z :
  parse_lit t s = Some z -> go_const t (go_lit (builder_value t s)) = Some z.
Proof.
  intro H. rewrite (builder_agrees _ _ _ H). apply go_lit_roundtrip. now apply parse_lit_exact in H.
Qed.

(* ---------------- wrap-around arithmetic ---------------- *)

Lemma pow_bits_pos t : 0 < 2 ^ bits t. Proof. destruct t; cbn; lia. Qed.
Lemma pow_half t : 2 ^ bits t = 2 * 2 ^ (bits t - 1). Proof. destruct t; cbn; lia. Qed.

Lemma wrap_in_range t z : in_range t (wrap t z) = true.
Proof.
  unfold in_range, wrap, lo, hi. pose proof (pow_bits_pos t). pose proof (pow_half t).
  destruct (signed t).
  - pose proof (Z.mod_pos_bound (z + 2 ^ (bits t - 1)) (2 ^ bits t) H). lia.
  - pose proof (Z.mod_pos_bound z (2 ^ bits t) H). lia.
Qed.

Lemma wrap_id t z : in_range t z = true -> wrap t z = z.
Proof.
  unfold in_range, wrap, lo, hi. pose proof (pow_bits_pos t). pose proof (pow_half t).
  destruct (signed t); intro R.
  - rewrite Z.mod_small by lia. lia.
  - rewrite Z.mod_small by lia. lia.
Qed.

Lemma wrap_congr t z : (wrap t z - z) mod 2 ^ bits t = 0.
Proof.
  unfold wrap. pose proof (pow_bits_pos t).
  destruct (signed t).
  - replace ((z + 2 ^ (bits t - 1)) mod 2 ^ bits t - 2 ^ (bits t - 1) - z)
      with (- (2 ^ bits t * ((z + 2 ^ (bits t - 1)) / 2 ^ bits t))).
    + rewrite <- Z.mul_opp_r, Z.mul_comm. apply Z.mod_mul. lia.
    + pose proof (Z.div_mod (z + 2 ^ (bits t - 1)) (2 ^ bits t)). lia.
  - replace (z mod 2 ^ bits t - z) with (- (2 ^ bits t * (z / 2 ^ bits t))).
    + rewrite <- Z.mul_opp_r, Z.mul_comm. apply Z.mod_mul. lia.
    + pose proof (Z.div_mod z (2 ^ bits t)). lia.
Qed.

Lemma binop_wraps t op a b z :
  go_binop t op a b = Val z ->
  in_range t z = true /\ exists exact, (match op with Add => exact = a + b | Sub => exact = a - b | Mul => exact = a * b | Div => exact = Z.quot a b /\ b <> 0 end)
                /\ (z - exact) mod 2 ^ bits t = 0.
Proof.
  destruct op; cbn [go_binop].
  1-3: intro H; injection H as <-; split; [apply wrap_in_range|]; eexists; split; [reflexivity|apply wrap_congr].
  destruct (Z.eqb_spec b 0); [discriminate|]. intro H; injection H as <-.
  split; [apply wrap_in_range|]. eexists; split; [split; [reflexivity|assumption]|apply wrap_congr].
Qed.

Lemma div_by_zero_fails t a : go_binop t Div a 0 = DivByZero.
Proof. reflexivity. Qed.

Lemma div_truncates t a b :
  b <> 0 -> in_range t (Z.quot a b) = true -> go_binop t Div a b = Val (Z.quot a b).
Proof.
  intros Hb R. cbn. destruct (Z.eqb_spec b 0); [contradiction|]. now rewrite wrap_id.
Qed.

Lemma no_overflow_exact t op a b exact :
  (match op with Add => exact = a + b | Sub => exact = a - b | Mul => exact = a * b | Div => exact = Z.quot a b /\ b <> 0 end) ->
  in_range t exact = true -> go_binop t op a b = Val exact.
Proof.
  destruct op; cbn [go_binop]; intros E R; try (subst exact; now rewrite wrap_id).
  destruct E as [-> Hb]. destruct (Z.eqb_spec b 0); [contradiction|]. now rewrite wrap_id.
Qed.

(* ---------------- printing ---------------- *)

Lemma sprintf_d_inj a b : sprintf_d a = sprintf_d b -> a = b.
Proof.
  unfold sprintf_d, z_to_string.
  destruct (Z.ltb_spec a 0), (Z.ltb_spec b 0); intro E.
  - injection E as E. apply dec_inj in E. lia.
  - exfalso. pose proof (dec_all_digits (Z.to_N b)) as D. rewrite <- E in D. cbn in D. discriminate.
  - exfalso. pose proof (dec_all_digits (Z.to_N a)) as D. rewrite E in D. cbn in D. discriminate.
  - apply dec_inj in E. lia.
Qed.

Lemma sprintf_d_reads_back z : 0 <= z -> digits_val (sprintf_d z) = Some z.
Proof. intro H. unfold sprintf_d, z_to_string. destruct (Z.ltb_spec z 0); [lia|]. rewrite digits_val_dec. f_equal. lia. Qed.

(** 8-bit sweep: the general lemmas cross-checked by exhaustive computation *)
Definition range_list (a : Z) (n : nat) : list Z := map (fun i => a + Z.of_nat i) (seq 0 n).

Lemma sweep_i8 :
  forallb (fun a => forallb (fun b =>
     match go_binop I8 Add a b, go_binop I8 Mul a b with
     | Val s, Val m => in_range I8 s && in_range I8 m && ((s - (a + b)) mod 256 =? 0) && ((m - a * b) mod 256 =? 0)
     | _, _ => false end) (range_list (-128) 256)) (range_list (-128) 256) = true.
Proof. vm_compute. reflexivity. Qed.
