From Goml Require Import Common.Base C05.Model.

Definition andthen (t : list tok) (r : option (list tok * stack * N)) :=
  match r with Some (t2, s2, n2) => Some (t ++ t2, s2, n2) | None => None end.

Lemma andthen_nil r : andthen [] r = r.
Proof. destruct r as [[[? ?] ?]|]; reflexivity. Qed.

Lemma andthen_app a b r : andthen (a ++ b) r = andthen a (andthen b r).
Proof. destruct r as [[[? ?] ?]|]; cbn; [now rewrite app_assoc|reflexivity]. Qed.

Lemma rfind_app x f g :
  rfind x (f ++ g) = match rfind x f with Some id => Some id | None => rfind x g end.
Proof.
  induction f as [|[y id] f IH]; cbn; [reflexivity|]. destruct (x =? y); [reflexivity|exact IH].
Qed.

Lemma rfind_concat x f s : rfind x (f ++ concat s) = find_stack x (f :: s).
Proof.
  revert f; induction s as [|g s IH]; intro f; cbn [concat find_stack].
  - rewrite app_nil_r. destruct (rfind x f); reflexivity.
  - rewrite rfind_app. destruct (rfind x f); [reflexivity|]. apply (IH g).
Qed.

Lemma lookup_use_spec G x f s : lookup_use G x (f ++ concat s) = spec_use G x (f :: s).
Proof. unfold lookup_use, spec_use. now rewrite rfind_concat. Qed.


(** unfolding equations (the mutual fixpoints do not refold under cbn) *)
Lemma rx_let G p v e n : res_expr G (Let p v) e n =
  let '(t1, e1, n1) := res_expr G v e n in let '(t2, e2, n2) := res_pat p e1 n1 in (t1 ++ t2, e2, n2).
Proof. reflexivity. Qed.
Lemma rx_block G es e n : res_expr G (Block es) e n = let '(t, _, n1) := res_exprs G es e n in (t, e, n1).
Proof. reflexivity. Qed.
Lemma rx_if G c t f e n : res_expr G (If c t f) e n =
  let '(t1, e1, n1) := res_expr G c e n in let '(t2, e2, n2) := res_expr G t e1 n1 in
  let '(t3, e3, n3) := res_expr G f e2 n2 in (t1 ++ t2 ++ t3, e3, n3).
Proof. reflexivity. Qed.
Lemma rx_while G c b e n : res_expr G (While c b) e n =
  let '(t1, e1, n1) := res_expr G c e n in let '(t2, e2, n2) := res_expr G b e1 n1 in (t1 ++ t2, e2, n2).
Proof. reflexivity. Qed.
Lemma rx_match G s a e n : res_expr G (Match s a) e n =
  let '(t1, e1, n1) := res_expr G s e n in let '(t2, n2) := res_arms G a e1 n1 in (t1 ++ t2, e1, n2).
Proof. reflexivity. Qed.
Lemma rx_closure G ps b e n : res_expr G (Closure ps b) e n =
  let '(t1, e1, n1) := res_pats ps e n in let '(t2, _, n2) := res_expr G b e1 n1 in (t1 ++ t2, e, n2).
Proof. reflexivity. Qed.
Lemma rx_node G es e n : res_expr G (Node es) e n = res_exprs G es e n.
Proof. reflexivity. Qed.
Lemma rx_cons G x r e n : res_exprs G (ECons x r) e n =
  let '(t1, e1, n1) := res_expr G x e n in let '(t2, e2, n2) := res_exprs G r e1 n1 in (t1 ++ t2, e2, n2).
Proof. reflexivity. Qed.
Lemma rx_acons G p b r e n : res_arms G (ACons p b r) e n =
  let '(t1, e1, n1) := res_pat p e n in let '(t2, _, n2) := res_expr G b e1 n1 in
  let '(t3, n3) := res_arms G r e n2 in (t1 ++ t2 ++ t3, n3).
Proof. reflexivity. Qed.
Lemma rp_pt ps e n : res_pat (PT ps) e n = res_pats ps e n.
Proof. reflexivity. Qed.
Lemma rp_cons p r e n : res_pats (PCons p r) e n =
  let '(t1, e1, n1) := res_pat p e n in let '(t2, e2, n2) := res_pats r e1 n1 in (t1 ++ t2, e2, n2).
Proof. reflexivity. Qed.
Lemma fl_let p v : flatten (Let p v) = flatten v ++ binds p. Proof. reflexivity. Qed.
Lemma fl_block es : flatten (Block es) = EOpen :: flatten_list es ++ [EClose]. Proof. reflexivity. Qed.
Lemma fl_if c t f : flatten (If c t f) = flatten c ++ flatten t ++ flatten f. Proof. reflexivity. Qed.
Lemma fl_while c b : flatten (While c b) = flatten c ++ flatten b. Proof. reflexivity. Qed.
Lemma fl_match s a : flatten (Match s a) = flatten s ++ flatten_arms a. Proof. reflexivity. Qed.
Lemma fl_closure ps b : flatten (Closure ps b) = EOpen :: binds_list ps ++ flatten b ++ [EClose]. Proof. reflexivity. Qed.
Lemma fl_node es : flatten (Node es) = flatten_list es. Proof. reflexivity. Qed.
Lemma fl_cons x r : flatten_list (ECons x r) = flatten x ++ flatten_list r. Proof. reflexivity. Qed.
Lemma fl_acons p b r : flatten_arms (ACons p b r) = EOpen :: binds p ++ flatten b ++ [EClose] ++ flatten_arms r.
Proof. reflexivity. Qed.
Lemma bl_pt ps : binds (PT ps) = binds_list ps. Proof. reflexivity. Qed.
Lemma bl_cons p r : binds_list (PCons p r) = binds p ++ binds_list r. Proof. reflexivity. Qed.

(** patterns only push on the innermost frame *)
Definition Ppat (p : pat) := forall G f s n rest,
  exists f', snd (fst (res_pat p (f ++ concat s) n)) = f' ++ concat s /\
    spec_run G (binds p ++ rest) (f :: s) n =
    andthen (fst (fst (res_pat p (f ++ concat s) n))) (spec_run G rest (f' :: s) (snd (res_pat p (f ++ concat s) n))).
Definition Ppats (ps : pats) := forall G f s n rest,
  exists f', snd (fst (res_pats ps (f ++ concat s) n)) = f' ++ concat s /\
    spec_run G (binds_list ps ++ rest) (f :: s) n =
    andthen (fst (fst (res_pats ps (f ++ concat s) n))) (spec_run G rest (f' :: s) (snd (res_pats ps (f ++ concat s) n))).

Lemma pat_ok : (forall p, Ppat p) /\ (forall ps, Ppats ps).
Proof.
  apply pat_mutind; unfold Ppat, Ppats.
  - intros x G f s n rest. exists ((x, n) :: f). split; [reflexivity|].
    cbn. destruct (spec_run G rest (((x, n) :: f) :: s) (n + 1)) as [[[? ?] ?]|]; reflexivity.
  - intros G f s n rest. exists f. split; [reflexivity|]. cbn. now rewrite andthen_nil.
  - intros ps IH G f s n rest. rewrite rp_pt, bl_pt. apply IH.
  - intros G f s n rest. exists f. split; [reflexivity|]. cbn. now rewrite andthen_nil.
  - intros p IHp r IHr G f s n rest. rewrite rp_cons, bl_cons.
    destruct (IHp G f s n (binds_list r ++ rest)) as (f1 & E1 & S1).
    destruct (res_pat p (f ++ concat s) n) as [[t1 e1] n1] eqn:R1. cbn [fst snd] in *. subst e1.
    destruct (IHr G f1 s n1 rest) as (f2 & E2 & S2).
    destruct (res_pats r (f1 ++ concat s) n1) as [[t2 e2] n2] eqn:R2. cbn [fst snd] in *. subst e2.
    exists f2. split; [reflexivity|].
    rewrite <- app_assoc, S1, S2, andthen_app. reflexivity.
Qed.

Definition Pexpr (x : expr) := forall G f s n rest,
  exists f', snd (fst (res_expr G x (f ++ concat s) n)) = f' ++ concat s /\
    spec_run G (flatten x ++ rest) (f :: s) n =
    andthen (fst (fst (res_expr G x (f ++ concat s) n))) (spec_run G rest (f' :: s) (snd (res_expr G x (f ++ concat s) n))).
Definition Pexprs (xs : exprs) := forall G f s n rest,
  exists f', snd (fst (res_exprs G xs (f ++ concat s) n)) = f' ++ concat s /\
    spec_run G (flatten_list xs ++ rest) (f :: s) n =
    andthen (fst (fst (res_exprs G xs (f ++ concat s) n))) (spec_run G rest (f' :: s) (snd (res_exprs G xs (f ++ concat s) n))).
Definition Parms (a : arms) := forall G f s n rest,
    spec_run G (flatten_arms a ++ rest) (f :: s) n =
    andthen (fst (res_arms G a (f ++ concat s) n)) (spec_run G rest (f :: s) (snd (res_arms G a (f ++ concat s) n))).

Ltac step IH G f s n rest f1 E S R t e m :=
  destruct (IH G f s n rest) as (f1 & E & S);
  match type of S with context [res_expr ?G ?x ?ev ?nv] =>
    destruct (res_expr G x ev nv) as [[t e] m] eqn:R end;
  cbn [fst snd] in E, S; subst e.

Lemma expr_ok : (forall x, Pexpr x) /\ (forall xs, Pexprs xs) /\ (forall a, Parms a).
Proof.
  apply expr_mutind; unfold Pexpr, Pexprs, Parms.
  - (* Var *) intros v G f s n rest. exists f. split; [reflexivity|].
    cbn. rewrite lookup_use_spec.
    destruct (spec_run G rest (f :: s) n) as [[[? ?] ?]|]; reflexivity.
  - (* Lit *) intros G f s n rest. exists f. split; [reflexivity|]. cbn. now rewrite andthen_nil.
  - (* Let *) intros p v IHv G f s n rest. rewrite rx_let, fl_let.
    destruct (IHv G f s n (binds p ++ rest)) as (f1 & E1 & S1).
    destruct (res_expr G v (f ++ concat s) n) as [[t1 e1] n1] eqn:R1. cbn [fst snd] in *. subst e1.
    destruct (proj1 pat_ok p G f1 s n1 rest) as (f2 & E2 & S2).
    destruct (res_pat p (f1 ++ concat s) n1) as [[t2 e2] n2] eqn:R2. cbn [fst snd] in *. subst e2.
    exists f2. split; [reflexivity|]. rewrite <- app_assoc, S1, S2, andthen_app. reflexivity.
  - (* Block *) intros es IH G f s n rest. rewrite rx_block, fl_block.
    specialize (IH G [] (f :: s) n ([EClose] ++ rest)).
    destruct IH as (f1 & E1 & S1). cbn [app concat] in E1, S1.
    destruct (res_exprs G es (f ++ concat s) n) as [[t1 e1] n1] eqn:R1. cbn [fst snd] in *.
    exists f. split; [reflexivity|].
    cbn [spec_run app]. rewrite <- app_assoc. cbn [app]. rewrite S1. cbn [app spec_run]. reflexivity.
  - (* If *) intros c IHc t IHt e IHe G f s n rest. rewrite rx_if, fl_if.
    destruct (IHc G f s n (flatten t ++ flatten e ++ rest)) as (f1 & E1 & S1).
    destruct (res_expr G c (f ++ concat s) n) as [[t1 e1] n1] eqn:R1. cbn [fst snd] in *. subst e1.
    destruct (IHt G f1 s n1 (flatten e ++ rest)) as (f2 & E2 & S2).
    destruct (res_expr G t (f1 ++ concat s) n1) as [[t2 e2] n2] eqn:R2. cbn [fst snd] in *. subst e2.
    destruct (IHe G f2 s n2 rest) as (f3 & E3 & S3).
    destruct (res_expr G e (f2 ++ concat s) n2) as [[t3 e3] n3] eqn:R3. cbn [fst snd] in *. subst e3.
    exists f3. split; [reflexivity|].
    rewrite <- !app_assoc, S1, S2, S3, !andthen_app. reflexivity.
  - (* While *) intros c IHc b IHb G f s n rest. rewrite rx_while, fl_while.
    destruct (IHc G f s n (flatten b ++ rest)) as (f1 & E1 & S1).
    destruct (res_expr G c (f ++ concat s) n) as [[t1 e1] n1] eqn:R1. cbn [fst snd] in *. subst e1.
    destruct (IHb G f1 s n1 rest) as (f2 & E2 & S2).
    destruct (res_expr G b (f1 ++ concat s) n1) as [[t2 e2] n2] eqn:R2. cbn [fst snd] in *. subst e2.
    exists f2. split; [reflexivity|]. rewrite <- !app_assoc, S1, S2, !andthen_app. reflexivity.
  - (* Match *) intros sc IHs a IHa G f s n rest. rewrite rx_match, fl_match.
    destruct (IHs G f s n (flatten_arms a ++ rest)) as (f1 & E1 & S1).
    destruct (res_expr G sc (f ++ concat s) n) as [[t1 e1] n1] eqn:R1. cbn [fst snd] in *. subst e1.
    specialize (IHa G f1 s n1 rest).
    destruct (res_arms G a (f1 ++ concat s) n1) as [t2 n2] eqn:R2. cbn [fst snd] in *.
    exists f1. split; [reflexivity|]. rewrite <- !app_assoc, S1, andthen_app. f_equal. exact IHa.
  - (* Closure *) intros ps b IHb G f s n rest. rewrite rx_closure, fl_closure.
    destruct (proj2 pat_ok ps G [] (f :: s) n (flatten b ++ [EClose] ++ rest)) as (f1 & E1 & S1).
    cbn [app concat] in E1, S1.
    destruct (res_pats ps (f ++ concat s) n) as [[t1 e1] n1] eqn:R1. cbn [fst snd] in *. subst e1.
    destruct (IHb G f1 (f :: s) n1 ([EClose] ++ rest)) as (f2 & E2 & S2). cbn [concat] in E2, S2.
    destruct (res_expr G b (f1 ++ f ++ concat s) n1) as [[t2 e2] n2] eqn:R2. cbn [fst snd] in *.
    exists f. split; [reflexivity|].
    cbn [spec_run app]. rewrite <- !app_assoc. cbn [app]. cbn [app] in S2. rewrite S1, S2. cbn [app spec_run].
    rewrite andthen_app. reflexivity.
  - (* Node *) intros es IH G f s n rest. rewrite rx_node, fl_node. apply IH.
  - (* ENil *) intros G f s n rest. exists f. split; [reflexivity|]. cbn. now rewrite andthen_nil.
  - (* ECons *) intros x IHx r IHr G f s n rest. rewrite rx_cons, fl_cons.
    destruct (IHx G f s n (flatten_list r ++ rest)) as (f1 & E1 & S1).
    destruct (res_expr G x (f ++ concat s) n) as [[t1 e1] n1] eqn:R1. cbn [fst snd] in *. subst e1.
    destruct (IHr G f1 s n1 rest) as (f2 & E2 & S2).
    destruct (res_exprs G r (f1 ++ concat s) n1) as [[t2 e2] n2] eqn:R2. cbn [fst snd] in *. subst e2.
    exists f2. split; [reflexivity|]. rewrite <- !app_assoc, S1, S2, !andthen_app. reflexivity.
  - (* ANil *) intros G f s n rest. cbn. now rewrite andthen_nil.
  - (* ACons *) intros p b IHb r IHr G f s n rest. rewrite rx_acons, fl_acons.
    destruct (proj1 pat_ok p G [] (f :: s) n (flatten b ++ [EClose] ++ flatten_arms r ++ rest)) as (f1 & E1 & S1).
    cbn [app concat] in E1, S1.
    destruct (res_pat p (f ++ concat s) n) as [[t1 e1] n1] eqn:R1. cbn [fst snd] in *. subst e1.
    destruct (IHb G f1 (f :: s) n1 ([EClose] ++ flatten_arms r ++ rest)) as (f2 & E2 & S2). cbn [concat] in E2, S2.
    destruct (res_expr G b (f1 ++ f ++ concat s) n1) as [[t2 e2] n2] eqn:R2. cbn [fst snd] in *.
    specialize (IHr G f s n2 rest).
    destruct (res_arms G r (f ++ concat s) n2) as [t3 n3] eqn:R3. cbn [fst snd] in *.
    cbn [spec_run app]. rewrite <- !app_assoc. cbn [app]. rewrite S1. cbn [app] in S2. rewrite S2. cbn [app spec_run].
    rewrite !andthen_app. do 2 f_equal. exact IHr.
Qed.

Lemma resolve_fn_lexical G params body n :
  spec_run G (flatten_fn params body) [] n =
  Some (fst (res_fn G params body n), [], snd (res_fn G params body n)).
Proof.
  unfold flatten_fn, res_fn. cbn [spec_run].
  destruct (proj2 pat_ok params G [] [] n (flatten body ++ [EClose])) as (f1 & E1 & S1).
  cbn [app concat] in E1, S1. rewrite S1.
  destruct (res_pats params [] n) as [[t1 e1] n1] eqn:R1. cbn [fst snd] in *. subst e1.
  destruct (proj1 expr_ok body G f1 [] n1 [EClose]) as (f2 & E2 & S2). cbn [concat] in E2, S2.
  rewrite S2. rewrite app_nil_r in *.
  destruct (res_expr G body f1 n1) as [[t2 e2] n2] eqn:R2. cbn [fst snd spec_run andthen].
  rewrite app_nil_r. reflexivity.
Qed.

(* ------------------------------------------------------------------ *)
(** consequences of the stack discipline, stated on the spec *)

Lemma find_stack_innermost x id f s : rfind x f = Some id -> find_stack x (f :: s) = Some id.
Proof. intro H. cbn. now rewrite H. Qed.

Lemma spec_unbound_unresolved G x s :
  find_stack x s = None -> mem x (defs G) = false -> mem x (builtins G) = false ->
  spec_use G x s = RUnresolved.
Proof. intros H1 H2 H3. unfold spec_use. now rewrite H1, H2, H3. Qed.

Lemma spec_local_wins G x s id : find_stack x s = Some id -> spec_use G x s = RLocal id.
Proof. intro H. unfold spec_use. now rewrite H. Qed.

(** a binding made inside a block is invisible after it: the stream semantics pops it *)
Lemma block_binding_does_not_leak G x y :
  x <> y ->
  spec_run G (flatten_fn PNil (Block (ECons (Block (ECons (Let (PV x) Lit) ENil)) (ECons (Var x) ENil)))) [] 0
  = Some ([TBind x 0; TUse x (spec_use G x [[]; []])], [], 1).
Proof. intros _. reflexivity. Qed.
