(** C05 executable support for the correspondence check *)
From Goml Require Import Common.Base C05.Model.

Definition res_eqb (a b : res) : bool :=
  match a, b with
  | RLocal x, RLocal y => x =? y
  | RDef, RDef | RBuiltin, RBuiltin | RUnresolved, RUnresolved => true
  | _, _ => false
  end.

Definition tok_eqb (a b : tok) : bool :=
  match a, b with
  | TBind x i, TBind y j => (x =? y) && (i =? j)
  | TUse x r, TUse y q => (x =? y) && res_eqb r q
  | _, _ => false
  end.

Fixpoint toks_eqb (a b : list tok) : bool :=
  match a, b with
  | [], [] => true
  | x :: a', y :: b' => tok_eqb x y && toks_eqb a' b'
  | _, _ => false
  end.

Record rcase := { r_params : pats; r_body : expr; r_n0 : N; r_real : list tok }.

Definition GL : globals := {| defs := [4]; builtins := [5] |}.

Definition model_ok (c : rcase) : bool :=
  toks_eqb (fst (res_fn GL (r_params c) (r_body c) (r_n0 c))) (r_real c).

(** the property evaluated on the REAL tokens: they must be what the scope-stack
    semantics of the event stream gives *)
Definition spec_ok (c : rcase) : bool :=
  match spec_run GL (flatten_fn (r_params c) (r_body c)) [] (r_n0 c) with
  | Some (t, _, _) => toks_eqb t (r_real c)
  | None => false
  end.

Fixpoint bad_idx {A} (f : A -> bool) (l : list A) (i : N) : list N :=
  match l with [] => [] | x :: r => if f x then bad_idx f r (i + 1) else i :: bad_idx f r (i + 1) end.
