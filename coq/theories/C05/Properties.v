(** C05 — property theorems only *)
From Goml Require Import Common.Base C05.Model C05.Proofs.

(** the resolver (one flat environment, cloned at block / arm / closure entry and
    threaded everywhere else) computes exactly lexical scoping: the resolution of
    the function's event stream by a stack of scopes, for EVERY function *)
Theorem resolve_is_lexical : forall G params body n,
  spec_run G (flatten_fn params body) [] n =
  Some (fst (res_fn G params body n), [], snd (res_fn G params body n)).
Proof. exact Proofs.resolve_fn_lexical. Qed.

(** what the stack discipline means for a use *)
Theorem innermost_binding_wins : forall G x s id, find_stack x s = Some id -> spec_use G x s = RLocal id.
Proof. exact Proofs.spec_local_wins. Qed.

Theorem innermost_frame_first : forall x id f s, rfind x f = Some id -> find_stack x (f :: s) = Some id.
Proof. exact Proofs.find_stack_innermost. Qed.

Theorem unbound_use_is_unresolved : forall G x s,
  find_stack x s = None -> mem x (defs G) = false -> mem x (builtins G) = false ->
  spec_use G x s = RUnresolved.
Proof. exact Proofs.spec_unbound_unresolved. Qed.

(** non-vacuity / regression witness: the defect fixed in /repo (bindings leaking out
    of a block) is excluded: after [{ { let x = lit }; x }] the use of x is not local *)
Example binding_not_visible_after_block :
  fst (res_fn {| defs := []; builtins := [] |} PNil
         (Block (ECons (Block (ECons (Let (PV 7) Lit) ENil)) (ECons (Var 7) ENil))) 0)
  = [TBind 7 0; TUse 7 RUnresolved].
Proof. reflexivity. Qed.

Example shadowing_keeps_outer_uses :
  fst (res_fn {| defs := []; builtins := [] |} (PCons (PV 1) PNil)
         (Block (ECons (Var 1) (ECons (Block (ECons (Let (PV 1) (Var 1)) (ECons (Var 1) ENil))) (ECons (Var 1) ENil)))) 0)
  = [TBind 1 0; TUse 1 (RLocal 0); TUse 1 (RLocal 0); TBind 1 1; TUse 1 (RLocal 1); TUse 1 (RLocal 0)].
Proof. reflexivity. Qed.
