(** C05 model: local name resolution of crates/compiler/src/typer/name_resolution.rs
    (resolve_fn / resolve_expr / resolve_pat / resolve_closure_param over a
    ResolveLocalEnv): ONE flat environment that is cloned at scope entry
    ([enter_scope]) and otherwise threaded and mutated through sub-expressions, with
    fresh LocalIds drawn from a counter; a use looks at locals (newest first), then
    package definitions, then builtins.
    The SPEC is independent: the program is flattened to a stream of
    open / close / bind / use events and resolved with a stack of scopes. *)
From Goml Require Import Common.Base.

Inductive pat := PV (x : N) | PW | PT (ps : pats)
with pats := PNil | PCons (p : pat) (r : pats).

Inductive expr :=
| Var (x : N)                        (* single-identifier path *)
| Lit
| Let (p : pat) (e : expr)           (* value first, then the pattern binds *)
| Block (es : exprs)                 (* own scope *)
| If (c t e : expr)
| While (c b : expr)
| Match (s : expr) (a : arms)        (* each arm has its own scope *)
| Closure (ps : pats) (b : expr)     (* own scope *)
| Node (es : exprs)                  (* call, tuple, array, operators, field access... *)
with exprs := ENil | ECons (e : expr) (r : exprs)
with arms := ANil | ACons (p : pat) (b : expr) (r : arms).

Scheme expr_mind := Induction for expr Sort Prop
with exprs_mind := Induction for exprs Sort Prop
with arms_mind := Induction for arms Sort Prop.
Combined Scheme expr_mutind from expr_mind, exprs_mind, arms_mind.
Scheme pat_mind := Induction for pat Sort Prop
with pats_mind := Induction for pats Sort Prop.
Combined Scheme pat_mutind from pat_mind, pats_mind.

Inductive res := RLocal (id : N) | RDef | RBuiltin | RUnresolved.
Inductive tok := TBind (x id : N) | TUse (x : N) (r : res).

Record globals := { defs : list N; builtins : list N }.

Definition mem (x : N) (l : list N) : bool := existsb (N.eqb x) l.

(* ------------------------------------------------------------------ *)
(** * the implementation's algorithm *)

Notation env := (list (N * N)) (only parsing).       (* newest binding first *)

Fixpoint rfind (x : N) (e : env) : option N :=
  match e with [] => None | (y, id) :: r => if x =? y then Some id else rfind x r end.

Definition lookup_use (G : globals) (x : N) (e : env) : res :=
  match rfind x e with
  | Some id => RLocal id
  | None => if mem x (defs G) then RDef else if mem x (builtins G) then RBuiltin else RUnresolved
  end.

Fixpoint res_pat (p : pat) (e : env) (n : N) : list tok * env * N :=
  match p with
  | PV x => ([TBind x n], (x, n) :: e, n + 1)
  | PW => ([], e, n)
  | PT ps => res_pats ps e n
  end
with res_pats (ps : pats) (e : env) (n : N) : list tok * env * N :=
  match ps with
  | PNil => ([], e, n)
  | PCons p r =>
      let '(t1, e1, n1) := res_pat p e n in
      let '(t2, e2, n2) := res_pats r e1 n1 in
      (t1 ++ t2, e2, n2)
  end.

Section Impl.
Variable G : globals.

Fixpoint res_expr (x : expr) (e : env) (n : N) : list tok * env * N :=
  match x with
  | Var v => ([TUse v (lookup_use G v e)], e, n)
  | Lit => ([], e, n)
  | Let p v =>
      let '(t1, e1, n1) := res_expr v e n in
      let '(t2, e2, n2) := res_pat p e1 n1 in
      (t1 ++ t2, e2, n2)
  | Block es =>
      let '(t, _, n1) := res_exprs es e n in (t, e, n1)          (* block_env = env.enter_scope() *)
  | If c t f =>
      let '(t1, e1, n1) := res_expr c e n in
      let '(t2, e2, n2) := res_expr t e1 n1 in
      let '(t3, e3, n3) := res_expr f e2 n2 in
      (t1 ++ t2 ++ t3, e3, n3)
  | While c b =>
      let '(t1, e1, n1) := res_expr c e n in
      let '(t2, e2, n2) := res_expr b e1 n1 in
      (t1 ++ t2, e2, n2)
  | Match s a =>
      let '(t1, e1, n1) := res_expr s e n in
      let '(t2, n2) := res_arms a e1 n1 in
      (t1 ++ t2, e1, n2)
  | Closure ps b =>
      let '(t1, e1, n1) := res_pats ps e n in                    (* closure_env = env.enter_scope() *)
      let '(t2, _, n2) := res_expr b e1 n1 in
      (t1 ++ t2, e, n2)
  | Node es => res_exprs es e n
  end
with res_exprs (xs : exprs) (e : env) (n : N) : list tok * env * N :=
  match xs with
  | ENil => ([], e, n)
  | ECons x r =>
      let '(t1, e1, n1) := res_expr x e n in
      let '(t2, e2, n2) := res_exprs r e1 n1 in
      (t1 ++ t2, e2, n2)
  end
with res_arms (a : arms) (e : env) (n : N) : list tok * N :=
  match a with
  | ANil => ([], n)
  | ACons p b r =>
      let '(t1, e1, n1) := res_pat p e n in                      (* arm_env = env.enter_scope() *)
      let '(t2, _, n2) := res_expr b e1 n1 in
      let '(t3, n3) := res_arms r e n2 in
      (t1 ++ t2 ++ t3, n3)
  end.

(** a function: parameters are bound in order, then the body *)
Definition res_fn (params : pats) (body : expr) (n : N) : list tok * N :=
  let '(t1, e1, n1) := res_pats params [] n in
  let '(t2, _, n2) := res_expr body e1 n1 in
  (t1 ++ t2, n2).
End Impl.

(* ------------------------------------------------------------------ *)
(** * the specification: lexical scoping as a stack discipline on an event stream *)

Inductive ev := EOpen | EClose | EBind (x : N) | EUse (x : N).

Fixpoint binds (p : pat) : list ev :=
  match p with PV x => [EBind x] | PW => [] | PT ps => binds_list ps end
with binds_list (ps : pats) : list ev :=
  match ps with PNil => [] | PCons p r => binds p ++ binds_list r end.

Fixpoint flatten (x : expr) : list ev :=
  match x with
  | Var v => [EUse v]
  | Lit => []
  | Let p v => flatten v ++ binds p
  | Block es => EOpen :: flatten_list es ++ [EClose]
  | If c t f => flatten c ++ flatten t ++ flatten f
  | While c b => flatten c ++ flatten b
  | Match s a => flatten s ++ flatten_arms a
  | Closure ps b => EOpen :: binds_list ps ++ flatten b ++ [EClose]
  | Node es => flatten_list es
  end
with flatten_list (xs : exprs) : list ev :=
  match xs with ENil => [] | ECons x r => flatten x ++ flatten_list r end
with flatten_arms (a : arms) : list ev :=
  match a with
  | ANil => []
  | ACons p b r => EOpen :: binds p ++ flatten b ++ [EClose] ++ flatten_arms r
  end.

Definition flatten_fn (params : pats) (body : expr) : list ev :=
  EOpen :: binds_list params ++ flatten body ++ [EClose].

Notation stack := (list (list (N * N))) (only parsing).  (* innermost scope first; each newest first *)

Fixpoint find_stack (x : N) (s : stack) : option N :=
  match s with
  | [] => None
  | f :: r => match rfind x f with Some id => Some id | None => find_stack x r end
  end.

Definition spec_use (G : globals) (x : N) (s : stack) : res :=
  match find_stack x s with
  | Some id => RLocal id
  | None => if mem x (defs G) then RDef else if mem x (builtins G) then RBuiltin else RUnresolved
  end.

(** returns None on an unbalanced stream *)
Fixpoint spec_run (G : globals) (evs : list ev) (s : stack) (n : N) : option (list tok * stack * N) :=
  match evs with
  | [] => Some ([], s, n)
  | EOpen :: r => spec_run G r ([] :: s) n
  | EClose :: r => match s with [] => None | _ :: s' => spec_run G r s' n end
  | EBind x :: r =>
      match s with
      | [] => None
      | f :: s' =>
          match spec_run G r (((x, n) :: f) :: s') (n + 1) with
          | Some (t, s2, n2) => Some (TBind x n :: t, s2, n2)
          | None => None
          end
      end
  | EUse x :: r =>
      match spec_run G r s n with
      | Some (t, s2, n2) => Some (TUse x (spec_use G x s) :: t, s2, n2)
      | None => None
      end
  end.
