(** C15 model: interface/core artifacts and the checks that guard linking
    (crates/compiler/src/artifact.rs InterfaceUnit::{new,compute_hash,validate_hash,
    validate_version}, CoreUnit::{new,validate}; pipeline/separate.rs
    load_interface_from_paths, check_package, build_package, read_core, link_cores).
    Sources are abstracted to (interface version, body version): an interface-visible
    edit changes the first, a body-only edit the second.  The hash function is a
    parameter assumed injective on hash views (sha256 collision freedom). *)
From Goml Require Import Common.Base.

Section Artifacts.
Variable hash : Type.
Variable hash_eqb : hash -> hash -> bool.
Hypothesis hash_eqb_spec : forall a b, hash_eqb a b = true <-> a = b.

(** InterfaceHashView: exactly the hashed fields *)
Record view := { v_fmt : N; v_abi : N; v_pkg : N; v_exports : N; v_deps : list (N * hash) }.
Variable H : view -> hash.

Record iface := { i_view : view; i_hash : hash }.
(** ghost: for each dependency, the exported-interface version p was built against *)
Record core := { c_fmt : N; c_abi : N; c_pkg : N; c_iface : iface; c_deps : list (N * hash);
                 c_body : N; c_against : list (N * N) }.

Definition FORMAT_VERSION : N := 1.
Definition COMPILER_ABI : N := 1.

Fixpoint deps_eqb (a b : list (N * hash)) : bool :=
  match a, b with
  | [], [] => true
  | (x, h) :: a', (y, k) :: b' => (x =? y) && hash_eqb h k && deps_eqb a' b'
  | _, _ => false
  end.

Definition iface_new (pkg exports : N) (deps : list (N * hash)) : iface :=
  let v := {| v_fmt := FORMAT_VERSION; v_abi := COMPILER_ABI; v_pkg := pkg; v_exports := exports; v_deps := deps |} in
  {| i_view := v; i_hash := H v |}.

Definition validate_hash (i : iface) : bool := hash_eqb (i_hash i) (H (i_view i)).
Definition validate_version (i : iface) : bool :=
  (v_fmt (i_view i) =? FORMAT_VERSION) && (v_abi (i_view i) =? COMPILER_ABI).

Definition core_validate (c : core) : bool :=
  (c_fmt c =? FORMAT_VERSION) && (c_abi c =? COMPILER_ABI) && (c_pkg c =? v_pkg (i_view (c_iface c)))
  && validate_version (c_iface c) && validate_hash (c_iface c) && deps_eqb (c_deps c) (v_deps (i_view (c_iface c))).

(** project: package -> sorted imports; sources: package -> (iface version, body version) *)
Record state := {
  imports : N -> list N;
  src : N -> N * N;
  ifiles : N -> option iface;        (* out/<P>.interface *)
  cfiles : N -> option core          (* out/<P>.core *)
}.

Definition upd {A} (f : N -> A) (k : N) (v : A) : N -> A := fun x => if x =? k then v else f x.

Inductive op := EditBody (p : N) | EditIface (p : N) | Check (p : N) | Build (p : N) | Link (ps : list N).

(** load_interface_from_paths for every import, in sorted order *)
Fixpoint load_deps (s : state) (ds : list N) : option (list (N * iface)) :=
  match ds with
  | [] => Some []
  | d :: r =>
      match ifiles s d with
      | None => None
      | Some i =>
          if (v_pkg (i_view i) =? d) && validate_version i && validate_hash i then
            match load_deps s r with Some l => Some ((d, i) :: l) | None => None end
          else None
      end
  end.

Definition dep_hashes (l : list (N * iface)) : list (N * hash) := map (fun '(d, i) => (d, i_hash i)) l.
Definition dep_versions (l : list (N * iface)) : list (N * N) := map (fun '(d, i) => (d, v_exports (i_view i))) l.

Fixpoint find_core (cs : list core) (p : N) : option core :=
  match cs with [] => None | c :: r => if c_pkg c =? p then Some c else find_core r p end.

Fixpoint has_dup (l : list N) : bool :=
  match l with [] => false | x :: r => existsb (N.eqb x) r || has_dup r end.

(** the hash check of link_cores: every (package, dependency) edge *)
Definition edges_ok (cs : list core) : bool :=
  forallb (fun c => forallb (fun '(d, h) =>
     match find_core cs d with Some cd => hash_eqb (i_hash (c_iface cd)) h | None => false end) (c_deps c)) cs.

Definition main_pkg : N := 2.

Fixpoint read_cores (s : state) (ps : list N) : option (list core) :=
  match ps with
  | [] => Some []
  | p :: r =>
      match cfiles s p with
      | Some c => if core_validate c then match read_cores s r with Some l => Some (c :: l) | None => None end else None
      | None => None
      end
  end.

Definition link (s : state) (ps : list N) : bool :=
  match read_cores s ps with
  | None => false
  | Some cs =>
      negb (match cs with [] => true | _ => false end) && negb (has_dup (map c_pkg cs))
      && existsb (fun c => c_pkg c =? main_pkg) cs && edges_ok cs
  end.

(** one step; returns the new state and whether the command succeeded *)
Definition step (s : state) (o : op) : state * bool :=
  match o with
  | EditBody p => ({| imports := imports s; src := upd (src s) p (fst (src s p), snd (src s p) + 1); ifiles := ifiles s; cfiles := cfiles s |}, true)
  | EditIface p => ({| imports := imports s; src := upd (src s) p (fst (src s p) + 1, snd (src s p)); ifiles := ifiles s; cfiles := cfiles s |}, true)
  | Check p =>
      match load_deps s (imports s p) with
      | None => (s, false)
      | Some l =>
          let i := iface_new p (fst (src s p)) (dep_hashes l) in
          ({| imports := imports s; src := src s; ifiles := upd (ifiles s) p (Some i); cfiles := cfiles s |}, true)
      end
  | Build p =>
      match load_deps s (imports s p) with
      | None => (s, false)
      | Some l =>
          let i := iface_new p (fst (src s p)) (dep_hashes l) in
          let c := {| c_fmt := FORMAT_VERSION; c_abi := COMPILER_ABI; c_pkg := p; c_iface := i;
                      c_deps := dep_hashes l; c_body := snd (src s p); c_against := dep_versions l |} in
          ({| imports := imports s; src := src s; ifiles := upd (ifiles s) p (Some i); cfiles := upd (cfiles s) p (Some c) |}, true)
      end
  | Link ps => (s, link s ps)
  end.

Definition run (s : state) (ops : list op) : state := fold_left (fun s o => fst (step s o)) ops s.

Definition init (imps : N -> list N) : state :=
  {| imports := imps; src := fun _ => (0, 0); ifiles := fun _ => None; cfiles := fun _ => None |}.

Fixpoint assoc {A} (l : list (N * A)) (k : N) : option A :=
  match l with [] => None | (x, a) :: r => if x =? k then Some a else assoc r k end.

End Artifacts.
