(** C15 executable instance: hashes are the hashed views themselves (an injective H) *)
From Goml Require Import Common.Base C15.Model.

Inductive tree := T (fmt abi pkg exports : N) (deps : list (N * tree)).

Fixpoint tree_eqb (a b : tree) : bool :=
  match a, b with
  | T f a1 p e d, T f' a1' p' e' d' =>
      (f =? f') && (a1 =? a1') && (p =? p') && (e =? e') &&
      (fix go (x y : list (N * tree)) : bool :=
         match x, y with
         | [], [] => true
         | (k, t) :: x', (k', t') :: y' => (k =? k') && tree_eqb t t' && go x' y'
         | _, _ => false
         end) d d'
  end.

Definition HT (v : view tree) : tree := T (v_fmt _ v) (v_abi _ v) (v_pkg _ v) (v_exports _ v) (v_deps _ v).

(** packages: Base 0, Lib 1, Main 2, Util 3 *)
Definition imps (shape : N) (p : N) : list N :=
  match shape, p with
  | 0, 1 => [0] | 0, 3 => [0] | 0, 2 => [0; 1; 3]          (* double diamond *)
  | 1, 1 => [0] | 1, 2 => [1] | 1, 3 => []                  (* chain Main -> Lib -> Base *)
  | 2, 1 => [0] | 2, 2 => [0; 1] | 2, 3 => []               (* diamond *)
  | _, _ => []
  end.

(** results of a history: for every op, success flag; for check/build also the class
    index of the interface hash (first occurrence numbering) so that the equality
    pattern of hashes can be compared with the real sha256 values *)
Fixpoint class_of (seen : list tree) (h : tree) (i : N) : N * list tree :=
  match seen with
  | [] => (i, [h])
  | x :: r => if tree_eqb x h then (i, seen) else let '(k, r') := class_of r h (i + 1) in (k, x :: r')
  end.

Fixpoint run_obs (s : state tree) (ops : list op) (seen : list tree) : list (bool * option N) :=
  match ops with
  | [] => []
  | o :: r =>
      let '(s', ok) := step tree tree_eqb HT s o in
      match o, ok with
      | Check p, true | Build p, true =>
          match ifiles _ s' p with
          | Some i => let '(k, seen') := class_of seen (i_hash _ i) 0 in (true, Some k) :: run_obs s' r seen'
          | None => (true, None) :: run_obs s' r seen
          end
      | _, _ => (ok, None) :: run_obs s' r seen
      end
  end.

Definition obs_eqb (a b : bool * option N) : bool :=
  Bool.eqb (fst a) (fst b) &&
  match snd a, snd b with None, None => true | Some x, Some y => x =? y | _, _ => false end.

Fixpoint obs_list_eqb (a b : list (bool * option N)) : bool :=
  match a, b with
  | [], [] => true
  | x :: a', y :: b' => obs_eqb x y && obs_list_eqb a' b'
  | _, _ => false
  end.

Definition history_ok (c : N * list op * list (bool * option N)) : bool :=
  let '(shape, ops, real) := c in obs_list_eqb (run_obs (init tree (imps shape)) ops []) real.
