(** C15 — property theorems only.  [H] is any hash function injective on interface
    hash views (the stated assumption: no sha256 collision among the views of one
    history); [hash_eqb] decides equality of hashes. *)
From Goml Require Import Common.Base C15.Model C15.Proofs.

Section P.
Variable hash : Type.
Variable hash_eqb : hash -> hash -> bool.
Hypothesis hash_eqb_spec : forall a b, hash_eqb a b = true <-> a = b.
Variable H : view hash -> hash.
Hypothesis H_inj : forall a b, H a = H b -> a = b.

(** after ANY history of edits, checks, builds and links: if [link] accepts a set of
    cores then every linked package was built against exactly the exported interface
    (and, through the hashed deps, the same transitive hashes) that each of its
    dependencies' linked cores carries *)
Theorem link_never_mixes_interfaces : forall imps ops ps,
  (forall p, NoDup (imps p)) ->
  let s := run hash hash_eqb H (init hash imps) ops in
  link hash hash_eqb H s ps = true ->
  forall p c, In p ps -> cfiles _ s p = Some c ->
  forall d h, In (d, h) (c_deps _ c) ->
    exists cd, In d ps /\ cfiles _ s d = Some cd /\
      assoc (c_against _ c) d = Some (v_exports _ (i_view _ (c_iface _ cd))) /\
      v_deps _ (i_view _ (c_iface _ cd)) = c_deps _ cd.
Proof.
  intros imps ops ps W s L. apply (link_ok_consistent hash hash_eqb hash_eqb_spec H H_inj s ps); [|exact L].
  apply run_inv; [exact W|apply init_inv].
Qed.

Theorem body_edit_keeps_hash_iface_edit_changes_it : forall p e e' deps,
  (i_hash _ (iface_new hash H p e deps) = i_hash _ (iface_new hash H p e' deps)) <-> e = e'.
Proof.
  intros. split; [apply (body_edit_same_hash hash H H_inj)|now intros ->].
Qed.

Theorem corrupt_format_version_rejected : forall c n, n <> FORMAT_VERSION ->
  core_validate hash hash_eqb H {| c_fmt := n; c_abi := c_abi _ c; c_pkg := c_pkg _ c; c_iface := c_iface _ c;
      c_deps := c_deps _ c; c_body := c_body _ c; c_against := c_against _ c |} = false.
Proof. exact (corrupt_fmt hash hash_eqb H). Qed.

Theorem corrupt_exports_rejected : forall c e,
  validate_hash hash hash_eqb H (c_iface _ c) = true -> e <> v_exports _ (i_view _ (c_iface _ c)) ->
  validate_hash hash hash_eqb H
    {| i_view := {| v_fmt := v_fmt _ (i_view _ (c_iface _ c)); v_abi := v_abi _ (i_view _ (c_iface _ c)); v_pkg := v_pkg _ (i_view _ (c_iface _ c));
                    v_exports := e; v_deps := v_deps _ (i_view _ (c_iface _ c)) |}; i_hash := i_hash _ (c_iface _ c) |} = false.
Proof. exact (corrupt_iface_exports hash hash_eqb hash_eqb_spec H H_inj). Qed.
End P.

(** the core body is NOT covered by any hash: altering [c_body] keeps the core valid
    (refutation of "altered core files are rejected" for that field) *)
Theorem core_body_not_covered_refuted : forall hash hash_eqb H (c : core hash) b,
  core_validate hash hash_eqb H c = true ->
  core_validate hash hash_eqb H {| c_fmt := c_fmt _ c; c_abi := c_abi _ c; c_pkg := c_pkg _ c; c_iface := c_iface _ c;
      c_deps := c_deps _ c; c_body := b; c_against := c_against _ c |} = true.
Proof. intros. exact H0. Qed.
