From Goml Require Import Common.Base C15.Model.

Section Proofs.
Variable hash : Type.
Variable hash_eqb : hash -> hash -> bool.
Hypothesis hash_eqb_spec : forall a b, hash_eqb a b = true <-> a = b.
Variable H : view hash -> hash.
Hypothesis H_inj : forall a b, H a = H b -> a = b.

Notation state := (state hash).
Notation core := (core hash).
Notation iface := (iface hash).

Definition iface_ok (p : N) (i : iface) : Prop := i_hash _ i = H (i_view _ i) /\ v_pkg _ (i_view _ i) = p.

Definition core_ok (p : N) (c : core) : Prop :=
  c_pkg _ c = p /\ iface_ok p (c_iface _ c) /\ c_deps _ c = v_deps _ (i_view _ (c_iface _ c)) /\
  forall d h, In (d, h) (c_deps _ c) ->
    exists v, H v = h /\ v_pkg _ v = d /\ assoc (c_against _ c) d = Some (v_exports _ v).

Definition Inv (s : state) : Prop :=
  (forall p i, ifiles _ s p = Some i -> iface_ok p i) /\
  (forall p c, cfiles _ s p = Some c -> core_ok p c).

Lemma load_deps_spec s ds l :
  Inv s -> load_deps hash hash_eqb H s ds = Some l ->
  Forall (fun '(d, i) => iface_ok d i) l /\ map fst l = ds.
Proof.
  intros [Ii _]. revert l. induction ds as [|d r IH]; intros l E; cbn [load_deps] in E.
  - injection E as <-. split; constructor.
  - destruct (ifiles hash s d) as [i|] eqn:F; [|discriminate].
    destruct ((v_pkg hash (i_view hash i) =? d) && validate_version hash i && validate_hash hash hash_eqb H i); [|discriminate].
    destruct (load_deps hash hash_eqb H s r) as [l'|]; [|discriminate]. injection E as <-.
    destruct (IH l' eq_refl) as [F1 F2]. split; [constructor; [now apply Ii|assumption]|cbn; now rewrite F2].
Qed.

Lemma assoc_dep_versions (l : list (N * iface)) d i :
  NoDup (map fst l) -> In (d, i) l -> assoc (dep_versions hash l) d = Some (v_exports _ (i_view _ i)).
Proof.
  induction l as [|[d' i'] l IH]; intros ND HI; [destruct HI|].
  cbn [dep_versions map assoc]. inversion ND as [|? ? Hn ND']; subst.
  destruct HI as [E|HI].
  - injection E as -> ->. now rewrite N.eqb_refl.
  - destruct (N.eqb_spec d' d) as [->|_].
    + exfalso. apply Hn. change d with (fst (d, i)). now apply in_map.
    + now apply IH.
Qed.

Lemma built_core_ok s p l :
  Inv s -> NoDup (imports _ s p) -> load_deps hash hash_eqb H s (imports _ s p) = Some l ->
  core_ok p {| c_fmt := FORMAT_VERSION; c_abi := COMPILER_ABI; c_pkg := p;
               c_iface := iface_new hash H p (fst (src _ s p)) (dep_hashes hash l);
               c_deps := dep_hashes hash l; c_body := snd (src _ s p); c_against := dep_versions hash l |}.
Proof.
  intros I ND E. destruct (load_deps_spec s _ l I E) as [F M].
  split; [reflexivity|]. split; [split; reflexivity|]. split; [reflexivity|].
  cbn [c_deps c_against]. intros d h HI. unfold dep_hashes in HI. apply in_map_iff in HI as ([d' i] & E1 & HI).
  injection E1 as -> <-. rewrite Forall_forall in F. pose proof (F _ HI) as [Fh Fp]. cbn in Fh, Fp.
  exists (i_view _ i). split; [now rewrite Fh|]. split; [assumption|].
  apply assoc_dep_versions; [now rewrite M|assumption].
Qed.

Definition wf_imports (s : state) : Prop := forall p, NoDup (imports _ s p).

Lemma step_inv s o : wf_imports s -> Inv s -> Inv (fst (step hash hash_eqb H s o)) /\ wf_imports (fst (step hash hash_eqb H s o)).
Proof.
  intros W I. destruct o as [p|p|p|p|ps]; cbn [step].
  - split; [exact I|exact W].
  - split; [exact I|exact W].
  - destruct (load_deps hash hash_eqb H s (imports hash s p)) as [l|] eqn:E; cbn [fst]; [|split; assumption].
    split; [|exact W]. destruct I as [Ii Ic]. split; cbn [ifiles cfiles]; [|exact Ic].
    intros q i. unfold upd. destruct (N.eqb_spec q p) as [->|_]; [|apply Ii].
    intro E1. injection E1 as <-. split; reflexivity.
  - destruct (load_deps hash hash_eqb H s (imports hash s p)) as [l|] eqn:E; cbn [fst]; [|split; assumption].
    split; [|exact W]. pose proof (built_core_ok s p l I (W p) E) as CO.
    destruct I as [Ii Ic]. split; cbn [ifiles cfiles].
    + intros q i. unfold upd. destruct (N.eqb_spec q p) as [->|_]; [|apply Ii].
      intro E1. injection E1 as <-. split; reflexivity.
    + intros q c. unfold upd. destruct (N.eqb_spec q p) as [->|_]; [|apply Ic].
      intro E1. injection E1 as <-. exact CO.
  - split; assumption.
Qed.

Lemma run_inv ops : forall s, wf_imports s -> Inv s -> Inv (run hash hash_eqb H s ops).
Proof.
  induction ops as [|o ops IH]; intros s W I; [exact I|].
  cbn [run fold_left]. destruct (step_inv s o W I) as [I' W']. now apply IH.
Qed.

Lemma init_inv imps : Inv (init hash imps).
Proof. split; intros p x E; discriminate. Qed.

Lemma read_cores_spec s ps cs :
  read_cores hash hash_eqb H s ps = Some cs ->
  Forall2 (fun p c => cfiles _ s p = Some c) ps cs.
Proof.
  revert cs. induction ps as [|p r IH]; intros cs E; cbn [read_cores] in E.
  - injection E as <-. constructor.
  - destruct (cfiles hash s p) as [c|] eqn:F; [|discriminate].
    destruct (core_validate hash hash_eqb H c); [|discriminate].
    destruct (read_cores hash hash_eqb H s r) as [l|]; [|discriminate]. injection E as <-.
    constructor; [assumption|now apply IH].
Qed.

Lemma find_core_in cs d cd : find_core hash cs d = Some cd -> In cd cs /\ c_pkg _ cd = d.
Proof.
  induction cs as [|c r IH]; cbn [find_core]; [discriminate|].
  destruct (N.eqb_spec (c_pkg hash c) d) as [E|_].
  - intro E1. injection E1 as <-. split; [now left|assumption].
  - intro E1. destruct (IH E1). split; [now right|assumption].
Qed.

Lemma forall2_in_r {A B} (R : A -> B -> Prop) l l' b : Forall2 R l l' -> In b l' -> exists a, In a l /\ R a b.
Proof.
  induction 1 as [|x y l l' Hxy _ IH]; intro HI; [destruct HI|].
  destruct HI as [<-|HI]; [exists x; split; [now left|assumption]|].
  destruct (IH HI) as (a & Ha & Hr). exists a. split; [now right|assumption].
Qed.

Lemma forall2_in_l {A B} (R : A -> B -> Prop) l l' a : Forall2 R l l' -> In a l -> exists b, In b l' /\ R a b.
Proof.
  induction 1 as [|x y l l' Hxy _ IH]; intro HI; [destruct HI|].
  destruct HI as [<-|HI]; [exists y; split; [now left|assumption]|].
  destruct (IH HI) as (b & Hb & Hr). exists b. split; [now right|assumption].
Qed.

(** the main safety statement *)
Lemma link_ok_consistent s ps :
  Inv s -> link hash hash_eqb H s ps = true ->
  forall p c, In p ps -> cfiles _ s p = Some c ->
  forall d h, In (d, h) (c_deps _ c) ->
    exists cd, In d ps /\ cfiles _ s d = Some cd /\
               assoc (c_against _ c) d = Some (v_exports _ (i_view _ (c_iface _ cd))) /\
               v_deps _ (i_view _ (c_iface _ cd)) = c_deps _ cd.
Proof.
  intros [Ii Ic] L p c Hp Fc d h Hd. unfold link in L.
  destruct (read_cores hash hash_eqb H s ps) as [cs|] eqn:R; [|discriminate].
  pose proof (read_cores_spec s ps cs R) as F2.
  apply andb_true_iff in L as [L Le]. clear L.
  unfold edges_ok in Le. rewrite forallb_forall in Le.
  destruct (forall2_in_l _ _ _ p F2 Hp) as (c' & Hc' & Fc'). rewrite Fc in Fc'. injection Fc' as <-.
  specialize (Le c Hc'). rewrite forallb_forall in Le. specialize (Le (d, h) Hd). cbn in Le.
  destruct (find_core hash cs d) as [cd|] eqn:FC; [|discriminate].
  apply hash_eqb_spec in Le. destruct (find_core_in cs d cd FC) as [Hin Hpk].
  destruct (forall2_in_r _ _ _ cd F2 Hin) as (q & Hq & Fq).
  destruct (Ic q cd Fq) as (Pq & [Hh Hp2] & Dq & _). rewrite Hpk in Pq. subst q.
  destruct (Ic p c Fc) as (_ & _ & _ & G). destruct (G d h Hd) as (v & Hv & Hvp & Ha).
  assert (v = i_view _ (c_iface _ cd)) as -> by (apply H_inj; congruence).
  exists cd. repeat split; try assumption. now symmetry.
Qed.

(** a body-only edit leaves the interface hash unchanged; an interface edit changes it *)
Lemma body_edit_same_hash p e e' deps : i_hash _ (iface_new hash H p e deps) = i_hash _ (iface_new hash H p e' deps) -> e = e'.
Proof. cbn. intro E. apply H_inj in E. now injection E. Qed.

Lemma iface_edit_changes_hash p e e' deps : e <> e' -> i_hash _ (iface_new hash H p e deps) <> i_hash _ (iface_new hash H p e' deps).
Proof. intros N E. apply N. now apply body_edit_same_hash in E. Qed.

(** single-field corruption of a valid core is caught by read_core (every field the
    validation covers) *)
Lemma corrupt_fmt c n : n <> FORMAT_VERSION ->
  core_validate hash hash_eqb H {| c_fmt := n; c_abi := c_abi _ c; c_pkg := c_pkg _ c; c_iface := c_iface _ c; c_deps := c_deps _ c; c_body := c_body _ c; c_against := c_against _ c |} = false.
Proof. intro N. unfold core_validate. cbn. destruct (N.eqb_spec n FORMAT_VERSION); [contradiction|reflexivity]. Qed.

Lemma corrupt_iface_exports c e :
  validate_hash hash hash_eqb H (c_iface _ c) = true -> e <> v_exports _ (i_view _ (c_iface _ c)) ->
  validate_hash hash hash_eqb H
    {| i_view := {| v_fmt := v_fmt _ (i_view _ (c_iface _ c)); v_abi := v_abi _ (i_view _ (c_iface _ c)); v_pkg := v_pkg _ (i_view _ (c_iface _ c));
                    v_exports := e; v_deps := v_deps _ (i_view _ (c_iface _ c)) |}; i_hash := i_hash _ (c_iface _ c) |} = false.
Proof.
  intros V N. unfold validate_hash in *. cbn. apply hash_eqb_spec in V.
  destruct (hash_eqb (i_hash hash (c_iface hash c)) _) eqn:E; [|reflexivity].
  apply hash_eqb_spec in E. rewrite V in E. apply H_inj in E. exfalso. apply N.
  destruct (i_view hash (c_iface hash c)). cbn in *. now injection E.
Qed.
End Proofs.
