(** C13 — determinism: the orders that shape the output do not depend on the
    iteration order of any import set (HashSet seed) *)
From Goml Require Import Common.Base Pkg.Discover Pkg.DiscoverProofs.
From Coq Require Import Permutation.

(** discovery order (which orders the emitted functions and all stage dumps) *)
Theorem discovery_order_independent : forall m f f' d i i',
  fs_sim f f' -> Permutation i i' -> discover m f d i = discover m f' d i'.
Proof. exact DiscoverProofs.discover_sim. Qed.

(** topological order (which orders environment merging, Go type declarations and
    the per-package diagnostics) *)
Theorem topo_order_independent : forall g g', graph_sim g g' -> topo g = topo g'.
Proof. exact DiscoverProofs.topo_sim. Qed.

Theorem sort_canonical : forall l l', Permutation l l' -> isort l = isort l'.
Proof. exact DiscoverProofs.isort_perm. Qed.

(** non-vacuity: Main(2) imports Units(4) and Shapes(3) in either order *)
Example two_imports_either_order :
  discover 2 [(3, DirOk 3 []); (4, DirOk 4 [])] 2 [4; 3] = Ok [2; 3; 4] /\
  discover 2 [(3, DirOk 3 []); (4, DirOk 4 [])] 2 [3; 4] = Ok [2; 3; 4] /\
  topo [(2, [4; 3]); (3, []); (4, [])] = TOk [3; 4; 2] /\
  topo [(2, [3; 4]); (3, []); (4, [])] = TOk [3; 4; 2].
Proof. vm_compute. repeat split. Qed.
