(** C11 — pinned statements about the parser model *)
From Goml Require Import Common.Base C11.Model C11.Proofs.
Open Scope nat_scope.

(** the documented table: binary operators are left-associative (right power = left power + 1),
    the levels are ordered || < && < ==,!= < comparisons < +,- < *,/ < prefix, and calls / field
    access bind tighter than every binary operator *)
Theorem binding_powers_as_documented :
  (forall o, snd (bp o) = S (fst (bp o))) /\
  fst (bp BOr) < fst (bp BAnd) /\ fst (bp BAnd) < fst (bp BEq) /\ fst (bp BEq) = fst (bp BNe) /\
  fst (bp BNe) < fst (bp BLt) /\ fst (bp BLt) = fst (bp BGt) /\ fst (bp BGt) = fst (bp BLe) /\ fst (bp BLe) = fst (bp BGe) /\
  fst (bp BGe) < fst (bp BAdd) /\ fst (bp BAdd) = fst (bp BSub) /\ fst (bp BSub) < fst (bp BMul) /\ fst (bp BMul) = fst (bp BDiv) /\
  (forall o, snd (bp o) < call_bp /\ snd (bp o) < prefix_bp /\ snd (bp o) < fst dot_bp).
Proof.
  split; [intro o; destruct o; reflexivity|].
  repeat (split; [cbn; lia|]).
  intro o; unfold call_bp, prefix_bp, dot_bp; destruct o; cbn; lia.
Qed.
Print Assumptions binding_powers_as_documented.

(** printing any tree of the class [ok] with only the necessary parentheses and parsing it back
    (Pratt loop, argument lists, lowering with its re-association of calls) yields the same tree,
    for every sufficiently large fuel.  [ok]: a callee is an atom, a call or a field access, and the
    operand of a prefix operator either has no call on its postfix chain or is (prefix operators over)
    one call of a call-free callee, as in -f(x) and !a.done(). *)
Theorem print_then_parse_is_identity :
  forall e, ok e = true -> exists f0, forall f, f0 <= f -> parse_fuel f (print e) = Some e.
Proof. exact print_parse_roundtrip. Qed.
Print Assumptions print_then_parse_is_identity.

(** non-vacuity: a tree with every construct is in the class, and the model's concrete fuel suffices for it *)
Definition ex_tree : expr :=
  Bin BOr (Bin BMul (Bin BAdd (Atom 0) (Un UNeg (Field (Atom 1) 7))) (Call (Field (Call (Atom 2) [Atom 3; Bin BLt (Atom 4) (Atom 5)]) 8) []))
          (Bin BAnd (Un UNot (Un UNeg (Bin BEq (Atom 6) (Atom 0)))) (Un UNot (Un UNeg (Call (Field (Atom 1) 7) [Atom 2; Un UNeg (Call (Atom 3) [])])))).
Example ex_tree_ok : ok ex_tree = true /\ parse_expr (print ex_tree) = Some ex_tree.
Proof. split; reflexivity. Qed.

(** outside the class the round trip fails in the model exactly as in the implementation (known findings):
    parentheses around an operator callee are not honoured, and a second call or a field access after a
    call under a prefix operator attaches to the prefix expression *)
Example paren_callee_refuted :
  parse_expr (print (Call (Un UNeg (Atom 0)) [Atom 1])) = Some (Un UNeg (Call (Atom 0) [Atom 1])).
Proof. reflexivity. Qed.
Example call_after_call_under_prefix_refuted :
  parse_expr (print (Un UNeg (Call (Call (Atom 0) [Atom 1]) [Atom 2]))) = Some (Call (Un UNeg (Call (Atom 0) [Atom 1])) [Atom 2]).
Proof. reflexivity. Qed.
Example field_after_call_under_prefix_refuted :
  parse_expr (print (Un UNot (Field (Call (Atom 0) [Atom 1]) 9))) = Some (Field (Un UNot (Call (Atom 0) [Atom 1])) 9).
Proof. reflexivity. Qed.
