(** C11 — pinned statements about the parser model *)
From Goml Require Import Common.Base C11.Model.
Open Scope nat_scope.

(** the documented table: binary operators are left-associative (right power = left power + 1),
    the levels are ordered || < && < ==,!= < comparisons < +,- < *,/ < prefix, and calls / field
    access bind tighter than every binary operator *)
Theorem binding_powers_as_documented :
  (forall o, snd (bp o) = S (fst (bp o))) /\
  fst (bp BOr) < fst (bp BAnd) /\ fst (bp BAnd) < fst (bp BEq) /\ fst (bp BEq) = fst (bp BNe) /\
  fst (bp BNe) < fst (bp BLt) /\ fst (bp BLt) = fst (bp BGt) /\ fst (bp BGt) = fst (bp BLe) /\ fst (bp BLe) = fst (bp BGe) /\
  fst (bp BGe) < fst (bp BAdd) /\ fst (bp BAdd) = fst (bp BSub) /\ fst (bp BSub) < fst (bp BMul) /\ fst (bp BMul) = fst (bp BDiv) /\
  (forall o, snd (bp o) < call_bp /\ snd (bp o) < prefix_bp /\ snd (bp o) < fst dot_bp).
Proof.
  split; [intro o; destruct o; reflexivity|].
  repeat (split; [cbn; lia|]).
  intro o; unfold call_bp, prefix_bp, dot_bp; destruct o; cbn; lia.
Qed.
Print Assumptions binding_powers_as_documented.
