(** C11 — model of the expression parser: the Pratt loop of crates/parser/src/expr.rs
    (expr_bp, arg_list, binding powers) producing a CST, and the lowering of
    crates/ast/src/lower.rs (lower_expr_with_args / apply_trailing_args) that re-associates
    postfix calls; and the printer with only the necessary parentheses under the documented
    binding powers.  Atoms stand for identifiers/literals (numbered). *)
From Goml Require Import Common.Base.
Open Scope nat_scope.

Inductive binop := BOr | BAnd | BEq | BNe | BLt | BGt | BLe | BGe | BAdd | BSub | BMul | BDiv.
Inductive unop := UNeg | UNot.

Inductive tok :=
| TAtom (n : nat) | TBin (o : binop) (* every binary operator but '-' *) | TMinus | TBang | TDot | TLP | TRP | TComma.

(** the tree the property talks about (ast::Expr restricted to operators, calls, fields) *)
Inductive expr :=
| Atom (n : nat)
| Un (u : unop) (e : expr)
| Bin (o : binop) (l r : expr)
| Call (f : expr) (args : list expr)
| Field (e : expr) (name : nat).

(** the concrete syntax tree built by the parser events *)
Inductive cst :=
| CAtom (n : nat)
| CPrefix (u : unop) (c : cst)
| CBin (o : binop) (l r : cst)
| CDot (l r : cst)
| CCall (callee : cst) (args : list cst)
| CParen (c : cst).

(** infix_binding_power *)
Definition bp (o : binop) : nat * nat :=
  match o with
  | BOr => (1, 2) | BAnd => (3, 4) | BEq | BNe => (9, 10)
  | BLt | BGt | BLe | BGe => (11, 12) | BAdd | BSub => (13, 14) | BMul | BDiv => (15, 16)
  end.
Definition prefix_bp : nat := 23.
Definition dot_bp : nat * nat := (23, 24).
Definition call_bp : nat := 21.

Definition infix_of (t : tok) : option binop :=
  match t with TBin o => Some o | TMinus => Some BSub | _ => None end.

(** EXPR_FIRST restricted to this fragment *)
Definition expr_first (t : tok) : bool :=
  match t with TAtom _ | TMinus | TBang | TLP => true | _ => false end.

Fixpoint expr_bp (fuel : nat) (min_bp : nat) (ts : list tok) {struct fuel} : option (cst * list tok) :=
  match fuel with
  | O => None
  | S fuel =>
      let lhs :=
        match ts with
        | TMinus :: r => match expr_bp fuel prefix_bp r with Some (c, r') => Some (CPrefix UNeg c, r') | None => None end
        | TBang :: r => match expr_bp fuel prefix_bp r with Some (c, r') => Some (CPrefix UNot c, r') | None => None end
        | TAtom n :: r => Some (CAtom n, r)
        | TLP :: r => match expr_bp fuel 0 r with
                      | Some (c, TRP :: r') => Some (CParen c, r')
                      | _ => None
                      end
        | _ => None
        end in
      match lhs with
      | Some (c, r) => loop fuel min_bp c r
      | None => None
      end
  end
with loop (fuel : nat) (min_bp : nat) (lhs : cst) (ts : list tok) {struct fuel} : option (cst * list tok) :=
  match fuel with
  | O => None
  | S fuel =>
      match ts with
      | TLP :: r =>
          if call_bp <? min_bp then Some (lhs, ts)
          else match args fuel r with
               | Some (a, r') => loop fuel min_bp (CCall lhs a) r'
               | None => None
               end
      | TDot :: r =>
          if fst dot_bp <? min_bp then Some (lhs, ts)
          else match expr_bp fuel (snd dot_bp) r with
               | Some (rhs, r') => loop fuel min_bp (CDot lhs rhs) r'
               | None => None
               end
      | t :: r =>
          match infix_of t with
          | Some o =>
              if fst (bp o) <? min_bp then Some (lhs, ts)
              else match expr_bp fuel (snd (bp o)) r with
                   | Some (rhs, r') => loop fuel min_bp (CBin o lhs rhs) r'
                   | None => None
                   end
          | None => Some (lhs, ts)
          end
      | [] => Some (lhs, ts)
      end
  end
(** after the opening parenthesis: Arg* ')' with Arg = Expr ','? *)
with args (fuel : nat) (ts : list tok) {struct fuel} : option (list cst * list tok) :=
  match fuel with
  | O => None
  | S fuel =>
      match ts with
      | TRP :: r => Some ([], r)
      | t :: _ =>
          if expr_first t then
            match expr_bp fuel 0 ts with
            | Some (c, TComma :: r) => match args fuel r with Some (cs, r') => Some (c :: cs, r') | None => None end
            | Some (c, TRP :: r) => Some ([c], r)
            | _ => None
            end
          else None
      | [] => None
      end
  end.

(** apply_trailing_args *)
Fixpoint apply_trailing (e : expr) (trail : list expr) : expr :=
  match trail with
  | [] => e
  | _ =>
      match e with
      | Atom n => Call (Atom n) trail
      | Call f a => fold_left (fun acc x => Call acc [x]) trail (Call f a)
      | Field x n => Call (Field x n) trail
      | Bin o l r => Bin o l (apply_trailing r trail)
      | Un u x => Un u (apply_trailing x trail)
      end
  end.

(** apply_empty_call: an empty argument list under an operator callee is still a call *)
Fixpoint apply_empty (e : expr) : expr :=
  match e with
  | Un u x => Un u (apply_empty x)
  | Bin o l r => Bin o l (apply_empty r)
  | other => Call other []
  end.

(** lower_expr_with_args; None where the real lowering reports an error *)
Fixpoint lower (fuel : nat) (c : cst) (trail : list expr) {struct fuel} : option expr :=
  match fuel with
  | O => None
  | S fuel =>
      let lower_list := fix go (cs : list cst) : option (list expr) :=
        match cs with
        | [] => Some []
        | x :: r => match lower fuel x [], go r with Some e, Some es => Some (e :: es) | _, _ => None end
        end in
      match c with
      | CAtom n => Some (apply_trailing (Atom n) trail)
      | CParen x => lower fuel x trail
      | CPrefix u x => match lower fuel x [] with Some e => Some (apply_trailing (Un u e) trail) | None => None end
      | CBin o l r => match lower fuel l [], lower fuel r trail with Some l', Some r' => Some (Bin o l' r') | _, _ => None end
      | CDot l r =>
          match lower fuel l [], r with
          | Some l', CAtom name => Some (match trail with [] => Field l' name | _ => Call (Field l' name) trail end)
          | _, _ => None
          end
      | CCall callee a =>
          match lower_list a with
          | None => None
          | Some a' =>
              match callee with
              | CAtom n => Some (apply_trailing (Call (Atom n) a') trail)
              | CCall _ _ | CDot _ _ =>
                  match lower fuel callee [] with Some f => Some (apply_trailing (Call f a') trail) | None => None end
              | _ =>
                  match a' ++ trail with
                  | [] => match lower fuel callee [] with Some e => Some (apply_empty e) | None => None end
                  | l => lower fuel callee l
                  end
              end
          end
      end
  end.

Definition parse_fuel (fuel : nat) (ts : list tok) : option expr :=
  match expr_bp fuel 0 ts with
  | Some (c, []) => lower fuel c []
  | _ => None
  end.

Definition parse_expr (ts : list tok) : option expr := parse_fuel (4 * length ts + 8) ts.

(** the printer: only the necessary parentheses *)
Definition level (e : expr) : nat :=
  match e with Bin o _ _ => fst (bp o) | Un _ _ => prefix_bp | _ => 100 end.

Definition tok_of_bin (o : binop) : tok := match o with BSub => TMinus | _ => TBin o end.
Definition tok_of_un (u : unop) : tok := match u with UNeg => TMinus | UNot => TBang end.

Fixpoint print_at (ctx : nat) (e : expr) : list tok :=
  let body :=
    match e with
    | Atom n => [TAtom n]
    | Un u x => tok_of_un u :: print_at prefix_bp x
    | Bin o l r => print_at (fst (bp o)) l ++ [tok_of_bin o] ++ print_at (snd (bp o)) r
    | Call f a =>
        let fix commas (l : list expr) : list tok :=
          match l with
          | [] => []
          | [x] => print_at 0 x
          | x :: r => print_at 0 x ++ [TComma] ++ commas r
          end in
        print_at 100 f ++ [TLP] ++ commas a ++ [TRP]
    | Field x n => print_at 100 x ++ [TDot; TAtom n]
    end in
  if level e <? ctx then [TLP] ++ body ++ [TRP] else body.

Definition print (e : expr) : list tok := print_at 0 e.

(** decidable equalities used by the correspondence check *)
Definition binop_eqb (a b : binop) : bool :=
  match a, b with
  | BOr, BOr | BAnd, BAnd | BEq, BEq | BNe, BNe | BLt, BLt | BGt, BGt | BLe, BLe | BGe, BGe
  | BAdd, BAdd | BSub, BSub | BMul, BMul | BDiv, BDiv => true
  | _, _ => false
  end.
Definition unop_eqb (a b : unop) : bool := match a, b with UNeg, UNeg | UNot, UNot => true | _, _ => false end.

Fixpoint expr_eqb (a b : expr) : bool :=
  match a, b with
  | Atom n, Atom m => Nat.eqb n m
  | Un u x, Un v y => unop_eqb u v && expr_eqb x y
  | Bin o l r, Bin p l' r' => binop_eqb o p && expr_eqb l l' && expr_eqb r r'
  | Call f a, Call g b' =>
      expr_eqb f g &&
      (fix go (x y : list expr) : bool :=
         match x, y with
         | [], [] => true
         | p :: x', q :: y' => expr_eqb p q && go x' y'
         | _, _ => false
         end) a b'
  | Field x n, Field y m => expr_eqb x y && Nat.eqb n m
  | _, _ => false
  end.

Definition tok_eqb (a b : tok) : bool :=
  match a, b with
  | TAtom n, TAtom m => Nat.eqb n m
  | TBin o, TBin p => binop_eqb o p
  | TMinus, TMinus | TBang, TBang | TDot, TDot | TLP, TLP | TRP, TRP | TComma, TComma => true
  | _, _ => false
  end.
Fixpoint list_tok_eqb (a b : list tok) : bool :=
  match a, b with
  | [], [] => true
  | x :: a', y :: b' => tok_eqb x y && list_tok_eqb a' b'
  | _, _ => false
  end.

Fixpoint bad_idx_from (i : nat) (l : list bool) : list nat :=
  match l with [] => [] | true :: r => bad_idx_from (S i) r | false :: r => i :: bad_idx_from (S i) r end.
Definition bad_idx (l : list bool) : list nat := bad_idx_from 0 l.
