(** C11 — printing a tree with only the necessary parentheses and parsing it back (Pratt loop +
    lowering) yields the same tree, for every tree in the class [ok]. *)
From Goml Require Import Common.Base C11.Model.
Open Scope nat_scope.

(** induction principle through argument lists *)
Section ExprInd.
Variable P : expr -> Prop.
Hypothesis HAtom : forall n, P (Atom n).
Hypothesis HUn : forall u x, P x -> P (Un u x).
Hypothesis HBin : forall o l r, P l -> P r -> P (Bin o l r).
Hypothesis HCall : forall f a, P f -> Forall P a -> P (Call f a).
Hypothesis HField : forall x n, P x -> P (Field x n).
Fixpoint expr_ind' (e : expr) : P e :=
  let fix all (l : list expr) : Forall P l :=
    match l with [] => Forall_nil P | x :: r => Forall_cons x (expr_ind' x) (all r) end in
  match e with
  | Atom n => HAtom n
  | Un u x => HUn u x (expr_ind' x)
  | Bin o l r => HBin o l r (expr_ind' l) (expr_ind' r)
  | Call f a => HCall f a (expr_ind' f) (all a)
  | Field x n => HField x n (expr_ind' x)
  end.
End ExprInd.

(** "for all sufficiently large fuel" *)
Definition EV {A} (X : nat -> option A) (r : A) : Prop := exists f0, forall f, f0 <= f -> X f = Some r.

Lemma EV_shift {A} (X : nat -> option A) r : EV X r -> EV (fun f => X (pred f)) r.
Proof. intros [f0 H]. exists (S f0). intros f Hf. apply H. lia. Qed.

(** left binding power of a token that continues the loop *)
Definition lbp (t : tok) : option nat :=
  match t with
  | TLP => Some call_bp
  | TDot => Some (fst dot_bp)
  | _ => match infix_of t with Some o => Some (fst (bp o)) | None => None end
  end.

(** the next token does not continue a loop running at [k] *)
Definition stops (k : nat) (rest : list tok) : Prop :=
  match rest with [] => True | t :: _ => match lbp t with Some l => l < k | None => True end end.

Lemma stops_mono k k' rest : stops k rest -> k <= k' -> stops k' rest.
Proof. unfold stops. destruct rest as [|t r]; [auto|]. destruct (lbp t); [lia|auto]. Qed.

Lemma loop_stop m lhs rest : stops m rest -> forall f, 1 <= f -> loop f m lhs rest = Some (lhs, rest).
Proof.
  intros Hs f Hf. destruct f as [|f]; [lia|].
  destruct rest as [|t r]; [reflexivity|].
  unfold stops, lbp in Hs.
  destruct t; cbn [loop infix_of] in *; try reflexivity.
  - (* TBin *) destruct (Nat.ltb_spec (fst (bp o)) m); [reflexivity|lia].
  - (* TMinus *) destruct (Nat.ltb_spec (fst (bp BSub)) m); [reflexivity|lia].
  - (* TDot *) destruct (Nat.ltb_spec (fst dot_bp) m); [reflexivity|lia].
  - (* TLP *) destruct (Nat.ltb_spec call_bp m); [reflexivity|lia].
Qed.

(** a callee without a call on its postfix chain: an atom or a field chain (objects may be parenthesised) *)
Fixpoint cfree (x : expr) : bool :=
  match x with
  | Atom _ => true
  | Field y _ => (level y <? 100) || cfree y
  | _ => false
  end.

(** a chain of prefix operators ending in one call of such a callee: [-f(x)], [!-a.b(x, y)] *)
Fixpoint ends_call (x : expr) : bool :=
  match x with
  | Call f _ => cfree f
  | Un _ y => ends_call y
  | _ => false
  end.

(** the concrete tree the parser builds for the printed form; a call gets less binding power than a
    prefix operator, so [-f(x)] is read as a call whose callee is [-f] *)
Fixpoint cst0 (e : expr) : cst :=
  let w := fun (c : nat) (x : expr) => if level x <? c then CParen (cst0 x) else cst0 x in
  match e with
  | Atom n => CAtom n
  | Un u x =>
      if ends_call x then match cst0 x with CCall c a => CCall (CPrefix u c) a | c => CPrefix u c end
      else CPrefix u (if level x <? prefix_bp then CParen (cst0 x) else cst0 x)
  | Bin o l r => CBin o (if level l <? fst (bp o) then CParen (cst0 l) else cst0 l)
                        (if level r <? snd (bp o) then CParen (cst0 r) else cst0 r)
  | Call f a => CCall (if level f <? 100 then CParen (cst0 f) else cst0 f)
                      ((fix go (l : list expr) : list cst := match l with [] => [] | x :: r => cst0 x :: go r end) a)
  | Field x n => CDot (if level x <? 100 then CParen (cst0 x) else cst0 x) (CAtom n)
  end.

Definition wrapc (c : nat) (x : expr) : cst := if level x <? c then CParen (cst0 x) else cst0 x.

(** the highest [min_bp] at which the parser still reads the whole (unparenthesised) expression *)
Fixpoint plevel (e : expr) : nat :=
  match e with
  | Atom _ => 100
  | Un _ x => if ends_call x then 21 else 23
  | Bin o _ _ => fst (bp o)
  | Field x _ => Nat.min 23 (if level x <? 100 then 100 else plevel x)
  | Call f _ => Nat.min 21 (if level f <? 100 then 100 else plevel f)
  end.
Definition plw (c : nat) (x : expr) : nat := if level x <? c then 100 else plevel x.

(** the next token must bind weaker than this for the expression to end where its text ends *)
Definition R (e : expr) : nat := match e with Bin o _ _ => snd (bp o) | Un _ x => if ends_call x then 101 else 21 | _ => 101 end.
Definition Rw (c : nat) (x : expr) : nat := if level x <? c then 101 else R x.

(** the class of trees covered: a callee is an atom, a call or a field access (parentheses around an
    operator callee are not honoured by lowering); the operand of a prefix operator either has no call
    on its postfix chain, or is (a chain of prefix operators over) one call of a call-free callee *)
Fixpoint ok (e : expr) : bool :=
  match e with
  | Atom _ => true
  | Un _ x => ok x && (ends_call x || (23 <=? plw prefix_bp x))
  | Bin _ l r => ok l && ok r
  | Call f a => ok f && (100 <=? level f) && (fix go (l : list expr) : bool := match l with [] => true | x :: r => ok x && go r end) a
  | Field x _ => ok x
  end.

Lemma level_le_100 e : level e <= 100.
Proof. destruct e as [n|u x|o l r|f a|x n]; cbn; unfold prefix_bp; try lia. destruct o; cbn; lia. Qed.

Lemma bp_bounds o : 1 <= fst (bp o) /\ fst (bp o) <= 15 /\ snd (bp o) = S (fst (bp o)).
Proof. destruct o; cbn; lia. Qed.

Lemma print_at_unfold c e : print_at c e = if level e <? c then [TLP] ++ print_at 0 e ++ [TRP] else print_at 0 e.
Proof.
  destruct e; cbn [print_at]; rewrite ?Nat.ltb_irrefl;
    repeat match goal with |- context [?x <? 0] => replace (x <? 0) with false by (symmetry; apply Nat.ltb_ge; lia) end;
    reflexivity.
Qed.

(** atom-like expressions bind at least as tightly as a call *)
Lemma plevel_atomlike e : 100 <= level e -> 21 <= plevel e.
Proof.
  induction e as [n|u x IHx|o l r IHl IHr|f a IHf IHa|x n IHx] using expr_ind'; cbn [plevel level]; intros Hl; try lia.
  - destruct (ends_call x); lia.
  - destruct (Nat.ltb_spec (level f) 100); [lia|]. specialize (IHf ltac:(lia)). lia.
  - destruct (Nat.ltb_spec (level x) 100); [lia|]. specialize (IHx ltac:(lia)). lia.
Qed.

Lemma plevel_ge c e : c <= level e -> c <= 16 -> c <= plevel e.
Proof.
  intros Hl Hc. destruct e as [n|u x|o l r|f a|x n]; cbn [plevel level] in *; try lia.
  - destruct (ends_call x); lia.
  - destruct (Nat.ltb_spec (level f) 100).
    + lia.
    + pose proof (plevel_atomlike f ltac:(lia)). lia.
  - destruct (Nat.ltb_spec (level x) 100).
    + lia.
    + pose proof (plevel_atomlike x ltac:(lia)). lia.
Qed.

Lemma R_ge c e : c <= level e -> c <= 16 -> c < R e.
Proof. intros Hl Hc. destruct e as [n|u x|o l r|f a|x n]; cbn [R level] in *; try lia. destruct (ends_call x); lia. pose proof (bp_bounds o). lia. Qed.

(** ** one-step unfoldings of the parser, as rewriting lemmas *)
Lemma expr_bp_atom f m n r : expr_bp (S f) m (TAtom n :: r) = loop f m (CAtom n) r.
Proof. reflexivity. Qed.

Lemma expr_bp_lp f m r c r' :
  expr_bp f 0 r = Some (c, TRP :: r') -> expr_bp (S f) m (TLP :: r) = loop f m (CParen c) r'.
Proof. intros H. cbn [expr_bp]. rewrite H. reflexivity. Qed.

Lemma expr_bp_prefix f m u r c r' :
  expr_bp f prefix_bp r = Some (c, r') -> expr_bp (S f) m (tok_of_un u :: r) = loop f m (CPrefix u c) r'.
Proof. intros H. destruct u; cbn [expr_bp tok_of_un]; rewrite H; reflexivity. Qed.

Lemma loop_infix f m lhs o r rhs r' :
  fst (bp o) <? m = false -> expr_bp f (snd (bp o)) r = Some (rhs, r') ->
  loop (S f) m lhs (tok_of_bin o :: r) = loop f m (CBin o lhs rhs) r'.
Proof.
  intros Hm H. destruct o; cbn [loop tok_of_bin infix_of] in *; rewrite Hm, H; reflexivity.
Qed.

Lemma loop_dot f m lhs r rhs r' :
  fst dot_bp <? m = false -> expr_bp f (snd dot_bp) r = Some (rhs, r') ->
  loop (S f) m lhs (TDot :: r) = loop f m (CDot lhs rhs) r'.
Proof. intros Hm H. cbn [loop]. rewrite Hm, H. reflexivity. Qed.

Lemma loop_call f m lhs r a r' :
  call_bp <? m = false -> args f r = Some (a, r') ->
  loop (S f) m lhs (TLP :: r) = loop f m (CCall lhs a) r'.
Proof. intros Hm H. cbn [loop]. rewrite Hm, H. reflexivity. Qed.

Lemma args_rp f r : args (S f) (TRP :: r) = Some ([], r).
Proof. reflexivity. Qed.

Lemma args_one f t ts c r :
  expr_first t = true -> expr_bp f 0 (t :: ts) = Some (c, TRP :: r) -> args (S f) (t :: ts) = Some ([c], r).
Proof. intros Ht H. destruct t; try discriminate Ht; cbn [args expr_first]; rewrite H; reflexivity. Qed.

Lemma args_more f t ts c r cs r' :
  expr_first t = true -> expr_bp f 0 (t :: ts) = Some (c, TComma :: r) -> args f r = Some (cs, r') ->
  args (S f) (t :: ts) = Some (c :: cs, r').
Proof. intros Ht H H2. destruct t; try discriminate Ht; cbn [args expr_first]; rewrite H, H2; reflexivity. Qed.

(** ** the same steps for "all sufficiently large fuel" *)
Ltac ev2 H1 H2 :=
  let f1 := fresh "f" in let f2 := fresh "f" in let G1 := fresh "G" in let G2 := fresh "G" in
  destruct H1 as [f1 G1]; destruct H2 as [f2 G2]; exists (S (Nat.max f1 f2));
  let f := fresh "f" in let Hf := fresh "Hf" in intros f Hf; destruct f as [|f]; [lia|].

Lemma ev_expr_atom m n r res :
  EV (fun f => loop f m (CAtom n) r) res -> EV (fun f => expr_bp f m (TAtom n :: r)) res.
Proof. intros [f1 G]. exists (S f1). intros f Hf. destruct f as [|f]; [lia|]. rewrite expr_bp_atom. apply G. lia. Qed.

Lemma ev_expr_lp m r c r' res :
  EV (fun f => expr_bp f 0 r) (c, TRP :: r') -> EV (fun f => loop f m (CParen c) r') res ->
  EV (fun f => expr_bp f m (TLP :: r)) res.
Proof. intros H1 H2. ev2 H1 H2. rewrite (expr_bp_lp _ _ _ c r'); [apply G0; lia|apply G; lia]. Qed.

Lemma ev_expr_prefix m u r c r' res :
  EV (fun f => expr_bp f prefix_bp r) (c, r') -> EV (fun f => loop f m (CPrefix u c) r') res ->
  EV (fun f => expr_bp f m (tok_of_un u :: r)) res.
Proof. intros H1 H2. ev2 H1 H2. rewrite (expr_bp_prefix _ _ _ _ c r'); [apply G0; lia|apply G; lia]. Qed.

Lemma ev_loop_infix m lhs o r rhs r' res :
  fst (bp o) <? m = false ->
  EV (fun f => expr_bp f (snd (bp o)) r) (rhs, r') -> EV (fun f => loop f m (CBin o lhs rhs) r') res ->
  EV (fun f => loop f m lhs (tok_of_bin o :: r)) res.
Proof. intros Hm H1 H2. ev2 H1 H2. rewrite (loop_infix _ _ _ _ _ rhs r' Hm); [apply G0; lia|apply G; lia]. Qed.

Lemma ev_loop_dot m lhs r rhs r' res :
  fst dot_bp <? m = false ->
  EV (fun f => expr_bp f (snd dot_bp) r) (rhs, r') -> EV (fun f => loop f m (CDot lhs rhs) r') res ->
  EV (fun f => loop f m lhs (TDot :: r)) res.
Proof. intros Hm H1 H2. ev2 H1 H2. rewrite (loop_dot _ _ _ _ rhs r' Hm); [apply G0; lia|apply G; lia]. Qed.

Lemma ev_loop_call m lhs r a r' res :
  call_bp <? m = false ->
  EV (fun f => args f r) (a, r') -> EV (fun f => loop f m (CCall lhs a) r') res ->
  EV (fun f => loop f m lhs (TLP :: r)) res.
Proof. intros Hm H1 H2. ev2 H1 H2. rewrite (loop_call _ _ _ _ a r' Hm); [apply G0; lia|apply G; lia]. Qed.

Lemma ev_args_rp r : EV (fun f => args f (TRP :: r)) ([], r).
Proof. exists 1. intros f Hf. destruct f as [|f]; [lia|]. apply args_rp. Qed.

Lemma ev_args_one t ts c r :
  expr_first t = true -> EV (fun f => expr_bp f 0 (t :: ts)) (c, TRP :: r) -> EV (fun f => args f (t :: ts)) ([c], r).
Proof. intros Ht [f1 G]. exists (S f1). intros f Hf. destruct f as [|f]; [lia|]. apply args_one; [exact Ht|apply G; lia]. Qed.

Lemma ev_args_more t ts c r cs r' :
  expr_first t = true -> EV (fun f => expr_bp f 0 (t :: ts)) (c, TComma :: r) -> EV (fun f => args f r) (cs, r') ->
  EV (fun f => args f (t :: ts)) (c :: cs, r').
Proof. intros Ht H1 H2. ev2 H1 H2. apply (args_more _ _ _ c r cs r' Ht); [apply G; lia|apply G0; lia]. Qed.

Lemma ev_loop_stop m lhs rest : stops m rest -> EV (fun f => loop f m lhs rest) (lhs, rest).
Proof. intros H. exists 1. intros f Hf. apply loop_stop; assumption. Qed.

(** ** equations of the printer *)
Fixpoint commas (l : list expr) : list tok :=
  match l with
  | [] => []
  | [x] => print_at 0 x
  | x :: r => print_at 0 x ++ [TComma] ++ commas r
  end.

Lemma ltb0 n : n <? 0 = false. Proof. apply Nat.ltb_ge. lia. Qed.

Lemma P_atom n : print_at 0 (Atom n) = [TAtom n].
Proof. reflexivity. Qed.
Lemma P_un u x : print_at 0 (Un u x) = tok_of_un u :: print_at prefix_bp x.
Proof. cbn [print_at]. rewrite ltb0. reflexivity. Qed.
Lemma P_bin o l r : print_at 0 (Bin o l r) = print_at (fst (bp o)) l ++ [tok_of_bin o] ++ print_at (snd (bp o)) r.
Proof. cbn [print_at]. rewrite ltb0. reflexivity. Qed.
Lemma P_call f a : print_at 0 (Call f a) = print_at 100 f ++ [TLP] ++ commas a ++ [TRP].
Proof. cbn [print_at]. rewrite ltb0. reflexivity. Qed.
Lemma P_field x n : print_at 0 (Field x n) = print_at 100 x ++ [TDot; TAtom n].
Proof. cbn [print_at]. rewrite ltb0. reflexivity. Qed.

Lemma cst0_call f a : cst0 (Call f a) = CCall (wrapc 100 f) (map cst0 a).
Proof.
  cbn [cst0]. unfold wrapc. f_equal.
Qed.

Lemma ok_call f a : ok (Call f a) = true -> ok f = true /\ 100 <= level f /\ Forall (fun x => ok x = true) a.
Proof.
  cbn [ok]. intros H. apply andb_true_iff in H. destruct H as [H Ha]. apply andb_true_iff in H. destruct H as [Hf Hl].
  apply Nat.leb_le in Hl. repeat split; auto.
  induction a as [|x a IH]; [constructor|]. apply andb_true_iff in Ha. destruct Ha as [Hx Ha]. constructor; auto.
Qed.

(** the printed form starts with a token that can start an expression *)
Lemma head_first e : forall c, exists t r, print_at c e = t :: r /\ expr_first t = true.
Proof.
  assert (paren : forall e c, level e <? c = true -> exists t r, print_at c e = t :: r /\ expr_first t = true).
  { intros e0 c H. rewrite print_at_unfold, H. eexists; eexists; split; reflexivity. }
  induction e as [n|u x IHx|o l r IHl IHr|f a IHf IHa|x n IHx] using expr_ind'; intros c;
    match goal with |- context [print_at c ?e'] => destruct (level e' <? c) eqn:E; [apply paren; exact E|]; rewrite (print_at_unfold c e'), E end.
  - eexists; eexists; split; reflexivity.
  - rewrite P_un. destruct u; eexists; eexists; split; reflexivity.
  - rewrite P_bin. destruct (IHl (fst (bp o))) as [t [q [El Ht]]]. rewrite El. eexists; eexists; split; [reflexivity|exact Ht].
  - rewrite P_call. destruct (IHf 100) as [t [q [El Ht]]]. rewrite El. eexists; eexists; split; [reflexivity|exact Ht].
  - rewrite P_field. destruct (IHx 100) as [t [q [El Ht]]]. rewrite El. eexists; eexists; split; [reflexivity|exact Ht].
Qed.

(** ** the parser reads the printed form *)
Definition Star0 (e : expr) : Prop :=
  ok e = true -> forall m rest res, m <= plevel e -> stops (R e) rest ->
  EV (fun f => loop f m (cst0 e) rest) res -> EV (fun f => expr_bp f m (print_at 0 e ++ rest)) res.

Definition Star (x : expr) : Prop :=
  ok x = true -> forall c m rest res, m <= plw c x -> stops (Rw c x) rest ->
  EV (fun f => loop f m (wrapc c x) rest) res -> EV (fun f => expr_bp f m (print_at c x ++ rest)) res.

Lemma star_of_star0 x : Star0 x -> Star x.
Proof.
  intros S0 Hok c m rest res Hm Hs Hl. rewrite print_at_unfold. unfold plw, Rw, wrapc in *.
  destruct (Nat.ltb_spec (level x) c).
  - cbn [app]. rewrite <- app_assoc. cbn [app].
    eapply ev_expr_lp; [|exact Hl].
    apply (S0 Hok 0 (TRP :: rest)); [lia|exact I|apply ev_loop_stop; exact I].
  - apply (S0 Hok m rest res); assumption.
Qed.

(** reading an argument list *)
Lemma args_read (a : list expr) rest :
  Forall (fun x => ok x = true) a -> Forall Star a ->
  EV (fun f => args f (commas a ++ TRP :: rest)) (map cst0 a, rest).
Proof.
  intros Hok HS. revert Hok. induction HS as [|x a Sx Sa IH]; intros Hok.
  - apply ev_args_rp.
  - inversion Hok as [|? ? Okx Oka]; subst. destruct a as [|y a].
    + cbn [commas map]. destruct (head_first x 0) as [t [q [E Ht]]].
      assert (G : EV (fun f => expr_bp f 0 (print_at 0 x ++ TRP :: rest)) (cst0 x, TRP :: rest)).
      { pose proof (Sx Okx 0 0 (TRP :: rest) (cst0 x, TRP :: rest)) as G. unfold plw, Rw, wrapc in G. rewrite ltb0 in G.
        apply G; [lia|exact I|apply ev_loop_stop; exact I]. }
      rewrite E in *. cbn [app] in *. apply ev_args_one; assumption.
    + change (commas (x :: y :: a)) with (print_at 0 x ++ [TComma] ++ commas (y :: a)).
      rewrite <- app_assoc. cbn [app].
      destruct (head_first x 0) as [t [q [E Ht]]].
      assert (G : EV (fun f => expr_bp f 0 (print_at 0 x ++ TComma :: commas (y :: a) ++ TRP :: rest)) (cst0 x, TComma :: commas (y :: a) ++ TRP :: rest)).
      { pose proof (Sx Okx 0 0 (TComma :: commas (y :: a) ++ TRP :: rest) (cst0 x, TComma :: commas (y :: a) ++ TRP :: rest)) as G.
        unfold plw, Rw, wrapc in G. rewrite ltb0 in G.
        apply G; [lia|exact I|apply ev_loop_stop; exact I]. }
      rewrite E in *. cbn [app] in *. cbn [map]. eapply ev_args_more; [exact Ht|exact G|].
      apply IH. exact Oka.
Qed.

Lemma ok_un u x : ok (Un u x) = true -> ok x = true /\ (ends_call x = true \/ (ends_call x = false /\ 23 <= plw prefix_bp x)).
Proof.
  cbn [ok]. intros H. apply andb_true_iff in H. destruct H as [H1 H2]. split; [exact H1|].
  destruct (ends_call x); [left; reflexivity|right]. rewrite orb_false_l in H2. apply Nat.leb_le in H2. auto.
Qed.
Lemma ok_bin o l r : ok (Bin o l r) = true -> ok l = true /\ ok r = true.
Proof. cbn [ok]. intros H. apply andb_true_iff in H. exact H. Qed.

Lemma plw_bin c x : c <= 16 -> c <= plw c x.
Proof.
  intros Hc. unfold plw. destruct (Nat.ltb_spec (level x) c); [lia|]. apply plevel_ge; assumption.
Qed.

Lemma Rw_gt c x : c <= 16 -> c < Rw c x.
Proof. intros Hc. unfold Rw. destruct (Nat.ltb_spec (level x) c); [lia|]. apply R_ge; assumption. Qed.

(** call-free callees are atom-like and are read whole at the power of a prefix operator *)
Lemma cfree_props x : cfree x = true -> 100 <= level x /\ 23 <= plevel x /\ R x = 101.
Proof.
  induction x as [n|u x IHx|o l r IHl IHr|f a IHf IHa|x n IHx] using expr_ind'; cbn [cfree level plevel R]; try discriminate; intros H.
  - lia.
  - apply orb_true_iff in H. destruct (Nat.ltb_spec (level x) 100); [lia|].
    destruct H as [H|H]; [discriminate|]. destruct (IHx H) as [_ [P _]]. lia.
Qed.

(** the callee part and the arguments of a prefix chain that ends in a call *)
Fixpoint pre (x : expr) : cst :=
  match x with Call f _ => cst0 f | Un v y => CPrefix v (pre y) | _ => CAtom 0 end.
Fixpoint fargs (x : expr) : list expr :=
  match x with Call _ a => a | Un _ y => fargs y | _ => [] end.
Fixpoint base (x : expr) : expr :=
  match x with Call f _ => f | Un v y => Un v (base y) | _ => x end.

Lemma cst0_ec x : ends_call x = true -> cst0 x = CCall (pre x) (map cst0 (fargs x)).
Proof.
  induction x as [n|u x IHx|o l r IHl IHr|f a IHf IHa|x n IHx] using expr_ind'; cbn [ends_call]; try discriminate; intros H.
  - cbn [cst0 pre fargs]. rewrite H, (IHx H). reflexivity.
  - rewrite cst0_call. cbn [pre fargs]. unfold wrapc.
    destruct (cfree_props f H) as [L _]. replace (level f <? 100) with false by (symmetry; apply Nat.ltb_ge; exact L). reflexivity.
Qed.

Lemma print_ec x : ends_call x = true -> print_at prefix_bp x = print_at 0 x.
Proof.
  intros H. rewrite print_at_unfold. destruct x as [n|u x0|o l r|f a|x0 n]; cbn [ends_call] in H; try discriminate; cbn [level]; unfold prefix_bp; reflexivity.
Qed.

Lemma ok_ec_args x : ends_call x = true -> ok x = true -> Forall (fun y => ok y = true) (fargs x).
Proof.
  induction x as [n|u x IHx|o l r IHl IHr|f a IHf IHa|x n IHx] using expr_ind'; cbn [ends_call fargs]; try discriminate; intros H Hok.
  - apply ok_un in Hok. apply IHx; tauto.
  - apply ok_call in Hok. tauto.
Qed.

(** reading a prefix chain that ends in a call, at the power of a prefix operator, stops before the call *)
Definition StarC (x : expr) : Prop :=
  ends_call x = true -> ok x = true -> forall rest,
  EV (fun f => expr_bp f prefix_bp (print_at 0 x ++ rest)) (pre x, TLP :: commas (fargs x) ++ TRP :: rest).

Lemma stops_lp k rest : call_bp < k -> stops k (TLP :: rest).
Proof. intros H. unfold stops, lbp. exact H. Qed.

Theorem star0_all : forall e, Star0 e /\ StarC e /\ Forall Star (fargs e).
Proof.
  induction e as [n|u x IHx|o l r IHl IHr|f a IHf IHa|x n IHx] using expr_ind'.
  - (* atom *) split; [|split; [intros H; discriminate H|constructor]].
    intros Hok m rest res Hm Hs Hl. rewrite P_atom. cbn [app]. apply ev_expr_atom. exact Hl.
  - (* prefix *)
    destruct IHx as [S0x [SCx SAx]].
    assert (SC : StarC (Un u x)).
    { intros Hec Hok rest. cbn [ends_call] in Hec. apply ok_un in Hok. destruct Hok as [Okx _].
      rewrite P_un, (print_ec x Hec). cbn [app pre fargs].
      eapply ev_expr_prefix; [apply (SCx Hec Okx rest)|].
      apply ev_loop_stop. apply stops_lp. unfold call_bp, prefix_bp. lia. }
    split; [|split; [exact SC|exact SAx]].
    intros Hok m rest res Hm Hs Hl.
    pose proof Hok as Hok'. apply ok_un in Hok. destruct Hok as [Okx [Hec|[Hec Hp]]].
    + (* the operand ends in a call: the call is read by the enclosing loop *)
      cbn [plevel] in Hm. rewrite Hec in Hm.
      rewrite (cst0_ec (Un u x)) in Hl by exact Hec.
      pose proof (SC Hec Hok' rest) as G. cbn [pre fargs] in *.
      destruct G as [f1 G1].
      assert (A : EV (fun f => args f (commas (fargs x) ++ TRP :: rest)) (map cst0 (fargs x), rest)).
      { apply args_read; [apply ok_ec_args; assumption|exact SAx]. }
      assert (L : EV (fun f => loop f m (CPrefix u (pre x)) (TLP :: commas (fargs x) ++ TRP :: rest)) res).
      { eapply ev_loop_call; [apply Nat.ltb_ge; unfold call_bp; lia|exact A|exact Hl]. }
      (* expr_bp at m behaves like expr_bp at prefix_bp up to the first loop: redo the prefix step *)
      rewrite P_un, (print_ec x Hec). cbn [app].
      eapply ev_expr_prefix; [apply (SCx Hec Okx)|exact L].
    + cbn [plevel R] in *. rewrite Hec in *. cbn [cst0] in Hl. rewrite Hec in Hl.
      rewrite P_un. cbn [app].
      eapply ev_expr_prefix; [|exact Hl].
      apply (star_of_star0 x S0x Okx prefix_bp prefix_bp rest).
      * unfold prefix_bp in *. lia.
      * unfold Rw. destruct (Nat.ltb_spec (level x) prefix_bp).
        -- eapply stops_mono; [exact Hs|lia].
        -- destruct x as [n0|u0 x0|o0 l0 r0|f0 a0|x0 n0]; cbn [R]; try (eapply stops_mono; [exact Hs|lia]).
           ++ destruct (ends_call x0); eapply stops_mono; try exact Hs; lia.
           ++ cbn [level] in *. pose proof (bp_bounds o0). unfold prefix_bp in *. lia.
      * apply ev_loop_stop. eapply stops_mono; [exact Hs|unfold prefix_bp; lia].
  - (* binary *)
    destruct IHl as [S0l _]. destruct IHr as [S0r _].
    split; [|split; [intros H; discriminate H|constructor]].
    intros Hok m rest res Hm Hs Hl.
    apply ok_bin in Hok. destruct Hok as [Okl Okr].
    pose proof (bp_bounds o) as [B1 [B2 B3]].
    cbn [plevel] in Hm. cbn [R] in Hs.
    rewrite P_bin. rewrite <- app_assoc. cbn [app].
    apply (star_of_star0 l S0l Okl (fst (bp o)) m).
    + pose proof (plw_bin (fst (bp o)) l ltac:(lia)). lia.
    + pose proof (Rw_gt (fst (bp o)) l ltac:(lia)) as G.
      unfold stops, lbp. destruct o; cbn [tok_of_bin infix_of bp fst] in *; lia.
    + eapply ev_loop_infix.
      * apply Nat.ltb_ge. exact Hm.
      * apply (star_of_star0 r S0r Okr (snd (bp o)) (snd (bp o)) rest).
        -- apply plw_bin. lia.
        -- pose proof (Rw_gt (snd (bp o)) r ltac:(lia)). eapply stops_mono; [exact Hs|lia].
        -- apply ev_loop_stop. exact Hs.
      * cbn [cst0] in Hl. unfold wrapc. exact Hl.
  - (* call *)
    destruct IHf as [S0f _].
    assert (SA : Forall Star a).
    { eapply Forall_impl; [|exact IHa]. intros y [Hy _]. apply star_of_star0. exact Hy. }
    assert (SC : StarC (Call f a)).
    { intros Hec Hok rest. cbn [ends_call] in Hec. destruct (cfree_props f Hec) as [Lf [Pf Rf]].
      apply ok_call in Hok. destruct Hok as [Okf _].
      rewrite P_call. rewrite <- app_assoc. cbn [app]. rewrite <- app_assoc. cbn [app pre fargs].
      apply (star_of_star0 f S0f Okf 100 prefix_bp).
      - unfold plw. replace (level f <? 100) with false by (symmetry; apply Nat.ltb_ge; exact Lf). unfold prefix_bp. lia.
      - unfold Rw. replace (level f <? 100) with false by (symmetry; apply Nat.ltb_ge; exact Lf). rewrite Rf. apply stops_lp. unfold call_bp. lia.
      - unfold wrapc. replace (level f <? 100) with false by (symmetry; apply Nat.ltb_ge; exact Lf).
        apply ev_loop_stop. apply stops_lp. unfold call_bp, prefix_bp. lia. }
    split; [|split; [exact SC|exact SA]].
    intros Hok m rest res Hm Hs Hl.
    apply ok_call in Hok. destruct Hok as [Okf [Lf Oka]].
    rewrite cst0_call in Hl. cbn [plevel] in Hm.
    assert (Ef : level f <? 100 = false) by (apply Nat.ltb_ge; exact Lf).
    rewrite Ef in Hm.
    rewrite P_call. rewrite <- app_assoc. cbn [app]. rewrite <- app_assoc. cbn [app].
    apply (star_of_star0 f S0f Okf 100 m).
    + unfold plw. rewrite Ef. lia.
    + unfold Rw. rewrite Ef. destruct f as [n0|u0 x0|o0 l0 r0|f0 a0|x0 n0]; cbn [R level] in *;
        try (unfold stops, lbp, call_bp; cbn; lia).
      * unfold prefix_bp in Lf. lia.
      * pose proof (bp_bounds o0). lia.
    + eapply ev_loop_call.
      * apply Nat.ltb_ge. unfold call_bp. lia.
      * apply args_read; [exact Oka|exact SA].
      * exact Hl.
  - (* field *)
    destruct IHx as [S0x _].
    split; [|split; [intros H; discriminate H|constructor]].
    intros Hok m rest res Hm Hs Hl.
    cbn [ok] in Hok. cbn [plevel] in Hm.
    rewrite P_field. rewrite <- app_assoc. cbn [app].
    apply (star_of_star0 x S0x Hok 100 m).
    + unfold plw. destruct (Nat.ltb_spec (level x) 100); lia.
    + unfold Rw. destruct (Nat.ltb_spec (level x) 100); [unfold stops, lbp, dot_bp; cbn; lia|].
      destruct x as [n0|u0 x0|o0 l0 r0|f0 a0|x0 n0]; cbn [R level] in *;
        try (unfold stops, lbp, dot_bp; cbn; lia).
      * unfold prefix_bp in *. lia.
      * pose proof (bp_bounds o0). lia.
    + eapply ev_loop_dot.
      * apply Nat.ltb_ge. unfold dot_bp. cbn [fst]. lia.
      * unfold dot_bp. cbn [snd]. apply ev_expr_atom. apply ev_loop_stop.
        unfold stops. destruct rest as [|t q]; [exact I|]. destruct (lbp t) eqn:E; [|exact I].
        unfold lbp in E. destruct t; cbn in E; try discriminate; inversion E; subst; try (unfold call_bp; lia); try (unfold dot_bp; cbn; lia).
        pose proof (bp_bounds o). lia.
      * cbn [cst0] in Hl. unfold wrapc. exact Hl.
Qed.

(** ** lowering the parser's tree gives the tree back *)
Definition lower_list (f : nat) : list cst -> option (list expr) :=
  fix go (cs : list cst) : option (list expr) :=
    match cs with
    | [] => Some []
    | x :: r => match lower f x [], go r with Some e, Some es => Some (e :: es) | _, _ => None end
    end.

Lemma lower_atom f n : lower (S f) (CAtom n) [] = Some (Atom n).
Proof. reflexivity. Qed.
Lemma lower_paren f c trail : lower (S f) (CParen c) trail = lower f c trail.
Proof. reflexivity. Qed.
Lemma lower_prefix f u c e : lower f c [] = Some e -> lower (S f) (CPrefix u c) [] = Some (Un u e).
Proof. intros H. cbn [lower]. rewrite H. reflexivity. Qed.
Lemma lower_bin f o l r l' r' : lower f l [] = Some l' -> lower f r [] = Some r' -> lower (S f) (CBin o l r) [] = Some (Bin o l' r').
Proof. intros H1 H2. cbn [lower]. rewrite H1, H2. reflexivity. Qed.
Lemma lower_dot f l n l' : lower f l [] = Some l' -> lower (S f) (CDot l (CAtom n)) [] = Some (Field l' n).
Proof. intros H. cbn [lower]. rewrite H. reflexivity. Qed.

Definition callee_shape (c : cst) : bool := match c with CAtom _ | CCall _ _ | CDot _ _ => true | _ => false end.

Lemma lower_call f c a fe a' :
  callee_shape c = true -> lower f c [] = Some fe -> lower_list f a = Some a' ->
  lower (S f) (CCall c a) [] = Some (Call fe a').
Proof.
  intros Hs Hc Ha. unfold lower_list in Ha. cbn [lower]. rewrite Ha.
  destruct c; try discriminate Hs.
  - (* atom callee *) destruct f as [|f]; [discriminate Hc|]. cbn in Hc. inversion Hc; subst. reflexivity.
  - rewrite Hc. reflexivity.
  - rewrite Hc. reflexivity.
Qed.

Lemma ev_lower_list (a : list expr) :
  Forall (fun x => EV (fun f => lower f (cst0 x) []) x) a -> EV (fun f => lower_list f (map cst0 a)) a.
Proof.
  induction 1 as [|x a Hx Ha IH].
  - exists 0. intros f _. reflexivity.
  - destruct Hx as [f1 G1]. destruct IH as [f2 G2]. exists (Nat.max f1 f2). intros f Hf.
    cbn [map]. unfold lower_list in *. rewrite (G1 f ltac:(lia)). rewrite (G2 f ltac:(lia)). reflexivity.
Qed.

(** the call read after a prefix chain is pushed back under the chain by lowering *)
Lemma lower_call_prefix f u c a e a' :
  lower f c [] = Some e -> lower_list (S f) a = Some a' ->
  lower (S (S f)) (CCall (CPrefix u c) a) [] =
  Some (match a' with [] => apply_empty (Un u e) | _ => apply_trailing (Un u e) a' end).
Proof.
  intros Hc Ha. unfold lower_list in Ha. cbn [lower]. cbn [lower] in Ha. rewrite Ha. rewrite app_nil_r.
  destruct a' as [|y ys]; cbn [lower]; rewrite Hc; reflexivity.
Qed.

Lemma rebuild x :
  ends_call x = true ->
  (match fargs x with [] => apply_empty (base x) | l => apply_trailing (base x) l end) = x.
Proof.
  induction x as [n|u x IHx|o l r IHl IHr|f a IHf IHa|x n IHx] using expr_ind'; cbn [ends_call fargs base]; try discriminate; intros H.
  - specialize (IHx H). destruct (fargs x) as [|y ys]; cbn [apply_empty apply_trailing]; rewrite IHx; reflexivity.
  - destruct f as [n0|u0 x0|o0 l0 r0|f0 a0|x0 n0]; cbn [cfree] in H; try discriminate; destruct a; reflexivity.
Qed.

Theorem lower_all : forall e,
  (ok e = true -> EV (fun f => lower f (cst0 e) []) e) /\
  (ends_call e = true -> ok e = true -> EV (fun f => lower f (pre e) []) (base e)) /\
  Forall (fun x => ok x = true -> EV (fun f => lower f (cst0 x) []) x) (fargs e).
Proof.
  assert (W : forall x c, EV (fun f => lower f (cst0 x) []) x -> EV (fun f => lower f (wrapc c x) []) x).
  { intros x c [f0 G]. unfold wrapc. destruct (level x <? c); [|exists f0; exact G].
    exists (S f0). intros f Hf. destruct f as [|f]; [lia|]. rewrite lower_paren. apply G. lia. }
  induction e as [n|u x IHx|o l r IHl IHr|f a IHf IHa|x n IHx] using expr_ind'.
  - split; [|split; [intros H; discriminate H|constructor]].
    intros _. exists 1. intros f Hf. destruct f as [|f]; [lia|]. apply lower_atom.
  - destruct IHx as [Lx [Px Ax]].
    assert (PU : ends_call (Un u x) = true -> ok (Un u x) = true -> EV (fun f => lower f (pre (Un u x)) []) (base (Un u x))).
    { cbn [ends_call pre base]. intros Hec Hok. apply ok_un in Hok. destruct Hok as [Okx _].
      destruct (Px Hec Okx) as [f0 G]. exists (S f0). intros f Hf. destruct f as [|f]; [lia|]. apply lower_prefix. apply G. lia. }
    split; [|split; [exact PU|exact Ax]].
    intros Hok. pose proof Hok as Hok'. apply ok_un in Hok. destruct Hok as [Okx [Hec|[Hec _]]].
    + rewrite (cst0_ec (Un u x)) by exact Hec. cbn [pre fargs].
      destruct (Px Hec Okx) as [f1 G1].
      assert (HA : Forall (fun y => EV (fun f => lower f (cst0 y) []) y) (fargs x)).
      { pose proof (ok_ec_args x Hec Okx) as OA. clear - Ax OA. induction Ax as [|y a Hy Ha IH]; [constructor|]. inversion OA; subst. constructor; auto. }
      destruct (ev_lower_list _ HA) as [f2 G2].
      exists (S (S (Nat.max f1 f2))). intros g Hg. destruct g as [|[|g]]; try lia.
      rewrite (lower_call_prefix g u (pre x) (map cst0 (fargs x)) (base x) (fargs x)); [|apply G1; lia|apply G2; lia].
      f_equal. pose proof (rebuild x Hec) as RB.
      destruct (fargs x) as [|y ys]; cbn [apply_empty apply_trailing]; rewrite RB; reflexivity.
    + cbn [cst0]. rewrite Hec.
      destruct (W x prefix_bp (Lx Okx)) as [f0 G]. exists (S f0). intros f Hf. destruct f as [|f]; [lia|].
      apply lower_prefix. apply G. lia.
  - destruct IHl as [Ll _]. destruct IHr as [Lr _].
    split; [|split; [intros H; discriminate H|constructor]].
    intros Hok. apply ok_bin in Hok. destruct Hok as [Okl Okr].
    destruct (W l (fst (bp o)) (Ll Okl)) as [f1 G1]. destruct (W r (snd (bp o)) (Lr Okr)) as [f2 G2].
    exists (S (Nat.max f1 f2)). intros f Hf. destruct f as [|f]; [lia|].
    cbn [cst0]. apply lower_bin; [apply G1|apply G2]; lia.
  - destruct IHf as [Lf _].
    assert (LA : Forall (fun x => ok x = true -> EV (fun f => lower f (cst0 x) []) x) a).
    { eapply Forall_impl; [|exact IHa]. intros y [Hy _]. exact Hy. }
    split; [|split; [|exact LA]].
    + intros Hok. apply ok_call in Hok. destruct Hok as [Okf [Lvl Oka]].
      rewrite cst0_call.
      assert (Ef : level f <? 100 = false) by (apply Nat.ltb_ge; exact Lvl).
      unfold wrapc. rewrite Ef.
      destruct (Lf Okf) as [f1 G1].
      assert (HA : Forall (fun x => EV (fun f => lower f (cst0 x) []) x) a).
      { clear - LA Oka. induction LA as [|y a Hy Ha IH]; [constructor|]. inversion Oka; subst. constructor; auto. }
      destruct (ev_lower_list a HA) as [f2 G2].
      exists (S (Nat.max f1 f2)). intros g Hg. destruct g as [|g]; [lia|].
      apply lower_call.
      * destruct f as [n0|u0 x0|o0 l0 r0|f0 a0|x0 n0]; cbn [level] in Lvl; try reflexivity.
        -- unfold prefix_bp in Lvl. lia.
        -- pose proof (bp_bounds o0). lia.
      * apply G1. lia.
      * apply G2. lia.
    + cbn [ends_call pre base]. intros Hec Hok. apply ok_call in Hok. destruct Hok as [Okf _]. exact (Lf Okf).
  - destruct IHx as [Lx _].
    split; [|split; [intros H; discriminate H|constructor]].
    intros Hok. cbn [ok] in Hok. destruct (W x 100 (Lx Hok)) as [f0 G]. exists (S f0). intros f Hf. destruct f as [|f]; [lia|].
    cbn [cst0]. apply lower_dot. apply G. lia.
Qed.

Theorem lower_cst0 : forall e, ok e = true -> EV (fun f => lower f (cst0 e) []) e.
Proof. intros e. exact (proj1 (lower_all e)). Qed.

(** ** print then parse *)
Theorem print_parse_roundtrip :
  forall e, ok e = true -> exists f0, forall f, f0 <= f -> parse_fuel f (print e) = Some e.
Proof.
  intros e Hok.
  assert (P : EV (fun f => expr_bp f 0 (print_at 0 e ++ [])) (cst0 e, [])).
  { apply (proj1 (star0_all e) Hok 0 [] (cst0 e, [])); [lia|exact I|apply ev_loop_stop; exact I]. }
  rewrite app_nil_r in P. destruct P as [f1 G1]. destruct (lower_cst0 e Hok) as [f2 G2].
  exists (Nat.max f1 f2). intros f Hf. unfold parse_fuel, print. rewrite (G1 f ltac:(lia)). apply G2. lia.
Qed.
