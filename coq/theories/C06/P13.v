From Goml Require Import Common.Base C06.Model C06.Spec.
From Coq Require Import Permutation.
From Goml Require Import C06.P1 C06.P2 C06.P3 C06.P4 C06.P5 C06.P8 C06.P9 C06.P10 C06.P11 C06.P12.

Section S.
Variable E : tenv.

Lemma filter_map_in {A B} (f : A -> option B) l b : In b (filter_map f l) -> exists a, In a l /\ f a = Some b.
Proof.
  induction l as [|x l IH]; cbn [filter_map]; [intros []|]. destruct (f x) as [y|] eqn:Fx.
  - intros [<-|H]; [exists x; split; [now left|assumption]|]. destruct (IH H) as (a & Ha & Fa). exists a. split; [now right|assumption].
  - intro H. destruct (IH H) as (a & Ha & Fa). exists a. split; [now right|assumption].
Qed.

Lemma gensyms_list_spec ns : forall s,
  length (fst (gensyms_list ns s)) = length ns /\
  (forall j xs, nth_error (fst (gensyms_list ns s)) j = Some xs ->
     exists n, nth_error ns j = Some n /\ length xs = n /\ NoDup xs /\
               forall x, In x xs -> exists m, x = G m /\ (gen s <= m < gen (snd (gensyms_list ns s)))%N).
Proof.
  induction ns as [|n ns IH]; intro s; cbn [gensyms_list]; [split; [reflexivity|intros [|j] xs H; discriminate]|].
  destruct (gensyms n s) as [xs0 s1] eqn:G1. destruct (gensyms_list ns s1) as [xss s2] eqn:G2. cbn [fst snd].
  destruct (IH s1) as [L N]. rewrite G2 in L, N. cbn [fst snd] in L, N.
  pose proof (gensyms_le n s) as Le1. rewrite G1 in Le1. cbn [snd] in Le1.
  pose proof (gensyms_list_le ns s1) as Le2. rewrite G2 in Le2. cbn [snd] in Le2.
  split; [cbn; now rewrite L|]. intros [|j] xs H; cbn [nth_error] in *.
  - injection H as <-. exists n. split; [reflexivity|].
    pose proof (gensyms_length n s) as Hl. pose proof (gensyms_nodup n s) as Hn. rewrite G1 in Hl, Hn. cbn [fst] in Hl, Hn.
    repeat split; auto. intros x Hx. pose proof (gensyms_in n s x) as Hi. rewrite G1 in Hi. destruct (Hi Hx) as (m & -> & Hm).
    exists m. split; [reflexivity|]. destruct (gensyms_spec n s) as (_ & Hg & _). rewrite G1 in Hg. cbn [snd] in Hg. destruct Le2. lia.
  - destruct (N j xs H) as (n' & Hn' & Hl & Hd & Hr). exists n'. repeat split; auto. intros x Hx. destruct (Hr x Hx) as (m & -> & Hm).
    exists m. split; [reflexivity|]. destruct Le1. lia.
Qed.

Section Enum.
Variables (Gam : tyenv) (rows : list row) (s : st) (rho : venv) (v : name) (e : N) (variants : list (list ty)).
Hypothesis W : WF E Gam rows s rho.
Hypothesis St : stripped rows.
Hypothesis Gv : Gam v = Some (TyEnum e).
Hypothesis Hvar : nth_error (enums E) (N.to_nat e) = Some variants.
Let vars := fst (gensyms_list (map (@length ty) variants) s).
Let s1 := snd (gensyms_list (map (@length ty) variants) s).
Variables (idx : N) (vs : list value) (args : list ty).
Hypothesis Lv : lookup v rho = Some (VEnum e idx vs).
Hypothesis Hargs : nth_error variants (N.to_nat idx) = Some args.
Hypothesis Hvs : Forall2 (val_ok E) vs args.
Let xs := nth (N.to_nat idx) vars [].
Let rho' := ext_env xs vs rho.
Let Gam' := ext_ty xs args Gam.

Lemma xs_spec : length xs = length args /\ NoDup xs /\ forall x, In x xs -> exists m, x = G m /\ (gen s <= m < gen s1)%N.
Proof.
  destruct (gensyms_list_spec (map (@length ty) variants) s) as [L N]. fold vars s1 in L, N.
  assert (Hlt : (N.to_nat idx < length vars)%nat).
  { rewrite L, map_length. apply nth_error_Some. congruence. }
  destruct (nth_error vars (N.to_nat idx)) as [ys|] eqn:Hy; [|apply nth_error_None in Hy; lia].
  assert (xs = ys) by (unfold xs; now apply nth_error_nth). subst ys.
  destruct (N _ _ Hy) as (n & Hn & Hl & Hd & Hr). rewrite nth_error_map, Hargs in Hn. injection Hn as <-. auto.
Qed.

Lemma xs_fresh x : In x xs -> lookup x rho = None /\ Gam x = None.
Proof. intro H. destruct xs_spec as (_ & _ & Hr). destruct (Hr x H) as (m & -> & Hm). apply (wf_fresh _ _ _ _ _ W). lia. Qed.

Lemma enum_cols_ok : enum_cols v rows.
Proof.
  intros r Hr p R. pose proof (wf_nodup _ _ _ _ _ W r Hr) as ND.
  destruct (remove_column_some [] v (cols r) p R ND) as (Hin & _).
  destruct (wf_cols _ _ _ _ _ W r Hr v p Hin) as (t & Gt & Ok). assert (t = TyEnum e) by congruence. subst t.
  destruct (pat_ok_enum E p e Ok (St r Hr (v, p) Hin)) as (i & items & vr & ag & -> & _). now exists e, i, items, (TyEnum e).
Qed.

Lemma ekeep_row r r' : In r rows -> ekeep v vars idx r = Some r' ->
  rbody r' = rbody r /\ opt_perm (row_try r' rho') (row_try r rho) /\
  (forall u q, In (u, q) (cols r') -> exists t, Gam' u = Some t /\ pat_ok E q t) /\ NoDup (map fst (cols r')).
Proof.
  intros Hr Hk. unfold ekeep in Hk. pose proof (wf_nodup _ _ _ _ _ W r Hr) as ND.
  destruct xs_spec as (Lx & NDx & _).
  assert (Lvs : length vs = length xs) by (rewrite Lx; exact (Forall2_length _ _ _ Hvs)).
  assert (ColFresh : forall u p, In (u, p) (cols r) -> ~ In u xs).
  { intros u p Hu Hx. destruct (wf_cols _ _ _ _ _ W r Hr u p Hu) as (t & Gt & _). apply xs_fresh in Hx as [_ Hx]. congruence. }
  assert (BindFresh : forall x u, In (x, u) (binds (rbody r)) -> ~ In u xs).
  { intros x u Hu Hx. destruct (wf_binds _ _ _ _ _ W r Hr x u Hu) as [z Lz]. apply xs_fresh in Hx as [Hx _]. congruence. }
  destruct (remove_column v (cols r)) as [[p|] cs] eqn:R.
  - assert (Rf : fst (remove_column v (cols r)) = Some p) by now rewrite R.
    destruct (remove_column_some rho v (cols r) p Rf ND) as (Hin & Nov & Sub & ND' & Hsem). rewrite R in Nov, Sub, ND', Hsem. cbn [snd] in *.
    destruct (wf_cols _ _ _ _ _ W r Hr v p Hin) as (t & Gt & Ok). assert (t = TyEnum e) by congruence. subst t.
    destruct (pat_ok_enum E p e Ok (St r Hr (v, p) Hin)) as (i & items & vr & ag & -> & Hv' & Ha' & Fi).
    destruct (N.eqb_spec i idx) as [->|Ni]; [|discriminate]. injection Hk as <-. cbn [cols rbody].
    assert (vr = variants) by congruence. subst vr. assert (ag = args) by congruence. subst ag.
    fold xs. assert (Li : length items = length xs) by (rewrite Lx; exact (Forall2_length _ _ _ Fi)).
    split; [reflexivity|]. split; [|split].
    + unfold row_try. cbn [cols rbody]. unfold rho'. rewrite cols_match_app, cols_match_zip by assumption.
      rewrite (cols_match_ext xs vs rho cs) by (intros u q Hq; apply (ColFresh u q), Sub, Hq).
      rewrite resolve_binds_ext by assumption. rewrite Lv in Hsem. rewrite pmatch_enum, !N.eqb_refl in Hsem. cbn [andb] in Hsem.
      destruct (cols_match (cols r) rho) as [a|], (pmatch_list items vs) as [b|], (cols_match cs rho) as [c|]; cbn in *; try tauto;
        destruct (resolve_binds (binds (rbody r)) rho) as [d|]; cbn; try tauto.
      apply Permutation_app_tail. eapply Permutation_trans; [apply Permutation_app_comm|]. now apply Permutation_sym.
    + intros u q Hq. apply in_app_iff in Hq as [Hq|Hq].
      * destruct (wf_cols _ _ _ _ _ W r Hr u q (Sub _ Hq)) as (t & Gt' & Ok'). exists t. split; [|assumption].
        unfold Gam'. rewrite ext_ty_other; [assumption|]. exact (ColFresh u q (Sub _ Hq)).
      * assert (exists j, nth_error xs j = Some u /\ nth_error items j = Some q) as (j & Hj1 & Hj2).
        { clear -Hq. revert items Hq. induction xs as [|x0 r0 IHn]; intros [|it items] Hq; try destruct Hq.
          - injection H as -> ->. now exists O.
          - destruct (IHn _ H) as [j Hj]. now exists (S j). }
        destruct (Forall2_nth _ _ _ Fi j q Hj2) as (t & Ht & Pok). exists t. split; [|assumption].
        unfold Gam'. now rewrite (ext_ty_nth xs args Gam u j NDx Hj1).
    + rewrite map_app. apply NoDup_app_intro; [assumption| |].
      * assert (E1 : map fst (zip xs items) = xs).
        { clear -Li. revert items Li. induction xs as [|x0 r0 IHn]; intros [|it items] Li; try discriminate; [reflexivity|]. cbn. f_equal. apply IHn. cbn in Li. lia. }
        now rewrite E1.
      * intros a Ha Hb. apply in_map_iff in Ha as ([u q] & <- & Hq). apply in_map_iff in Hb as ([u' q'] & Eu & Hq'). cbn [fst] in *. subst u'.
        apply (ColFresh u q (Sub _ Hq)).
        clear -Hq'. revert items Hq'. induction xs as [|x0 r0 IHn]; intros [|it items] Hq'; try destruct Hq'.
        -- injection H as -> _. now left.
        -- right. eapply IHn. eassumption.
  - injection Hk as <-. split; [reflexivity|]. split; [|split].
    + unfold row_try, rho'. rewrite cols_match_ext by assumption. rewrite resolve_binds_ext by assumption. apply opt_perm_refl.
    + intros u q Hq. destruct (wf_cols _ _ _ _ _ W r Hr u q Hq) as (t & Gt' & Ok'). exists t. split; [|assumption].
      unfold Gam'. rewrite ext_ty_other; [assumption|exact (ColFresh u q Hq)].
    + assumption.
Qed.

Lemma ekeep_none_nomatch r : In r rows -> ekeep v vars idx r = None -> row_try r rho = None.
Proof.
  intros Hr Hk. unfold ekeep in Hk. pose proof (wf_nodup _ _ _ _ _ W r Hr) as ND.
  destruct (remove_column v (cols r)) as [[p|] cs] eqn:R; [|discriminate].
  assert (Rf : fst (remove_column v (cols r)) = Some p) by now rewrite R.
  destruct (remove_column_some rho v (cols r) p Rf ND) as (Hin & _ & _ & _ & Hsem). rewrite Lv in Hsem.
  destruct (wf_cols _ _ _ _ _ W r Hr v p Hin) as (t & Gt & Ok). assert (t = TyEnum e) by congruence. subst t.
  destruct (pat_ok_enum E p e Ok (St r Hr (v, p) Hin)) as (i & items & vr & ag & -> & _).
  destruct (N.eqb_spec i idx) as [->|Ni]; [discriminate|].
  rewrite pmatch_enum, N.eqb_refl in Hsem. destruct (N.eqb_spec i idx); [contradiction|]. cbn in Hsem.
  unfold row_try. destruct (cols_match (cols r) rho); [contradiction|reflexivity].
Qed.

Lemma enum_step : 
  outcome_equiv (first_match_rows (filter_map (ekeep v vars idx) rows) rho') (first_match_rows rows rho) /\
  forall s', (gen s1 <= gen s')%N -> WF E Gam' (filter_map (ekeep v vars idx) rows) s' rho'.
Proof.
  split.
  - assert (H : forall rs, (forall r, In r rs -> In r rows) ->
       outcome_equiv (first_match_rows (filter_map (ekeep v vars idx) rs) rho') (first_match_rows rs rho)).
    { induction rs as [|r rs IH]; intro Sub; [exact I|]. cbn [filter_map first_match_rows].
      specialize (IH (fun x Hx => Sub x (or_intror Hx))).
      destruct (ekeep v vars idx r) as [r'|] eqn:Hk.
      - destruct (ekeep_row r r' (Sub r (or_introl eq_refl)) Hk) as (Hb & Hp & _). cbn [first_match_rows].
        destruct (row_try r' rho'), (row_try r rho); cbn in Hp; try contradiction; [|exact IH]. cbn. split; [now rewrite Hb|assumption].
      - rewrite (ekeep_none_nomatch r (Sub r (or_introl eq_refl)) Hk). exact IH. }
    apply H. auto.
  - intros s' Hs. destruct xs_spec as (Lx & NDx & Hr).
    constructor.
    + intros r' Hr' u q Hq. apply filter_map_in in Hr' as (r & Hin & Hk). destruct (ekeep_row r r' Hin Hk) as (_ & _ & Hc & _). exact (Hc u q Hq).
    + intros u t Hu. unfold Gam', ext_ty in Hu. destruct (index_of u xs) as [i|] eqn:Ei.
      * assert (Hn : nth_error xs i = Some u).
        { clear -Ei. revert i Ei. induction xs as [|x r IH]; intros i Ei; [discriminate|]. cbn [index_of] in Ei.
          destruct (name_eqb u x) eqn:Eu; [injection Ei as <-; apply name_eqb_eq in Eu; now subst|].
          destruct (index_of u r) as [j|]; [|discriminate]. injection Ei as <-. cbn. now apply IH. }
        destruct (Forall2_nth_r _ _ _ Hvs i t Hu) as (z & Hz & Vz). exists z. split; [|assumption].
        unfold rho'. eapply lookup_ext_nth; eassumption.
      * apply index_of_none in Ei. destruct (wf_env _ _ _ _ _ W u t Hu) as (z & Lz & Vz). exists z. split; [|assumption].
        unfold rho'. now rewrite lookup_ext_other.
    + intros r' Hr'. apply filter_map_in in Hr' as (r & Hin & Hk). now destruct (ekeep_row r r' Hin Hk) as (_ & _ & _ & Hn).
    + intros r' Hr' x u Hu. apply filter_map_in in Hr' as (r & Hin & Hk). destruct (ekeep_row r r' Hin Hk) as (Hb & _).
      rewrite Hb in Hu. destruct (wf_binds _ _ _ _ _ W r Hin x u Hu) as [z Lz]. exists z.
      unfold rho'. rewrite lookup_ext_other; [assumption|]. intro Hx. apply xs_fresh in Hx as [Hx _]. congruence.
    + intros n Hn. assert (~ In (G n) xs).
      { intro Hx. destruct (Hr _ Hx) as (m & Em & Hm). injection Em as <-. lia. }
      pose proof (gensyms_list_le (map (@length ty) variants) s) as [Le _]. fold s1 in Le.
      split.
      * unfold rho'. rewrite lookup_ext_other by assumption. apply (wf_fresh _ _ _ _ _ W). lia.
      * unfold Gam'. rewrite ext_ty_other by assumption. apply (wf_fresh _ _ _ _ _ W). lia.
Qed.
End Enum.
End S.
