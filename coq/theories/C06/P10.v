From Goml Require Import Common.Base C06.Model C06.Spec.
From Coq Require Import Permutation.
From Goml Require Import C06.P1 C06.P2 C06.P3 C06.P4 C06.P8 C06.P9.

Section S.
Variable E : tenv.

Lemma index_of_nth y names : forall i, NoDup names -> nth_error names i = Some y -> index_of y names = Some i.
Proof.
  induction names as [|x r IH]; intros i ND H; [destruct i; discriminate|]. inversion ND as [|? ? Hn ND']; subst.
  cbn [index_of]. destruct i as [|i]; cbn [nth_error] in H.
  - injection H as ->. now rewrite name_eqb_refl.
  - rewrite name_eqb_neq; [now rewrite (IH i ND' H)|]. intro Eq. subst. apply Hn. eapply nth_error_In; eassumption.
Qed.

Lemma ext_ty_other names ts Gam y : ~ In y names -> ext_ty names ts Gam y = Gam y.
Proof. intro H. unfold ext_ty. now rewrite (proj2 (index_of_none y names) H). Qed.

Lemma ext_ty_nth names ts Gam y i : NoDup names -> nth_error names i = Some y -> ext_ty names ts Gam y = nth_error ts i.
Proof. intros ND H. unfold ext_ty. now rewrite (index_of_nth y names i ND H). Qed.

Lemma Forall2_nth {A B} (R : A -> B -> Prop) l l' : Forall2 R l l' ->
  forall i a, nth_error l i = Some a -> exists b, nth_error l' i = Some b /\ R a b.
Proof.
  induction 1 as [|x y l l' Hxy _ IH]; intros [|i] a H; try discriminate; cbn in *.
  - injection H as <-. now exists y.
  - now apply IH.
Qed.

Lemma Forall2_nth_r {A B} (R : A -> B -> Prop) l l' : Forall2 R l l' ->
  forall i b, nth_error l' i = Some b -> exists a, nth_error l i = Some a /\ R a b.
Proof.
  induction 1 as [|x y l l' Hxy _ IH]; intros [|i] b H; try discriminate; cbn in *.
  - injection H as <-. now exists x.
  - now apply IH.
Qed.

Lemma NoDup_app_intro {A} (a b : list A) : NoDup a -> NoDup b -> (forall x, In x a -> In x b -> False) -> NoDup (a ++ b).
Proof.
  induction a as [|x a IH]; intros Na Nb H; [exact Nb|]. inversion Na as [|? ? Hn Na']; subst. cbn. constructor.
  - intro Hin. apply in_app_iff in Hin as [Hin|Hin]; [contradiction|]. apply (H x); [now left|assumption].
  - apply IH; auto. intros y Hy Hb. apply (H y); [now right|assumption].
Qed.

Lemma Forall2_length {A B} (R : A -> B -> Prop) l l' : Forall2 R l l' -> length l = length l'.
Proof. induction 1; cbn; congruence. Qed.

Lemma flat_expand_in v names cs a :
  In a (flat_map (fun c : name * pat => if name_eqb (fst c) v then names else [fst c]) cs) ->
  (In a names /\ In v (map fst cs)) \/ In a (map fst cs).
Proof.
  induction cs as [|[u p] cs IH]; cbn [flat_map map fst]; [intros []|]. intro Ha. apply in_app_iff in Ha as [Ha|Ha].
  - destruct (name_eqb u v) eqn:Eu.
    + apply name_eqb_eq in Eu. subst. left. split; [assumption|now left].
    + destruct Ha as [<-|[]]. right. now left.
  - destruct (IH Ha) as [[H1 H2]|H1]; [left; split; [assumption|now right]|right; now right].
Qed.

Lemma nodup_expand_fst v names cs : NoDup (map fst cs) -> NoDup names -> (forall u, In u (map fst cs) -> ~ In u names) ->
  NoDup (flat_map (fun c : name * pat => if name_eqb (fst c) v then names else [fst c]) cs).
Proof.
  induction cs as [|[u p] cs IH]; intros ND NDn Fr; [constructor|]. cbn [map fst flat_map] in *.
  inversion ND as [|? ? Hn ND']; subst. specialize (IH ND' NDn (fun a Ha => Fr a (or_intror Ha))).
  destruct (name_eqb u v) eqn:Eu.
  - apply name_eqb_eq in Eu. subst u. apply NoDup_app_intro; [assumption|assumption|].
    intros a Ha Hb. destruct (flat_expand_in v names cs a Hb) as [[_ H2]|H1]; [contradiction|].
    apply (Fr a); [now right|assumption].
  - cbn [app]. constructor; [|assumption]. intro Ha. destruct (flat_expand_in v names cs u Ha) as [[H1 _]|H1]; [|contradiction].
    apply (Fr u); [now left|assumption].
Qed.

Section Ext.
Variables (Gam : tyenv) (rows : list row) (s : st) (rho : venv).
Variables (v : name) (w : value) (vs : list value) (ts : list ty) (is_ok : pat -> option (list pat)).
Hypothesis W : WF E Gam rows s rho.
Hypothesis Lv : lookup v rho = Some w.
Hypothesis Hvs : Forall2 (val_ok E) vs ts.
Hypothesis Hshape : forall r, In r rows -> forall p, In (v, p) (cols r) ->
  exists items, is_ok p = Some items /\ Forall2 (pat_ok E) items ts /\ pmatch p w = pmatch_list items vs.

Let names := fst (gensyms (length ts) s).
Let s1 := snd (gensyms (length ts) s).
Let rho' := ext_env names vs rho.
Let Gam' := ext_ty names ts Gam.

Lemma names_fresh x : In x names -> lookup x rho = None /\ Gam x = None.
Proof. intro H. apply gensyms_in in H as (m & -> & Hm). apply (wf_fresh _ _ _ _ _ W). lia. Qed.

Lemma bound_not_name u : (exists z, lookup u rho = Some z) -> ~ In u names.
Proof. intros [z Hz] H. apply names_fresh in H as [H _]. congruence. Qed.

Lemma typed_not_name u t : Gam u = Some t -> ~ In u names.
Proof. intros Hu H. apply names_fresh in H as [_ H]. congruence. Qed.

Lemma names_len : length names = length ts. Proof. apply gensyms_length. Qed.
Lemma vs_len : length vs = length names. Proof. rewrite names_len. exact (Forall2_length _ _ _ Hvs). Qed.

Lemma expand_rows_ok : forall rs rows', (forall r, In r rs -> In r rows) ->
  expand_rows v names is_ok rs = Some rows' ->
  Forall2 (fun r' r => rbody r' = rbody r /\ expand_cols v names is_ok (cols r) = Some (cols r')) rows' rs.
Proof.
  induction rs as [|r rs IH]; intros rows' Sub H; cbn [expand_rows] in H; [injection H as <-; constructor|].
  destruct (expand_cols v names is_ok (cols r)) as [cs|] eqn:Ec; [|discriminate].
  destruct (expand_rows v names is_ok rs) as [rs'|] eqn:Er; [|discriminate]. injection H as <-.
  constructor; [split; [reflexivity|exact Ec]|]. apply IH; [intros x Hx; apply Sub; now right|reflexivity].
Qed.

Lemma expand_row_try r r' : In r rows -> rbody r' = rbody r -> expand_cols v names is_ok (cols r) = Some (cols r') ->
  row_try r' rho' = row_try r rho.
Proof.
  intros Hr Hb Hc. unfold row_try, rho'. rewrite Hb.
  rewrite (expand_cols_sem v names is_ok rho w vs Lv (gensyms_nodup _ _) vs_len (cols r) (cols r') Hc).
  - rewrite resolve_binds_ext; [reflexivity|].
    intros x u Hu. apply bound_not_name. exact (wf_binds _ _ _ _ _ W r Hr x u Hu).
  - intros u p Hu. destruct (wf_cols _ _ _ _ _ W r Hr u p Hu) as (t & Gt & _). eapply typed_not_name; eassumption.
  - intros p Hp. destruct (Hshape r Hr p Hp) as (items & Ok & F & Pm). exists items. repeat split; auto.
    rewrite names_len. exact (Forall2_length _ _ _ F).
Qed.

Lemma WF_expand rows' : expand_rows v names is_ok rows = Some rows' -> (exists tv, Gam v = Some tv) ->
  WF E Gam' rows' s1 rho' /\
  Forall2 (fun r' r => arm (rbody r') = arm (rbody r) /\ opt_perm (row_try r' rho') (row_try r rho)) rows' rows.
Proof.
  intros H [tv Gv]. pose proof (expand_rows_ok rows rows' (fun r Hr => Hr) H) as F.
  assert (NDn : NoDup names) by apply gensyms_nodup.
  split.
  - constructor.
    + (* columns typed *)
      intros r' Hr' u q Hq.
      assert (exists r, In r rows /\ rbody r' = rbody r /\ expand_cols v names is_ok (cols r) = Some (cols r')) as (r & Hr & _ & Hc).
      { clear -F Hr'. induction F as [|a b l l' [H1 H2] _ IH]; [destruct Hr'|]. destruct Hr' as [<-|Hr']; [exists b; repeat split; auto; now left|].
        destruct (IH Hr') as (r & Hr & Hx). exists r. split; [now right|assumption]. }
      destruct (expand_cols_in v names is_ok (cols r) (cols r') Hc u q Hq) as [[Hin Nuv]|(p & items & i & Hp & Ok & Hn & Hi)].
      * destruct (wf_cols _ _ _ _ _ W r Hr u q Hin) as (t & Gt & Pok). exists t. split; [|assumption].
        unfold Gam'. rewrite ext_ty_other; [assumption|eapply typed_not_name; eassumption].
      * destruct (Hshape r Hr p Hp) as (items' & Ok' & Fp & _). rewrite Ok in Ok'. injection Ok' as <-.
        destruct (Forall2_nth _ _ _ Fp i q Hi) as (t & Ht & Pok). exists t. split; [|assumption].
        unfold Gam'. now rewrite (ext_ty_nth names ts Gam u i NDn Hn).
    + (* environment typed *)
      intros u t Hu. unfold Gam', ext_ty in Hu. destruct (index_of u names) as [i|] eqn:Ei.
      * assert (Hn : nth_error names i = Some u).
        { clear -Ei. revert i Ei. induction names as [|x r IH]; intros i Ei; [discriminate|]. cbn [index_of] in Ei.
          destruct (name_eqb u x) eqn:Eu; [injection Ei as <-; apply name_eqb_eq in Eu; now subst|].
          destruct (index_of u r) as [j|]; [|discriminate]. injection Ei as <-. cbn. now apply IH. }
        destruct (Forall2_nth_r _ _ _ Hvs i t Hu) as (z & Hz & Vz).
        exists z. split; [|assumption]. unfold rho'. eapply lookup_ext_nth; eassumption.
      * apply index_of_none in Ei. destruct (wf_env _ _ _ _ _ W u t Hu) as (z & Lz & Vz). exists z. split; [|assumption].
        unfold rho'. now rewrite lookup_ext_other.
    + (* NoDup *)
      intros r' Hr'.
      assert (exists r, In r rows /\ expand_cols v names is_ok (cols r) = Some (cols r')) as (r & Hr & Hc).
      { clear -F Hr'. induction F as [|a b l l' [H1 H2] _ IH]; [destruct Hr'|]. destruct Hr' as [<-|Hr']; [exists b; split; auto; now left|].
        destruct (IH Hr') as (r & Hr & Hx). exists r. split; [now right|assumption]. }
      rewrite (expand_cols_fst v names is_ok (cols r) (cols r') Hc).
      2:{ intros p Hp. destruct (Hshape r Hr p Hp) as (items & Ok & Fp & _). exists items. split; [assumption|].
          rewrite names_len. exact (Forall2_length _ _ _ Fp). }
      pose proof (wf_nodup _ _ _ _ _ W r Hr) as ND.
      assert (Fr : forall u, In u (map fst (cols r)) -> ~ In u names).
      { intros u Hu. apply in_map_iff in Hu as ([u' p] & <- & Hin). destruct (wf_cols _ _ _ _ _ W r Hr u' p Hin) as (t & Gt & _).
        eapply typed_not_name; eassumption. }
      now apply nodup_expand_fst.
    + (* binds *)
      intros r' Hr' x u Hu.
      assert (exists r, In r rows /\ rbody r' = rbody r) as (r & Hr & Hb).
      { clear -F Hr'. induction F as [|a b l l' [H1 H2] _ IH]; [destruct Hr'|]. destruct Hr' as [<-|Hr']; [exists b; split; auto; now left|].
        destruct (IH Hr') as (r & Hr & Hx). exists r. split; [now right|assumption]. }
      rewrite Hb in Hu. destruct (wf_binds _ _ _ _ _ W r Hr x u Hu) as [z Lz]. exists z.
      unfold rho'. rewrite lookup_ext_other; [assumption|]. apply bound_not_name. now exists z.
    + (* freshness *)
      intros n Hn. destruct (gensyms_spec (length ts) s) as (_ & Hg & _). fold s1 in Hg.
      assert (~ In (G n) names).
      { intro Hx. apply gensyms_in in Hx as (m & Em & Hm). injection Em as <-. lia. }
      split.
      * unfold rho'. rewrite lookup_ext_other by assumption. apply (wf_fresh _ _ _ _ _ W). lia.
      * unfold Gam'. rewrite ext_ty_other by assumption. apply (wf_fresh _ _ _ _ _ W). lia.
  - clear -F W Lv Hvs Hshape. 
    assert (G : forall rs rows', (forall r, In r rs -> In r rows) ->
       Forall2 (fun r' r => rbody r' = rbody r /\ expand_cols v names is_ok (cols r) = Some (cols r')) rows' rs ->
       Forall2 (fun r' r => arm (rbody r') = arm (rbody r) /\ opt_perm (row_try r' rho') (row_try r rho)) rows' rs).
    { intros rs rows0 Sub F0. induction F0 as [|a b l l' [H1 H2] _ IH]; constructor.
      - split; [now rewrite H1|]. rewrite (expand_row_try b a (Sub b (or_introl eq_refl)) H1 H2). apply opt_perm_refl.
      - apply IH. intros x Hx. apply Sub. now right. }
    apply G; [auto|assumption].
Qed.
End Ext.
End S.
