(** C06 executable support for the correspondence check and the failing-input
    search: decidable equality on Core trees and outcomes, value enumeration. *)
From Goml Require Import Common.Base C06.Model.

Definition ctor_eqb (a b : ctor) : bool :=
  match a, b with
  | CEnum e i, CEnum e' i' => (e =? e') && (i =? i')
  | CStruct s, CStruct s' => s =? s'
  | _, _ => false
  end.

Fixpoint names_eqb (a b : list name) : bool :=
  match a, b with
  | [], [] => true
  | x :: a', y :: b' => name_eqb x y && names_eqb a' b'
  | _, _ => false
  end.

Definition lhs_eqb (a b : lhs) : bool :=
  match a, b with
  | LhsLit x, LhsLit y => lit_eqb x y
  | LhsEnum e i xs, LhsEnum e' i' ys => (e =? e') && (i =? i') && names_eqb xs ys
  | _, _ => false
  end.

Fixpoint binds_eqb (a b : list (N * name)) : bool :=
  match a, b with
  | [], [] => true
  | (x, v) :: a', (y, w) :: b' => (x =? y) && name_eqb v w && binds_eqb a' b'
  | _, _ => false
  end.

Definition body_eqb (a b : body) : bool := binds_eqb (binds a) (binds b) && (arm a =? arm b).

Fixpoint core_eqb (a b : core) : bool :=
  match a, b with
  | KBody x, KBody y => body_eqb x y
  | KMissing, KMissing => true
  | KPanic x, KPanic y => x =? y
  | KLetProj x v i k, KLetProj x' v' i' k' => name_eqb x x' && name_eqb v v' && (i =? i') && core_eqb k k'
  | KLetGet x v c i k, KLetGet x' v' c' i' k' =>
      name_eqb x x' && name_eqb v v' && ctor_eqb c c' && (i =? i') && core_eqb k k'
  | KMatch v arms d, KMatch v' arms' d' =>
      name_eqb v v' &&
      (fix go (a b : list (lhs * core)) : bool :=
         match a, b with
         | [], [] => true
         | (l, k) :: a', (l', k') :: b' => lhs_eqb l l' && core_eqb k k' && go a' b'
         | _, _ => false
         end) arms arms' &&
      match d, d' with
      | None, None => true
      | Some k, Some k' => core_eqb k k'
      | _, _ => false
      end
  | _, _ => false
  end.

Fixpoint value_eqb (a b : value) : bool :=
  let go := (fix go (a b : list value) : bool :=
     match a, b with
     | [], [] => true
     | x :: a', y :: b' => value_eqb x y && go a' b'
     | _, _ => false
     end) in
  match a, b with
  | VLit x, VLit y => lit_eqb x y
  | VTuple xs, VTuple ys => go xs ys
  | VEnum e i xs, VEnum e' i' ys => (e =? e') && (i =? i') && go xs ys
  | VStruct s xs, VStruct s' ys => (s =? s') && go xs ys
  | _, _ => false
  end.

Definition opt_value_eqb (a b : option value) : bool :=
  match a, b with
  | None, None => true
  | Some x, Some y => value_eqb x y
  | _, _ => false
  end.

(** same arm, same bindings as finite maps *)
Definition outcome_agree (a b : outcome) : bool :=
  match a, b with
  | Hit i bs, Hit j cs =>
      (i =? j) && forallb (fun '(x, _) => opt_value_eqb (blookup x bs) (blookup x cs)) (bs ++ cs)
  | Missing, Missing => true
  | _, _ => false
  end.

(** all values of a type, integers and strings drawn from the given pools *)
Fixpoint product (ls : list (list value)) : list (list value) :=
  match ls with
  | [] => [[]]
  | l :: r => flat_map (fun x => map (cons x) (product r)) l
  end.

Fixpoint values (E : tenv) (depth : nat) (ints : list Z) (strs : list str) (t : ty) : list value :=
  match depth with
  | O => []
  | S d =>
    match t with
    | TyUnit => [VLit LUnit]
    | TyBool => [VLit (LBool true); VLit (LBool false)]
    | TyInt _ => map (fun z => VLit (LInt z)) ints
    | TyStr => map (fun s => VLit (LStr s)) strs
    | TyTuple ts => map VTuple (product (map (values E d ints strs) ts))
    | TyEnum e =>
        match nth_error (enums E) (N.to_nat e) with
        | None => []
        | Some variants =>
            flat_map (fun '(i, args) => map (VEnum e (N.of_nat i)) (product (map (values E d ints strs) args)))
                     (zip (seq 0 (length variants)) variants)
        end
    | TyStruct s =>
        match nth_error (structs E) (N.to_nat s) with
        | None => []
        | Some fields => map (VStruct s) (product (map (values E d ints strs) fields))
        end
    | TyOther _ => []
    end
  end.

(** the property itself, evaluated on a given decision tree (the REAL one during
    the search): indices of the scrutinee values on which the tree disagrees with
    first-match *)
Definition disagreements (tree : core) (scrut : name) (arms : list pat) (vals : list value) : list N :=
  mismatches outcome_agree (fun v => eval_core tree [(scrut, v)]) (map (fun v => (v, first_match arms v)) vals).

Record mcase := {
  c_env : tenv; c_scrut : name; c_ty : ty; c_arms : list pat; c_g0 : N;
  c_real : core; c_real_diag : bool
}.

Definition model_ok (c : mcase) : bool :=
  let '(k, s) := compile_match (c_env c) 200 (c_scrut c) (c_arms c) (c_g0 c) in
  if c_real_diag c then diag s else negb (diag s) && core_eqb k (c_real c).

Definition model_next_gen (c : mcase) : N :=
  gen (snd (compile_match (c_env c) 200 (c_scrut c) (c_arms c) (c_g0 c))).

Definition property_ok (ints : list Z) (strs : list str) (c : mcase) : bool :=
  if c_real_diag c then true
  else match disagreements (c_real c) (c_scrut c) (c_arms c) (values (c_env c) 4 ints strs (c_ty c)) with
       | [] => true | _ => false end.

Fixpoint bad_idx {A} (f : A -> bool) (l : list A) (i : N) : list N :=
  match l with [] => [] | x :: r => if f x then bad_idx f r (i + 1) else i :: bad_idx f r (i + 1) end.
