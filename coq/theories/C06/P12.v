From Goml Require Import Common.Base C06.Model C06.Spec.
From Coq Require Import Permutation.
From Goml Require Import C06.P1 C06.P2 C06.P3 C06.P4 C06.P5 C06.P8 C06.P9 C06.P10 C06.P11.

Section S.
Variable E : tenv.
Variable v : name.
Variable vars : list (list name).

Definition ekeep (idx : N) (r : row) : option row :=
  match remove_column v (cols r) with
  | (Some (PEnum _ i args _), cs) =>
      if (i =? idx)%N then Some {| cols := cs ++ zip (nth (N.to_nat i) vars []) args; rbody := rbody r |} else None
  | (Some _, _) => None
  | (None, _) => Some r
  end.

Definition enum_cols (rows : list row) : Prop :=
  forall r, In r rows -> forall p, fst (remove_column v (cols r)) = Some p -> exists e i args t, p = PEnum e i args t.

Lemma push_case_spec cases : forall i r cases1, push_case cases i r = Some cases1 ->
  length cases1 = length cases /\
  forall j, nth_error cases1 j = if (j =? i)%nat then option_map (fun c => c ++ [r]) (nth_error cases j) else nth_error cases j.
Proof.
  induction cases as [|c cs IH]; intros i r cases1 H; cbn [push_case] in H; [discriminate|].
  destruct i as [|i].
  - injection H as <-. split; [reflexivity|]. intros [|j]; reflexivity.
  - destruct (push_case cs i r) as [cs1|] eqn:P; [|discriminate]. injection H as <-. destruct (IH i r cs1 P) as [L N].
    split; [cbn; now rewrite L|]. intros [|j]; [reflexivity|]. cbn [nth_error]. rewrite N. reflexivity.
Qed.

Lemma split_enum_inv rows : forall cases cases', enum_cols rows ->
  split_enum v vars rows cases = Some cases' ->
  length cases' = length cases /\
  forall j, nth_error cases' j = option_map (fun c => c ++ filter_map (ekeep (N.of_nat j)) rows) (nth_error cases j).
Proof.
  induction rows as [|r rs IH]; intros cases cases' EC H; cbn [split_enum] in H.
  - injection H as <-. split; [reflexivity|]. intro j. cbn [filter_map]. destruct (nth_error cases j); cbn; [now rewrite app_nil_r|reflexivity].
  - assert (ECrs : enum_cols rs) by (intros x Hx; apply EC; now right).
    destruct (remove_column v (cols r)) as [[p|] cs] eqn:R.
    + destruct (EC r (or_introl eq_refl) p) as (e & i & args & t & ->); [now rewrite R|].
      destruct (push_case cases (N.to_nat i) {| cols := cs ++ zip (nth (N.to_nat i) vars []) args; rbody := rbody r |}) as [cases1|] eqn:P; [|discriminate].
      destruct (push_case_spec _ _ _ _ P) as [L1 N1]. destruct (IH cases1 cases' ECrs H) as [L2 N2].
      split; [congruence|]. intro j. rewrite N2, N1. cbn [filter_map]. unfold ekeep at 2. rewrite R.
      destruct (Nat.eqb_spec j (N.to_nat i)) as [->|Nj].
      * rewrite N2Nat.id, N.eqb_refl. destruct (nth_error cases (N.to_nat i)); cbn; [now rewrite <- app_assoc|reflexivity].
      * destruct (N.eqb_spec i (N.of_nat j)) as [->|_]; [rewrite Nat2N.id in Nj; contradiction|]. reflexivity.
    + destruct (IH _ cases' ECrs H) as [L2 N2]. split; [rewrite L2; apply map_length|]. intro j. rewrite N2, nth_error_map.
      cbn [filter_map]. unfold ekeep at 2. rewrite R. destruct (nth_error cases j); cbn; [now rewrite <- app_assoc|reflexivity].
Qed.

Lemma nth_error_map_const {A B} (l : list A) (b : B) j : nth_error (map (fun _ => b) l) j = option_map (fun _ => b) (nth_error l j).
Proof. apply nth_error_map. Qed.

(* ---- columns / bindings are unaffected by fresh extensions ---- *)
Lemma cols_match_ext names vs rho cs : (forall u p, In (u, p) cs -> ~ In u names) ->
  cols_match cs (ext_env names vs rho) = cols_match cs rho.
Proof.
  induction cs as [|[u p] cs IH]; intro H; [reflexivity|]. cbn [cols_match].
  rewrite lookup_ext_other by (apply (H u p); now left). rewrite IH by (intros a b Hab; apply (H a b); now right). reflexivity.
Qed.
End S.
