From Goml Require Import Common.Base C06.Model C06.Spec.
From Coq Require Import Permutation.
From Goml Require Import C06.P1 C06.P2 C06.P3 C06.P4.

Fixpoint pmatch_list (ps : list pat) (vs : list value) : option (list (N * value)) :=
  match ps, vs with
  | [], [] => Some []
  | p :: ps', v :: vs' =>
      match pmatch p v, pmatch_list ps' vs' with Some a, Some b => Some (a ++ b) | _, _ => None end
  | _, _ => None
  end.

Lemma pmatch_tuple ps t vs : pmatch (PTuple ps t) (VTuple vs) = pmatch_list ps vs.
Proof. revert vs. induction ps as [|p ps IH]; intros [|w vs]; reflexivity. Qed.

Lemma pmatch_struct s ps t vs : pmatch (PStruct s ps t) (VStruct s vs) = pmatch_list ps vs.
Proof. cbn. rewrite N.eqb_refl. revert vs. induction ps as [|p ps IH]; intros [|w vs]; reflexivity. Qed.

Lemma pmatch_enum e i ps t e' i' vs :
  pmatch (PEnum e i ps t) (VEnum e' i' vs) = if ((e =? e') && (i =? i'))%N then pmatch_list ps vs else None.
Proof.
  cbn. destruct ((e =? e') && (i =? i'))%N; [|reflexivity].
  revert vs. induction ps as [|p ps IH]; intros [|w vs]; reflexivity.
Qed.

(* ---- extended environments ---- *)
Lemma classic_in (y : name) (l : list name) : In y l \/ ~ In y l.
Proof.
  induction l as [|x r IH]; [right; intros []|]. destruct (name_eqb y x) eqn:Ey.
  - apply name_eqb_eq in Ey. subst. left. now left.
  - destruct IH as [H|H]; [left; now right|right]. intros [Eq|Hin]; [subst; rewrite name_eqb_refl in Ey; discriminate|contradiction].
Qed.

Definition ext_env (names : list name) (vs : list value) (rho : venv) : venv := rev (zip names vs) ++ rho.

Fixpoint index_of (y : name) (names : list name) : option nat :=
  match names with
  | [] => None
  | x :: r => if name_eqb y x then Some O else option_map S (index_of y r)
  end.

Definition ext_ty (names : list name) (ts : list ty) (Gam : tyenv) : tyenv :=
  fun y => match index_of y names with Some i => nth_error ts i | None => Gam y end.

Lemma index_of_none y names : index_of y names = None <-> ~ In y names.
Proof.
  induction names as [|x r IH]; cbn [index_of In]; [tauto|]. destruct (name_eqb y x) eqn:Ey.
  - apply name_eqb_eq in Ey. subst. split; [discriminate|intro H; exfalso; apply H; now left].
  - assert (Nyx : x <> y) by (intro Eq; subst; rewrite name_eqb_refl in Ey; discriminate).
    destruct (index_of y r) as [i|]; cbn [option_map].
    + split; [discriminate|]. intro H. exfalso. apply H. right.
      destruct IH as [_ IH2]. destruct (classic_in y r) as [Hin|Hn]; [assumption|]. discriminate (IH2 Hn).
    + split; [|reflexivity]. intros _ [Eq|Hin]; [contradiction|]. now apply (proj1 IH eq_refl).
Qed.

Lemma lookup_app y a b : lookup y (a ++ b) = match lookup y a with Some w => Some w | None => lookup y b end.
Proof. induction a as [|[x w] a IH]; cbn [app lookup]; [reflexivity|]. destruct (name_eqb y x); [reflexivity|exact IH]. Qed.

Lemma ext_env_cons x names w vs rho : ext_env (x :: names) (w :: vs) rho = ext_env names vs ((x, w) :: rho).
Proof. unfold ext_env. cbn [zip rev]. now rewrite <- app_assoc. Qed.

Lemma ext_env_nil_l vs rho : ext_env [] vs rho = rho. Proof. reflexivity. Qed.
Lemma ext_env_nil_r names rho : ext_env names [] rho = rho. Proof. destruct names; reflexivity. Qed.

Lemma lookup_ext_other y names : forall vs rho, ~ In y names -> lookup y (ext_env names vs rho) = lookup y rho.
Proof.
  induction names as [|x r IH]; intros vs rho H; [reflexivity|]. destruct vs as [|w vs]; [reflexivity|].
  rewrite ext_env_cons, IH by (intro Hr; apply H; now right). cbn [lookup].
  rewrite name_eqb_neq; [reflexivity|]. intro Eq. apply H. now left.
Qed.

Lemma lookup_ext_nth names : forall vs rho i x w, NoDup names ->
  nth_error names i = Some x -> nth_error vs i = Some w -> lookup x (ext_env names vs rho) = Some w.
Proof.
  induction names as [|x0 r IH]; intros vs rho i x w ND Hx Hw; [destruct i; discriminate|].
  destruct vs as [|w0 vs]; [destruct i; discriminate|]. inversion ND as [|? ? Hn ND']; subst.
  rewrite ext_env_cons. destruct i as [|i]; cbn [nth_error] in Hx, Hw.
  - injection Hx as <-. injection Hw as <-. rewrite lookup_ext_other by assumption. cbn. now rewrite name_eqb_refl.
  - eapply IH; eassumption.
Qed.

Lemma cols_match_app a b rho : cols_match (a ++ b) rho = comb (cols_match a rho) (cols_match b rho).
Proof.
  induction a as [|[u p] a IH]; cbn [app cols_match comb].
  - destruct (cols_match b rho); reflexivity.
  - destruct (lookup u rho) as [w|]; [|reflexivity]. rewrite IH.
    destruct (pmatch p w), (cols_match a rho), (cols_match b rho); cbn; try reflexivity. now rewrite app_assoc.
Qed.

Lemma cols_match_zip names : forall items vs rho, NoDup names -> length items = length names -> length vs = length names ->
  cols_match (zip names items) (ext_env names vs rho) = pmatch_list items vs.
Proof.
  induction names as [|x r IH]; intros items vs rho ND Li Lv.
  - destruct items, vs; try discriminate. reflexivity.
  - destruct items as [|it items], vs as [|w vs]; try discriminate. inversion ND as [|? ? Hn ND']; subst.
    cbn [zip cols_match pmatch_list]. rewrite (lookup_ext_nth (x :: r) (w :: vs) rho 0 x w ND eq_refl eq_refl).
    rewrite ext_env_cons, IH by (try assumption; cbn in *; lia). reflexivity.
Qed.

Lemma resolve_binds_ext names vs rho bs : (forall x u, In (x, u) bs -> ~ In u names) ->
  resolve_binds bs (ext_env names vs rho) = resolve_binds bs rho.
Proof.
  induction bs as [|[x u] bs IH]; intro H; [reflexivity|]. cbn [resolve_binds].
  rewrite lookup_ext_other by (apply (H x u); now left). rewrite IH by (intros y z Hy; apply (H y z); now right). reflexivity.
Qed.

Section Expand.
Variable v : name.
Variable names : list name.
Variable is_ok : pat -> option (list pat).
Variable rho : venv.
Variable w : value.
Variable vs : list value.
Hypothesis Lv : lookup v rho = Some w.
Hypothesis NDn : NoDup names.
Hypothesis Lvs : length vs = length names.

Lemma expand_cols_sem cs : forall cs',
  expand_cols v names is_ok cs = Some cs' ->
  (forall u p, In (u, p) cs -> ~ In u names) ->
  (forall p, In (v, p) cs -> exists items, is_ok p = Some items /\ length items = length names /\ pmatch p w = pmatch_list items vs) ->
  cols_match cs' (ext_env names vs rho) = cols_match cs rho.
Proof.
  induction cs as [|[u p] cs IH]; intros cs' H Fr Hv; cbn [expand_cols] in H; [injection H as <-; reflexivity|].
  destruct (expand_cols v names is_ok cs) as [r'|] eqn:Er; [|discriminate].
  specialize (IH r' eq_refl (fun a b Hab => Fr a b (or_intror Hab)) (fun q Hq => Hv q (or_intror Hq))).
  destruct (name_eqb u v) eqn:Eu.
  - apply name_eqb_eq in Eu. subst u. destruct (Hv p (or_introl eq_refl)) as (items & Ok & Li & Pm). rewrite Ok in H.
    destruct (length names <? length items)%nat; [discriminate|]. injection H as <-.
    rewrite cols_match_app, cols_match_zip, IH by assumption. cbn [cols_match]. rewrite Lv, Pm.
    destruct (pmatch_list items vs), (cols_match cs rho); reflexivity.
  - injection H as <-. cbn [cols_match]. rewrite lookup_ext_other by (apply (Fr u p); now left). now rewrite IH.
Qed.

Lemma expand_cols_in cs : forall cs', expand_cols v names is_ok cs = Some cs' ->
  forall u q, In (u, q) cs' ->
    (In (u, q) cs /\ u <> v) \/ (exists p items i, In (v, p) cs /\ is_ok p = Some items /\ nth_error names i = Some u /\ nth_error items i = Some q).
Proof.
  induction cs as [|[u0 p] cs IH]; intros cs' H u q Hin; cbn [expand_cols] in H; [injection H as <-; destruct Hin|].
  destruct (expand_cols v names is_ok cs) as [r'|] eqn:Er; [|discriminate]. specialize (IH r' eq_refl).
  destruct (name_eqb u0 v) eqn:Eu.
  - apply name_eqb_eq in Eu. subst u0. destruct (is_ok p) as [items|] eqn:Ok; [|discriminate].
    destruct (length names <? length items)%nat; [discriminate|]. injection H as <-.
    apply in_app_iff in Hin as [Hz|Hr].
    + right. exists p, items.
      assert (Hi : exists i, nth_error names i = Some u /\ nth_error items i = Some q).
      { clear -Hz. revert items Hz. induction names as [|x r IHn]; intros [|it items] Hz; try destruct Hz.
        - injection H as -> ->. now exists O.
        - destruct (IHn _ H) as [i Hi]. now exists (S i). }
      destruct Hi as [i [Hi1 Hi2]]. exists i. split; [now left|]. split; [exact Ok|]. split; assumption.
    + destruct (IH u q Hr) as [[H1 H2]|(p' & items' & i & H1 & H2)]; [left; split; [now right|assumption]|].
      right. exists p', items', i. split; [now right|assumption].
  - injection H as <-. destruct Hin as [Eq|Hr].
    + injection Eq as <- <-. left. split; [now left|]. intro Eq. subst. rewrite name_eqb_refl in Eu. discriminate.
    + destruct (IH u q Hr) as [[H1 H2]|(p' & items & i & H1 & H2)]; [left; split; [now right|assumption]|].
      right. exists p', items, i. split; [now right|assumption].
Qed.

Lemma expand_cols_fst cs : forall cs', expand_cols v names is_ok cs = Some cs' ->
  (forall p, In (v, p) cs -> exists items, is_ok p = Some items /\ length items = length names) ->
  map fst cs' = flat_map (fun c => if name_eqb (fst c) v then names else [fst c]) cs.
Proof.
  induction cs as [|[u0 p] cs IH]; intros cs' H Hv; cbn [expand_cols] in H; [injection H as <-; reflexivity|].
  destruct (expand_cols v names is_ok cs) as [r'|] eqn:Er; [|discriminate].
  specialize (IH r' eq_refl (fun q Hq => Hv q (or_intror Hq))). cbn [flat_map fst].
  destruct (name_eqb u0 v) eqn:Eu.
  - apply name_eqb_eq in Eu. subst u0. destruct (Hv p (or_introl eq_refl)) as (items & Ok & Li). rewrite Ok in H.
    destruct (length names <? length items)%nat; [discriminate|]. injection H as <-.
    rewrite map_app, IH. f_equal. clear -Li. revert items Li. induction names as [|x r IHn]; intros [|it items] Li; try discriminate; [reflexivity|].
    cbn. f_equal. apply IHn. cbn in Li. lia.
  - injection H as <-. cbn. now rewrite IH.
Qed.
End Expand.
