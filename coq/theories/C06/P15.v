From Goml Require Import Common.Base C06.Model C06.Spec.
From Coq Require Import Permutation.
From Goml Require Import C06.P1 C06.P2 C06.P3 C06.P4 C06.P5 C06.P6 C06.P7 C06.P8 C06.P9 C06.P10 C06.P11 C06.P12 C06.P13 C06.P14.

Section S.
Variable E : tenv.

Lemma diag_back a b : st_le a b -> diag b = false -> diag a = false.
Proof. intros [_ H] Hb. destruct (diag a); [rewrite (H eq_refl) in Hb; discriminate|reflexivity]. Qed.

Lemma max_by_count_col rows cs v : max_by_count rows cs None = Some v -> exists p, In (v, p) cs.
Proof. intro H. destruct (max_by_count_in rows cs None v H) as [Hp|[n Hn]]; [assumption|discriminate]. Qed.

Theorem compile_rows_correct : forall fuel rows s k s' Gam rho,
  compile_rows E fuel rows s = (k, s') -> diag s' = false -> no_panic k ->
  WF E Gam rows s rho -> outcome_equiv (eval_core k rho) (first_match_rows rows rho).
Proof.
  induction fuel as [|fuel IHf]; intros rows s k s' Gam rho H Hd Hn W.
  { cbn in H. injection H as <- <-. destruct Hn. }
  rewrite compile_rows_S in H. destruct rows as [|r rs].
  { injection H as <- <-. exact I. }
  cbv beta iota zeta in H.
  pose proof (WF_strip E Gam (r :: rs) s rho W) as W1.
  pose proof (stripped_strip (r :: rs)) as St1.
  pose proof (first_match_strip E Gam (r :: rs) s rho W) as E1.
  eapply outcome_equiv_trans; [|exact E1]. clear E1 W.
  remember (map strip_row (r :: rs)) as rows1 eqn:Er. destruct rows1 as [|r0 rows1']; [discriminate|]. clear Er r rs.
  set (rows1 := r0 :: rows1') in *.
  destruct (cols r0) as [|c0 cl] eqn:Ec0.
  { (* the first row has no column left: it is selected *)
    injection H as <- <-. cbn [eval_core first_match_rows rows1]. unfold row_try. rewrite Ec0. cbn [cols_match].
    assert (exists bs, resolve_binds (binds (rbody r0)) rho = Some bs) as [bs Hb].
    { assert (Hw : forall x u, In (x, u) (binds (rbody r0)) -> exists z, lookup u rho = Some z)
        by (intros x u Hu; exact (wf_binds _ _ _ _ _ W1 r0 (or_introl eq_refl) x u Hu)).
      clear -Hw. induction (binds (rbody r0)) as [|[x u] l IH]; [now exists []|].
      destruct (Hw x u (or_introl eq_refl)) as [z Lz]. destruct IH as [bs Hb]; [intros a b Hab; apply (Hw a b); now right|].
      exists ((x, z) :: bs). cbn. now rewrite Lz, Hb. }
    rewrite Hb. cbn. split; [reflexivity|apply Permutation_refl]. }
  destruct (max_by_count rows1 (c0 :: cl) None) as [v|] eqn:Ev; [|injection H as <- <-; destruct Hn].
  destruct (var_type v rows1) as [t|] eqn:Et; [|injection H as <- <-; destruct Hn].
  pose proof (var_type_Gam E Gam rows1 s rho v t W1 Et) as Gv.
  destruct (wf_env _ _ _ _ _ W1 v t Gv) as (w & Lw & Vw).
  destruct t as [| |iw| |ts|e|sn|ko].
  - (* unit *)
    destruct (compile_rows E fuel (map (drop_col v) rows1) s) as [k1 s1] eqn:C. injection H as <- <-.
    rewrite (val_ok_unit E w Vw) in Lw. apply no_panic_match_cons in Hn as [Hn1 _].
    rewrite eval_match_cons, Lw. cbn [lhs_matches lit_eqb].
    eapply outcome_equiv_trans; [|exact (drop_col_sem E Gam rows1 s rho v W1 St1 Gv Lw)].
    apply (IHf _ s k1 s1 Gam rho C Hd Hn1).
    apply (WF_sub E Gam rows1 _ s s rho W1 (N.le_refl _)). apply drop_col_sub. exact (wf_nodup _ _ _ _ _ W1).
  - (* bool *)
    destruct (split_bool v rows1) as [[tr fl]|] eqn:Sb; [|injection H as <- <-; destruct Hn].
    destruct (compile_rows E fuel tr s) as [kt s1] eqn:C1. destruct (compile_rows E fuel fl s1) as [kf s2] eqn:C2. injection H as <- <-.
    pose proof (compile_rows_le E fuel tr s) as Le1. rewrite C1 in Le1. cbn [snd] in Le1.
    pose proof (compile_rows_le E fuel fl s1) as Le2. rewrite C2 in Le2. cbn [snd] in Le2.
    destruct (val_ok_bool E w Vw) as [b ->].
    destruct (split_bool_sub v rows1 (wf_nodup _ _ _ _ _ W1) tr fl Sb) as [Subt Subf].
    pose proof (split_bool_sem E Gam rows1 s rho v b W1 St1 Gv Lw tr fl Sb) as Sem.
    apply no_panic_match_cons in Hn as [Hn1 Hn2]. apply no_panic_match_cons in Hn2 as [Hn2 _].
    rewrite eval_match_cons, Lw. cbn [lhs_matches lit_eqb]. destruct b; cbn [Bool.eqb].
    + eapply outcome_equiv_trans; [|exact Sem].
      apply (IHf tr s kt s1 Gam rho C1 (diag_back _ _ Le2 Hd) Hn1). exact (WF_sub E Gam rows1 tr s s rho W1 (N.le_refl _) Subt).
    + rewrite eval_match_cons, Lw. cbn [lhs_matches lit_eqb Bool.eqb].
      eapply outcome_equiv_trans; [|exact Sem].
      apply (IHf fl s1 kf s2 Gam rho C2 Hd Hn2). destruct Le1 as [Lg _]. exact (WF_sub E Gam rows1 fl s s1 rho W1 Lg Subf).
  - (* int *)
    assert (TYL : TyInt iw = TyStr \/ exists k, TyInt iw = TyInt k) by (right; now eexists).
    destruct (split_lit v rows1 [] [] []) as [[[vr fb] df]|] eqn:Sl; [|injection H as <- <-; destruct Hn].
    destruct df as [|d0 dfr].
    { injection H as <- <-. cbn in Hd. discriminate. }
    destruct (compile_lit_arms (compile_rows E fuel) vr s) as [arms s1] eqn:Ca.
    destruct (compile_rows E fuel (d0 :: dfr) s1) as [kd s2] eqn:Cd. injection H as <- <-.
    pose proof (compile_lit_arms_le (compile_rows E fuel) (compile_rows_le E fuel) vr s) as Le1. rewrite Ca in Le1. cbn [snd] in Le1.
    pose proof (compile_rows_le E fuel (d0 :: dfr) s1) as Le2. rewrite Cd in Le2. cbn [snd] in Le2.
    assert (LC : lit_cols v rows1) by (eapply (lit_cols_of_WF E Gam rows1 s rho v); eauto).
    destruct (split_lit_inv v rows1 [] [] [] [] vr fb (d0 :: dfr) LC (Forall_nil _) I eq_refl eq_refl (fun _ _ _ Hx => match Hx with end) Sl)
      as (F & D & Edf & Cov). cbn [app] in F, Edf, Cov.
    destruct (val_ok_lit E w _ TYL Vw) as [l ->].
    assert (Hw : forall k0 rs0, In (k0, rs0) vr -> forall s0, (gen s <= gen s0)%N -> WF E Gam rs0 s0 rho).
    { intros k0 rs0 Hin s0 Hs. rewrite Forall_forall in F. specialize (F _ Hin). unfold entry_ok in F. cbn [fst snd] in F. subst rs0.
      apply (WF_sub E Gam rows1 _ s s0 rho W1 Hs). apply keep_sub. exact (wf_nodup _ _ _ _ _ W1). }
    pose proof (lit_arms_eval E (compile_rows E fuel) (compile_rows_le E fuel) IHf Gam rho v l (Some kd) Lw vr s arms s1 Ca (diag_back _ _ Le2 Hd) Hn Hw) as Eva.
    pose proof (keep_sem E Gam rows1 s rho v l W1 LC Lw) as Sem.
    destruct (lookup_key l vr) as [rsl|] eqn:Lk.
    + apply lookup_key_some in Lk. rewrite Forall_forall in F. specialize (F _ Lk). unfold entry_ok in F. cbn [fst snd] in F. subst rsl.
      eapply outcome_equiv_trans; [exact Eva|exact Sem].
    + rewrite Eva, eval_match_nil, Lw.
      assert (Edf2 : d0 :: dfr = filter_map (keep v l) rows1).
      { rewrite Edf. symmetry. apply keep_is_nocol; [assumption|]. apply Cov. now apply lookup_key_none. }
      rewrite <- Edf2 in Sem. eapply outcome_equiv_trans; [|exact Sem].
      assert (Hnd : no_panic kd) by (clear -Hn; induction arms as [|[a b] arms IHa]; cbn in Hn; [tauto|apply IHa; cbn; tauto]).
      apply (IHf (d0 :: dfr) s1 kd s2 Gam rho Cd Hd Hnd).
      destruct Le1 as [Lg _]. apply (WF_sub E Gam rows1 _ s s1 rho W1 Lg). rewrite Edf. apply nocol_sub. exact (wf_nodup _ _ _ _ _ W1).

  - (* string *)
    assert (TYL : TyStr = TyStr \/ exists k, TyStr = TyInt k) by now left.
    destruct (split_lit v rows1 [] [] []) as [[[vr fb] df]|] eqn:Sl; [|injection H as <- <-; destruct Hn].
    destruct df as [|d0 dfr].
    { injection H as <- <-. cbn in Hd. discriminate. }
    destruct (compile_lit_arms (compile_rows E fuel) vr s) as [arms s1] eqn:Ca.
    destruct (compile_rows E fuel (d0 :: dfr) s1) as [kd s2] eqn:Cd. injection H as <- <-.
    pose proof (compile_lit_arms_le (compile_rows E fuel) (compile_rows_le E fuel) vr s) as Le1. rewrite Ca in Le1. cbn [snd] in Le1.
    pose proof (compile_rows_le E fuel (d0 :: dfr) s1) as Le2. rewrite Cd in Le2. cbn [snd] in Le2.
    assert (LC : lit_cols v rows1) by (eapply (lit_cols_of_WF E Gam rows1 s rho v); eauto).
    destruct (split_lit_inv v rows1 [] [] [] [] vr fb (d0 :: dfr) LC (Forall_nil _) I eq_refl eq_refl (fun _ _ _ Hx => match Hx with end) Sl)
      as (F & D & Edf & Cov). cbn [app] in F, Edf, Cov.
    destruct (val_ok_lit E w _ TYL Vw) as [l ->].
    assert (Hw : forall k0 rs0, In (k0, rs0) vr -> forall s0, (gen s <= gen s0)%N -> WF E Gam rs0 s0 rho).
    { intros k0 rs0 Hin s0 Hs. rewrite Forall_forall in F. specialize (F _ Hin). unfold entry_ok in F. cbn [fst snd] in F. subst rs0.
      apply (WF_sub E Gam rows1 _ s s0 rho W1 Hs). apply keep_sub. exact (wf_nodup _ _ _ _ _ W1). }
    pose proof (lit_arms_eval E (compile_rows E fuel) (compile_rows_le E fuel) IHf Gam rho v l (Some kd) Lw vr s arms s1 Ca (diag_back _ _ Le2 Hd) Hn Hw) as Eva.
    pose proof (keep_sem E Gam rows1 s rho v l W1 LC Lw) as Sem.
    destruct (lookup_key l vr) as [rsl|] eqn:Lk.
    + apply lookup_key_some in Lk. rewrite Forall_forall in F. specialize (F _ Lk). unfold entry_ok in F. cbn [fst snd] in F. subst rsl.
      eapply outcome_equiv_trans; [exact Eva|exact Sem].
    + rewrite Eva, eval_match_nil, Lw.
      assert (Edf2 : d0 :: dfr = filter_map (keep v l) rows1).
      { rewrite Edf. symmetry. apply keep_is_nocol; [assumption|]. apply Cov. now apply lookup_key_none. }
      rewrite <- Edf2 in Sem. eapply outcome_equiv_trans; [|exact Sem].
      assert (Hnd : no_panic kd) by (clear -Hn; induction arms as [|[a b] arms IHa]; cbn in Hn; [tauto|apply IHa; cbn; tauto]).
      apply (IHf (d0 :: dfr) s1 kd s2 Gam rho Cd Hd Hnd).
      destruct Le1 as [Lg _]. apply (WF_sub E Gam rows1 _ s s1 rho W1 Lg). rewrite Edf. apply nocol_sub. exact (wf_nodup _ _ _ _ _ W1).

  - (* tuple *)
    destruct (gensyms (length ts) s) as [xs s1] eqn:Gs.
    destruct (expand_rows v xs tuple_items rows1) as [rows'|] eqn:Ex; [|injection H as <- <-; destruct Hn].
    destruct (compile_rows E fuel rows' s1) as [k' s2] eqn:C. injection H as <- <-.
    assert (Ex' : expand_rows v (fst (gensyms (length ts) s)) tuple_items rows1 = Some rows') by (rewrite Gs; exact Ex).
    destruct (tuple_step E Gam rows1 s rho v ts k' rows' W1 St1 Gv Ex') as (Gam' & rho' & W' & Sem & Evl). rewrite Gs in W', Evl. cbn [fst snd] in W', Evl.
    rewrite Evl. eapply outcome_equiv_trans; [|exact Sem].
    apply (IHf rows' s1 k' s2 Gam' rho' C Hd (no_panic_let_projs v xs 0 k' Hn) W').
  - (* enum *)
    destruct (nth_error (enums E) (N.to_nat e)) as [variants|] eqn:Hv; [|injection H as <- <-; destruct Hn].
    destruct (gensyms_list (map (@length ty) variants) s) as [vars s1] eqn:Gl.
    destruct (split_enum v vars rows1 (map (fun _ => []) variants)) as [cases|] eqn:Se; [|injection H as <- <-; destruct Hn].
    destruct (compile_enum_arms (compile_rows E fuel) v e cases vars 0 s1) as [arms s2] eqn:Ca. injection H as <- <-.
    destruct (val_ok_enum E w e Vw) as (idx & vals & variants' & args & -> & Hv' & Ha & Fv). assert (variants' = variants) by congruence. subst variants'.
    assert (Evars : vars = fst (gensyms_list (map (@length ty) variants) s)) by now rewrite Gl.
    assert (Es1 : s1 = snd (gensyms_list (map (@length ty) variants) s)) by now rewrite Gl.
    pose proof (enum_cols_ok E Gam rows1 s rho v e W1 St1 Gv) as EC.
    destruct (split_enum_inv v vars rows1 _ cases EC Se) as [Lc Nc].
    specialize (Nc (N.to_nat idx)). rewrite nth_error_map, Ha in Nc. cbn [option_map app] in Nc. rewrite N2Nat.id in Nc.
    destruct (xs_spec s variants idx args Ha) as (Lx & NDx & Hrx). rewrite <- Evars in Lx, NDx, Hrx. rewrite <- Es1 in Hrx.
    destruct (gensyms_list_spec (map (@length ty) variants) s) as [Lvars _]. rewrite <- Evars, map_length in Lvars.
    assert (Hxs : nth_error vars (N.to_nat idx) = Some (nth (N.to_nat idx) vars [])).
    { apply nth_error_nth'. rewrite Lvars. apply nth_error_Some. congruence. }
    destruct (enum_arms_eval E (compile_rows E fuel) (compile_rows_le E fuel) IHf rho v e idx vals Lw cases vars 0%N s1 arms s2 Ca Hd Hn
                (N.to_nat idx) _ _ Nc Hxs ltac:(lia)) as (k1 & sa & sb & R1 & Hg & Hdb & Hn1 & Eva).
    rewrite Eva. change 0%N with (N.of_nat 0).
    rewrite (eval_let_gets v (CEnum e idx) k1 (VEnum e idx vals) vals) with (i := 0%nat) (rho := rho).
    2:{ cbn. now rewrite !N.eqb_refl. }
    2:{ exact Lw. }
    2:{ intro Hin. destruct (Hrx _ Hin) as (m & -> & Hm). destruct (wf_fresh _ _ _ _ _ W1 m) as [_ Hgm]; [lia|congruence]. }
    2:{ rewrite Lx, (Forall2_length _ _ _ Fv). cbn. lia. }
    rewrite firstn_all_len by (rewrite Lx; symmetry; exact (Forall2_length _ _ _ Fv)).
    destruct (enum_step E Gam rows1 s rho v e variants W1 St1 Gv Hv idx vals args Lw Ha Fv) as [Sem Wn]. rewrite <- Evars in Sem, Wn. rewrite <- Es1 in Wn.
    eapply outcome_equiv_trans; [|exact Sem].
    eapply (IHf _ sa k1 sb _ _ R1 Hdb Hn1). apply Wn. exact Hg.

  - (* struct *)
    destruct (nth_error (structs E) (N.to_nat sn)) as [fields|] eqn:Hf; [|injection H as <- <-; destruct Hn].
    destruct (gensyms (length fields) s) as [xs s1] eqn:Gs.
    destruct (expand_rows v xs struct_items rows1) as [rows'|] eqn:Ex; [|injection H as <- <-; destruct Hn].
    destruct (compile_rows E fuel rows' s1) as [k' s2] eqn:C. injection H as <- <-.
    assert (Ex' : expand_rows v (fst (gensyms (length fields) s)) struct_items rows1 = Some rows') by (rewrite Gs; exact Ex).
    destruct (struct_step E Gam rows1 s rho v sn fields k' rows' W1 St1 Gv Hf Ex') as (Gam' & rho' & W' & Sem & Evl). rewrite Gs in W', Evl. cbn [fst snd] in W', Evl.
    rewrite Evl. eapply outcome_equiv_trans; [|exact Sem].
    apply (IHf rows' s1 k' s2 Gam' rho' C Hd (no_panic_let_gets v (CStruct sn) xs 0 k' Hn) W').
  - injection H as <- <-. destruct Hn.
Qed.
End S.
