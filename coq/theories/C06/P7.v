From Goml Require Import Common.Base C06.Model C06.Spec.
From Coq Require Import Permutation.
From Goml Require Import C06.P1 C06.P2 C06.P3 C06.P4 C06.P5 C06.P6.

Section S.
Variable E : tenv.

Lemma keep_sub v k rows : (forall r, In r rows -> NoDup (map fst (cols r))) -> rows_sub (filter_map (keep v k) rows) rows.
Proof.
  induction rows as [|r rs IH]; intro ND; [intros r' []|]. cbn [filter_map].
  assert (IH' : rows_sub (filter_map (keep v k) rs) rs) by (apply IH; intros x Hx; apply ND; now right).
  pose proof (row_sub_remove v r (ND r (or_introl eq_refl))) as Rs.
  unfold keep. destruct (remove_column v (cols r)) as [[p|] cs] eqn:R; cbn [snd] in Rs.
  - destruct p as [| |l t| | | ]; try (now apply rows_sub_cons_r).
    destruct (lit_eqb l k); [now apply rows_sub_cons|now apply rows_sub_cons_r].
  - apply rows_sub_cons; [apply row_sub_refl, ND; now left|assumption].
Qed.

Lemma nocol_sub v rows : (forall r, In r rows -> NoDup (map fst (cols r))) -> rows_sub (filter_map (nocol v) rows) rows.
Proof.
  induction rows as [|r rs IH]; intro ND; [intros r' []|]. cbn [filter_map].
  assert (IH' : rows_sub (filter_map (nocol v) rs) rs) by (apply IH; intros x Hx; apply ND; now right).
  unfold nocol. destruct (remove_column v (cols r)) as [[p|] cs]; [now apply rows_sub_cons_r|].
  apply rows_sub_cons; [apply row_sub_refl, ND; now left|assumption].
Qed.

Lemma keep_sem Gam rows s rho v l :
  WF E Gam rows s rho -> lit_cols v rows -> lookup v rho = Some (VLit l) ->
  outcome_equiv (first_match_rows (filter_map (keep v l) rows) rho) (first_match_rows rows rho).
Proof.
  intros W LC Lv. induction rows as [|r rs IH]; [exact I|].
  assert (Wrs : WF E Gam rs s rho).
  { apply (WF_sub E Gam (r :: rs) rs s s rho W (N.le_refl _)). intros r' Hr'. exists r'. split; [now right|].
    apply row_sub_refl, (wf_nodup _ _ _ _ _ W). now right. }
  specialize (IH Wrs (fun x Hx => LC x (or_intror Hx))).
  pose proof (wf_nodup _ _ _ _ _ W r (or_introl eq_refl)) as ND.
  cbn [filter_map first_match_rows]. unfold keep.
  destruct (remove_column v (cols r)) as [[p|] cs] eqn:R.
  - destruct (LC r (or_introl eq_refl) p) as (l' & t & ->); [now rewrite R|].
    assert (Rf : fst (remove_column v (cols r)) = Some (PLit l' t)) by now rewrite R.
    pose proof (row_try_remove rho r v _ _ ND Rf Lv) as RT. rewrite R in RT. cbn [snd] in RT. rewrite pmatch_lit in RT.
    destruct (lit_eqb l' l); cbn [first_match_rows].
    + destruct (row_try {| cols := cs; rbody := rbody r |} rho) as [a|], (row_try r rho) as [a'|]; cbn in RT; try tauto.
      cbn. split; [reflexivity|now apply Permutation_sym].
    + destruct (row_try r rho); [destruct (row_try {| cols := cs; rbody := rbody r |} rho); cbn in RT; contradiction|exact IH].
  - cbn [first_match_rows]. destruct (row_try r rho); cbn; auto.
Qed.

Lemma keep_is_nocol v l rows : lit_cols v rows -> (forall r, In r rows -> has_lit v l r = false) ->
  filter_map (keep v l) rows = filter_map (nocol v) rows.
Proof.
  induction rows as [|r rs IH]; intros LC H; [reflexivity|]. cbn [filter_map].
  rewrite (keep_nolit v l r); [|apply H; now left|apply LC; now left].
  rewrite IH; [reflexivity|intros x Hx; apply LC; now right|intros x Hx; apply H; now right].
Qed.

(* ---- pat/val inversion for literal types ---- *)
Lemma val_ok_lit w t : (t = TyStr \/ exists k, t = TyInt k) -> val_ok E w t -> exists l, w = VLit l.
Proof. intros Ht H. inversion H; subst; try (destruct Ht as [Ht|[k Ht]]; discriminate). now eexists. Qed.

Lemma pat_ok_lit p t : (t = TyStr \/ exists k, t = TyInt k) -> pat_ok E p t -> trivial_pat p = false -> exists l, p = PLit l t.
Proof. intros Ht H T. inversion H; subst; cbn in T; try discriminate; try (destruct Ht as [Ht|[k Ht]]; discriminate). now eexists. Qed.

Lemma lit_cols_of_WF Gam rows s rho v t : WF E Gam rows s rho -> stripped rows -> Gam v = Some t ->
  (t = TyStr \/ exists k, t = TyInt k) -> lit_cols v rows.
Proof.
  intros W St Gv Ht r Hr p R. pose proof (wf_nodup _ _ _ _ _ W r Hr) as ND.
  destruct (remove_column_some [] v (cols r) p R ND) as (Hin & _).
  destruct (wf_cols _ _ _ _ _ W r Hr v p Hin) as (t' & Gt & Ok). assert (t' = t) by congruence. subst t'.
  destruct (pat_ok_lit p t Ht Ok (St r Hr (v, p) Hin)) as [l ->]. now exists l, t.
Qed.

(* ---- evaluation of a literal switch ---- *)
Lemma eval_match_cons v l k r d rho :
  eval_core (KMatch v ((l, k) :: r) d) rho =
  match lookup v rho with
  | None => Stuck 5
  | Some w => if lhs_matches l w then eval_core k rho else eval_core (KMatch v r d) rho
  end.
Proof. cbn [eval_core]. destruct (lookup v rho); reflexivity. Qed.

Lemma eval_match_nil v d rho :
  eval_core (KMatch v [] d) rho =
  match lookup v rho with None => Stuck 5 | Some w => match d with Some k => eval_core k rho | None => Stuck 6 end end.
Proof. cbn [eval_core]. destruct (lookup v rho); reflexivity. Qed.
End S.
