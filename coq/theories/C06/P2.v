From Goml Require Import Common.Base C06.Model C06.Spec.
From Coq Require Import Permutation.
From Goml Require Import C06.P1.

Section S.
Variable E : tenv.
Variable rho : venv.

(* ---- first_match respects row-wise equivalence ---- *)
Lemma first_match_rows_equiv (rows rows' : list row) :
  Forall2 (fun r r' => arm (rbody r) = arm (rbody r') /\ opt_perm (row_try r rho) (row_try r' rho)) rows rows' ->
  outcome_equiv (first_match_rows rows rho) (first_match_rows rows' rho).
Proof.
  induction 1 as [|r r' rows rows' [Ha Hp] _ IH]; cbn [first_match_rows]; [exact I|].
  destruct (row_try r rho), (row_try r' rho); cbn in Hp; try contradiction; [|exact IH].
  cbn. split; assumption.
Qed.

Lemma outcome_equiv_refl o : match o with Stuck _ => True | _ => outcome_equiv o o end.
Proof. destruct o; cbn; auto. Qed.

Lemma outcome_equiv_trans a b c : outcome_equiv a b -> outcome_equiv b c -> outcome_equiv a c.
Proof.
  destruct a, b, c; cbn; try tauto. intros [-> P1] [-> P2]. split; [reflexivity|eapply Permutation_trans; eassumption].
Qed.

Lemma outcome_equiv_sym a b : outcome_equiv a b -> outcome_equiv b a.
Proof. destruct a, b; cbn; try tauto. intros [-> P]. split; [reflexivity|now apply Permutation_sym]. Qed.

Lemma first_match_rows_refl rows : outcome_equiv (first_match_rows rows rho) (first_match_rows rows rho).
Proof. induction rows as [|r rs IH]; cbn; [exact I|]. destruct (row_try r rho); cbn; auto. Qed.

(* ---- remove_column ---- *)
Lemma remove_column_none v cs : fst (remove_column v cs) = None ->
  snd (remove_column v cs) = cs /\ forall p, ~ In (v, p) cs.
Proof.
  induction cs as [|[w p] cs IH]; cbn [remove_column]; intro H; [split; [reflexivity|intros p []]|].
  destruct (name_eqb w v) eqn:Ew; [discriminate|].
  destruct (remove_column v cs) as [o r] eqn:R. cbn [fst snd] in *. destruct (IH H) as [-> N].
  split; [reflexivity|]. intros q [Eq|Hq]; [injection Eq as -> ->; rewrite name_eqb_refl in Ew; discriminate|exact (N q Hq)].
Qed.

Lemma remove_column_some v cs p : fst (remove_column v cs) = Some p -> NoDup (map fst cs) ->
  In (v, p) cs /\ (forall q, ~ In (v, q) (snd (remove_column v cs))) /\
  (forall c, In c (snd (remove_column v cs)) -> In c cs) /\ NoDup (map fst (snd (remove_column v cs))) /\
  opt_perm (cols_match cs rho)
           (match lookup v rho with Some w => comb (pmatch p w) (cols_match (snd (remove_column v cs)) rho) | None => None end).
Proof.
  induction cs as [|[w q] cs IH]; cbn [remove_column]; intros H ND; [discriminate|].
  inversion ND as [|? ? Hn ND']; subst.
  destruct (name_eqb w v) eqn:Ew.
  - apply name_eqb_eq in Ew. subst w. cbn [fst snd] in *. injection H as ->.
    split; [now left|]. split.
    { intros q' Hq. apply Hn. change v with (fst (v, q')). now apply in_map. }
    split; [intros c Hc; now right|]. split; [assumption|].
    cbn [cols_match]. destruct (lookup v rho); [|exact I]. apply opt_perm_refl.
  - destruct (remove_column v cs) as [o r] eqn:R. cbn [fst snd] in *.
    destruct (IH H ND') as (I1 & I2 & I3 & I4 & I5).
    split; [now right|]. split.
    { intros q' [Eq|Hq]; [injection Eq as -> _; rewrite name_eqb_refl in Ew; discriminate|exact (I2 q' Hq)]. }
    split; [intros c [<-|Hc]; [now left|right; now apply I3]|]. split.
    { cbn [map fst]. constructor; [|assumption]. intro Hw. apply Hn. apply in_map_iff in Hw as (c & Ec & Hc).
      apply in_map_iff. exists c. split; [assumption|now apply I3]. }
    cbn [cols_match]. destruct (lookup w rho) as [ww|]; [|destruct (lookup v rho) as [vv|]; [|exact I];
      destruct (pmatch p vv); cbn; exact I].
    destruct (lookup v rho) as [vv|].
    + destruct (pmatch q ww) as [a|]; [|destruct (pmatch p vv), (cols_match cs rho); cbn in *; try tauto; destruct (cols_match r rho); cbn in *; tauto].
      destruct (cols_match cs rho) as [b|], (pmatch p vv) as [c|], (cols_match r rho) as [d|]; cbn in *; try tauto.
      rewrite app_assoc. eapply Permutation_trans; [apply Permutation_app_head, I5|].
      rewrite !app_assoc. apply Permutation_app_tail, Permutation_app_comm.
    + destruct (pmatch q ww), (cols_match cs rho); cbn in *; tauto.
Qed.
End S.
