From Goml Require Import Common.Base C06.Model C06.Spec.
From Coq Require Import Permutation.
From Goml Require Import C06.P1 C06.P2 C06.P3 C06.P4 C06.P5.

Section S.
Variable E : tenv.
Variable v : name.

(** all columns on v are literal patterns (what typing at int/string + stripping gives) *)
Definition lit_cols (rows : list row) : Prop :=
  forall r, In r rows -> forall p, fst (remove_column v (cols r)) = Some p -> exists l t, p = PLit l t.

Fixpoint distinct (ks : list lit) : Prop :=
  match ks with [] => True | k :: t => key_in k t = false /\ distinct t end.

Definition entry_ok (pre : list row) (e : lit * list row) : Prop := snd e = filter_map (keep v (fst e)) pre.

Lemma key_in_false_iff l ks : key_in l ks = false <-> forall k, In k ks -> lit_eqb k l = false.
Proof.
  induction ks as [|k t IH]; cbn [key_in]; split; intro H.
  - intros k [].
  - reflexivity.
  - apply orb_false_iff in H as [H1 H2]. intros x [<-|Hx]; [assumption|]. now apply IH.
  - apply orb_false_iff. split; [apply H; now left|]. apply IH. intros x Hx. apply H. now right.
Qed.

Lemma keep_lit_eq r l t cs : remove_column v (cols r) = (Some (PLit l t), cs) ->
  forall k, keep v k r = if lit_eqb l k then Some {| cols := cs; rbody := rbody r |} else None.
Proof. intros R k. unfold keep. now rewrite R. Qed.

Lemma vr_insert_ok pre r key t cs fb : remove_column v (cols r) = (Some (PLit key t), cs) ->
  fb = filter_map (nocol v) pre -> lit_cols pre ->
  forall vr, Forall (entry_ok pre) vr -> distinct (keys vr) ->
  (key_in key (keys vr) = false -> forall x, In x pre -> has_lit v key x = false) ->
  Forall (entry_ok (pre ++ [r])) (vr_insert vr key fb {| cols := cs; rbody := rbody r |}) /\
  distinct (keys (vr_insert vr key fb {| cols := cs; rbody := rbody r |})) /\
  (forall l, key_in l (keys (vr_insert vr key fb {| cols := cs; rbody := rbody r |})) = lit_eqb key l || key_in l (keys vr)).
Proof.
  intros R Efb LC. induction vr as [|[k0 rs0] tl IH]; intros F D Cov; cbn [vr_insert].
  - split; [|split].
    + constructor; [|constructor]. unfold entry_ok. cbn [fst snd]. rewrite filter_map_app. cbn [filter_map].
      rewrite (keep_lit_eq r key t cs R), lit_eqb_refl. f_equal. subst fb.
      specialize (Cov eq_refl). clear -Cov LC. induction pre as [|x pre IHp]; [reflexivity|]. cbn [filter_map].
      rewrite (keep_nolit v key x); [|apply Cov; now left|apply LC; now left].
      rewrite IHp; [reflexivity|intros y Hy; apply LC; now right|intros y Hy; apply Cov; now right].
    + cbn. auto.
    + intro l. cbn. now rewrite orb_false_r.
  - inversion F as [|? ? F0 Ft]; subst. cbn [keys distinct] in D. destruct D as [D0 Dt].
    destruct (lit_eqb k0 key) eqn:Ek.
    + apply lit_eqb_eq in Ek. subst k0. split; [|split].
      * constructor.
        -- unfold entry_ok in *. cbn [fst snd] in *. rewrite filter_map_app. cbn [filter_map].
           rewrite (keep_lit_eq r key t cs R), lit_eqb_refl. now rewrite F0.
        -- rewrite Forall_forall in *. intros [k rs] Hin. specialize (Ft _ Hin). unfold entry_ok in *. cbn [fst snd] in *.
           rewrite filter_map_app. cbn [filter_map]. rewrite (keep_lit_eq r key t cs R).
           assert (Hk : In k (keys tl)).
           { clear -Hin. induction tl as [|[a b] tl IH]; [destruct Hin|]. destruct Hin as [Eq|Hin]; [injection Eq as -> _; now left|right; now apply IH]. }
           assert (H : lit_eqb key k = false).
           { rewrite lit_eqb_sym. exact (proj1 (key_in_false_iff key (keys tl)) D0 k Hk). }
           rewrite H, app_nil_r. exact Ft.
      * cbn [keys distinct]. split; assumption.
      * intro l. cbn [keys key_in]. destruct (lit_eqb key l); reflexivity.
    + assert (Cov' : key_in key (keys tl) = false -> forall x, In x pre -> has_lit v key x = false).
      { intro H. apply Cov. cbn [keys key_in]. now rewrite Ek, H. }
      destruct (IH Ft Dt Cov') as (I1 & I2 & I3). split; [|split].
      * constructor; [|exact I1]. unfold entry_ok in *. cbn [fst snd] in *. rewrite filter_map_app. cbn [filter_map].
        rewrite (keep_lit_eq r key t cs R). rewrite lit_eqb_sym, Ek, app_nil_r. exact F0.
      * cbn [keys distinct]. split; [|exact I2]. rewrite I3. rewrite lit_eqb_sym, Ek. exact D0.
      * intro l. cbn [keys key_in]. rewrite I3. destruct (lit_eqb k0 l), (lit_eqb key l); reflexivity.
Qed.

Lemma vr_push_all_ok pre r vr : remove_column v (cols r) = (None, cols r) \/ fst (remove_column v (cols r)) = None ->
  Forall (entry_ok pre) vr -> Forall (entry_ok (pre ++ [r])) (vr_push_all vr r).
Proof.
  intros R F. assert (K : forall k, keep v k r = Some r).
  { intro k. unfold keep. destruct (remove_column v (cols r)) as [[p|] cs]; [destruct R as [R|R]; discriminate|reflexivity]. }
  induction F as [|[k rs] tl H _ IH]; cbn [vr_push_all]; constructor; [|exact IH].
  unfold entry_ok in *. cbn [fst snd] in *. rewrite filter_map_app. cbn [filter_map]. rewrite K. now rewrite H.
Qed.

(** the characterisation of the fold *)
Lemma split_lit_inv rows : forall pre vr fb df vr' fb' df',
  lit_cols (pre ++ rows) ->
  Forall (entry_ok pre) vr -> distinct (keys vr) -> fb = filter_map (nocol v) pre -> df = filter_map (nocol v) pre ->
  (forall l, key_in l (keys vr) = false -> forall x, In x pre -> has_lit v l x = false) ->
  split_lit v rows vr fb df = Some (vr', fb', df') ->
  Forall (entry_ok (pre ++ rows)) vr' /\ distinct (keys vr') /\ df' = filter_map (nocol v) (pre ++ rows) /\
  (forall l, key_in l (keys vr') = false -> forall x, In x (pre ++ rows) -> has_lit v l x = false).
Proof.
  induction rows as [|r rs IH]; intros pre vr fb df vr' fb' df' LC F D Efb Edf Cov H; cbn [split_lit] in H.
  - injection H as <- <- <-. rewrite app_nil_r. repeat split; assumption.
  - assert (LCpre : lit_cols pre) by (intros x Hx; apply LC; apply in_app_iff; now left).
    assert (LCr : forall p, fst (remove_column v (cols r)) = Some p -> exists l t, p = PLit l t)
      by (apply LC; apply in_app_iff; right; now left).
    assert (Eapp : pre ++ r :: rs = (pre ++ [r]) ++ rs) by (rewrite <- app_assoc; reflexivity).
    destruct (remove_column v (cols r)) as [[p|] cs] eqn:R.
    + destruct (LCr p eq_refl) as (l & t & ->).
      destruct (vr_insert_ok pre r l t cs fb R Efb LCpre vr F D (Cov l)) as (I1 & I2 & I3).
      rewrite Eapp.
      apply (IH (pre ++ [r]) (vr_insert vr l fb {| cols := cs; rbody := rbody r |}) fb df vr' fb' df').
      * now rewrite <- Eapp.
      * exact I1.
      * exact I2.
      * rewrite filter_map_app. cbn [filter_map]. unfold nocol at 2. rewrite R. now rewrite app_nil_r.
      * rewrite filter_map_app. cbn [filter_map]. unfold nocol at 2. rewrite R. now rewrite app_nil_r.
      * intros l0 Hk x Hx. rewrite I3 in Hk. apply orb_false_iff in Hk as [Hk1 Hk2].
        apply in_app_iff in Hx as [Hx|[<-|[]]]; [now apply Cov|]. unfold has_lit. now rewrite R.
      * exact H.
    + rewrite Eapp.
      apply (IH (pre ++ [r]) (vr_push_all vr r) (fb ++ [r]) (df ++ [r]) vr' fb' df').
      * now rewrite <- Eapp.
      * apply vr_push_all_ok; [right; now rewrite R|assumption].
      * now rewrite keys_push_all.
      * rewrite filter_map_app. cbn [filter_map]. unfold nocol at 2. rewrite R. now subst fb.
      * rewrite filter_map_app. cbn [filter_map]. unfold nocol at 2. rewrite R. now subst df.
      * rewrite keys_push_all. intros l0 Hk x Hx. apply in_app_iff in Hx as [Hx|[<-|[]]]; [now apply Cov|]. unfold has_lit. now rewrite R.
      * exact H.
Qed.
End S.
