From Goml Require Import Common.Base C06.Model C06.Spec.
From Coq Require Import Permutation.
From Goml Require Import C06.P1 C06.P2 C06.P3 C06.P4.

Section S.
Variable E : tenv.

(* ---- unit ---- *)
Lemma drop_col_sub v rows : (forall r, In r rows -> NoDup (map fst (cols r))) -> rows_sub (map (drop_col v) rows) rows.
Proof.
  induction rows as [|r rs IH]; intro ND; [intros r' []|]. cbn [map].
  apply rows_sub_cons; [apply row_sub_remove, ND; now left|apply IH; intros x Hx; apply ND; now right].
Qed.

Lemma drop_col_sem Gam rows s rho v :
  WF E Gam rows s rho -> stripped rows -> Gam v = Some TyUnit -> lookup v rho = Some (VLit LUnit) ->
  outcome_equiv (first_match_rows (map (drop_col v) rows) rho) (first_match_rows rows rho).
Proof.
  intros W St Gv Lv. apply first_match_rows_equiv.
  assert (H : forall r, In r rows -> opt_perm (row_try (drop_col v r) rho) (row_try r rho)).
  { intros r Hr. pose proof (wf_nodup _ _ _ _ _ W r Hr) as ND. unfold drop_col.
    destruct (fst (remove_column v (cols r))) as [p|] eqn:R.
    - destruct (remove_column_some rho v (cols r) p R ND) as (Hin & _).
      destruct (wf_cols _ _ _ _ _ W r Hr v p Hin) as (t' & Gt & Ok). assert (t' = TyUnit) by congruence. subst t'.
      rewrite (pat_ok_unit E p Ok (St r Hr (v, p) Hin)) in R.
      pose proof (row_try_remove rho r v _ _ ND R Lv) as RT. rewrite pmatch_lit in RT. cbn [lit_eqb] in RT.
      apply opt_perm_sym. destruct (row_try {| cols := snd (remove_column v (cols r)); rbody := rbody r |} rho); exact RT.
    - destruct (remove_column_none v (cols r) R) as [-> _]. destruct r; apply opt_perm_refl. }
  clear W St. induction rows as [|r rs IH]; cbn [map]; constructor.
  - split; [reflexivity|apply H; now left].
  - apply IH. intros x Hx. apply H. now right.
Qed.

(* ---- literal columns: characterisation of split_lit ---- *)

(** [keep v l r]: what remains of row r in the sub-matrix for the literal l *)
Definition keep (v : name) (l : lit) (r : row) : option row :=
  match remove_column v (cols r) with
  | (Some (PLit l' _), cs) => if lit_eqb l' l then Some {| cols := cs; rbody := rbody r |} else None
  | (Some _, cs) => None
  | (None, _) => Some r
  end.

Definition nocol (v : name) (r : row) : option row :=
  match remove_column v (cols r) with (None, _) => Some r | _ => None end.

Fixpoint filter_map {A B} (f : A -> option B) (l : list A) : list B :=
  match l with [] => [] | x :: r => match f x with Some y => y :: filter_map f r | None => filter_map f r end end.

Lemma filter_map_app {A B} (f : A -> option B) l1 l2 : filter_map f (l1 ++ l2) = filter_map f l1 ++ filter_map f l2.
Proof. induction l1 as [|x l1 IH]; cbn; [reflexivity|]. destruct (f x); cbn; now rewrite IH. Qed.

Definition has_lit (v : name) (l : lit) (r : row) : bool :=
  match remove_column v (cols r) with (Some (PLit l' _), _) => lit_eqb l' l | _ => false end.

Fixpoint keys (vr : list (lit * list row)) : list lit := match vr with [] => [] | (k, _) :: t => k :: keys t end.

Fixpoint key_in (l : lit) (ks : list lit) : bool := match ks with [] => false | k :: t => lit_eqb k l || key_in l t end.

(** invariant of the fold: [pre] is the processed prefix *)
Definition lit_inv (v : name) (pre : list row) (vr : list (lit * list row)) (fb df : list row) : Prop :=
  fb = filter_map (nocol v) pre /\ df = filter_map (nocol v) pre /\
  (forall k rs, In (k, rs) vr -> rs = filter_map (keep v k) pre) /\
  (forall l, key_in l (keys vr) = false -> forall r, In r pre -> has_lit v l r = false).

Lemma lit_eqb_sym a b : lit_eqb a b = lit_eqb b a.
Proof.
  destruct a, b; cbn; try reflexivity.
  - destruct b, b0; reflexivity.
  - apply Z.eqb_sym.
  - destruct (list_eqb s s0) eqn:E1, (list_eqb s0 s) eqn:E2; try reflexivity.
    + apply list_eqb_spec in E1. subst. assert (list_eqb s0 s0 = true) by now apply list_eqb_spec. congruence.
    + apply list_eqb_spec in E2. subst. assert (list_eqb s s = true) by now apply list_eqb_spec. congruence.
Qed.

Lemma lit_eqb_trans_false a b c : lit_eqb a b = true -> lit_eqb a c = false -> lit_eqb b c = false.
Proof. intros H1 H2. apply lit_eqb_eq in H1. now subst. Qed.

Lemma keep_nolit v l r : has_lit v l r = false ->
  (forall p, fst (remove_column v (cols r)) = Some p -> exists l' t, p = PLit l' t) ->
  keep v l r = nocol v r.
Proof.
  unfold has_lit, keep, nocol. intros H Hp. destruct (remove_column v (cols r)) as [[p|] cs]; [|reflexivity].
  destruct (Hp p eq_refl) as (l' & t & ->). now rewrite H.
Qed.

Lemma vr_push_all_in vr r k rs : In (k, rs) (vr_push_all vr r) -> exists rs0, In (k, rs0) vr /\ rs = rs0 ++ [r].
Proof.
  induction vr as [|[k0 rs0] t IH]; cbn [vr_push_all]; [intros []|].
  intros [Eq|H]; [injection Eq as <- <-; exists rs0; split; [now left|reflexivity]|].
  destruct (IH H) as (x & Hx & Ex). exists x. split; [now right|assumption].
Qed.

Lemma keys_push_all vr r : keys (vr_push_all vr r) = keys vr.
Proof. induction vr as [|[k rs] t IH]; cbn; [reflexivity|now rewrite IH]. Qed.

Lemma vr_insert_in vr key fb r k rs : In (k, rs) (vr_insert vr key fb r) ->
  (exists rs0, In (k, rs0) vr /\ ((lit_eqb k key = true /\ rs = rs0 ++ [r]) \/ rs = rs0)) \/
  (key_in key (keys vr) = false /\ k = key /\ rs = fb ++ [r]).
Proof.
  induction vr as [|[k0 rs0] t IH]; cbn [vr_insert].
  - intros [Eq|[]]. injection Eq as <- <-. right. repeat split.
  - destruct (lit_eqb k0 key) eqn:Ek.
    + intros [Eq|H]; [injection Eq as <- <-; left; exists rs0; split; [now left|left; split; [assumption|reflexivity]]|].
      left. exists rs. split; [now right|now right].
    + intros [Eq|H]; [injection Eq as <- <-; left; exists rs0; split; [now left|now right]|].
      destruct (IH H) as [(x & Hx & Ex)|(Hk & -> & ->)].
      * left. exists x. split; [now right|assumption].
      * right. cbn [keys key_in]. rewrite Ek. repeat split; assumption.
Qed.
End S.
