(** C06 model: the match compiler of crates/compiler/src/compile_match.rs
    (make_rows, move_variable_patterns, branch_variable, compile_rows and its
    per-type cases) over non-generic types, with explicit panic sites, the
    integer/string "non-exhaustive" diagnostic, and the gensym counter threaded
    exactly as the Rust does.  Plus the source semantics (first match) and the
    semantics of the emitted Core decision tree. *)
From Goml Require Import Common.Base.

Inductive name := U (n : N) | G (n : N).   (* user local hint/idx ; temporary x<n> *)

Definition name_eqb (a b : name) : bool :=
  match a, b with
  | U x, U y => x =? y
  | G x, G y => x =? y
  | _, _ => false
  end.

Inductive ty :=
| TyUnit | TyBool | TyInt (w : N) | TyStr
| TyTuple (ts : list ty)
| TyEnum (e : N)
| TyStruct (s : N)
| TyOther (k : N).     (* float, Vec, Ref, dyn, array, func, param: the panic sites *)

Inductive lit := LUnit | LBool (b : bool) | LInt (z : Z) | LStr (s : str).

Definition lit_eqb (a b : lit) : bool :=
  match a, b with
  | LUnit, LUnit => true
  | LBool x, LBool y => Bool.eqb x y
  | LInt x, LInt y => Z.eqb x y
  | LStr x, LStr y => list_eqb x y
  | _, _ => false
  end.

Inductive pat :=
| PVar (x : N) (t : ty)
| PWild (t : ty)
| PLit (l : lit) (t : ty)
| PTuple (ps : list pat) (t : ty)
| PEnum (e idx : N) (ps : list pat) (t : ty)
| PStruct (s : N) (ps : list pat) (t : ty).

Definition pat_ty (p : pat) : ty :=
  match p with
  | PVar _ t | PWild t | PLit _ t | PTuple _ t | PEnum _ _ _ t | PStruct _ _ t => t
  end.

(** type environment: enum e -> variants -> argument types; struct s -> field types *)
Record tenv := { enums : list (list (list ty)); structs : list (list ty) }.

(** an arm body: the [let x = var] wrappers added by move_variable_patterns
    (outermost first) around the original body, identified by its arm number *)
Record body := { binds : list (N * name); arm : N }.

Notation column := (name * pat)%type (only parsing).
Record row := { cols : list column; rbody : body }.

Inductive ctor := CEnum (e idx : N) | CStruct (s : N).

Inductive lhs := LhsLit (l : lit) | LhsEnum (e idx : N) (vars : list name).

Inductive core :=
| KBody (b : body)
| KMissing
| KPanic (site : N)
| KLetProj (x v : name) (i : N) (k : core)
| KLetGet (x v : name) (c : ctor) (i : N) (k : core)
| KMatch (v : name) (arms : list (lhs * core)) (default : option core).

(* ------------------------------------------------------------------ *)
(** * the compiler *)

(** [Row::remove_column]: removes the FIRST column on [v] *)
Fixpoint remove_column (v : name) (cs : list column) : option pat * list column :=
  match cs with
  | [] => (None, [])
  | (w, p) :: r =>
      if name_eqb w v then (Some p, r)
      else let '(o, r') := remove_column v r in (o, (w, p) :: r')
  end.

(** [move_variable_patterns]: [retain] walks the columns in order; a variable
    pattern wraps the current body in [let x = var], a wildcard is dropped *)
Fixpoint strip_cols (cs : list column) (bs : list (N * name)) : list column * list (N * name) :=
  match cs with
  | [] => ([], bs)
  | (v, PVar x _) :: r => strip_cols r ((x, v) :: bs)
  | (v, PWild _) :: r => strip_cols r bs
  | c :: r => let '(cs', bs') := strip_cols r bs in (c :: cs', bs')
  end.

Definition strip_row (r : row) : row :=
  let '(cs, bs) := strip_cols (cols r) (binds (rbody r)) in
  {| cols := cs; rbody := {| binds := bs; arm := arm (rbody r) |} |}.

(** [branch_variable]: counts over all rows; of row 0's columns the LAST one with
    the maximal count ([Iterator::max_by_key]); its type is the annotated type of
    the last column on it in iteration order *)
Definition count_var (v : name) (rows : list row) : N :=
  fold_left (fun acc r => fold_left (fun a c => if name_eqb (fst c) v then a + 1 else a) (cols r) acc) rows 0.

Fixpoint max_by_count (rows : list row) (cs : list column) (best : option (name * N)) : option name :=
  match cs with
  | [] => option_map fst best
  | (v, _) :: r =>
      let n := count_var v rows in
      match best with
      | Some (_, m) => if m <=? n then max_by_count rows r (Some (v, n)) else max_by_count rows r best
      | None => max_by_count rows r (Some (v, n))
      end
  end.

Definition var_type (v : name) (rows : list row) : option ty :=
  fold_left (fun acc r => fold_left (fun a c => if name_eqb (fst c) v then Some (pat_ty (snd c)) else a) (cols r) acc) rows None.

Record st := { gen : N; diag : bool }.

Definition gensyms (n : nat) (s : st) : list name * st :=
  (map (fun i => G (gen s + N.of_nat i)) (seq 0 n), {| gen := gen s + N.of_nat n; diag := diag s |}).

Fixpoint zip {A B} (a : list A) (b : list B) : list (A * B) :=
  match a, b with x :: a', y :: b' => (x, y) :: zip a' b' | _, _ => [] end.

(** in-place replacement of every column on [v] (tuple and struct cases) *)
Fixpoint expand_cols (v : name) (names : list name) (is_ok : pat -> option (list pat)) (cs : list column)
  : option (list column) :=
  match cs with
  | [] => Some []
  | (w, p) :: r =>
      match expand_cols v names is_ok r with
      | None => None
      | Some r' =>
          if name_eqb w v then
            match is_ok p with
            | Some items => if (length names <? length items)%nat then None else Some (zip names items ++ r')
            | None => None
            end
          else Some ((w, p) :: r')
      end
  end.

Fixpoint expand_rows v names is_ok (rows : list row) : option (list row) :=
  match rows with
  | [] => Some []
  | r :: rs =>
      match expand_cols v names is_ok (cols r), expand_rows v names is_ok rs with
      | Some cs, Some rs' => Some ({| cols := cs; rbody := rbody r |} :: rs')
      | _, _ => None
      end
  end.

Definition tuple_items (p : pat) := match p with PTuple items _ => Some items | _ => None end.
Definition struct_items (p : pat) := match p with PStruct _ items _ => Some items | _ => None end.

Fixpoint let_projs (v : name) (names : list name) (i : N) (k : core) : core :=
  match names with
  | [] => k
  | x :: r => KLetProj x v i (let_projs v r (i + 1) k)
  end.

Fixpoint let_gets (v : name) (c : ctor) (names : list name) (i : N) (k : core) : core :=
  match names with
  | [] => k
  | x :: r => KLetGet x v c i (let_gets v c r (i + 1) k)
  end.

(** literal cases: [value_rows] is an IndexMap (insertion order), a new key starts
    from a copy of [fallback_rows]; rows without a column on the branch variable go
    to every existing entry, to [fallback_rows] and to [default_rows] *)
Fixpoint vr_push_all (vr : list (lit * list row)) (r : row) : list (lit * list row) :=
  match vr with [] => [] | (k, rs) :: t => (k, rs ++ [r]) :: vr_push_all t r end.

Fixpoint vr_insert (vr : list (lit * list row)) (key : lit) (fallback : list row) (r : row) : list (lit * list row) :=
  match vr with
  | [] => [(key, fallback ++ [r])]
  | (k, rs) :: t => if lit_eqb k key then (k, rs ++ [r]) :: t else (k, rs) :: vr_insert t key fallback r
  end.

(** returns None on the [unreachable!]/[expect] sites (a non-literal pattern) *)
Fixpoint split_lit (v : name) (rows : list row) (vr : list (lit * list row)) (fb df : list row)
  : option (list (lit * list row) * list row * list row) :=
  match rows with
  | [] => Some (vr, fb, df)
  | r :: rs =>
      match remove_column v (cols r) with
      | (Some (PLit l _), cs) =>
          let r' := {| cols := cs; rbody := rbody r |} in
          split_lit v rs (vr_insert vr l fb r') fb df
      | (Some (PWild _), cs) =>
          let r' := {| cols := cs; rbody := rbody r |} in
          split_lit v rs (vr_push_all vr r') (fb ++ [r']) (df ++ [r'])
      | (Some _, _) => None
      | (None, _) => split_lit v rs (vr_push_all vr r) (fb ++ [r]) (df ++ [r])
      end
  end.

Fixpoint split_bool (v : name) (rows : list row) : option (list row * list row) :=
  match rows with
  | [] => Some ([], [])
  | r :: rs =>
      match split_bool v rs with
      | None => None
      | Some (t, f) =>
          match remove_column v (cols r) with
          | (Some (PLit (LBool true) _), cs) => Some ({| cols := cs; rbody := rbody r |} :: t, f)
          | (Some (PLit (LBool false) _), cs) => Some (t, {| cols := cs; rbody := rbody r |} :: f)
          | (Some _, _) => None
          | (None, _) => Some (r :: t, r :: f)
          end
      end
  end.

Definition drop_col (v : name) (r : row) : row :=
  {| cols := snd (remove_column v (cols r)); rbody := rbody r |}.

(** enum case: distribute rows over the constructor cases *)
Fixpoint push_case (cases : list (list row)) (idx : nat) (r : row) : option (list (list row)) :=
  match cases, idx with
  | [], _ => None                                  (* cases[idx] out of bounds: panic *)
  | rs :: t, O => Some ((rs ++ [r]) :: t)
  | rs :: t, S i => option_map (cons rs) (push_case t i r)
  end.

Fixpoint split_enum (v : name) (vars : list (list name)) (rows : list row) (cases : list (list row))
  : option (list (list row)) :=
  match rows with
  | [] => Some cases
  | r :: rs =>
      match remove_column v (cols r) with
      | (Some (PEnum _ idx args _), cs) =>
          let r' := {| cols := cs ++ zip (nth (N.to_nat idx) vars []) args; rbody := rbody r |} in
          match push_case cases (N.to_nat idx) r' with
          | None => None
          | Some cases' => split_enum v vars rs cases'
          end
      | (Some _, _) => None
      | (None, _) => split_enum v vars rs (map (fun c => c ++ [r]) cases)
      end
  end.

Fixpoint gensyms_list (ns : list nat) (s : st) : list (list name) * st :=
  match ns with
  | [] => ([], s)
  | n :: r => let '(xs, s1) := gensyms n s in let '(xss, s2) := gensyms_list r s1 in (xs :: xss, s2)
  end.

Definition set_diag (s : st) : st := {| gen := gen s; diag := true |}.

(** sequential compilation of the literal arms / constructor arms, threading the state
    (the recursive call is a parameter so that these loops are ordinary functions) *)
Fixpoint compile_lit_arms (rec : list row -> st -> core * st) (vr : list (lit * list row)) (s : st)
  : list (lhs * core) * st :=
  match vr with
  | [] => ([], s)
  | (l, rs) :: t =>
      let '(k, s1) := rec rs s in
      let '(ks, s2) := compile_lit_arms rec t s1 in
      ((LhsLit l, k) :: ks, s2)
  end.

Fixpoint compile_enum_arms (rec : list row -> st -> core * st) (v : name) (e : N)
  (cs : list (list row)) (vs : list (list name)) (idx : N) (s : st) : list (lhs * core) * st :=
  match cs, vs with
  | rs :: ct, xs :: vt =>
      let '(k, s1) := rec rs s in
      let '(ks, s2) := compile_enum_arms rec v e ct vt (idx + 1) s1 in
      ((LhsEnum e idx xs, let_gets v (CEnum e idx) xs 0 k) :: ks, s2)
  | _, _ => ([], s)
  end.

Section Compile.
Variable E : tenv.

Fixpoint compile_rows (fuel : nat) (rows : list row) (s : st) : core * st :=
  match fuel with
  | O => (KPanic 0, s)                                  (* out of fuel: excluded by theorems *)
  | S fuel =>
    match rows with
    | [] => (KMissing, s)
    | _ =>
      let rows := map strip_row rows in
      match rows with
      | [] => (KMissing, s)
      | r0 :: _ =>
        match cols r0 with
        | [] => (KBody (rbody r0), s)
        | _ =>
          match max_by_count rows (cols r0) None with
          | None => (KPanic 1, s)
          | Some v =>
            match var_type v rows with
            | None => (KPanic 1, s)
            | Some TyUnit =>
                let '(k, s1) := compile_rows fuel (map (drop_col v) rows) s in
                (KMatch v [(LhsLit LUnit, k)] None, s1)
            | Some TyBool =>
                match split_bool v rows with
                | None => (KPanic 2, s)
                | Some (t, f) =>
                    let '(kt, s1) := compile_rows fuel t s in
                    let '(kf, s2) := compile_rows fuel f s1 in
                    (KMatch v [(LhsLit (LBool true), kt); (LhsLit (LBool false), kf)] None, s2)
                end
            | Some (TyInt _) | Some TyStr =>
                match split_lit v rows [] [] [] with
                | None => (KPanic 3, s)
                | Some (vr, _, df) =>
                    match df with
                    | [] => (KMissing, set_diag s)
                    | _ =>
                      let '(arms, s1) := compile_lit_arms (compile_rows fuel) vr s in
                      let '(kd, s2) := compile_rows fuel df s1 in
                      (KMatch v arms (Some kd), s2)
                    end
                end
            | Some (TyEnum e) =>
                match nth_error (enums E) (N.to_nat e) with
                | None => (KPanic 4, s)
                | Some variants =>
                    let '(vars, s1) := gensyms_list (map (@length ty) variants) s in
                    match split_enum v vars rows (map (fun _ => []) variants) with
                    | None => (KPanic 5, s1)
                    | Some cases =>
                      let '(arms, s2) := compile_enum_arms (compile_rows fuel) v e cases vars 0 s1 in
                      (KMatch v arms None, s2)
                    end
                end
            | Some (TyStruct sn) =>
                match nth_error (structs E) (N.to_nat sn) with
                | None => (KPanic 6, s)
                | Some fields =>
                    let '(xs, s1) := gensyms (length fields) s in
                    match expand_rows v xs struct_items rows with
                    | None => (KPanic 7, s1)
                    | Some rows' =>
                        let '(k, s2) := compile_rows fuel rows' s1 in
                        (let_gets v (CStruct sn) xs 0 k, s2)
                    end
                end
            | Some (TyTuple ts) =>
                let '(xs, s1) := gensyms (length ts) s in
                match expand_rows v xs tuple_items rows with
                | None => (KPanic 8, s1)
                | Some rows' =>
                    let '(k, s2) := compile_rows fuel rows' s1 in
                    (let_projs v xs 0 k, s2)
                end
            | Some (TyOther k) => (KPanic (100 + k), s)
            end
          end
        end
      end
    end
  end.

(** [make_rows] + [compile_rows] for [match scrut { arms }] on a variable *)
Definition make_rows (scrut : name) (arms : list pat) : list row :=
  map (fun '(i, p) => {| cols := [(scrut, p)]; rbody := {| binds := []; arm := N.of_nat i |} |})
      (zip (seq 0 (length arms)) arms).

Definition compile_match (fuel : nat) (scrut : name) (arms : list pat) (g0 : N) : core * st :=
  compile_rows fuel (make_rows scrut arms) {| gen := g0; diag := false |}.
End Compile.

(* ------------------------------------------------------------------ *)
(** * semantics *)

Inductive value :=
| VLit (l : lit)
| VTuple (vs : list value)
| VEnum (e idx : N) (vs : list value)
| VStruct (s : N) (vs : list value).

(** source semantics of a pattern: bindings of pattern variables, or no match *)
Fixpoint pmatch (p : pat) (v : value) : option (list (N * value)) :=
  let pmatch_list :=
    (fix go (ps : list pat) (vs : list value) : option (list (N * value)) :=
       match ps, vs with
       | [], [] => Some []
       | p :: ps', v :: vs' =>
           match pmatch p v, go ps' vs' with
           | Some a, Some b => Some (a ++ b)
           | _, _ => None
           end
       | _, _ => None
       end) in
  match p, v with
  | PVar x _, _ => Some [(x, v)]
  | PWild _, _ => Some []
  | PLit l _, VLit l' => if lit_eqb l l' then Some [] else None
  | PTuple ps _, VTuple vs => pmatch_list ps vs
  | PEnum e idx ps _, VEnum e' idx' vs => if (e =? e') && (idx =? idx') then pmatch_list ps vs else None
  | PStruct s ps _, VStruct s' vs => if s =? s' then pmatch_list ps vs else None
  | _, _ => None
  end.

Inductive outcome :=
| Hit (arm : N) (bs : list (N * value))
| Missing          (* the program fails at this point *)
| Stuck (why : N). (* ill-formed tree / unbound variable / no arm and no default *)

(** the SPEC: first arm in source order whose pattern matches *)
Fixpoint first_match_from (i : N) (arms : list pat) (v : value) : outcome :=
  match arms with
  | [] => Missing
  | p :: r => match pmatch p v with Some bs => Hit i bs | None => first_match_from (i + 1) r v end
  end.
Definition first_match (arms : list pat) (v : value) : outcome := first_match_from 0 arms v.

Definition venv := list (name * value).
Fixpoint lookup (x : name) (rho : venv) : option value :=
  match rho with [] => None | (y, v) :: r => if name_eqb x y then Some v else lookup x r end.

Definition lhs_matches (l : lhs) (v : value) : bool :=
  match l, v with
  | LhsLit a, VLit b => lit_eqb a b
  | LhsEnum e idx _, VEnum e' idx' _ => (e =? e') && (idx =? idx')
  | _, _ => false
  end.

Fixpoint resolve_binds (bs : list (N * name)) (rho : venv) : option (list (N * value)) :=
  match bs with
  | [] => Some []
  | (x, v) :: r =>
      match lookup v rho, resolve_binds r rho with
      | Some w, Some l => Some ((x, w) :: l)
      | _, _ => None
      end
  end.

Fixpoint eval_core (k : core) (rho : venv) : outcome :=
  match k with
  | KBody b => match resolve_binds (binds b) rho with Some bs => Hit (arm b) bs | None => Stuck 1 end
  | KMissing => Missing
  | KPanic _ => Stuck 2
  | KLetProj x v i k' =>
      match lookup v rho with
      | Some (VTuple vs) =>
          match nth_error vs (N.to_nat i) with Some w => eval_core k' ((x, w) :: rho) | None => Stuck 3 end
      | _ => Stuck 3
      end
  | KLetGet x v c i k' =>
      match lookup v rho, c with
      | Some (VEnum e idx vs), CEnum e' idx' =>
          if (e =? e') && (idx =? idx') then
            match nth_error vs (N.to_nat i) with Some w => eval_core k' ((x, w) :: rho) | None => Stuck 4 end
          else Stuck 4
      | Some (VStruct s vs), CStruct s' =>
          if s =? s' then
            match nth_error vs (N.to_nat i) with Some w => eval_core k' ((x, w) :: rho) | None => Stuck 4 end
          else Stuck 4
      | _, _ => Stuck 4
      end
  | KMatch v arms default =>
      match lookup v rho with
      | None => Stuck 5
      | Some w =>
          (fix go (arms : list (lhs * core)) : outcome :=
             match arms with
             | [] => match default with Some d => eval_core d rho | None => Stuck 6 end
             | (l, k') :: r => if lhs_matches l w then eval_core k' rho else go r
             end) arms
      end
  end.

(** outcomes are compared up to the order of bindings *)
Fixpoint blookup (x : N) (bs : list (N * value)) : option value :=
  match bs with [] => None | (y, v) :: r => if x =? y then Some v else blookup x r end.
