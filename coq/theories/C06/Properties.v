(** C06 — property theorems (placeholder stage: the general first-match theorem is
    being developed in C06/Proofs.v; what is proved here is stated exactly). *)
From Goml Require Import Common.Base C06.Model.

(** a row with no columns left is selected at once (the base case of first match) *)
Theorem empty_first_row_selected : forall E fuel r rs s,
  cols (strip_row r) = [] ->
  compile_rows E (S fuel) (r :: rs) s = (KBody (rbody (strip_row r)), s).
Proof. intros E fuel r rs s H. cbn. rewrite H. reflexivity. Qed.
