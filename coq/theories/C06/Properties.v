(** C06 — property theorems only *)
From Goml Require Import Common.Base C06.Model C06.Spec C06.P2 C06.P15 C06.P16.
From Coq Require Import Permutation.

(** FIRST MATCH.  For every type environment, every scrutinee type, every list of arms
    typed against it (any number of rows, any nesting of bool / unit / integer /
    string / tuple / enum / struct patterns, variables and wildcards) and every
    scrutinee value of that type: if the match compiler accepted the match (no
    non-exhaustive-literal diagnostic) and reached no panic site, then evaluating the
    emitted decision tree selects exactly the first arm in source order whose pattern
    matches, with exactly that arm's bindings — or fails (Missing) when no arm
    matches.  The scrutinee variable is evaluated by the tree only through lookups
    (it is never re-evaluated: it is a variable). *)
Theorem compile_match_first_match : forall E fuel scrut arms g0 t v k s',
  compile_match E fuel scrut arms g0 = (k, s') ->
  diag s' = false ->
  no_panic k ->
  Forall (fun p => pat_ok E p t) arms ->
  val_ok E v t ->
  (match scrut with G m => (m < g0)%N | U _ => True end) ->
  outcome_equiv (eval_core k [(scrut, v)]) (first_match arms v).
Proof. exact P16.compile_match_first_match. Qed.

(** the general statement over pattern matrices (several columns, as they arise for
    nested patterns) *)
Theorem compile_rows_first_match : forall E fuel rows s k s' Gam rho,
  compile_rows E fuel rows s = (k, s') -> diag s' = false -> no_panic k ->
  WF E Gam rows s rho -> outcome_equiv (eval_core k rho) (first_match_rows rows rho).
Proof. exact P15.compile_rows_correct. Qed.

(** an integer match without a catch-all arm is rejected at compile time (instance) *)
Theorem literal_match_without_default_rejected : forall E n w g0,
  diag (snd (compile_match E (S (S n)) (U 0) [PLit (LInt 0) (TyInt w); PLit (LInt 1) (TyInt w)] g0)) = true.
Proof. intros. reflexivity. Qed.

(** non-vacuity: a concrete three-arm match on (E, int) satisfies every hypothesis *)
Definition ex_env : tenv := {| enums := [[[]; [TyInt 2; TyBool]]]; structs := [] |}.
Definition ex_ty : ty := TyTuple [TyEnum 0; TyInt 2].
Definition ex_arms : list pat :=
  [ PTuple [PEnum 0 1 [PVar 5 (TyInt 2); PLit (LBool true) TyBool] (TyEnum 0); PLit (LInt 3) (TyInt 2)] ex_ty;
    PTuple [PWild (TyEnum 0); PLit (LInt 3) (TyInt 2)] ex_ty;
    PVar 6 ex_ty ].
Example first_match_nonvacuous :
  let '(k, s') := compile_match ex_env 50 (U 0) ex_arms 0 in
  diag s' = false /\ no_panic k /\ Forall (fun p => pat_ok ex_env p ex_ty) ex_arms /\
  val_ok ex_env (VTuple [VEnum 0 1 [VLit (LInt 9); VLit (LBool true)]; VLit (LInt 3)]) ex_ty /\
  eval_core k [(U 0, VTuple [VEnum 0 1 [VLit (LInt 9); VLit (LBool true)]; VLit (LInt 3)])] = Hit 0 [(5, VLit (LInt 9))].
Proof.
  vm_compute. split; [reflexivity|]. split; [repeat split|]. split; [|split; [|reflexivity]].
  - repeat constructor; try exact I. eapply ok_enum; [reflexivity|reflexivity|]. repeat constructor; exact I.
  - repeat constructor; try exact I. eapply vok_enum; [reflexivity|reflexivity|]. repeat constructor; exact I.
Qed.
