From Goml Require Import Common.Base C06.Model C06.Spec.
From Coq Require Import Permutation.
From Goml Require Import C06.P1 C06.P2 C06.P3 C06.P4 C06.P5 C06.P6 C06.P7 C06.P8 C06.P9 C06.P10 C06.P11 C06.P12 C06.P13.

Section S.
Variable E : tenv.

Fixpoint lookup_key (l : lit) (vr : list (lit * list row)) : option (list row) :=
  match vr with [] => None | (k, rs) :: t => if lit_eqb k l then Some rs else lookup_key l t end.

Lemma lookup_key_none l vr : lookup_key l vr = None -> key_in l (keys vr) = false.
Proof. induction vr as [|[k rs] t IH]; cbn; [reflexivity|]. destruct (lit_eqb k l); [discriminate|]. exact IH. Qed.

Lemma lookup_key_some l vr rs : lookup_key l vr = Some rs -> In (l, rs) vr.
Proof.
  induction vr as [|[k rs0] t IH]; cbn; [discriminate|]. destruct (lit_eqb k l) eqn:Ek.
  - intro H. injection H as <-. apply lit_eqb_eq in Ek. subst. now left.
  - intro H. right. now apply IH.
Qed.

Lemma no_panic_match_cons v l k r d : no_panic (KMatch v ((l, k) :: r) d) <-> no_panic k /\ no_panic (KMatch v r d).
Proof. cbn. tauto. Qed.

Section Rec.
Variable rec : list row -> st -> core * st.
Hypothesis Hle : forall rows s, st_le s (snd (rec rows s)).
Hypothesis IH : forall rows s k s' Gam rho, rec rows s = (k, s') -> diag s' = false -> no_panic k ->
  WF E Gam rows s rho -> outcome_equiv (eval_core k rho) (first_match_rows rows rho).

Lemma lit_arms_eval Gam rho v l d : lookup v rho = Some (VLit l) ->
  forall vr s arms s1, compile_lit_arms rec vr s = (arms, s1) -> diag s1 = false -> no_panic (KMatch v arms d) ->
  (forall k rs, In (k, rs) vr -> forall s', (gen s <= gen s')%N -> WF E Gam rs s' rho) ->
  match lookup_key l vr with
  | Some rs => outcome_equiv (eval_core (KMatch v arms d) rho) (first_match_rows rs rho)
  | None => eval_core (KMatch v arms d) rho = eval_core (KMatch v [] d) rho
  end.
Proof.
  intro Lv. induction vr as [|[k rs] t IHv]; intros s arms s1 H Hd Hn Hw; cbn [compile_lit_arms] in H.
  - injection H as <- <-. reflexivity.
  - destruct (rec rs s) as [kk sa] eqn:R. destruct (compile_lit_arms rec t sa) as [ks sb] eqn:C. injection H as <- <-.
    pose proof (Hle rs s) as Le1. rewrite R in Le1. cbn [snd] in Le1.
    pose proof (compile_lit_arms_le rec Hle t sa) as Le2. rewrite C in Le2. cbn [snd] in Le2.
    apply no_panic_match_cons in Hn as [Hn1 Hn2].
    rewrite eval_match_cons, Lv. cbn [lhs_matches lookup_key].
    destruct (lit_eqb k l) eqn:Ek.
    + apply (IH rs s kk sa Gam rho R); [|assumption|apply (Hw k rs (or_introl eq_refl)); lia].
      destruct (diag sa) eqn:Da; [|reflexivity]. destruct Le2 as [_ X]. rewrite (X Da) in Hd. discriminate.
    + specialize (IHv sa ks sb C Hd Hn2).
      assert (Hw' : forall k0 rs0, In (k0, rs0) t -> forall s', (gen sa <= gen s')%N -> WF E Gam rs0 s' rho).
      { intros k0 rs0 Hin s' Hs. apply (Hw k0 rs0 (or_intror Hin)). destruct Le1. lia. }
      specialize (IHv Hw'). destruct (lookup_key l t); [exact IHv|]. rewrite IHv. reflexivity.
Qed.

Lemma enum_arms_eval rho v e idx vals : lookup v rho = Some (VEnum e idx vals) ->
  forall cs vsl j s arms s', compile_enum_arms rec v e cs vsl j s = (arms, s') -> diag s' = false ->
  no_panic (KMatch v arms None) ->
  forall i rs xs, nth_error cs i = Some rs -> nth_error vsl i = Some xs -> idx = (j + N.of_nat i)%N ->
  exists k sa sb, rec rs sa = (k, sb) /\ (gen s <= gen sa)%N /\ diag sb = false /\ no_panic k /\
    eval_core (KMatch v arms None) rho = eval_core (let_gets v (CEnum e idx) xs 0 k) rho.
Proof.
  intro Lv. induction cs as [|rs0 ct IHc]; intros vsl j s arms s' H Hd Hn i rs xs Hc Hx Hi; [destruct i; discriminate|].
  destruct vsl as [|xs0 vt]; [destruct i; discriminate|]. cbn [compile_enum_arms] in H.
  destruct (rec rs0 s) as [kk sa] eqn:R. destruct (compile_enum_arms rec v e ct vt (j + 1) sa) as [ks sb] eqn:C. injection H as <- <-.
  pose proof (Hle rs0 s) as Le1. rewrite R in Le1. cbn [snd] in Le1.
  pose proof (compile_enum_arms_le rec v e Hle ct vt (j + 1)%N sa) as Le2. rewrite C in Le2. cbn [snd] in Le2.
  apply no_panic_match_cons in Hn as [Hn1 Hn2].
  rewrite eval_match_cons, Lv. cbn [lhs_matches]. rewrite N.eqb_refl. cbn [andb].
  destruct i as [|i]; cbn [nth_error] in Hc, Hx.
  - injection Hc as <-. injection Hx as <-. replace (j + N.of_nat 0)%N with j in Hi by lia. subst idx. rewrite N.eqb_refl.
    exists kk, s, sa. repeat split; try assumption; try lia.
    + destruct (diag sa) eqn:Da; [|reflexivity]. destruct Le2 as [_ X]. rewrite (X Da) in Hd. discriminate.
    + now apply no_panic_let_gets in Hn1.
  - destruct (N.eqb_spec j idx) as [Eq|_]; [lia|].
    destruct (IHc vt (j + 1)%N sa ks sb C Hd Hn2 i rs xs Hc Hx ltac:(lia)) as (k & sa' & sb' & R' & Hg & Hd' & Hn' & Ev).
    exists k, sa', sb'. repeat split; try assumption. destruct Le1. lia.
Qed.
End Rec.
End S.
