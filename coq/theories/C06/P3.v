From Goml Require Import Common.Base C06.Model C06.Spec.
From Coq Require Import Permutation.
From Goml Require Import C06.P1 C06.P2.

Lemma compile_rows_S E fuel rows s :
  compile_rows E (S fuel) rows s =
    match rows with
    | [] => (KMissing, s)
    | _ =>
      let rows := map strip_row rows in
      match rows with
      | [] => (KMissing, s)
      | r0 :: _ =>
        match cols r0 with
        | [] => (KBody (rbody r0), s)
        | _ =>
          match max_by_count rows (cols r0) None with
          | None => (KPanic 1, s)
          | Some v =>
            match var_type v rows with
            | None => (KPanic 1, s)
            | Some TyUnit =>
                let '(k, s1) := compile_rows E fuel (map (drop_col v) rows) s in
                (KMatch v [(LhsLit LUnit, k)] None, s1)
            | Some TyBool =>
                match split_bool v rows with
                | None => (KPanic 2, s)
                | Some (t, f) =>
                    let '(kt, s1) := compile_rows E fuel t s in
                    let '(kf, s2) := compile_rows E fuel f s1 in
                    (KMatch v [(LhsLit (LBool true), kt); (LhsLit (LBool false), kf)] None, s2)
                end
            | Some (TyInt _) | Some TyStr =>
                match split_lit v rows [] [] [] with
                | None => (KPanic 3, s)
                | Some (vr, _, df) =>
                    match df with
                    | [] => (KMissing, set_diag s)
                    | _ =>
                      let '(arms, s1) := compile_lit_arms (compile_rows E fuel) vr s in
                      let '(kd, s2) := compile_rows E fuel df s1 in
                      (KMatch v arms (Some kd), s2)
                    end
                end
            | Some (TyEnum e) =>
                match nth_error (enums E) (N.to_nat e) with
                | None => (KPanic 4, s)
                | Some variants =>
                    let '(vars, s1) := gensyms_list (map (@length ty) variants) s in
                    match split_enum v vars rows (map (fun _ => []) variants) with
                    | None => (KPanic 5, s1)
                    | Some cases =>
                      let '(arms, s2) := compile_enum_arms (compile_rows E fuel) v e cases vars 0 s1 in
                      (KMatch v arms None, s2)
                    end
                end
            | Some (TyStruct sn) =>
                match nth_error (structs E) (N.to_nat sn) with
                | None => (KPanic 6, s)
                | Some fields =>
                    let '(xs, s1) := gensyms (length fields) s in
                    match expand_rows v xs struct_items rows with
                    | None => (KPanic 7, s1)
                    | Some rows' =>
                        let '(k, s2) := compile_rows E fuel rows' s1 in
                        (let_gets v (CStruct sn) xs 0 k, s2)
                    end
                end
            | Some (TyTuple ts) =>
                let '(xs, s1) := gensyms (length ts) s in
                match expand_rows v xs tuple_items rows with
                | None => (KPanic 8, s1)
                | Some rows' =>
                    let '(k, s2) := compile_rows E fuel rows' s1 in
                    (let_projs v xs 0 k, s2)
                end
            | Some (TyOther k) => (KPanic (100 + k), s)
            end
          end
        end
      end
    end.
Proof. reflexivity. Qed.

(* ---- state monotonicity ---- *)
Definition st_le (a b : st) : Prop := (gen a <= gen b)%N /\ (diag a = true -> diag b = true).

Lemma st_le_refl a : st_le a a. Proof. split; [lia|auto]. Qed.
Lemma st_le_trans a b c : st_le a b -> st_le b c -> st_le a c.
Proof. intros [H1 H2] [H3 H4]. split; [lia|auto]. Qed.

Lemma gensyms_le n s : st_le s (snd (gensyms n s)).
Proof. unfold gensyms, st_le. cbn. split; [lia|auto]. Qed.

Lemma gensyms_list_le ns : forall s, st_le s (snd (gensyms_list ns s)).
Proof.
  induction ns as [|n ns IH]; intro s; cbn [gensyms_list]; [apply st_le_refl|].
  destruct (gensyms n s) as [xs s1] eqn:G1. destruct (gensyms_list ns s1) as [xss s2] eqn:G2. cbn [snd].
  eapply st_le_trans; [|pose proof (IH s1) as H; rewrite G2 in H; exact H].
  pose proof (gensyms_le n s) as H. rewrite G1 in H. exact H.
Qed.

Lemma compile_lit_arms_le rec : (forall rs s, st_le s (snd (rec rs s))) ->
  forall vr s, st_le s (snd (compile_lit_arms rec vr s)).
Proof.
  intros R. induction vr as [|[l rs] t IH]; intro s; cbn [compile_lit_arms]; [apply st_le_refl|].
  pose proof (R rs s) as H1. destruct (rec rs s) as [k s1]. pose proof (IH s1) as H2.
  destruct (compile_lit_arms rec t s1) as [ks s2]. cbn [snd] in *. eapply st_le_trans; eassumption.
Qed.

Lemma compile_enum_arms_le rec v e : (forall rs s, st_le s (snd (rec rs s))) ->
  forall cs vs idx s, st_le s (snd (compile_enum_arms rec v e cs vs idx s)).
Proof.
  intros R. induction cs as [|rs ct IH]; intros vs idx s; cbn [compile_enum_arms]; [apply st_le_refl|].
  destruct vs as [|xs vt]; [apply st_le_refl|].
  pose proof (R rs s) as H1. destruct (rec rs s) as [k s1]. pose proof (IH vt (idx + 1)%N s1) as H2.
  destruct (compile_enum_arms rec v e ct vt (idx + 1) s1) as [ks s2]. cbn [snd] in *. eapply st_le_trans; eassumption.
Qed.

Lemma compile_rows_le E fuel : forall rows s, st_le s (snd (compile_rows E fuel rows s)).
Proof.
  induction fuel as [|fuel IH]; intros rows s; [apply st_le_refl|].
  rewrite compile_rows_S. destruct rows as [|r rs]; [apply st_le_refl|]. cbv beta iota zeta.
  remember (map strip_row (r :: rs)) as rows1. destruct rows1 as [|r0 rows1']; [apply st_le_refl|].
  destruct (cols r0) as [|c0 cl]; [apply st_le_refl|].
  destruct (max_by_count (r0 :: rows1') (c0 :: cl) None) as [v|]; [|apply st_le_refl].
  destruct (var_type v (r0 :: rows1')) as [t|]; [|apply st_le_refl].
  destruct t as [| |w| |ts|e|sn|k].
  - pose proof (IH (map (drop_col v) (r0 :: rows1')) s) as H. destruct (compile_rows E fuel _ s). exact H.
  - destruct (split_bool v (r0 :: rows1')) as [[t f]|]; [|apply st_le_refl].
    pose proof (IH t s) as H1. destruct (compile_rows E fuel t s) as [kt s1].
    pose proof (IH f s1) as H2. destruct (compile_rows E fuel f s1) as [kf s2]. cbn [snd] in *. eapply st_le_trans; eassumption.
  - destruct (split_lit v (r0 :: rows1') [] [] []) as [[[vr fb] df]|]; [|apply st_le_refl].
    destruct df as [|d0 df]; [split; cbn; [lia|auto]|].
    pose proof (compile_lit_arms_le (compile_rows E fuel) IH vr s) as H1.
    destruct (compile_lit_arms (compile_rows E fuel) vr s) as [arms s1].
    pose proof (IH (d0 :: df) s1) as H2. destruct (compile_rows E fuel (d0 :: df) s1) as [kd s2]. cbn [snd] in *.
    eapply st_le_trans; eassumption.
  - destruct (split_lit v (r0 :: rows1') [] [] []) as [[[vr fb] df]|]; [|apply st_le_refl].
    destruct df as [|d0 df]; [split; cbn; [lia|auto]|].
    pose proof (compile_lit_arms_le (compile_rows E fuel) IH vr s) as H1.
    destruct (compile_lit_arms (compile_rows E fuel) vr s) as [arms s1].
    pose proof (IH (d0 :: df) s1) as H2. destruct (compile_rows E fuel (d0 :: df) s1) as [kd s2]. cbn [snd] in *.
    eapply st_le_trans; eassumption.
  - pose proof (gensyms_le (length ts) s) as H0. destruct (gensyms (length ts) s) as [xs s1].
    destruct (expand_rows v xs tuple_items (r0 :: rows1')) as [rows'|]; [|exact H0].
    pose proof (IH rows' s1) as H1. destruct (compile_rows E fuel rows' s1) as [k s2]. cbn [snd] in *. eapply st_le_trans; eassumption.
  - destruct (nth_error (enums E) (N.to_nat e)) as [variants|]; [|apply st_le_refl].
    pose proof (gensyms_list_le (map (@length ty) variants) s) as H0.
    destruct (gensyms_list (map (@length ty) variants) s) as [vars s1].
    destruct (split_enum v vars (r0 :: rows1') (map (fun _ => []) variants)) as [cases|]; [|exact H0].
    pose proof (compile_enum_arms_le (compile_rows E fuel) v e IH cases vars 0%N s1) as H1.
    destruct (compile_enum_arms (compile_rows E fuel) v e cases vars 0 s1) as [arms s2]. cbn [snd] in *. eapply st_le_trans; eassumption.
  - destruct (nth_error (structs E) (N.to_nat sn)) as [fields|]; [|apply st_le_refl].
    pose proof (gensyms_le (length fields) s) as H0. destruct (gensyms (length fields) s) as [xs s1].
    destruct (expand_rows v xs struct_items (r0 :: rows1')) as [rows'|]; [|exact H0].
    pose proof (IH rows' s1) as H1. destruct (compile_rows E fuel rows' s1) as [k s2]. cbn [snd] in *. eapply st_le_trans; eassumption.
  - apply st_le_refl.
Qed.
