From Goml Require Import Common.Base C06.Model C06.Spec.
From Coq Require Import Permutation.
From Goml Require Import C06.P1 C06.P2 C06.P3.

Section S.
Variable E : tenv.

Definition stripped (rows : list row) : Prop :=
  forall r, In r rows -> forall c, In c (cols r) -> trivial_pat (snd c) = false.

Lemma cols_bound_of_WF Gam rows s rho r : WF E Gam rows s rho -> In r rows -> cols_bound rho (cols r).
Proof.
  intros W Hr v p Hc. destruct (wf_cols _ _ _ _ _ W r Hr v p Hc) as (t & Gt & _).
  destruct (wf_env _ _ _ _ _ W v t Gt) as (w & Lw & _). now exists w.
Qed.

Lemma WF_strip Gam rows s rho : WF E Gam rows s rho -> WF E Gam (map strip_row rows) s rho.
Proof.
  intro W. constructor.
  - intros r' Hr' v p Hc. apply in_map_iff in Hr' as (r & <- & Hr). unfold strip_row in Hc.
    destruct (strip_cols (cols r) (binds (rbody r))) as [cs bs] eqn:S. cbn [cols] in Hc.
    assert (Hin : In (v, p) (fst (strip_cols (cols r) (binds (rbody r))))) by (rewrite S; exact Hc).
    apply strip_cols_in in Hin as [Hin _]. exact (wf_cols _ _ _ _ _ W r Hr v p Hin).
  - exact (wf_env _ _ _ _ _ W).
  - intros r' Hr'. apply in_map_iff in Hr' as (r & <- & Hr). unfold strip_row.
    pose proof (strip_cols_nodup (cols r) (binds (rbody r)) (wf_nodup _ _ _ _ _ W r Hr)) as H.
    destruct (strip_cols (cols r) (binds (rbody r))) as [cs bs]. exact H.
  - intros r' Hr' x v Hb. apply in_map_iff in Hr' as (r & <- & Hr). unfold strip_row in Hb.
    destruct (strip_cols (cols r) (binds (rbody r))) as [cs bs] eqn:S. cbn [rbody binds] in Hb.
    assert (Hin : In (x, v) (snd (strip_cols (cols r) (binds (rbody r))))) by (rewrite S; exact Hb).
    apply strip_cols_binds in Hin as [Hin|[t Hin]].
    + exact (wf_binds _ _ _ _ _ W r Hr x v Hin).
    + destruct (cols_bound_of_WF _ _ _ _ r W Hr v _ Hin) as [w Lw]. now exists w.
  - exact (wf_fresh _ _ _ _ _ W).
Qed.

Lemma stripped_strip rows : stripped (map strip_row rows).
Proof.
  intros r' Hr' c Hc. apply in_map_iff in Hr' as (r & <- & Hr). unfold strip_row in Hc.
  destruct (strip_cols (cols r) (binds (rbody r))) as [cs bs] eqn:S. cbn [cols] in Hc.
  assert (Hin : In c (fst (strip_cols (cols r) (binds (rbody r))))) by (rewrite S; exact Hc).
  now apply strip_cols_in in Hin as [_ H].
Qed.

Lemma strip_arm r : arm (rbody (strip_row r)) = arm (rbody r).
Proof. unfold strip_row. destruct (strip_cols (cols r) (binds (rbody r))). reflexivity. Qed.

Lemma first_match_strip Gam rows s rho : WF E Gam rows s rho ->
  outcome_equiv (first_match_rows (map strip_row rows) rho) (first_match_rows rows rho).
Proof.
  intro W. apply first_match_rows_equiv.
  assert (H : forall r, In r rows -> cols_bound rho (cols r)) by (intros r Hr; eapply cols_bound_of_WF; eassumption).
  clear W. induction rows as [|r rs IH]; cbn [map]; constructor.
  - split; [apply strip_arm|]. apply strip_row_sem. apply H. now left.
  - apply IH. intros r' Hr'. apply H. now right.
Qed.

(* ---- the branch variable is a column of the first row, typed by Gam ---- *)
Lemma max_by_count_in rows cs : forall best v, max_by_count rows cs best = Some v ->
  (exists p, In (v, p) cs) \/ (exists n, best = Some (v, n)).
Proof.
  induction cs as [|[w p] cs IH]; intros best v H; cbn [max_by_count] in H.
  - destruct best as [[b n]|]; cbn in H; [injection H as ->; right; now exists n|discriminate].
  - destruct best as [[b m]|].
    + destruct (m <=? count_var w rows)%N.
      * destruct (IH _ _ H) as [[q Hq]|[n Hn]]; [left; exists q; now right|injection Hn as -> _; left; exists p; now left].
      * destruct (IH _ _ H) as [[q Hq]|[n Hn]]; [left; exists q; now right|right; now exists n].
    + destruct (IH _ _ H) as [[q Hq]|[n Hn]]; [left; exists q; now right|injection Hn as -> _; left; exists p; now left].
Qed.

Lemma fold_var_type_inner v cs : forall acc t,
  fold_left (fun a (c : name * pat) => if name_eqb (fst c) v then Some (pat_ty (snd c)) else a) cs acc = Some t ->
  acc = Some t \/ exists p, In (v, p) cs /\ pat_ty p = t.
Proof.
  induction cs as [|[w p] cs IH]; intros acc t H; cbn [fold_left] in H; [now left|].
  destruct (IH _ _ H) as [Ha|[q [Hq Tq]]]; [|right; exists q; split; [now right|assumption]].
  cbn [fst snd] in Ha. destruct (name_eqb w v) eqn:Ew; [|now left].
  apply name_eqb_eq in Ew. subst w. injection Ha as <-. right. exists p. split; [now left|reflexivity].
Qed.

Lemma var_type_in v rows : forall acc t,
  fold_left (fun acc r => fold_left (fun a (c : name * pat) => if name_eqb (fst c) v then Some (pat_ty (snd c)) else a) (cols r) acc) rows acc = Some t ->
  acc = Some t \/ exists r p, In r rows /\ In (v, p) (cols r) /\ pat_ty p = t.
Proof.
  induction rows as [|r rs IH]; intros acc t H; cbn [fold_left] in H; [now left|].
  destruct (IH _ _ H) as [Ha|(r' & p & Hr & Hp & Tp)]; [|right; exists r', p; repeat split; auto; now right].
  destruct (fold_var_type_inner _ _ _ _ Ha) as [Hb|[p [Hp Tp]]]; [now left|].
  right. exists r, p. repeat split; auto. now left.
Qed.

Lemma var_type_Gam Gam rows s rho v t : WF E Gam rows s rho -> var_type v rows = Some t -> Gam v = Some t.
Proof.
  intros W H. unfold var_type in H. destruct (var_type_in _ _ _ _ H) as [Hn|(r & p & Hr & Hp & Tp)]; [discriminate|].
  destruct (wf_cols _ _ _ _ _ W r Hr v p Hp) as (t' & Gt & Ok). apply pat_ok_ty in Ok. congruence.
Qed.

(* ---- WF for sub-matrices obtained by deleting / keeping columns ---- *)
Definition row_sub (r' r : row) : Prop :=
  (forall c, In c (cols r') -> In c (cols r)) /\ NoDup (map fst (cols r')) /\ rbody r' = rbody r.
Definition rows_sub (rows' rows : list row) : Prop := forall r', In r' rows' -> exists r, In r rows /\ row_sub r' r.

Lemma row_sub_refl r : NoDup (map fst (cols r)) -> row_sub r r.
Proof. intro ND. repeat split; auto. Qed.

Lemma rows_sub_cons_r rows' rows r : rows_sub rows' rows -> rows_sub rows' (r :: rows).
Proof. intros H r' Hr'. destruct (H r' Hr') as (x & Hx & Sx). exists x. split; [now right|assumption]. Qed.

Lemma rows_sub_cons r' r rows' rows : row_sub r' r -> rows_sub rows' rows -> rows_sub (r' :: rows') (r :: rows).
Proof.
  intros Hr H x [<-|Hx]; [exists r; split; [now left|assumption]|].
  destruct (H x Hx) as (y & Hy & Sy). exists y. split; [now right|assumption].
Qed.

Lemma WF_sub Gam rows rows' s s' rho :
  WF E Gam rows s rho -> (gen s <= gen s')%N -> rows_sub rows' rows -> WF E Gam rows' s' rho.
Proof.
  intros W Hs H. constructor.
  - intros r' Hr' v p Hc. destruct (H r' Hr') as (r & Hr & Sub & _ & _). exact (wf_cols _ _ _ _ _ W r Hr v p (Sub _ Hc)).
  - exact (wf_env _ _ _ _ _ W).
  - intros r' Hr'. now destruct (H r' Hr') as (r & _ & _ & ND & _).
  - intros r' Hr' x v Hb. destruct (H r' Hr') as (r & Hr & _ & _ & Eb). rewrite Eb in Hb. exact (wf_binds _ _ _ _ _ W r Hr x v Hb).
  - intros n Hn. apply (wf_fresh _ _ _ _ _ W). lia.
Qed.

Lemma row_sub_remove v r : NoDup (map fst (cols r)) ->
  row_sub {| cols := snd (remove_column v (cols r)); rbody := rbody r |} r.
Proof.
  intro ND. destruct (fst (remove_column v (cols r))) as [p|] eqn:R.
  - destruct (remove_column_some [] v (cols r) p R ND) as (_ & _ & Sub & ND' & _). repeat split; auto.
  - destruct (remove_column_none v (cols r) R) as [-> _]. repeat split; auto.
Qed.

(* ---- inversion of typing at the literal types ---- *)
Lemma val_ok_bool w : val_ok E w TyBool -> exists b, w = VLit (LBool b).
Proof. inversion 1 as [l t Hl| | | ]; subst. destruct l; cbn in Hl; try contradiction. now eexists. Qed.

Lemma val_ok_unit w : val_ok E w TyUnit -> w = VLit LUnit.
Proof. inversion 1 as [l t Hl| | | ]; subst. destruct l; cbn in Hl; try contradiction. reflexivity. Qed.

Lemma pat_ok_bool p : pat_ok E p TyBool -> trivial_pat p = false -> exists b, p = PLit (LBool b) TyBool.
Proof. inversion 1 as [| |l t Hl| | | ]; subst; cbn; try discriminate. intros _. destruct l; cbn in Hl; try contradiction. now eexists. Qed.

Lemma pat_ok_unit p : pat_ok E p TyUnit -> trivial_pat p = false -> p = PLit LUnit TyUnit.
Proof. inversion 1 as [| |l t Hl| | | ]; subst; cbn; try discriminate. intros _. destruct l; cbn in Hl; try contradiction. reflexivity. Qed.

Lemma pmatch_lit l t l' : pmatch (PLit l t) (VLit l') = if lit_eqb l l' then Some [] else None.
Proof. reflexivity. Qed.

Lemma lit_eqb_refl l : lit_eqb l l = true.
Proof. destruct l; cbn; auto using Bool.eqb_reflx, Z.eqb_refl. now apply list_eqb_spec. Qed.

Lemma lit_eqb_eq a b : lit_eqb a b = true -> a = b.
Proof.
  destruct a, b; cbn; try discriminate; intro H; try reflexivity.
  - apply Bool.eqb_prop in H. now subst.
  - apply Z.eqb_eq in H. now subst.
  - apply list_eqb_spec in H. now subst.
Qed.

(* ---- deleting a matching column keeps the meaning of a row ---- *)
Lemma row_try_remove rho r v p w :
  NoDup (map fst (cols r)) -> fst (remove_column v (cols r)) = Some p -> lookup v rho = Some w ->
  opt_perm (row_try r rho)
           (comb (pmatch p w) (row_try {| cols := snd (remove_column v (cols r)); rbody := rbody r |} rho)).
Proof.
  intros ND R Lw. destruct (remove_column_some rho v (cols r) p R ND) as (_ & _ & _ & _ & H).
  rewrite Lw in H. unfold row_try. cbn [cols rbody].
  destruct (cols_match (cols r) rho) as [a|], (pmatch p w) as [b|], (cols_match (snd (remove_column v (cols r))) rho) as [c|];
    cbn in *; try tauto; destruct (resolve_binds (binds (rbody r)) rho) as [d|]; cbn; try tauto.
  rewrite app_assoc. now apply Permutation_app_tail.
Qed.

(* ---- bool ---- *)
Lemma split_bool_sub v rows : (forall r, In r rows -> NoDup (map fst (cols r))) ->
  forall t f, split_bool v rows = Some (t, f) -> rows_sub t rows /\ rows_sub f rows.
Proof.
  induction rows as [|r rs IH]; intros ND t f H; cbn [split_bool] in H.
  - injection H as <- <-. split; intros r' [].
  - destruct (split_bool v rs) as [[t0 f0]|] eqn:S0; [|discriminate].
    destruct (IH (fun x Hx => ND x (or_intror Hx)) t0 f0 eq_refl) as [St Sf].
    pose proof (row_sub_remove v r (ND r (or_introl eq_refl))) as Rs.
    destruct (remove_column v (cols r)) as [[p|] cs] eqn:R; cbn [snd] in Rs.
    + destruct p as [| |l ty| | | ]; try discriminate. destruct l as [|[|]| | ]; try discriminate; injection H as <- <-.
      * split; [now apply rows_sub_cons|now apply rows_sub_cons_r].
      * split; [now apply rows_sub_cons_r|now apply rows_sub_cons].
    + injection H as <- <-. pose proof (row_sub_refl r (ND r (or_introl eq_refl))) as Rr.
      split; now apply rows_sub_cons.
Qed.

Lemma split_bool_sem Gam rows s rho v b :
  WF E Gam rows s rho -> stripped rows -> Gam v = Some TyBool -> lookup v rho = Some (VLit (LBool b)) ->
  forall t f, split_bool v rows = Some (t, f) ->
  outcome_equiv (first_match_rows (if b then t else f) rho) (first_match_rows rows rho).
Proof.
  intros W St Gv Lv. induction rows as [|r rs IH]; intros t f H; cbn [split_bool] in H.
  - injection H as <- <-. destruct b; exact I.
  - assert (Wrs : WF E Gam rs s rho).
    { apply (WF_sub Gam (r :: rs) rs s s rho W (N.le_refl _)). intros r' Hr'. exists r'. split; [now right|].
      apply row_sub_refl, (wf_nodup _ _ _ _ _ W). now right. }
    assert (Strs : stripped rs) by (intros r' Hr'; apply St; now right).
    destruct (split_bool v rs) as [[t0 f0]|] eqn:S0; [|discriminate].
    specialize (IH Wrs Strs t0 f0 eq_refl).
    pose proof (wf_nodup _ _ _ _ _ W r (or_introl eq_refl)) as ND.
    destruct (remove_column v (cols r)) as [[p|] cs] eqn:R.
    + assert (Rf : fst (remove_column v (cols r)) = Some p) by now rewrite R.
      destruct (remove_column_some rho v (cols r) p Rf ND) as (Hin & _).
      destruct (wf_cols _ _ _ _ _ W r (or_introl eq_refl) v p Hin) as (t' & Gt & Ok).
      assert (t' = TyBool) by congruence. subst t'.
      destruct (pat_ok_bool p Ok (St r (or_introl eq_refl) (v, p) Hin)) as [pb ->].
      pose proof (row_try_remove rho r v _ _ ND Rf Lv) as RT. rewrite R in RT. cbn [snd] in RT.
      rewrite pmatch_lit in RT. cbn [lit_eqb] in RT.
      destruct pb; injection H as <- <-; destruct b; cbn [Bool.eqb] in RT; cbn [first_match_rows].
      * (* pattern true, value true *)
        destruct (row_try {| cols := cs; rbody := rbody r |} rho) as [a|], (row_try r rho) as [a'|]; cbn in RT; try tauto.
        cbn. split; [reflexivity|now apply Permutation_sym].
      * (* pattern true, value false: the row cannot match *)
        destruct (row_try r rho); [destruct (row_try {| cols := cs; rbody := rbody r |} rho); cbn in RT; contradiction|exact IH].
      * destruct (row_try r rho); [destruct (row_try {| cols := cs; rbody := rbody r |} rho); cbn in RT; contradiction|exact IH].
      * destruct (row_try {| cols := cs; rbody := rbody r |} rho) as [a|], (row_try r rho) as [a'|]; cbn in RT; try tauto.
        cbn. split; [reflexivity|now apply Permutation_sym].
    + injection H as <- <-. destruct b; cbn [first_match_rows]; destruct (row_try r rho); cbn; auto.
Qed.
End S.
