From Goml Require Import Common.Base C06.Model C06.Spec.
From Coq Require Import Permutation.

Lemma name_eqb_eq a b : name_eqb a b = true <-> a = b.
Proof.
  destruct a, b; cbn; split; intro H; try discriminate; try (apply N.eqb_eq in H; now subst);
    try (injection H as ->; apply N.eqb_refl).
Qed.

Lemma name_eqb_refl a : name_eqb a a = true.
Proof. now apply name_eqb_eq. Qed.

Lemma name_eqb_neq a b : a <> b -> name_eqb a b = false.
Proof. intro H. destruct (name_eqb a b) eqn:E; [apply name_eqb_eq in E; contradiction|reflexivity]. Qed.

Lemma lookup_cons y x w rho : lookup y ((x, w) :: rho) = if name_eqb y x then Some w else lookup y rho.
Proof. reflexivity. Qed.

(* ---- option-lifted permutation ---- *)
Definition opt_perm {A} (a b : option (list A)) : Prop :=
  match a, b with Some x, Some y => Permutation x y | None, None => True | _, _ => False end.

Lemma opt_perm_refl {A} (a : option (list A)) : opt_perm a a.
Proof. destruct a; cbn; auto. Qed.

Lemma opt_perm_trans {A} (a b c : option (list A)) : opt_perm a b -> opt_perm b c -> opt_perm a c.
Proof. destruct a, b, c; cbn; try tauto. apply Permutation_trans. Qed.

Lemma opt_perm_sym {A} (a b : option (list A)) : opt_perm a b -> opt_perm b a.
Proof. destruct a, b; cbn; try tauto. apply Permutation_sym. Qed.

Definition comb {A} (a b : option (list A)) : option (list A) :=
  match a, b with Some x, Some y => Some (x ++ y) | _, _ => None end.

(* ---- pmatch unfolding ---- *)
Lemma pmatch_var x t w : pmatch (PVar x t) w = Some [(x, w)].
Proof. destruct w; reflexivity. Qed.
Lemma pmatch_wild t w : pmatch (PWild t) w = Some [].
Proof. destruct w; reflexivity. Qed.

Section S.
Variable rho : venv.

(* ---- strip preserves the meaning of a row ---- *)
Definition cols_bound (cs : list column) : Prop := forall v p, In (v, p) cs -> exists w, lookup v rho = Some w.

Definition trivial_pat (p : pat) : bool := match p with PVar _ _ | PWild _ => true | _ => false end.

Lemma strip_cols_kept v p cs bs : trivial_pat p = false ->
  strip_cols ((v, p) :: cs) bs = ((v, p) :: fst (strip_cols cs bs), snd (strip_cols cs bs)).
Proof. intro H. destruct p; try discriminate; cbn [strip_cols]; destruct (strip_cols cs bs); reflexivity. Qed.

Lemma strip_cols_sem cs : cols_bound cs -> forall bs,
  opt_perm (comb (cols_match (fst (strip_cols cs bs)) rho) (resolve_binds (snd (strip_cols cs bs)) rho))
           (comb (cols_match cs rho) (resolve_binds bs rho)).
Proof.
  induction cs as [|[v p] cs IH]; intros B bs; [apply opt_perm_refl|].
  assert (Bv : exists w, lookup v rho = Some w) by (apply (B v p); now left).
  assert (Bc : cols_bound cs) by (intros v' p' H; apply (B v' p'); now right).
  destruct Bv as [w Lw].
  destruct (trivial_pat p) eqn:T.
  - destruct p as [x t|t| | | | ]; try discriminate; cbn [strip_cols].
    + eapply opt_perm_trans; [apply (IH Bc)|]. cbn [cols_match resolve_binds]. rewrite Lw, pmatch_var.
      destruct (cols_match cs rho) as [b|], (resolve_binds bs rho) as [c|]; cbn; try exact I.
      apply Permutation_sym, Permutation_cons_app, Permutation_refl.
    + eapply opt_perm_trans; [apply (IH Bc)|]. cbn [cols_match]. rewrite Lw, pmatch_wild.
      destruct (cols_match cs rho), (resolve_binds bs rho); cbn; auto.
  - rewrite (strip_cols_kept v p cs bs T). specialize (IH Bc bs). cbn [fst snd cols_match] in *. rewrite Lw.
    destruct (pmatch p w) as [a|];
      [|destruct (cols_match (fst (strip_cols cs bs)) rho), (cols_match cs rho); cbn in *; try tauto;
        destruct (resolve_binds (snd (strip_cols cs bs)) rho); cbn; tauto ].
    destruct (cols_match (fst (strip_cols cs bs)) rho) as [b'|], (cols_match cs rho) as [b|],
             (resolve_binds (snd (strip_cols cs bs)) rho) as [c'|], (resolve_binds bs rho) as [c|]; cbn in *; try tauto.
    rewrite <- !app_assoc. now apply Permutation_app_head.
Qed.

Lemma strip_cols_in cs : forall bs c, In c (fst (strip_cols cs bs)) -> In c cs /\ trivial_pat (snd c) = false.
Proof.
  induction cs as [|[v p] cs IH]; intros bs c H; [destruct H|].
  destruct (trivial_pat p) eqn:T.
  - destruct p; try discriminate; cbn [strip_cols] in H; destruct (IH _ _ H); split; auto; now right.
  - rewrite (strip_cols_kept v p cs bs T) in H. cbn [fst] in H. destruct H as [<-|H]; [split; [now left|exact T]|].
    destruct (IH _ _ H). split; auto. now right.
Qed.

Lemma strip_cols_binds cs : forall bs x v, In (x, v) (snd (strip_cols cs bs)) -> In (x, v) bs \/ exists t, In (v, PVar x t) cs.
Proof.
  induction cs as [|[w p] cs IH]; intros bs x v H; [now left|].
  destruct (trivial_pat p) eqn:T.
  - destruct p as [y t|t| | | | ]; try discriminate; cbn [strip_cols] in H.
    + destruct (IH _ _ _ H) as [[E|H1]|[t' H1]].
      * injection E as -> ->. right. exists t. now left.
      * now left.
      * right. exists t'. now right.
    + destruct (IH _ _ _ H) as [H1|[t' H1]]; [now left|right; exists t'; now right].
  - rewrite (strip_cols_kept w p cs bs T) in H. cbn [snd] in H.
    destruct (IH _ _ _ H) as [H1|[t' H1]]; [now left|right; exists t'; now right].
Qed.

Lemma strip_cols_nodup cs : forall bs, NoDup (map fst cs) -> NoDup (map fst (fst (strip_cols cs bs))).
Proof.
  induction cs as [|[v p] cs IH]; intros bs ND; [constructor|].
  inversion ND as [|? ? Hn ND']; subst.
  destruct (trivial_pat p) eqn:T.
  - destruct p; try discriminate; cbn [strip_cols]; now apply IH.
  - rewrite (strip_cols_kept v p cs bs T). cbn [fst map]. constructor; [|now apply IH].
    intro H. apply Hn. apply in_map_iff in H as (c & E & Hc). apply strip_cols_in in Hc as [Hc _].
    apply in_map_iff. now exists c.
Qed.

Lemma strip_row_sem r : cols_bound (cols r) -> opt_perm (row_try (strip_row r) rho) (row_try r rho).
Proof.
  intro B. unfold row_try, strip_row.
  pose proof (strip_cols_sem (cols r) B (binds (rbody r))) as H.
  destruct (strip_cols (cols r) (binds (rbody r))) as [cs bs]. cbn [fst snd cols rbody binds] in *. exact H.
Qed.
End S.
