(** C06: specification-side definitions for the first-match theorem — typing of
    patterns and values, the meaning of a pattern matrix (rows), well-formedness. *)
From Goml Require Import Common.Base C06.Model.
From Coq Require Import Permutation.

Section Spec.
Variable E : tenv.

Definition lit_has_ty (l : lit) (t : ty) : Prop :=
  match l, t with
  | LUnit, TyUnit | LBool _, TyBool | LInt _, TyInt _ | LStr _, TyStr => True
  | _, _ => False
  end.

(** [pat_ok p t]: p is a pattern for values of type t, annotated consistently *)
Inductive pat_ok : pat -> ty -> Prop :=
| ok_var x t : pat_ok (PVar x t) t
| ok_wild t : pat_ok (PWild t) t
| ok_lit l t : lit_has_ty l t -> pat_ok (PLit l t) t
| ok_tuple ps ts : Forall2 pat_ok ps ts -> pat_ok (PTuple ps (TyTuple ts)) (TyTuple ts)
| ok_enum e idx ps variants args :
    nth_error (enums E) (N.to_nat e) = Some variants -> nth_error variants (N.to_nat idx) = Some args ->
    Forall2 pat_ok ps args -> pat_ok (PEnum e idx ps (TyEnum e)) (TyEnum e)
| ok_struct sn ps fields :
    nth_error (structs E) (N.to_nat sn) = Some fields ->
    Forall2 pat_ok ps fields -> pat_ok (PStruct sn ps (TyStruct sn)) (TyStruct sn).

Inductive val_ok : value -> ty -> Prop :=
| vok_lit l t : lit_has_ty l t -> val_ok (VLit l) t
| vok_tuple vs ts : Forall2 val_ok vs ts -> val_ok (VTuple vs) (TyTuple ts)
| vok_enum e idx vs variants args :
    nth_error (enums E) (N.to_nat e) = Some variants -> nth_error variants (N.to_nat idx) = Some args ->
    Forall2 val_ok vs args -> val_ok (VEnum e idx vs) (TyEnum e)
| vok_struct sn vs fields :
    nth_error (structs E) (N.to_nat sn) = Some fields ->
    Forall2 val_ok vs fields -> val_ok (VStruct sn vs) (TyStruct sn).

Lemma pat_ok_ty p t : pat_ok p t -> pat_ty p = t.
Proof. destruct 1; reflexivity. Qed.

(** meaning of a row in an environment: all columns match; the bindings are those of
    the patterns plus the [let x = var] wrappers already moved into the body *)
Fixpoint cols_match (cs : list column) (rho : venv) : option (list (N * value)) :=
  match cs with
  | [] => Some []
  | (v, p) :: r =>
      match lookup v rho with
      | Some w => match pmatch p w, cols_match r rho with Some a, Some b => Some (a ++ b) | _, _ => None end
      | None => None
      end
  end.

Definition row_try (r : row) (rho : venv) : option (list (N * value)) :=
  match cols_match (cols r) rho, resolve_binds (binds (rbody r)) rho with
  | Some a, Some b => Some (a ++ b)
  | _, _ => None
  end.

Fixpoint first_match_rows (rows : list row) (rho : venv) : outcome :=
  match rows with
  | [] => Missing
  | r :: rs => match row_try r rho with Some bs => Hit (arm (rbody r)) bs | None => first_match_rows rs rho end
  end.

(** outcomes up to the order of bindings *)
Definition outcome_equiv (a b : outcome) : Prop :=
  match a, b with
  | Hit i bs, Hit j cs => i = j /\ Permutation bs cs
  | Missing, Missing => True
  | _, _ => False
  end.

Definition tyenv := name -> option ty.

Record WF (Gam : tyenv) (rows : list row) (s : st) (rho : venv) : Prop := {
  wf_cols : forall r, In r rows -> forall v p, In (v, p) (cols r) -> exists t, Gam v = Some t /\ pat_ok p t;
  wf_env : forall v t, Gam v = Some t -> exists w, lookup v rho = Some w /\ val_ok w t;
  wf_nodup : forall r, In r rows -> NoDup (map fst (cols r));
  wf_binds : forall r, In r rows -> forall x v, In (x, v) (binds (rbody r)) -> exists w, lookup v rho = Some w;
  wf_fresh : forall n, (gen s <= n)%N -> lookup (G n) rho = None /\ Gam (G n) = None
}.

Fixpoint no_panic (k : core) : Prop :=
  match k with
  | KPanic _ => False
  | KBody _ | KMissing => True
  | KLetProj _ _ _ k' | KLetGet _ _ _ _ k' => no_panic k'
  | KMatch _ arms d =>
      (fix go (l : list (lhs * core)) : Prop := match l with [] => True | (_, k') :: r => no_panic k' /\ go r end) arms /\
      match d with Some k' => no_panic k' | None => True end
  end.
End Spec.
