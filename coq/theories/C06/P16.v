From Goml Require Import Common.Base C06.Model C06.Spec.
From Coq Require Import Permutation.
From Goml Require Import C06.P1 C06.P2 C06.P3 C06.P4 C06.P15.

Section S.
Variable E : tenv.

Lemma first_match_make_rows scrut v : forall arms i,
  outcome_equiv
    (first_match_rows (map (fun '(j, p) => {| cols := [(scrut, p)]; rbody := {| binds := []; arm := N.of_nat j |} |})
                           (zip (seq i (length arms)) arms)) [(scrut, v)])
    (first_match_from (N.of_nat i) arms v).
Proof.
  induction arms as [|p arms IH]; intro i; [exact I|]. cbn [length seq zip map first_match_rows first_match_from].
  unfold row_try. cbn [cols rbody binds arm cols_match resolve_binds lookup]. rewrite name_eqb_refl.
  destruct (pmatch p v) as [bs|].
  - cbn. split; [reflexivity|]. rewrite !app_nil_r. apply Permutation_refl.
  - replace (N.of_nat i + 1)%N with (N.of_nat (S i)) by lia. apply IH.
Qed.

(** THE FIRST-MATCH THEOREM for [match scrut { arms }] *)
Theorem compile_match_first_match : forall fuel scrut arms g0 t v k s',
  compile_match E fuel scrut arms g0 = (k, s') ->
  diag s' = false ->                      (* not rejected as a non-exhaustive literal match *)
  no_panic k ->                           (* no panic site reached, fuel sufficient *)
  Forall (fun p => pat_ok E p t) arms ->  (* arms typed against the scrutinee type *)
  val_ok E v t ->
  (match scrut with G m => (m < g0)%N | U _ => True end) ->
  outcome_equiv (eval_core k [(scrut, v)]) (first_match arms v).
Proof.
  intros fuel scrut arms g0 t v k s' H Hd Hn Fp Vv Hs. unfold compile_match in H.
  eapply outcome_equiv_trans.
  - apply (compile_rows_correct E fuel _ _ k s' (fun x => if name_eqb x scrut then Some t else None) [(scrut, v)] H Hd Hn).
    constructor.
    + intros r Hr u p Hc. unfold make_rows in Hr. apply in_map_iff in Hr as ([j q] & <- & Hz). cbn [cols] in Hc.
      destruct Hc as [Eq|[]]. injection Eq as <- <-. exists t. rewrite name_eqb_refl. split; [reflexivity|].
      rewrite Forall_forall in Fp. apply Fp. clear -Hz. revert Hz. generalize 0%nat. induction arms as [|a arms IH]; intros n Hz; [destruct Hz|].
      cbn in Hz. destruct Hz as [Eq|Hz]; [injection Eq as _ <-; now left|right; eapply IH; eassumption].
    + intros u t' Hu. destruct (name_eqb u scrut) eqn:Eu; [|discriminate]. injection Hu as <-. apply name_eqb_eq in Eu. subst.
      exists v. cbn. rewrite name_eqb_refl. now split.
    + intros r Hr. unfold make_rows in Hr. apply in_map_iff in Hr as ([j q] & <- & _). cbn. repeat constructor. intros [].
    + intros r Hr x u Hb. unfold make_rows in Hr. apply in_map_iff in Hr as ([j q] & <- & _). destruct Hb.
    + intros n Hg. cbn [gen] in Hg. cbn [lookup]. destruct (name_eqb (G n) scrut) eqn:En.
      * apply name_eqb_eq in En. subst scrut. lia.
      * now split.
  - unfold make_rows, first_match. apply (first_match_make_rows scrut v arms 0).
Qed.
End S.
