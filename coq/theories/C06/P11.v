From Goml Require Import Common.Base C06.Model C06.Spec.
From Coq Require Import Permutation.
From Goml Require Import C06.P1 C06.P2 C06.P3 C06.P4 C06.P8 C06.P9 C06.P10.

Section S.
Variable E : tenv.

Lemma no_panic_let_projs v xs : forall i k, no_panic (let_projs v xs i k) -> no_panic k.
Proof. induction xs as [|x r IH]; intros i k H; [exact H|]. cbn in H. now apply IH in H. Qed.

Lemma no_panic_let_gets v c xs : forall i k, no_panic (let_gets v c xs i k) -> no_panic k.
Proof. induction xs as [|x r IH]; intros i k H; [exact H|]. cbn in H. now apply IH in H. Qed.

Lemma val_ok_tuple w ts : val_ok E w (TyTuple ts) -> exists vs, w = VTuple vs /\ Forall2 (val_ok E) vs ts.
Proof. inversion 1 as [l t Hl|vs ts' F| | ]; subst; [destruct l; contradiction|]. now exists vs. Qed.

Lemma val_ok_struct w sn : val_ok E w (TyStruct sn) ->
  exists vs fields, w = VStruct sn vs /\ nth_error (structs E) (N.to_nat sn) = Some fields /\ Forall2 (val_ok E) vs fields.
Proof. inversion 1 as [l t Hl| | |sn' vs fields Hf F]; subst; [destruct l; contradiction|]. now exists vs, fields. Qed.

Lemma val_ok_enum w e : val_ok E w (TyEnum e) ->
  exists idx vs variants args, w = VEnum e idx vs /\ nth_error (enums E) (N.to_nat e) = Some variants /\
    nth_error variants (N.to_nat idx) = Some args /\ Forall2 (val_ok E) vs args.
Proof. inversion 1 as [l t Hl| |e' idx vs variants args Hv Ha F| ]; subst; [destruct l; contradiction|]. now exists idx, vs, variants, args. Qed.

Lemma pat_ok_tuple p ts : pat_ok E p (TyTuple ts) -> trivial_pat p = false ->
  exists items, p = PTuple items (TyTuple ts) /\ Forall2 (pat_ok E) items ts.
Proof. inversion 1 as [| |l t Hl|ps ts' F| | ]; subst; cbn; try discriminate; intros _; [destruct l; contradiction|]. now exists ps. Qed.

Lemma pat_ok_struct p sn : pat_ok E p (TyStruct sn) -> trivial_pat p = false ->
  exists items fields, p = PStruct sn items (TyStruct sn) /\ nth_error (structs E) (N.to_nat sn) = Some fields /\ Forall2 (pat_ok E) items fields.
Proof. inversion 1 as [| |l t Hl| | |sn' ps fields Hf F]; subst; cbn; try discriminate; intros _; [destruct l; contradiction|]. now exists ps, fields. Qed.

Lemma pat_ok_enum p e : pat_ok E p (TyEnum e) -> trivial_pat p = false ->
  exists idx items variants args, p = PEnum e idx items (TyEnum e) /\ nth_error (enums E) (N.to_nat e) = Some variants /\
    nth_error variants (N.to_nat idx) = Some args /\ Forall2 (pat_ok E) items args.
Proof. inversion 1 as [| |l t Hl| |e' idx ps variants args Hv Ha F| ]; subst; cbn; try discriminate; intros _; [destruct l; contradiction|]. now exists idx, ps, variants, args. Qed.

Lemma fm_equiv2 (rows' rows : list row) rho' rho :
  Forall2 (fun r' r => arm (rbody r') = arm (rbody r) /\ opt_perm (row_try r' rho') (row_try r rho)) rows' rows ->
  outcome_equiv (first_match_rows rows' rho') (first_match_rows rows rho).
Proof.
  induction 1 as [|r' r l' l [Ha Hp] _ IH]; cbn [first_match_rows]; [exact I|].
  destruct (row_try r' rho'), (row_try r rho); cbn in Hp; try contradiction; [|exact IH]. cbn. split; assumption.
Qed.

Lemma firstn_all_len {A} (l : list A) n : n = length l -> firstn n (skipn 0 l) = l.
Proof. intros ->. cbn. apply firstn_all. Qed.

(** the tuple step of the main induction *)
Lemma tuple_step Gam rows s rho v ts k' rows' :
  WF E Gam rows s rho -> stripped rows -> Gam v = Some (TyTuple ts) ->
  expand_rows v (fst (gensyms (length ts) s)) tuple_items rows = Some rows' ->
  exists Gam' rho', WF E Gam' rows' (snd (gensyms (length ts) s)) rho' /\
    outcome_equiv (first_match_rows rows' rho') (first_match_rows rows rho) /\
    eval_core (let_projs v (fst (gensyms (length ts) s)) 0 k') rho = eval_core k' rho'.
Proof.
  intros W St Gv Hx. destruct (wf_env _ _ _ _ _ W v _ Gv) as (w & Lw & Vw).
  destruct (val_ok_tuple w ts Vw) as (vs & -> & Fvs).
  assert (Hshape : forall r, In r rows -> forall p, In (v, p) (cols r) ->
     exists items, tuple_items p = Some items /\ Forall2 (pat_ok E) items ts /\ pmatch p (VTuple vs) = pmatch_list items vs).
  { intros r Hr p Hp. destruct (wf_cols _ _ _ _ _ W r Hr v p Hp) as (t & Gt & Ok). assert (t = TyTuple ts) by congruence. subst t.
    destruct (pat_ok_tuple p ts Ok (St r Hr (v, p) Hp)) as (items & -> & Fi). exists items. repeat split; auto; try apply pmatch_tuple. }
  destruct (WF_expand E Gam rows s rho v (VTuple vs) vs ts tuple_items W Lw Fvs Hshape rows' Hx (ex_intro _ _ Gv)) as [W' F'].
  exists (ext_ty (fst (gensyms (length ts) s)) ts Gam), (ext_env (fst (gensyms (length ts) s)) vs rho).
  split; [exact W'|]. split; [now apply fm_equiv2|].
  change 0%N with (N.of_nat 0). rewrite (eval_let_projs v k' vs _ 0 rho Lw).
  - rewrite firstn_all_len; [reflexivity|]. rewrite gensyms_length. symmetry. exact (Forall2_length _ _ _ Fvs).
  - intro H. apply gensyms_in in H as (m & -> & Hm). destruct (wf_fresh _ _ _ _ _ W m) as [_ Hg]; [lia|congruence].
  - rewrite gensyms_length, (Forall2_length _ _ _ Fvs). cbn. lia.
Qed.

Lemma struct_step Gam rows s rho v sn fields k' rows' :
  WF E Gam rows s rho -> stripped rows -> Gam v = Some (TyStruct sn) ->
  nth_error (structs E) (N.to_nat sn) = Some fields ->
  expand_rows v (fst (gensyms (length fields) s)) struct_items rows = Some rows' ->
  exists Gam' rho', WF E Gam' rows' (snd (gensyms (length fields) s)) rho' /\
    outcome_equiv (first_match_rows rows' rho') (first_match_rows rows rho) /\
    eval_core (let_gets v (CStruct sn) (fst (gensyms (length fields) s)) 0 k') rho = eval_core k' rho'.
Proof.
  intros W St Gv Hf Hx. destruct (wf_env _ _ _ _ _ W v _ Gv) as (w & Lw & Vw).
  destruct (val_ok_struct w sn Vw) as (vs & fields' & -> & Hf' & Fvs). assert (fields' = fields) by congruence. subst fields'.
  assert (Hshape : forall r, In r rows -> forall p, In (v, p) (cols r) ->
     exists items, struct_items p = Some items /\ Forall2 (pat_ok E) items fields /\ pmatch p (VStruct sn vs) = pmatch_list items vs).
  { intros r Hr p Hp. destruct (wf_cols _ _ _ _ _ W r Hr v p Hp) as (t & Gt & Ok). assert (t = TyStruct sn) by congruence. subst t.
    destruct (pat_ok_struct p sn Ok (St r Hr (v, p) Hp)) as (items & fields' & -> & Hf'' & Fi). assert (fields' = fields) by congruence. subst fields'.
    exists items. repeat split; auto; try apply pmatch_struct. }
  destruct (WF_expand E Gam rows s rho v (VStruct sn vs) vs fields struct_items W Lw Fvs Hshape rows' Hx (ex_intro _ _ Gv)) as [W' F'].
  exists (ext_ty (fst (gensyms (length fields) s)) fields Gam), (ext_env (fst (gensyms (length fields) s)) vs rho).
  split; [exact W'|]. split; [now apply fm_equiv2|].
  change 0%N with (N.of_nat 0). rewrite (eval_let_gets v (CStruct sn) k' (VStruct sn vs) vs) with (i := 0%nat) (rho := rho).
  - rewrite firstn_all_len; [reflexivity|]. rewrite gensyms_length. symmetry. exact (Forall2_length _ _ _ Fvs).
  - cbn. now rewrite N.eqb_refl.
  - exact Lw.
  - intro H. apply gensyms_in in H as (m & -> & Hm). destruct (wf_fresh _ _ _ _ _ W m) as [_ Hg]; [lia|congruence].
  - rewrite gensyms_length, (Forall2_length _ _ _ Fvs). cbn. lia.
Qed.
End S.
